import Librfn.Model.FibreTypes
/-!
# Abstract specification of the fibre scheduler (C01, C02, C03)

Written from the property texts in `properties.jsonl`, **not** from `fibre.c`: it speaks about
*reasons* for running a fibre (run requests, accepted interrupt-context requests, the previous
yield, timeouts with **true, unbounded** due times) and knows nothing of timer queues, 32-bit
arithmetic, fast paths or `kernel.state`.

* `rq` — the FIFO run queue, without duplicates ("a fibre already queued is not queued again").
* `pend` — accepted `fibre_run_atomic` requests in order of arrival (at most 8 can be outstanding);
  they join the run queue "at the next scheduling pass (or fibre_run/fibre_kill call)".
* `yielder` — the fibre that returned *yielded* from the latest pass.
* `sleepers` — unsatisfied timeouts `(fibre, D)` in **registration order**, `D : Int` the true due time.
* `self` — what `fibre_self` names; `priv` — each fibre's resume point (0 = its beginning).
-/
namespace Librfn.Spec.Sched
open Librfn.Sched

structure A where
  rq : List Fid := []
  pend : List Fid := []
  yielder : Option Fid := none
  sleepers : List (Fid × Int) := []
  self : Option Fid := none
  priv : Fid → BitVec 16 := fun _ => 0

def init : A := {}

/-- a fibre joins the run queue at the tail unless it is already queued (reasons coalesce); being made
    runnable cancels its pending timeout -/
def A.enqueue (a : A) (f : Fid) : A :=
  { a with sleepers := a.sleepers.filter (fun x => x.1 ≠ f),
           rq := if f ∈ a.rq then a.rq else a.rq ++ [f] }

/-- accepted interrupt-context requests join the run queue in their order of arrival -/
def A.drain (a : A) : A := a.pend.foldl A.enqueue { a with pend := [] }

/-- `fibre_run f`: earlier accepted atomic requests first, then `f`, immediately -/
def A.run (a : A) (f : Fid) : A := a.drain.enqueue f

/-- `fibre_run_atomic f`: accepted unless 8 requests are outstanding -/
def A.runAtomic (a : A) (f : Fid) : A × Bool :=
  if a.pend.length < 8 then ({ a with pend := a.pend ++ [f] }, true) else (a, false)

/-- `fibre_kill f`: withdraws exactly the run requests (incl. accepted atomic ones, which first take
    their place in the queue) and the timeout pending now; returns whether there were any -/
def A.kill (a : A) (f : Fid) : A × Bool :=
  let a1 := a.drain
  ({ a1 with rq := a1.rq.filter (· ≠ f), sleepers := a1.sleepers.filter (fun x => x.1 ≠ f) },
   decide (f ∈ a1.rq) || a1.sleepers.any (fun x => x.1 = f))

/-- `fibre_timeout D` by the running fibre `c` during a pass at time `T`: true exactly when `D` is not
    after `T`; otherwise `c` sleeps until `D` — unless it is already queued to run, in which case the
    new reason coalesces with the existing one -/
def A.timeout (a : A) (c : Fid) (T D : Int) : A × Bool :=
  if D ≤ T then (a, true)
  else (if c ∈ a.rq then a else { a with sleepers := a.sleepers ++ [(c, D)] }, false)

/-- stable insertion: behind every element whose due time is not later -/
def insByDue (x : Fid × Int) : List (Fid × Int) → List (Fid × Int)
  | [] => [x]
  | y :: ys => if y.2 ≤ x.2 then y :: insByDue x ys else x :: y :: ys

/-- sleepers in due-time order, registration order for equal due times -/
def sortByDue (l : List (Fid × Int)) : List (Fid × Int) := l.foldl (fun acc x => insByDue x acc) []

/-- the earliest pending due time -/
def minDue (l : List (Fid × Int)) : Option Int :=
  l.foldl (fun m x => some (match m with | none => x.2 | some m => min m x.2)) none

/-- what the running fibre `c` does during its dispatch at time `T` -/
def A.script (c : Fid) (T : Int) : A → List (Call Int) → A × List Res
  | a, [] => (a, [])
  | a, .run g :: r => let p := A.script c T (a.run g) r; (p.1, Res.unit :: p.2)
  | a, .runAtomic g :: r => let q := a.runAtomic g; let p := A.script c T q.1 r; (p.1, Res.bool q.2 :: p.2)
  | a, .kill g :: r => let q := a.kill g; let p := A.script c T q.1 r; (p.1, Res.bool q.2 :: p.2)
  | a, .timeout D :: r => let q := a.timeout c T D; let p := A.script c T q.1 r; (p.1, Res.bool q.2 :: p.2)
  | a, .setPriv l :: r =>
      let p := A.script c T { a with priv := fun g => if g = c then l else a.priv g } r; (p.1, Res.unit :: p.2)

/-- the value `fibre_scheduler_next(T)` must return (C03): `T` when anything is runnable on return —
    the fibre that just yielded, a queued fibre, an accepted atomic request — otherwise the earliest
    pending due time, otherwise `T + FIBRE_UNBOUNDED_SLEEP` -/
def A.wake (a : A) (T : Int) (yielded : Bool) : Int :=
  if yielded ∨ a.rq ≠ [] ∨ a.pend ≠ [] then T
  else match minDue a.sleepers with
    | some D => D
    | none => T + 0x7fffffff

/-- the fibre that yielded in the previous pass joins the run queue (once) -/
def A.requeueYielder (a : A) : A :=
  match a.yielder with
  | some y => { a.enqueue y with yielder := none }
  | none => a

/-- the fibres whose timeouts have expired at time `T` join the run queue in due-time order,
    registration order for equal due times -/
def A.expire (a : A) (T : Int) : A :=
  { a with rq := a.rq ++ (sortByDue (a.sleepers.filter (fun x => x.2 ≤ T))).map Prod.fst,
           sleepers := a.sleepers.filter (fun x => ¬ x.2 ≤ T) }

/-- who joins the run queue at the start of a pass at time `T`, in this order: the accepted atomic
    requests (arrival order), the fibre that yielded in the previous pass, the fibres whose timeouts
    have expired (due-time order, registration order for ties) -/
def A.intake (a : A) (T : Int) : A := (a.drain.requeueYielder).expire T

/-- the dispatched fibre `d` returns `ret`: a yielder is remembered for the next pass; a fibre that exits
    or fails will restart from its beginning; a waiting fibre needs a new reason to run again -/
def A.returned (a : A) (d : Fid) : Ret → A
  | .yielded => { a with yielder := some d }
  | .waiting => a
  | .exited | .failed => { a with priv := fun g => if g = d then 0 else a.priv g }

/-- `fibre_scheduler_next(T)`: intake, dispatch the head of the run queue (if any); the fibre runs
    `script` and returns `ret` -/
def A.next (a : A) (T : Int) (script : List (Call Int)) (ret : Ret) : A × PassOut :=
  let a1 := a.intake T
  match a1.rq with
  | [] =>
    let a2 := { a1 with self := none }
    (a2, { disp := none, self := none, wake := w32 (a2.wake T false) })
  | d :: rest =>
    let a2 := { a1 with rq := rest, self := some d }
    let p := A.script d T a2 script
    let a4 := p.1.returned d ret
    (a4, { disp := some (d, a2.priv d, p.2), self := some d,
           wake := w32 (a4.wake T (decide (ret = .yielded))) })

def step (a : A) : Op Int → A × Out
  | .run f => (a.run f, .unit)
  | .runAtomic f => let q := a.runAtomic f; (q.1, .bool q.2)
  | .kill f => let q := a.kill f; (q.1, .bool q.2)
  | .next t s r => let q := a.next t s r; (q.1, .pass q.2)

def runFrom : A → List (Op Int) → A × List Out
  | a, [] => (a, [])
  | a, op :: h => let q := step a op; let p := runFrom q.1 h; (p.1, q.2 :: p.2)

def runSpec (h : List (Op Int)) : List Out := (runFrom init h).2

/-! ## The quantifier's scope, as a decidable predicate

"at most one unsatisfied fibre_timeout per dispatch, … time arguments within 2^31 ticks of every
pending due time", "arbitrary non-decreasing times", "all pending due times lie within 2^31 ticks
after the current time".  (The bound of 8 undrained atomic requests needs no clause: the ninth request
is *refused* — `false` — by specification and code alike.) -/

/-- number of timeouts in a script that the pass time `T` does not satisfy -/
def unsatisfied (T : Int) : List (Call Int) → Nat
  | [] => 0
  | .timeout D :: r => (if D ≤ T then 0 else 1) + unsatisfied T r
  | _ :: r => unsatisfied T r

/-- every due time a script mentions is within 2^31 ticks of the pass time -/
def dueInWindow (T : Int) : List (Call Int) → Bool
  | [] => true
  | .timeout D :: r => decide (T - 2147483648 < D ∧ D < T + 2147483648) && dueInWindow T r
  | _ :: r => dueInWindow T r

/-- is the call `op` within the quantifier's scope when the abstract state is `a` and the previous
    pass (if any) was at time `last`? -/
def opOk (a : A) (last : Option Int) : Op Int → Bool
  | .next T s _ =>
      (match last with | some T0 => decide (T0 ≤ T) | none => true)
      && a.sleepers.all (fun x => decide (T - x.2 < 2147483648))
      && decide (unsatisfied T s ≤ 1) && dueInWindow T s
  | _ => true

def lastOf (last : Option Int) : Op Int → Option Int
  | .next T _ _ => some T
  | _ => last

def inScopeFrom : A → Option Int → List (Op Int) → Bool
  | _, _, [] => true
  | a, last, op :: h => opOk a last op && inScopeFrom (step a op).1 (lastOf last op) h

def InScope (h : List (Op Int)) : Prop := inScopeFrom init none h = true

instance (h : List (Op Int)) : Decidable (InScope h) := by unfold InScope; infer_instance

/-! ## "A main loop that sleeps until the returned time never delays a runnable fibre or a pending timeout"

One iteration of a main loop: the clock reads `T1`, the pass `fibre_scheduler_next(T1)` runs, the clock reads
`T2 ≥ T1`, the loop sleeps for `d` microseconds (`some d`) or goes round at once (`none`). -/

/-- the true (unbounded) time `V` whose truncation the pass at `T` must return -/
def A.passWake (a : A) (T : Int) (script : List (Call Int)) (ret : Ret) : Int :=
  (a.next T script ret).1.wake T (decide (ret = .yielded) && !(a.intake T).rq.isEmpty)

/-- what the loop may do at `T2` when the pass said `V`: it may always go round at once; it may sleep `d`
    only if the sleep ends no later than `V` (so a real sleep never happens when `V ≤ T2`); a sleep of zero
    microseconds delays nothing and is always allowed -/
def SleepOk (V T2 : Int) : Option Nat → Prop
  | none => True
  | some d => d = 0 ∨ T2 + (d : Int) ≤ V

instance (V T2 : Int) (o : Option Nat) : Decidable (SleepOk V T2 o) := by
  cases o <;> unfold SleepOk <;> infer_instance

/-- scope of one loop iteration: the pass at `T1` is in scope, the clock does not run backwards, and the
    second reading is at most 2^31 ticks after the first (beyond that the 32-bit difference
    `returned − T2` read as `int32_t` no longer is the true difference) -/
def loopOk (a : A) (last : Option Int) (T1 T2 : Int) (script : List (Call Int)) (ret : Ret) : Bool :=
  opOk a last (.next T1 script ret) && decide (T1 ≤ T2) && decide (T2 - T1 ≤ 2147483648)

end Librfn.Spec.Sched

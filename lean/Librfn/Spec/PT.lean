import Librfn.Model.PT
/-! Specification side of C08, written from the property text: the program text that follows a
blocking point (`residual`), purely syntactic. -/
namespace Librfn.Spec.PT
open Librfn.Model.PT Librfn.Model.PT.Stmt

/-- the program text after label `l` -/
def residual : Stmt → Label → Stmt
  | seq a b, l => if l ∈ labels a then seq (residual a l) b else residual b l
  | ifte _ a b, l => if l ∈ labels a then residual a l else residual b l
  | ifChildOk a b, l => if l ∈ labels a then residual a l else residual b l
  | .while c body, l => seq (residual body l) (.while c body)    -- rest of this iteration, then the loop again
  | yield _, _ => skip                                            -- blocks exactly once
  | wait _, _ => skip
  | waitUntil l c, _ => waitUntil l c                             -- the test is evaluated again
  | spawn l ch, _ => join l ch                                    -- the child is called again, without PT_INIT
  | spawnAndCheck l ch, _ => seq (join l ch) (ifChildOk skip fail)
  | s, _ => s

end Librfn.Spec.PT

import Librfn.Model.PT
/-! Specification side of C08, written from the property text: the program text that follows a
blocking point (`residual`), purely syntactic. -/
namespace Librfn.Spec.PT
open Librfn.Model.PT Librfn.Model.PT.Stmt

/-- the program text after label `l` -/
def residual : Stmt → Label → Stmt
  | seq a b, l => if l ∈ labels a then seq (residual a l) b else residual b l
  | ifte _ a b, l => if l ∈ labels a then residual a l else residual b l
  | ifChildOk a b, l => if l ∈ labels a then residual a l else residual b l
  | .while c body, l => seq (residual body l) (.while c body)    -- rest of this iteration, then the loop again
  | yield _, _ => skip                                            -- blocks exactly once
  | wait _, _ => skip
  | waitUntil l c, _ => waitUntil l c                             -- the test is evaluated again
  | spawn l ch, _ => join l ch                                    -- the child is called again, without PT_INIT
  | spawnAndCheck l ch, _ => seq (join l ch) (ifChildOk skip fail)
  | s, _ => s

/-- `seqTrace`: the body run from its start as ONE sequential program in which each blocking point emits its
return code as an event (and hands control to the main loop: `tick++`), a spawn runs the child inline
and relays its codes, PT_CALL swallows them; cut after `n` blocking points; ends with the final code.
It is the model's evaluator run from the start with a budget of blocking points to pass — in that mode
no `case` label is ever jumped to from outside.  The plugin compares it on every body with an
independent sequential interpreter (`reference` in props/C08.py). -/
abbrev seqTrace (fuel : Nat) (body : Stmt) (n : Nat) (st : St) : Option (List Ev) := seqRun fuel body n st

/-- scope of the property: every PT_ macro sits on its own source line, so the `case` labels of one
function body are pairwise distinct and non-zero (0 = start); the same holds in every child.
`join`/`spin` are not source forms (they only arise as residuals). -/
def WF : Stmt → Prop
  | seq a b => WF a ∧ WF b ∧ ∀ l, l ∈ labels a → l ∉ labels b
  | ifte _ a b => WF a ∧ WF b ∧ ∀ l, l ∈ labels a → l ∉ labels b
  | ifChildOk a b => WF a ∧ WF b ∧ ∀ l, l ∈ labels a → l ∉ labels b
  | .while _ b => WF b
  | yield l => l ≠ 0
  | wait l => l ≠ 0
  | waitUntil l _ => l ≠ 0
  | spawn l ch => l ≠ 0 ∧ WF ch
  | spawnAndCheck l ch => l ≠ 0 ∧ WF ch
  | call _ ch => WF ch
  | join _ _ => False
  | spin _ _ => False
  | _ => True

theorem WF.pos {s : Stmt} (h : WF s) : ∀ l, l ∈ labels s → l ≠ 0 := by
  induction s with
  | seq a b iha ihb | ifte c a b iha ihb | ifChildOk a b iha ihb =>
    intro l hl; simp only [labels, List.mem_append] at hl
    rcases hl with hl | hl
    · exact iha h.1 l hl
    · exact ihb h.2.1 l hl
  | «while» c b ih => intro l hl; exact ih h l hl
  | yield l' | wait l' | waitUntil l' c =>
    intro l hl; simp only [labels, List.mem_singleton] at hl; subst hl; exact h
  | spawn l' ch _ | spawnAndCheck l' ch _ =>
    intro l hl; simp only [labels, List.mem_singleton] at hl; subst hl; exact h.1
  | join | spin => exact absurd h id
  | _ => intro l hl; simp [labels] at hl

/-- `MayBlock s l c`: label `l` of `s` belongs to a blocking macro that can return code `c` there:
PT_YIELD (yielded), PT_WAIT / PT_WAIT_UNTIL (waiting), or a PT_SPAWN whose child can block with `c` -/
def MayBlock : Stmt → Label → Code → Prop
  | yield l', l, c => l = l' ∧ c = .yielded
  | wait l', l, c => l = l' ∧ c = .waiting
  | waitUntil l' _, l, c => l = l' ∧ c = .waiting
  | spawn l' ch, l, c => l = l' ∧ ∃ l2, MayBlock ch l2 c
  | spawnAndCheck l' ch, l, c => l = l' ∧ ∃ l2, MayBlock ch l2 c
  | join l' ch, l, c => l = l' ∧ ∃ l2, MayBlock ch l2 c
  | seq a b, l, c => MayBlock a l c ∨ MayBlock b l c
  | ifte _ a b, l, c => MayBlock a l c ∨ MayBlock b l c
  | ifChildOk a b, l, c => MayBlock a l c ∨ MayBlock b l c
  | .while _ b, l, c => MayBlock b l c
  | _, _, _ => False

/-- `MayReturn s c`: the function's own text contains a PT_EXIT(_ON) (`c` = exited) or a
PT_FAIL(_ON) / PT_SPAWN_AND_CHECK (`c` = failed) -/
def MayReturn : Stmt → Code → Prop
  | exit, c => c = .exited
  | exitOn _, c => c = .exited
  | fail, c => c = .failed
  | failOn _, c => c = .failed
  | spawnAndCheck _ _, c => c = .failed
  | seq a b, c => MayReturn a c ∨ MayReturn b c
  | ifte _ a b, c => MayReturn a c ∨ MayReturn b c
  | ifChildOk a b, c => MayReturn a c ∨ MayReturn b c
  | .while _ b, c => MayReturn b c
  | _, _ => False

/-- give every PT_ macro its own line number, counting from `k` (what writing the body with one macro
per source line does); residual forms are mapped back to their source forms -/
def relabel : Stmt → Nat → Stmt × Nat
  | yield _, k => (yield k, k + 1)
  | wait _, k => (wait k, k + 1)
  | waitUntil _ c, k => (waitUntil k c, k + 1)
  | seq a b, k => (seq (relabel a k).1 (relabel b (relabel a k).2).1, (relabel b (relabel a k).2).2)
  | ifte c a b, k => (ifte c (relabel a k).1 (relabel b (relabel a k).2).1, (relabel b (relabel a k).2).2)
  | ifChildOk a b, k => (ifChildOk (relabel a k).1 (relabel b (relabel a k).2).1, (relabel b (relabel a k).2).2)
  | .while c b, k => (.while c (relabel b k).1, (relabel b k).2)
  | spawn _ ch, k => (spawn k (relabel ch (k + 1)).1, (relabel ch (k + 1)).2)
  | join _ ch, k => (spawn k (relabel ch (k + 1)).1, (relabel ch (k + 1)).2)
  | spawnAndCheck _ ch, k => (spawnAndCheck k (relabel ch (k + 1)).1, (relabel ch (k + 1)).2)
  | call _ ch, k => (call k (relabel ch (k + 1)).1, (relabel ch (k + 1)).2)
  | spin _ ch, k => (call k (relabel ch (k + 1)).1, (relabel ch (k + 1)).2)
  | s, k => (s, k)

theorem relabel_spec (s : Stmt) : ∀ k, k ≤ (relabel s k).2 ∧
    (∀ l : Nat, l ∈ labels (relabel s k).1 → k ≤ l ∧ l < (relabel s k).2) ∧ (0 < k → WF (relabel s k).1) := by
  induction s with
  | yield l | wait l | waitUntil l c =>
    intro k; simp only [relabel, labels, List.mem_singleton, WF]
    exact ⟨by omega, fun l hl => by subst hl; omega, fun h => Nat.ne_of_gt h⟩
  | seq a b iha ihb | ifte c a b iha ihb | ifChildOk a b iha ihb =>
    intro k
    obtain ⟨a1, a2, a3⟩ := iha k
    obtain ⟨b1, b2, b3⟩ := ihb (relabel a k).2
    simp only [relabel, labels, List.mem_append, WF]
    refine ⟨by omega, ?_, fun h => ⟨a3 h, b3 (by omega), ?_⟩⟩
    · rintro l (hl | hl)
      · have := a2 l hl; omega
      · have := b2 l hl; omega
    · intro l hla hlb
      have := a2 l hla; have := b2 l hlb; omega
  | «while» c b ih => intro k; exact ih k
  | spawn l ch ih | join l ch ih | spawnAndCheck l ch ih =>
    intro k
    obtain ⟨c1, c2, c3⟩ := ih (k + 1)
    simp only [relabel, labels, List.mem_singleton, WF]
    exact ⟨by omega, fun l hl => by subst hl; omega, fun h => ⟨Nat.ne_of_gt h, c3 (by omega)⟩⟩
  | call l ch ih | spin l ch ih =>
    intro k
    obtain ⟨c1, c2, c3⟩ := ih (k + 1)
    simp only [relabel, labels, WF]
    exact ⟨by omega, fun l hl => by simp at hl, fun h => c3 (by omega)⟩
  | _ => intro k; simp [relabel, labels, WF]

/-- non-vacuity of the scope: every body, relabelled from line 1, has unique non-zero labels -/
theorem relabel_wf (s : Stmt) : WF (relabel s 1).1 := (relabel_spec s 1).2.2 (by omega)

end Librfn.Spec.PT

import Librfn.Model.PT
/-! Specification side of C08, written from the property text: the program text that follows a
blocking point (`residual`), purely syntactic. -/
namespace Librfn.Spec.PT
open Librfn.Model.PT Librfn.Model.PT.Stmt

/-- the program text after label `l` -/
def residual : Stmt → Label → Stmt
  | seq a b, l => if l ∈ labels a then seq (residual a l) b else residual b l
  | ifte _ a b, l => if l ∈ labels a then residual a l else residual b l
  | ifChildOk a b, l => if l ∈ labels a then residual a l else residual b l
  | .while c body, l => seq (residual body l) (.while c body)    -- rest of this iteration, then the loop again
  | yield _, _ => skip                                            -- blocks exactly once
  | wait _, _ => skip
  | waitUntil l c, _ => waitUntil l c                             -- the test is evaluated again
  | spawn l ch, _ => join l ch                                    -- the child is called again, without PT_INIT
  | spawnAndCheck l ch, _ => seq (join l ch) (ifChildOk skip fail)
  | s, _ => s

/-- scope of the property: every PT_ macro sits on its own source line, so the `case` labels of one
function body are pairwise distinct and non-zero (0 = start); the same holds in every child.
`join`/`spin` are not source forms (they only arise as residuals). -/
def WF : Stmt → Prop
  | seq a b => WF a ∧ WF b ∧ ∀ l, l ∈ labels a → l ∉ labels b
  | ifte _ a b => WF a ∧ WF b ∧ ∀ l, l ∈ labels a → l ∉ labels b
  | ifChildOk a b => WF a ∧ WF b ∧ ∀ l, l ∈ labels a → l ∉ labels b
  | .while _ b => WF b
  | yield l => l ≠ 0
  | wait l => l ≠ 0
  | waitUntil l _ => l ≠ 0
  | spawn l ch => l ≠ 0 ∧ WF ch
  | spawnAndCheck l ch => l ≠ 0 ∧ WF ch
  | call _ ch => WF ch
  | join _ _ => False
  | spin _ _ => False
  | _ => True

theorem WF.pos {s : Stmt} (h : WF s) : ∀ l, l ∈ labels s → l ≠ 0 := by
  induction s with
  | seq a b iha ihb | ifte c a b iha ihb | ifChildOk a b iha ihb =>
    intro l hl; simp only [labels, List.mem_append] at hl
    rcases hl with hl | hl
    · exact iha h.1 l hl
    · exact ihb h.2.1 l hl
  | «while» c b ih => intro l hl; exact ih h l hl
  | yield l' | wait l' | waitUntil l' c =>
    intro l hl; simp only [labels, List.mem_singleton] at hl; subst hl; exact h
  | spawn l' ch _ | spawnAndCheck l' ch _ =>
    intro l hl; simp only [labels, List.mem_singleton] at hl; subst hl; exact h.1
  | join | spin => exact absurd h id
  | _ => intro l hl; simp [labels] at hl

end Librfn.Spec.PT

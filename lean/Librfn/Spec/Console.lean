/-!
# Specification of the console, written from the text of property C15 (not from the code)

* editing: the line is a stack — a character pushes, backspace pops, Ctrl-C clears;
* a line is complete at a newline, or on the character that arrives when 79 are stored (that
  character is consumed by the completion);
* characters travel through a FIFO that holds at most 15;
* tokenising is specified *independently of the loop*: as the inverse of rendering an argument list
  (`render`), plus structural facts stated in `Props/C15.lean`;
* the command table is an association list kept sorted by name; lookup is by exact name.
-/
namespace Librfn.Spec.Console

abbrev Byte := Nat

def BS : Byte := 8
def CTRLC : Byte := 3
def NL : Byte := 10
def SQ : Byte := 39
def DQ : Byte := 34

/-! ## editing -/

/-- one keystroke on the line being edited -/
def editStep (cur : List Byte) (ch : Byte) : List Byte :=
  if ch = BS then cur.dropLast else if ch = CTRLC then [] else cur ++ [ch]

/-- the line that results from a sequence of keystrokes -/
def edit (chars : List Byte) : List Byte := chars.foldl editStep []

/-- completed lines (oldest first) and the line being edited -/
structure Lines where
  done : List (List Byte)
  cur : List Byte
  deriving DecidableEq, Repr

/-- a line is complete at a newline or on the character that arrives when 79 are stored -/
def completes (cur : List Byte) (ch : Byte) : Prop := ch = NL ∨ cur.length ≥ 79

instance (cur : List Byte) (ch : Byte) : Decidable (completes cur ch) := by unfold completes; infer_instance

def feed (l : Lines) (ch : Byte) : Lines :=
  if completes l.cur ch then ⟨l.done ++ [l.cur], []⟩ else ⟨l.done, editStep l.cur ch⟩

def feedAll (l : Lines) (chars : List Byte) : Lines := chars.foldl feed l

/-! ## the FIFO between the producer and the console -/

def fifoCap : Nat := 15

/-- a put succeeds iff fewer than 15 characters are outstanding -/
def fifoPut (q : List Byte) (d : Byte) : List Byte := if q.length < fifoCap then q ++ [d] else q

/-! ## arguments and their rendering -/

/-- white space of the property's alphabet -/
def blank (b : Byte) : Prop := b = 32 ∨ b = 9

instance (b : Byte) : Decidable (blank b) := by unfold blank; infer_instance

def isQuote (b : Byte) : Prop := b = SQ ∨ b = DQ

instance (b : Byte) : Decidable (isQuote b) := by unfold isQuote; infer_instance

/-- the visible characters of the property's alphabet (not NUL, not white space, not a control) -/
def printable (b : Byte) : Prop := 33 ≤ b ∧ b ≤ 126

instance (b : Byte) : Decidable (printable b) := by unfold printable; infer_instance

/-- a word: non-empty, visible characters only, no quote characters -/
def Word (w : List Byte) : Prop := w ≠ [] ∧ ∀ b ∈ w, printable b ∧ ¬ isQuote b

/-- a non-empty separator made of blanks -/
def Blanks (l : List Byte) : Prop := l ≠ [] ∧ ∀ b ∈ l, blank b

/-- an argument as the user writes it -/
inductive Item where
  | word (w : List Byte)
  | quoted (q : Byte) (s : List Byte)
  deriving DecidableEq, Repr

/-- the argument the command should receive -/
def Item.text : Item → List Byte
  | .word w => w
  | .quoted _ s => s

/-- what the user types -/
def Item.render : Item → List Byte
  | .word w => w
  | .quoted q s => q :: s ++ [q]

/-- a word, or a non-empty NUL-free string quoted by a quote character it does not contain -/
def Item.Ok : Item → Prop
  | .word w => Word w
  | .quoted q s => isQuote q ∧ s ≠ [] ∧ (∀ b ∈ s, b ≠ 0 ∧ b ≠ q)

/-- separator + item, for each argument after the command word -/
def renderArgs : List (List Byte × Item) → List Byte
  | [] => []
  | (sep, it) :: rest => sep ++ it.render ++ renderArgs rest

/-- a command line: command word, separated items, optionally a separator and a final plain word -/
def render (cmd : List Byte) (args : List (List Byte × Item)) (final : Option (List Byte × List Byte)) : List Byte :=
  cmd ++ renderArgs args ++ (match final with | none => [] | some (sep, w) => sep ++ w)

/-- the arguments a command line stands for -/
def texts (cmd : List Byte) (args : List (List Byte × Item)) (final : Option (List Byte × List Byte)) : List (List Byte) :=
  cmd :: args.map (·.2.text) ++ (match final with | none => [] | some (_, w) => [w])

/-- the blank-separated words of a line (for lines without quote characters); `acc` is the word
    being collected -/
def splitGo : List Byte → List Byte → List (List Byte)
  | acc, [] => if acc = [] then [] else [acc]
  | acc, b :: rest =>
    if blank b then (if acc = [] then splitGo [] rest else acc :: splitGo [] rest)
    else splitGo (acc ++ [b]) rest

def splitBlanks (l : List Byte) : List (List Byte) := splitGo [] l

/-! ## the command table -/

/-- strict lexicographic order on names (bytes as unsigned) -/
def nameLt : List Byte → List Byte → Prop
  | [], [] => False
  | [], _ :: _ => True
  | _ :: _, [] => False
  | a :: as, b :: bs => a < b ∨ (a = b ∧ nameLt as bs)

/-- association list name ↦ command, sorted by name -/
def Sorted {α : Type} : List (List Byte × α) → Prop
  | [] => True
  | [_] => True
  | a :: b :: rest => nameLt a.1 b.1 ∧ Sorted (b :: rest)

def lookup {α : Type} (name : List Byte) : List (List Byte × α) → Option α
  | [] => none
  | (n, c) :: rest => if name = n then some c else lookup name rest

/-- the first token of a line: its first character and everything up to the next blank -/
def firstToken : List Byte → List Byte
  | [] => []
  | b :: rest => b :: rest.takeWhile (fun c => ¬ blank c)

end Librfn.Spec.Console

/-! Executable model of `librfn/list.c` + the two inline helpers of `include/librfn/list.h`
(hand-written, one definition per C function, statements in the order of the C text; tied to the C
by the correspondence run of C09).

Memory is explicit:

* `next n`  — `node->next` of node object `n`;
* `head l`, `tail l` — the two fields of list object `l`.  `tail` is a raw pointer value (`Tail`):
  it can be NULL (zero-initialised list), a node, or `listAsNode l'` — the value
  `containerof(&list->head, list_node_t, next)` that `list_iterator_remove` really stores when the
  node it removes is the first one (a `list_t` mis-typed as a `list_node_t`).  Nothing here keeps
  `tail` meaningful while the list is empty: it is left stale exactly where the C leaves it stale;
* a `Link` is a `list_node_t **`: the address of some list's `head` field or of some node's `next`.

A dereference of a pointer that is not a node (`list->tail->next = …` with a NULL or `listAsNode`
tail, `nodecmp(node, NULL)`, use of an uninitialised iterator) is the error result `wild`; a failing
`assert` is `assertFail`; a loop that outlives its `fuel` is `fuel` (C09 proves that `length + 1`
iterations always suffice on a well-formed list). -/
namespace Librfn.Model.ListHeap

abbrev Node := Nat
abbrev Lid := Nat

/-- a value of `list->tail` -/
inductive Tail where
  | null
  | node (n : Node)
  | listAsNode (l : Lid)
  deriving DecidableEq, Repr

/-- a value of `iter->prevnext` (`list_node_t **`) -/
inductive Link where
  | headOf (l : Lid)
  | nextOf (n : Node)
  deriving DecidableEq, Repr

structure Heap where
  next : Node → Option Node
  head : Lid → Option Node
  tail : Lid → Tail

/-- `list_iterator_t` -/
structure Iter where
  prevnext : Link
  list : Lid
  deriving DecidableEq, Repr

inductive Err where
  | assertFail | wild | fuel
  deriving DecidableEq, Repr

def setNext (h : Heap) (n : Node) (v : Option Node) : Heap :=
  { h with next := fun i => if i = n then v else h.next i }
def setHead (h : Heap) (l : Lid) (v : Option Node) : Heap :=
  { h with head := fun i => if i = l then v else h.head i }
def setTail (h : Heap) (l : Lid) (t : Tail) : Heap :=
  { h with tail := fun i => if i = l then t else h.tail i }

/-- `*(link)` -/
def load (h : Heap) : Link → Option Node
  | .headOf l => h.head l
  | .nextOf n => h.next n
/-- `*(link) = v` -/
def store (h : Heap) : Link → Option Node → Heap
  | .headOf l, v => setHead h l v
  | .nextOf n, v => setNext h n v

/-- `containerof(link, list_node_t, next)`; `next` is at offset 0, so for `&list->head` this is the
    list object itself seen as a node -/
def containerOf : Link → Tail
  | .headOf l => .listAsNode l
  | .nextOf n => .node n

/-- `list_insert` -/
def insert (h : Heap) (l : Lid) (n : Node) : Except Err Heap :=
  if h.next n ≠ none then .error .assertFail            -- assert(NULL == node->next)
  else match h.head l with
    | some _ =>                                         -- if (list->head)
      match h.tail l with                               --   list->tail->next = node
      | .node t => .ok (setTail (setNext h t (some n)) l (.node n))
      | _ => .error .wild
    | none =>                                           -- else list->head = node
      .ok (setTail (setHead h l (some n)) l (.node n))  -- list->tail = node

/-- `list_push` -/
def push (h : Heap) (l : Lid) (n : Node) : Except Err Heap :=
  if h.next n ≠ none then .error .assertFail
  else match h.head l with
    | some x => .ok (setHead (setNext h n (some x)) l (some n))   -- node->next = list->head
    | none => .ok (setHead (setTail h l (.node n)) l (some n))    -- list->tail = node
                                                                    -- list->head = node
/-- `list_extract` -/
def extract (h : Heap) (l : Lid) : Heap × Option Node :=
  match h.head l with
  | none => (h, none)
  | some n => (setNext (setHead h l (h.next n)) n none, some n)

/-- `list_peek` -/
def peek (h : Heap) (l : Lid) : Option Node := h.head l
/-- `list_empty` -/
def empty (h : Heap) (l : Lid) : Bool := (h.head l).isNone

/-- `list_iterate` -/
def iterate (h : Heap) (l : Lid) : Iter × Option Node :=
  ({ prevnext := .headOf l, list := l }, h.head l)

/-- `list_iterator_next` -/
def iteratorNext (h : Heap) (it : Iter) : Iter × Option Node :=
  match load h it.prevnext with                       -- curr = *(iter->prevnext)
  | some c => ({ it with prevnext := .nextOf c }, h.next c)
  | none => (it, none)

/-- `list_iterator_insert` -/
def iteratorInsert (h : Heap) (it : Iter) (n : Node) : Heap :=
  let curr := load h it.prevnext
  let h1 := store h it.prevnext (some n)              -- *(iter->prevnext) = node
  let h2 := setNext h1 n curr                         -- node->next = curr
  if curr = none then setTail h2 it.list (.node n) else h2

/-- `list_iterator_remove` -/
def iteratorRemove (h : Heap) (it : Iter) : Except Err (Heap × Option Node) :=
  match load h it.prevnext with
  | none => .error .assertFail                        -- assert(curr)
  | some c =>
    let prev := containerOf it.prevnext
    let h1 := if h.tail it.list = .node c then setTail h it.list prev else h
    let h2 := store h1 it.prevnext (h1.next c)        -- *(iter->prevnext) = curr->next
    let h3 := setNext h2 c none                       -- curr->next = NULL
    .ok (h3, load h3 it.prevnext)                     -- return *(iter->prevnext)

/-- the `for` loop of `list_contains`; `cur` is the local `curr` -/
def containsLoop (h : Heap) (node : Node) : Nat → Iter → Option Node → Except Err (Iter × Bool)
  | 0, _, _ => .error .fuel
  | _ + 1, it, none => .ok (it, false)
  | f + 1, it, some c =>
    if c = node then .ok (it, true)
    else containsLoop h node f (iteratorNext h it).1 (iteratorNext h it).2

/-- `list_contains` (the iterator left behind is returned; a caller passing NULL discards it) -/
def contains (fuel : Nat) (h : Heap) (l : Lid) (node : Node) : Except Err (Iter × Bool) :=
  containsLoop h node fuel (iterate h l).1 (iterate h l).2

/-- `list_remove` -/
def remove (fuel : Nat) (h : Heap) (l : Lid) (node : Node) : Except Err (Heap × Bool) :=
  match contains fuel h l node with
  | .error e => .error e
  | .ok (it, true) =>
    (match iteratorRemove h it with
     | .ok r => .ok (r.1, true)
     | .error e => .error e)
  | .ok (_, false) => .ok (h, false)

/-- the scan loop of `list_insert_sorted`: `for (curr = …; nodecmp(node, curr) >= 0; curr = next) assert(curr);`
    — the condition is evaluated before the assert, so a NULL `curr` reaches the comparator -/
def sortedLoop (h : Heap) (cmp : Node → Node → Int) (node : Node) : Nat → Iter → Option Node → Except Err Iter
  | 0, _, _ => .error .fuel
  | _ + 1, _, none => .error .wild
  | f + 1, it, some c =>
    if cmp node c ≥ 0 then sortedLoop h cmp node f (iteratorNext h it).1 (iteratorNext h it).2
    else .ok it

/-- `list_insert_sorted` -/
def insertSorted (fuel : Nat) (h : Heap) (l : Lid) (n : Node) (cmp : Node → Node → Int) : Except Err Heap :=
  if h.next n ≠ none then .error .assertFail
  else match h.head l with
    | none => .ok (setTail (setHead h l (some n)) l (.node n))        -- fast path for empty list
    | some _ =>
      match h.tail l with
      | .node t =>
        if cmp n t ≥ 0 then                                             -- fast path for insert at end
          .ok (setTail (setNext h t (some n)) l (.node n))
        else
          (match sortedLoop h cmp n fuel (iterate h l).1 (iterate h l).2 with
           | .ok it => .ok (iteratorInsert h it n)
           | .error e => .error e)
      | _ => .error .wild

/-- what a caller sees by walking `head, head->next, …` (not a function of list.c: the observation
    made by the harness after every operation) -/
def walk (h : Heap) : Nat → Option Node → Option (List Node)
  | _, none => some []
  | 0, some _ => none
  | f + 1, some x => (walk h f (h.next x)).map (x :: ·)

def traverse (fuel : Nat) (h : Heap) (l : Lid) : Option (List Node) := walk h fuel (h.head l)

/-! ### histories -/

/-- one call; `k` names one of the caller's `list_iterator_t` objects -/
inductive Op where
  | insert (l : Lid) (n : Node)
  | push (l : Lid) (n : Node)
  | sorted (l : Lid) (n : Node) (cmp : Node → Node → Int)
  | extract (l : Lid)
  | peek (l : Lid)
  | empty (l : Lid)
  | iterate (k : Nat) (l : Lid)
  | next (k : Nat)
  | iinsert (k : Nat) (n : Node)
  | iremove (k : Nat)
  | cur (k : Nat)                        -- read `*(iter->prevnext)`
  | contains (l : Lid) (n : Node)        -- list_contains(list, node, NULL)
  | find (k : Nat) (l : Lid) (n : Node)  -- list_contains(list, node, &iter)
  | remove (l : Lid) (n : Node)
  | dump (l : Lid)                       -- observation: full traversal
  | link (n : Node)                      -- observation: node->next

inductive Out where
  | unit
  | node (o : Option Node)
  | bool (b : Bool)
  | nodes (xs : List Node)
  | err (e : Err)
  deriving DecidableEq, Repr

structure MState where
  heap : Heap
  iters : Nat → Option Iter      -- `none`: never initialised

def setIter (s : MState) (k : Nat) (it : Iter) : MState :=
  { s with iters := fun i => if i = k then some it else s.iters i }

/-- an error leaves the state alone (the C program has crashed; no in-scope history gets there) -/
def step (fuel : Nat) (s : MState) : Op → MState × Out
  | .insert l n => match insert s.heap l n with
    | .ok h => ({ s with heap := h }, .unit)
    | .error e => (s, .err e)
  | .push l n => match push s.heap l n with
    | .ok h => ({ s with heap := h }, .unit)
    | .error e => (s, .err e)
  | .sorted l n cmp => match insertSorted fuel s.heap l n cmp with
    | .ok h => ({ s with heap := h }, .unit)
    | .error e => (s, .err e)
  | .extract l => ({ s with heap := (extract s.heap l).1 }, .node (extract s.heap l).2)
  | .peek l => (s, .node (peek s.heap l))
  | .empty l => (s, .bool (empty s.heap l))
  | .iterate k l => (setIter s k (iterate s.heap l).1, .node (iterate s.heap l).2)
  | .next k => match s.iters k with
    | some it => (setIter s k (iteratorNext s.heap it).1, .node (iteratorNext s.heap it).2)
    | none => (s, .err .wild)
  | .iinsert k n => match s.iters k with
    | some it => ({ s with heap := iteratorInsert s.heap it n }, .unit)
    | none => (s, .err .wild)
  | .iremove k => match s.iters k with
    | some it => (match iteratorRemove s.heap it with
      | .ok r => ({ s with heap := r.1 }, .node r.2)
      | .error e => (s, .err e))
    | none => (s, .err .wild)
  | .cur k => match s.iters k with
    | some it => (s, .node (load s.heap it.prevnext))
    | none => (s, .err .wild)
  | .contains l n => match contains fuel s.heap l n with
    | .ok r => (s, .bool r.2)
    | .error e => (s, .err e)
  | .find k l n => match contains fuel s.heap l n with
    | .ok r => (setIter s k r.1, .bool r.2)
    | .error e => (s, .err e)
  | .remove l n => match remove fuel s.heap l n with
    | .ok r => ({ s with heap := r.1 }, .bool r.2)
    | .error e => (s, .err e)
  | .dump l => match traverse fuel s.heap l with
    | some xs => (s, .nodes xs)
    | none => (s, .err .fuel)
  | .link n => (s, .node (s.heap.next n))

def run (fuel : Nat) (s : MState) : List Op → MState × List Out
  | [] => (s, [])
  | op :: ops => let r := step fuel s op; let rs := run fuel r.1 ops; (rs.1, r.2 :: rs.2)

/-- zero-initialised lists and nodes, iterators not yet initialised -/
def init : MState := ⟨⟨fun _ => none, fun _ => none, fun _ => .null⟩, fun _ => none⟩

end Librfn.Model.ListHeap

import Librfn.Model.SkeletonTypes
/-! C05 model: `librfn/ringbuf.c` as an interleaving machine at atomic-operation granularity.

One producer thread (`ringbuf_put`, `ringbuf_putchar`) and one consumer thread (`ringbuf_get`,
`ringbuf_empty`) share `{readi, writei, buf, len}`.  Every atomic operation and every plain payload access of
the C functions is one step of its thread; everything else a function does is thread-local and folded into
the adjacent step.  Line by line (current ringbuf.c):

```
ringbuf_put(rb, d)                                   ringbuf_get(rb)
  P1  writei = atomic_load(&rb->writei)                C1  readi = atomic_load(&rb->readi)   (assert readi < buf_len)
      old = writei; if (++writei >= buf_len) writei -= buf_len
  P2  if (writei == atomic_load(&rb->readi)) return false   C2  if (readi == atomic_load(&rb->writei)) return -1
  P3  rb->bufp[old] = d      (plain)                   C3  d = rb->bufp[readi]   (plain, uint8_t → int)
  P4  atomic_store(&rb->writei, writei); return true   C4  atomic_store(&rb->readi, wrap readi); return d
ringbuf_empty(rb): E1 r = atomic_load(&rb->readi); E2 return r == atomic_load(&rb->writei)
ringbuf_putchar(rb, c): while (!ringbuf_put(rb, c)) ;
```
The indices are `unsigned int`: `wrap` carries the C truncations, and the theorems assume `len ≤ 2^32`
(for a larger ring the indices never reach `2^32` and the C code silently uses only `2^32` cells).

Ghost state: `sent` = bytes of the puts that returned true (appended at P4), `recv` = bytes returned by
successful gets (appended at C4), `base` = the index both pointers started from.  Core Lean only: the
driver `Driver/Ring.lean` executes these definitions. -/
namespace Librfn.Model.RingConc
open Librfn.Skeleton

def U32 : Nat := 4294967296

inductive ThreadId | prod | cons
  deriving DecidableEq, Repr

/-- producer program counter (what the thread has done so far inside `ringbuf_put`) -/
inductive PPc
  | idle
  | p1 (d : UInt8) (w : Nat)        -- P1 done: `w` = loaded writei
  | p2 (d : UInt8) (w nw : Nat)     -- P2 done, space seen: next is the plain store `bufp[w] = d`
  | p3 (d : UInt8) (w nw : Nat)     -- P3 done: next is `atomic_store(&writei, nw)`
  deriving DecidableEq, Repr

/-- consumer program counter -/
inductive CPc
  | idle
  | c1 (r : Nat)                    -- C1 done: `r` = loaded readi
  | c2 (r : Nat)                    -- C2 done, data seen: next is the plain load `bufp[r]`
  | c3 (r : Nat) (d : UInt8)        -- C3 done: next is `atomic_store(&readi, wrap r)`
  | e1 (r : Nat)                    -- ringbuf_empty: E1 done
  deriving DecidableEq, Repr

structure St where
  len    : Nat
  buf    : Nat → UInt8              -- the caller's storage, cell by cell (cells ≥ len exist: an out-of-range access is not hidden)
  readi  : Nat
  writei : Nat
  p      : PPc
  c      : CPc
  -- results of the last completed call of each thread (what the C function returned)
  plast  : Option Bool
  clast  : Option Int               -- get: the byte 0…255 or -1;  empty: 1 / 0
  -- ghost
  sent   : List UInt8
  recv   : List UInt8
  base   : Nat

/-- `if (++i >= buf_len) i -= buf_len;` on an `unsigned int` index against a `size_t` length -/
def wrap (len i : Nat) : Nat :=
  if (i + 1) % U32 ≥ len then ((i + 1) % U32 - len) % U32 else (i + 1) % U32

inductive Act
  | put (d : UInt8)   -- producer enters ringbuf_put(d) and performs P1
  | pstep             -- producer performs its next step
  | get               -- consumer enters ringbuf_get and performs C1
  | empty             -- consumer enters ringbuf_empty and performs E1
  | cstep             -- consumer performs its next step

/-- one step; `none` = the action is not enabled in this state -/
def stepAct (s : St) : Act → Option St
  | .put d => match s.p with
      | .idle => some { s with p := .p1 d s.writei, plast := none }
      | _ => none
  | .pstep => match s.p with
      | .p1 d w =>
          if wrap s.len w = s.readi then some { s with p := .idle, plast := some false }
          else some { s with p := .p2 d w (wrap s.len w) }
      | .p2 d w nw => some { s with buf := fun i => if i = w then d else s.buf i, p := .p3 d w nw }
      | .p3 d _ nw => some { s with writei := nw, p := .idle, plast := some true, sent := s.sent ++ [d] }
      | .idle => none
  | .get => match s.c with
      | .idle => some { s with c := .c1 s.readi, clast := none }
      | _ => none
  | .empty => match s.c with
      | .idle => some { s with c := .e1 s.readi, clast := none }
      | _ => none
  | .cstep => match s.c with
      | .c1 r => if r = s.writei then some { s with c := .idle, clast := some (-1) } else some { s with c := .c2 r }
      | .c2 r => some { s with c := .c3 r (s.buf r) }
      | .c3 r d => some { s with readi := wrap s.len r, c := .idle, clast := some (Int.ofNat d.toNat), recv := s.recv ++ [d] }
      | .e1 r => some { s with c := .idle, clast := some (if r = s.writei then 1 else 0) }
      | .idle => none

/-- a ring as `ringbuf_init` leaves it, moved to start position `k` (both indices), storage contents arbitrary -/
def init (len k : Nat) (buf : Nat → UInt8) : St :=
  { len := len, buf := buf, readi := k, writei := k, p := .idle, c := .idle, plast := none, clast := none,
    sent := [], recv := [], base := k }

/-! ### Threads running scripts: `step : Sys → ThreadId → Sys` -/

inductive POp | put (d : UInt8) | putchar (d : UInt8)
  deriving DecidableEq, Repr
inductive COp | get | empty
  deriving DecidableEq, Repr

/-- shared state plus what each thread still has to do (the head is the call in progress, if any) -/
structure Sys where
  st : St
  pscript : List POp
  cscript : List COp

def POp.byte : POp → UInt8
  | .put d => d
  | .putchar d => d

/-- Thread `t` performs its next step: enter the next call of its script if it is between calls, otherwise
continue the call in progress.  `ringbuf_putchar` is `ringbuf_put` iterated: its entry stays at the head of the
script until a put succeeds.  A thread with nothing left to do does not move. -/
def step (y : Sys) : ThreadId → Sys
  | .prod => match y.pscript with
      | [] => y
      | op :: rest =>
        match stepAct y.st (match y.st.p with | .idle => Act.put op.byte | _ => Act.pstep) with
        | none => y
        | some s' =>
          match s'.p, op, s'.plast with
          | .idle, .putchar _, some false => { y with st := s' }           -- spin: call put again
          | .idle, _, _ => { y with st := s', pscript := rest }
          | _, _, _ => { y with st := s' }
  | .cons => match y.cscript with
      | [] => y
      | op :: rest =>
        match stepAct y.st (match y.st.c with
                            | .idle => (match op with | .get => Act.get | .empty => Act.empty)
                            | _ => Act.cstep) with
        | none => y
        | some s' =>
          match s'.c with
          | .idle => { y with st := s', cscript := rest }
          | _ => { y with st := s' }

def run (y : Sys) (sched : List ThreadId) : Sys := sched.foldl step y

/-! ### The model's own atomic-operation skeleton (tie S)

Written by hand from the step function above: one `Site` per access the model performs, in model order, with
the memory order the proof relies on (all `seq_cst`: the interleaving semantics used here is justified by
DRF-SC only then).  `Props/C05.lean` proves `Gen.Skeleton.ringbuf = skeleton`. -/

def sc (k : Kind) (obj : String) (ctx : List String) : Site := ⟨k, obj, .seqCst, .na, ctx⟩
def pl (k : Kind) (obj : String) (ctx : List String) : Site := ⟨k, obj, .na, .na, ctx⟩

def skeleton : CUnit where
  funcs := [
    ⟨"ringbuf_init", [                                  -- not part of the concurrent protocol (runs before the threads exist)
        pl .call "memset" [], pl .plainWrite "rb->bufp" [], pl .plainWrite "rb->buf_len" []]⟩,
    ⟨"ringbuf_get", [
        sc .load "rb->readi" [],                        -- C1   (the assert is compiled out for the extraction: -DNDEBUG)
        sc .load "rb->writei" ["if#1.cond"],            -- C2
        pl .plainRead "rb->bufp" [],                    -- C3  d = rb->bufp[readi]
        pl .plainRead "rb->bufp[]" [],
        sc .signalFence "" [],
        pl .plainRead "rb->buf_len" ["if#2.cond"],      --     wrap
        pl .plainRead "rb->buf_len" ["if#2.then"],
        sc .store "rb->readi" []]⟩,                     -- C4
    ⟨"ringbuf_empty", [
        sc .load "rb->readi" [],                        -- E1
        sc .load "rb->writei" []]⟩,                     -- E2
    ⟨"ringbuf_put", [
        sc .load "rb->writei" [],                       -- P1
        pl .plainRead "rb->buf_len" ["if#1.cond"],      --     wrap
        pl .plainRead "rb->buf_len" ["if#1.then"],
        sc .load "rb->readi" ["if#2.cond"],             -- P2
        pl .plainRead "rb->bufp" [],                    -- P3  rb->bufp[old_writei] = d
        pl .plainWrite "rb->bufp[]" [],
        sc .signalFence "" [],
        sc .store "rb->writei" []]⟩,                    -- P4
    ⟨"ringbuf_putchar", [
        pl .call "ringbuf_put" ["loop#1.cond"]]⟩ ]
  fields := [
    ⟨"ringbuf_t", "bufp", "uint8_t *", false⟩,
    ⟨"ringbuf_t", "buf_len", "size_t", false⟩,
    ⟨"ringbuf_t", "readi", "atomic_uint", true⟩,
    ⟨"ringbuf_t", "writei", "atomic_uint", true⟩ ]

end Librfn.Model.RingConc

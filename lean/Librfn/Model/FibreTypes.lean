/-! Vocabulary shared by the concrete model of `fibre.c` (`Model/Fibre.lean`) and the abstract
scheduler specification (`Spec/Sched.lean`): fibre ids, what a fibre body may do during one dispatch,
call histories, and the observable outputs (C01–C03).  `τ` is the type of time stamps: `Int` (true,
unbounded time) for the specification, `BitVec 32` (the `uint32_t` the code sees) for the model. -/
namespace Librfn.Sched

/-- fibres are identified by their index in the harness's table -/
abbrev Fid := Nat

/-- what a fibre's entry point returns (`PT_YIELDED`, `PT_WAITING`, `PT_EXITED`, `PT_FAILED`) -/
inductive Ret | yielded | waiting | exited | failed
  deriving DecidableEq, Repr, Inhabited

/-- one call made by the running fibre during a dispatch -/
inductive Call (τ : Type)
  | run (g : Fid)            -- fibre_run(g)
  | runAtomic (g : Fid)      -- fibre_run_atomic(g)
  | kill (g : Fid)           -- fibre_kill(g)
  | timeout (d : τ)          -- fibre_timeout(d)
  | setPriv (l : BitVec 16)  -- the protothread stores its resume point (`pt_t` = `uint16_t`)
  deriving Repr

/-- one call of the history, issued from outside any fibre -/
inductive Op (τ : Type)
  | run (f : Fid)
  | runAtomic (f : Fid)
  | kill (f : Fid)
  /-- `fibre_scheduler_next(t)`; the fibre it dispatches (if any) performs `script`, returns `ret` -/
  | next (t : τ) (script : List (Call τ)) (ret : Ret)
  deriving Repr

def Call.map {α β : Type} (g : α → β) : Call α → Call β
  | .run f => .run f | .runAtomic f => .runAtomic f | .kill f => .kill f
  | .timeout d => .timeout (g d) | .setPriv l => .setPriv l

def Op.map {α β : Type} (g : α → β) : Op α → Op β
  | .run f => .run f | .runAtomic f => .runAtomic f | .kill f => .kill f
  | .next t s r => .next (g t) (s.map (Call.map g)) r

/-- observable result of one script call: nothing (`fibre_run`, storing the resume point) or the
    boolean returned by `fibre_run_atomic` / `fibre_kill` / `fibre_timeout` -/
inductive Res | unit | bool (b : Bool)
  deriving DecidableEq, Repr

/-- what one `fibre_scheduler_next` lets the outside see -/
structure PassOut where
  /-- dispatched fibre, its `priv` on entry, the results of its calls — or idle -/
  disp : Option (Fid × BitVec 16 × List Res)
  /-- `fibre_self()` after the call -/
  self : Option Fid
  /-- the value returned -/
  wake : BitVec 32
  deriving DecidableEq, Repr

inductive Out | unit | bool (b : Bool) | pass (p : PassOut)
  deriving DecidableEq, Repr

/-- the 32-bit time stamp the code receives for a true time -/
def w32 (x : Int) : BitVec 32 := BitVec.ofInt 32 x

/-- a history as the C code sees it -/
def wrap (h : List (Op Int)) : List (Op (BitVec 32)) := h.map (Op.map w32)

end Librfn.Sched

/-! Executable model of `librfn/pack.c` (hand-written; tied to the C by the correspondence runs of
C12, C13 and C14).

* Memory is a total map `Nat → UInt8`; the buffer handed to `rf_pack_init` is `[base, base+size)`.
* The cursor `p - basep` is an unbounded `Nat` offset: on LP64 the pointer itself cannot wrap inside
  the property's scope (fewer than 2^31 requested bytes), and it may run past `size` — that is the
  sticky overflow state of the real code.
* `PACK`/`UNPACK` advance the cursor first and transfer only if the new cursor is `<= endp`.
* `rf_pack_consumed` / `rf_pack_remaining` return a pointer difference converted to `int`
  (`wrap32`, gcc's modulo conversion).
* Integer promotions are kept: 16-bit arguments are promoted to a 32-bit `int` before `&`/`>>`,
  `p[1] << 8` is computed in 32 bits and converted back to the result type.
Only the functions that `pack.c` actually defines are modelled (the `be`/signed unpackers and
`char/s8/u8/s16be/s32be/u32be` packers are declared in `pack.h` but have no definition). -/
namespace Librfn.Model.Pack

abbrev Mem := Nat → UInt8

structure Pk where
  base : Nat
  size : Nat      -- `unsigned int sz` given to rf_pack_init
  cur : Nat       -- `p - basep`; may exceed `size`
  deriving Repr, DecidableEq

/-- `rf_pack_init` -/
def init (b sz : Nat) : Pk := ⟨b, sz, 0⟩

/-- conversion of a (64-bit) pointer difference to `int` -/
def wrap32 (x : Int) : Int := (x + 2147483648) % 4294967296 - 2147483648

/-- `rf_pack_consumed` -/
def consumed (p : Pk) : Int := wrap32 p.cur
/-- `rf_pack_remaining` -/
def remaining (p : Pk) : Int := wrap32 ((p.size : Int) - p.cur)

def writeBytes (m : Mem) (a : Nat) : List UInt8 → Mem
  | [] => m
  | b :: bs => writeBytes (fun i => if i = a then b else m i) (a + 1) bs

def readBytes (m : Mem) (a : Nat) : Nat → List UInt8
  | 0 => []
  | n + 1 => m a :: readBytes m (a + 1) n

/-- `pack->p += sz` -/
def advance (p : Pk) (n : Nat) : Pk := { p with cur := p.cur + n }

/-- the test of `PACK`/`UNPACK`, evaluated on the cursor *before* the advance:
    `pack->p + sz <= pack->endp` -/
def fits (p : Pk) (n : Nat) : Bool := decide (p.cur + n ≤ p.size)

/-- `PACK(pack, q, n) { q[0..n) = bs }` -/
def packRaw (m : Mem) (p : Pk) (bs : List UInt8) : Mem × Pk :=
  (if fits p bs.length then writeBytes m (p.base + p.cur) bs else m, advance p bs.length)

/-- assignment of an `int`/`unsigned` expression to a `uint8_t` -/
def b8 (x : BitVec 32) : UInt8 := UInt8.ofBitVec (x.setWidth 8)

/-- `rf_pack_s16le`: `s16` is promoted (sign-extended) to `int`; `>>` on `int` is arithmetic -/
def encS16le (v : BitVec 16) : List UInt8 :=
  [b8 (v.signExtend 32 &&& 0xff#32), b8 ((v.signExtend 32).sshiftRight 8 &&& 0xff#32)]
/-- `rf_pack_u16be`: `u16` is promoted (zero-extended) to `int` -/
def encU16be (v : BitVec 16) : List UInt8 :=
  [b8 ((v.setWidth 32).sshiftRight 8 &&& 0xff#32), b8 (v.setWidth 32 &&& 0xff#32)]
/-- `rf_pack_u16le` -/
def encU16le (v : BitVec 16) : List UInt8 :=
  [b8 (v.setWidth 32 &&& 0xff#32), b8 ((v.setWidth 32).sshiftRight 8 &&& 0xff#32)]
/-- `rf_pack_s32le`: `>>` on `int32_t` is arithmetic -/
def encS32le (v : BitVec 32) : List UInt8 :=
  [b8 (v &&& 0xff#32), b8 (v.sshiftRight 8 &&& 0xff#32), b8 (v.sshiftRight 16 &&& 0xff#32), b8 (v.sshiftRight 24 &&& 0xff#32)]
/-- `rf_pack_u32le`: `>>` on `uint32_t` is logical -/
def encU32le (v : BitVec 32) : List UInt8 :=
  [b8 (v &&& 0xff#32), b8 (v >>> 8 &&& 0xff#32), b8 (v >>> 16 &&& 0xff#32), b8 (v >>> 24 &&& 0xff#32)]

/-- `p[0] | p[1] << 8` computed in `int`, converted to `uint16_t` -/
def dec16 (a b : UInt8) : BitVec 16 :=
  (a.toBitVec.setWidth 32 ||| b.toBitVec.setWidth 32 <<< 8).setWidth 16
/-- `p[0] | p[1] << 8 | p[2] << 16 | p[3] << 24` computed in `int`, converted to `uint32_t` -/
def dec32 (a b c d : UInt8) : BitVec 32 :=
  a.toBitVec.setWidth 32 ||| b.toBitVec.setWidth 32 <<< 8 ||| c.toBitVec.setWidth 32 <<< 16 |||
    d.toBitVec.setWidth 32 <<< 24

/-- `rf_pack_bytes(pack, p, sz)` with `p != NULL` (`bs` = the `sz` source bytes) -/
def packBytes (m : Mem) (p : Pk) (bs : List UInt8) : Mem × Pk := packRaw m p bs
/-- `rf_pack_bytes(pack, NULL, n)`: `memset(q, 0, n)` -/
def packNull (m : Mem) (p : Pk) (n : Nat) : Mem × Pk :=
  (if fits p n then writeBytes m (p.base + p.cur) (List.replicate n 0) else m, advance p n)
def packS16le (m : Mem) (p : Pk) (v : BitVec 16) : Mem × Pk := packRaw m p (encS16le v)
def packU16be (m : Mem) (p : Pk) (v : BitVec 16) : Mem × Pk := packRaw m p (encU16be v)
def packU16le (m : Mem) (p : Pk) (v : BitVec 16) : Mem × Pk := packRaw m p (encU16le v)
def packS32le (m : Mem) (p : Pk) (v : BitVec 32) : Mem × Pk := packRaw m p (encS32le v)
def packU32le (m : Mem) (p : Pk) (v : BitVec 32) : Mem × Pk := packRaw m p (encU32le v)

/-- `rf_unpack_bytes(pack, dst, n)` with `dst != NULL`: the `n` bytes that end up in `dst`
    (`memcpy` when the item fits, `memset(dst, 0, n)` otherwise) -/
def unpackBytes (m : Mem) (p : Pk) (n : Nat) : List UInt8 × Pk :=
  (if fits p n then readBytes m (p.base + p.cur) n else List.replicate n 0, advance p n)
/-- `rf_unpack_bytes(pack, NULL, n)`: only the cursor moves -/
def unpackSkip (p : Pk) (n : Nat) : Pk := advance p n

/-- `rf_unpack_u8` -/
def unpackU8 (m : Mem) (p : Pk) : UInt8 × Pk :=
  (if fits p 1 then m (p.base + p.cur) else 0, advance p 1)
/-- `rf_unpack_s8` and `rf_unpack_char` (plain `char` is signed on the platform): value of the byte as
    a signed 8-bit integer -/
def unpackS8 (m : Mem) (p : Pk) : Int × Pk :=
  (if fits p 1 then (m (p.base + p.cur)).toBitVec.toInt else 0, advance p 1)
def unpackChar (m : Mem) (p : Pk) : Int × Pk := unpackS8 m p
/-- `rf_unpack_u16le` -/
def unpackU16le (m : Mem) (p : Pk) : BitVec 16 × Pk :=
  (if fits p 2 then dec16 (m (p.base + p.cur)) (m (p.base + p.cur + 1)) else 0#16, advance p 2)
/-- `rf_unpack_u32le` -/
def unpackU32le (m : Mem) (p : Pk) : BitVec 32 × Pk :=
  (if fits p 4 then dec32 (m (p.base + p.cur)) (m (p.base + p.cur + 1)) (m (p.base + p.cur + 2))
      (m (p.base + p.cur + 3)) else 0#32, advance p 4)

/-! ### operation lists (what C12 quantifies over) -/

inductive Op where
  | packBytes (bs : List UInt8) | packNull (n : Nat)
  | packS16le (v : BitVec 16) | packU16be (v : BitVec 16) | packU16le (v : BitVec 16)
  | packS32le (v : BitVec 32) | packU32le (v : BitVec 32)
  | unpackBytes (n : Nat) | unpackSkip (n : Nat)
  | unpackChar | unpackS8 | unpackU8 | unpackU16le | unpackU32le
  deriving Repr, DecidableEq

/-- what the caller observes from one call -/
inductive Out where
  | unit                       -- a packer, or an unpack with NULL destination
  | bytes (l : List UInt8)     -- the destination array after `rf_unpack_bytes`
  | val (v : Int)              -- the returned scalar
  deriving Repr, DecidableEq

/-- number of bytes the call asks for -/
def Op.size : Op → Nat
  | .packBytes bs => bs.length | .packNull n => n
  | .packS16le _ => 2 | .packU16be _ => 2 | .packU16le _ => 2
  | .packS32le _ => 4 | .packU32le _ => 4
  | .unpackBytes n => n | .unpackSkip n => n
  | .unpackChar => 1 | .unpackS8 => 1 | .unpackU8 => 1 | .unpackU16le => 2 | .unpackU32le => 4

def step (m : Mem) (p : Pk) : Op → Mem × Pk × Out
  | .packBytes bs => let r := packBytes m p bs; (r.1, r.2, .unit)
  | .packNull n => let r := packNull m p n; (r.1, r.2, .unit)
  | .packS16le v => let r := packS16le m p v; (r.1, r.2, .unit)
  | .packU16be v => let r := packU16be m p v; (r.1, r.2, .unit)
  | .packU16le v => let r := packU16le m p v; (r.1, r.2, .unit)
  | .packS32le v => let r := packS32le m p v; (r.1, r.2, .unit)
  | .packU32le v => let r := packU32le m p v; (r.1, r.2, .unit)
  | .unpackBytes n => let r := unpackBytes m p n; (m, r.2, .bytes r.1)
  | .unpackSkip n => (m, unpackSkip p n, .unit)
  | .unpackChar => let r := unpackChar m p; (m, r.2, .val r.1)
  | .unpackS8 => let r := unpackS8 m p; (m, r.2, .val r.1)
  | .unpackU8 => let r := unpackU8 m p; (m, r.2, .val r.1.toNat)
  | .unpackU16le => let r := unpackU16le m p; (m, r.2, .val r.1.toNat)
  | .unpackU32le => let r := unpackU32le m p; (m, r.2, .val r.1.toNat)

/-- run a list of calls; outputs in call order -/
def run (m : Mem) (p : Pk) : List Op → Mem × Pk × List Out
  | [] => (m, p, [])
  | op :: ops =>
    let r := step m p op
    let rs := run r.1 r.2.1 ops
    (rs.1, rs.2.1, r.2.2 :: rs.2.2)

/-- a memory holding `bs` at address `b` (zero elsewhere) -/
def memOfList (b : Nat) (bs : List UInt8) : Mem := fun i => if b ≤ i then bs.getD (i - b) 0 else 0

end Librfn.Model.Pack

import Librfn.Model.Fibre
/-!
# The POSIX main loop `librfn/posix/fibre_posix.c: fibre_scheduler_main_loop()` (C03, consumer of the wake-up time)

```c
while (true) {
	uint32_t sleep_until = fibre_scheduler_next(time_now());            // time_now() = t1
	int32_t sleep_interval = cyclecmp32(sleep_until, time_now());       // time_now() = t2 (after the pass)
	sleep_interval = sleep_interval < 50000 ? sleep_interval : 50000;   // D13 fix; the pinned tree had `< 1000`
	if (sleep_interval > 0)
		usleep(sleep_interval);
}
```

One iteration is modelled: the scheduling pass is `Model.Fibre.schedulerNext` at `t1`, the sleep is
`posixSleep` of the returned value and `t2`.  `int32_t` values are carried as `Int` obtained by
`BitVec.toInt` (so they lie in [-2^31, 2^31) and the comparison / conditional cannot overflow); the
argument conversion `int32_t → useconds_t` of a positive value preserves it, hence `Option Nat`.
`cyclecmp32` is the **generated** definition (tie T, `Gen/Util.lean`, translated from util.c on every run).
Core Lean only (the driver links this file).
-/
namespace Librfn.Model.MainLoop
open Librfn.Sched Librfn.Model.Fibre

/-- `int32_t cyclecmp32(uint32_t a, uint32_t b)`: the generated subtraction, read as signed -/
def cyclecmp32 (a b : BitVec 32) : Int := (Librfn.Gen.Util.cyclecmp32 a b).toInt

/-- lines 2–5 of the loop body: `some d` = `usleep(d)` is called, `none` = the loop goes round at once -/
def posixSleep (sleep_until now2 : BitVec 32) : Option Nat :=
  let sleep_interval : Int := cyclecmp32 sleep_until now2
  let sleep_interval : Int := if sleep_interval < 50000 then sleep_interval else 50000
  if sleep_interval > 0 then some sleep_interval.toNat else none

/-- the pinned tree's rule (defect D13): an interval of 1 ms or more became a 50 ms poll -/
def posixSleepOld (sleep_until now2 : BitVec 32) : Option Nat :=
  let sleep_interval : Int := cyclecmp32 sleep_until now2
  let sleep_interval : Int := if sleep_interval < 1000 then sleep_interval else 50000
  if sleep_interval > 0 then some sleep_interval.toNat else none

/-- one iteration of the loop: the pass at `t1` (the dispatched fibre performs `script`, returns `ret`),
    then the sleep computed from the returned value and the second clock reading `t2` -/
def mainLoopPass (k : K) (t1 t2 : BitVec 32) (script : List (Call (BitVec 32))) (ret : Ret) :
    K × PassOut × Option Nat :=
  let q := schedulerNext k t1 script ret
  (q.1, q.2, posixSleep q.2.wake t2)

end Librfn.Model.MainLoop

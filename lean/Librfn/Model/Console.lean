import Librfn.Gen.Layout
/-!
# Executable model of `librfn/console.c` (hand-written; tied to the C by the correspondence run of C15)

Mirrors the **current** code (after the fixes 97e2cea: backspace writes a NUL; 86eb39a: the cursor of
`console_eval` lives in the field `evali`; 15aaa9d: no opening quote inside a quoted argument).  One console and the file-static command table.

* bytes are `Nat`s `< 256`; the scratch union is a `List Byte` of `Layout.scratchSize` bytes, pointers
  into it (`bufp`, `argv[i]`) are offsets from `scratch.buf`; `none` is the NULL pointer;
* the ring buffer (`ringbuf.c`, 16 bytes) is a bounded FIFO: `ringbuf_put` fails when 15 are stored
  (lock-freedom of the ring is property C05, not modelled here);
* `console_run` is the protothread it is: `fpt` is `fibre.priv` (0 = start, 1 = at the
  `PT_WAIT_UNTIL(getch)`, 2 = inside `PT_SPAWN`), `pt` is the child's `c->pt`;
* the console fibre is "`console_run` is invoked until it waits" (`runnable` = the fibre is queued;
  the scheduler itself is property C01);
* commands are the three built-ins (`echo`, `help`, the NULL-named sentinel `unknown`) and *scripts*
  (record argc/argv, optionally scribble over the whole scratch union as the header allows, yield `k`
  times, then exit or fail);
* `fault` is set by anything that would leave the scratch union (a string without terminator inside
  it, a write beyond it, a NULL table entry dereferenced, `assert(0)`): C15 proves it stays `false`;
* `wlog` is a ghost log of the offsets of all single-byte writes (not the `memset` of `do_prompt`),
  `lines` a ghost log of the texts handed to `do_tokenize`, `eaten` of the characters taken out of the ring, `ran` of the commands started with the argument strings they see; `stuck` is set when a fuel-bounded loop
  of the model runs out of fuel (C15 proves the fuel suffices).
-/
namespace Librfn.Model.Console
open Librfn.Gen.Layout

abbrev Byte := Nat

/-- `pt_state_t` -/
inductive PtState where
  | yielded | waiting | exited | failed
  deriving DecidableEq, Repr

/-- what a command's function does -/
inductive Body where
  | echo | help | unknown
  | script (id : Nat) (yields : Nat) (fails : Bool) (dirty : Bool)
  deriving DecidableEq, Repr

/-- `console_cmd_t`; `name = none` is the NULL name of the sentinel -/
structure Cmd where
  name : Option (List Byte)
  body : Body
  deriving DecidableEq, Repr

/-- what a capturing script saw when it was started -/
structure Cap where
  id : Nat
  argc : Nat
  argv : List (Option Nat)
  buf : List Byte            -- the 80 bytes of `scratch.buf` at that moment
  deriving DecidableEq, Repr

def bytes (s : String) : List Byte := s.toList.map Char.toNat

def cmdEcho : Cmd := ⟨some (bytes "echo"), .echo⟩
def cmdHelp : Cmd := ⟨some (bytes "help"), .help⟩
def cmdUnknown : Cmd := ⟨none, .unknown⟩

/-- `cmd_table[32]`: an array of pointers, NULL (`none`) after the sentinel -/
abbrev Table := List (Option Cmd)

def initTable : Table := [some cmdEcho, some cmdHelp, some cmdUnknown] ++ List.replicate (tableCap - 3) none

structure St where
  ring : List Byte                -- characters stored in the ring, oldest first
  mem : List Byte                 -- the scratch union
  bufp : Nat
  argc : Nat
  argv : List (Option Nat)
  cmd : Option Cmd
  fpt : Nat
  pt : Nat
  evali : Nat
  runnable : Bool
  hlock : Bool                    -- `static bool locked` of console_help
  hidx : Nat                      -- `static const console_cmd_t **cmd` of console_help (index into the table)
  out : List Byte                 -- everything written to `c->out`
  caps : List Cap
  fault : Bool
  stuck : Bool                    -- a bounded loop of the model ran out of fuel (never a silent truncation)
  wlog : List Nat                 -- ghost: offsets of all single-byte stores into the scratch union
  lines : List (List Byte)        -- ghost: the text of every line handed to do_tokenize
  eaten : List Byte               -- ghost: every character console_run has taken out of the ring
  ran : List (Option Cmd × List (List Byte))   -- ghost: every command started (PT_SPAWN) with the argv[0..argc-1] strings it sees
  deriving Repr

/-- `console_init` (memset 0, ring initialised, fibre made runnable) -/
def init : St :=
  { ring := [], mem := List.replicate scratchSize 0, bufp := 0, argc := 0,
    argv := List.replicate argvLen none, cmd := none, fpt := 0, pt := 0, evali := 0, runnable := true,
    hlock := false, hidx := 0, out := [], caps := [], fault := false, stuck := false, wlog := [], lines := [], eaten := [], ran := [] }

def St.print (s : St) (t : String) : St := { s with out := s.out ++ bytes t }
def St.printBytes (s : St) (t : List Byte) : St := { s with out := s.out ++ t }

/-- a single-byte store through a pointer into the scratch union -/
def St.poke (s : St) (off : Nat) (v : Byte) : St :=
  if off < s.mem.length then { s with mem := s.mem.set off v, wlog := off :: s.wlog }
  else { s with fault := true, wlog := off :: s.wlog }

/-! ## libc -/

/-- `isspace` in the C locale -/
def isspace (b : Byte) : Bool := b = 32 ∨ (9 ≤ b ∧ b ≤ 13)

/-- `strlen`: `none` when there is no terminator inside the memory we own -/
def strlen? : List Byte → Option Nat
  | [] => none
  | b :: rest => if b = 0 then some 0 else (strlen? rest).map (· + 1)

/-- the C string at an offset (up to its terminator, or to the end of the union) -/
def cstr (mem : List Byte) (off : Nat) : List Byte := (mem.drop off).takeWhile (· ≠ 0)

/-- `strcmp(a, b) > 0` on NUL-free strings (unsigned char comparison) -/
def strGt : List Byte → List Byte → Bool
  | [], _ => false
  | _ :: _, [] => true
  | a :: as, b :: bs => if a > b then true else if a < b then false else strGt as bs

/-! ## ringbuf.c -/

/-- `ringbuf_put`: fails when `buf_len - 1` bytes are stored -/
def ringPut (ring : List Byte) (d : Byte) : List Byte × Bool :=
  if ring.length + 1 ≥ ringLen then (ring, false) else (ring ++ [d], true)

/-! ## do_tokenize -/

structure Tok where
  mem : List Byte
  quote : Byte
  argc : Nat
  argv : List (Option Nat)
  wr : List Nat               -- ghost: offsets written
  deriving Repr

/-- one iteration of the loop **as it was before 15aaa9d** (defect D11: an opening quote was
    recognised while a quote was already open); kept only for the regression witness in C15 -/
def tokStepOld (t : Tok) (i : Nat) : Tok × Bool :=
  if isspace (t.mem.getD i 0) = true ∧ t.quote = 0 then
    ({ t with mem := t.mem.set i 0, wr := i :: t.wr }, false)
  else if t.mem.getD i 0 = t.quote then
    ({ t with quote := 0, mem := t.mem.set i 0, wr := i :: t.wr }, false)
  else if t.mem.getD (i - 1) 0 = 0 then
    if t.mem.getD i 0 = 39 ∨ t.mem.getD i 0 = 34 then
      ({ t with quote := t.mem.getD i 0, mem := t.mem.set i 0, wr := i :: t.wr }, false)
    else
      ({ t with argv := t.argv.set t.argc (some i), argc := t.argc + 1 }, decide (t.argc + 1 ≥ argvLen))
  else (t, false)

def tokLoopOld : Nat → Nat → Tok → Tok
  | 0, _, t => t
  | n + 1, i, t => if (tokStepOld t i).2 = true then (tokStepOld t i).1 else tokLoopOld n (i + 1) (tokStepOld t i).1

def tokenizeMemOld (mem : List Byte) (argv : List (Option Nat)) (len : Nat) : Tok :=
  tokLoopOld (len - 1) 1 { mem := mem, quote := 0, argc := 1, argv := argv.set 0 (some 0), wr := [] }

/-- one iteration of the `for (i = 1; i < len; i++)` loop; the flag is `break` -/
def tokStep (t : Tok) (i : Nat) : Tok × Bool :=
  if isspace (t.mem.getD i 0) = true ∧ t.quote = 0 then
    ({ t with mem := t.mem.set i 0, wr := i :: t.wr }, false)
  else if t.mem.getD i 0 = t.quote then
    ({ t with quote := 0, mem := t.mem.set i 0, wr := i :: t.wr }, false)
  else if t.mem.getD (i - 1) 0 = 0 then
    if t.quote = 0 ∧ (t.mem.getD i 0 = 39 ∨ t.mem.getD i 0 = 34) then
      ({ t with quote := t.mem.getD i 0, mem := t.mem.set i 0, wr := i :: t.wr }, false)
    else
      ({ t with argv := t.argv.set t.argc (some i), argc := t.argc + 1 }, decide (t.argc + 1 ≥ argvLen))
  else (t, false)

/-- `n` iterations starting at `i` (fewer after a `break`) -/
def tokLoop : Nat → Nat → Tok → Tok
  | 0, _, t => t
  | n + 1, i, t => if (tokStep t i).2 = true then (tokStep t i).1 else tokLoop n (i + 1) (tokStep t i).1

/-- the final loop `for (i = argc; i < lengthof(argv); i++) argv[i] = buf + len` -/
def padArgv (argv : List (Option Nat)) (argc len : Nat) : List (Option Nat) :=
  (List.range argvLen).map fun i => if i < argc then argv.getD i none else some len

/-- the loop part of `do_tokenize` for a buffer whose string has length `len` -/
def tokenizeMem (mem : List Byte) (argv : List (Option Nat)) (len : Nat) : Tok :=
  tokLoop (len - 1) 1 { mem := mem, quote := 0, argc := 1, argv := argv.set 0 (some 0), wr := [] }

def doTokenize (s : St) : St :=
  match strlen? s.mem with
  | none => { s with fault := true }
  | some len =>
    let t := tokenizeMem s.mem s.argv len
    { s with mem := t.mem, argc := t.argc, argv := padArgv t.argv t.argc len, wlog := t.wr ++ s.wlog,
             lines := s.lines ++ [s.mem.take len] }

/-! ## find_command, console_register -/

/-- `for (cmd = cmd_table; (*cmd)->name; cmd++) if (0 == strcmp(argv[0], (*cmd)->name)) break;`
    `none` = walked off the array or dereferenced NULL -/
def findLoop (arg0 : List Byte) : Table → Option Cmd
  | [] => none
  | none :: _ => none
  | some c :: rest =>
    match c.name with
    | none => some c
    | some n => if arg0 = n then some c else findLoop arg0 rest

/-- the strings `argv[0] .. argv[argc-1]` as a command reads them -/
def argStrings (s : St) : List (List Byte) :=
  (List.range s.argc).map fun i => match s.argv.getD i none with
    | some o => cstr s.mem o
    | none => []

/-- `find_command`; it is called exactly once per completed line, immediately before the command is
    spawned, so the ghost log `ran` is written here -/
def findCommand (tab : Table) (s : St) : St :=
  match s.argv.getD 0 none with
  | none => { s with fault := true }
  | some a0 =>
    match findLoop (cstr s.mem a0) tab with
    | none => { s with fault := true }
    | some c => { s with cmd := some c, ran := s.ran ++ [(some c, argStrings s)] }

/-- first `i` with `cmd_table[i]->name == NULL || strcmp(cmd_table[i]->name, name) > 0`;
    `none` = NULL dereferenced; an index `= tab.length` = the loop ran off the array -/
def regIndex (name : List Byte) : Table → Nat → Option Nat
  | [], i => some i
  | none :: _, _ => none
  | some c :: rest, i =>
    match c.name with
    | none => some i
    | some n => if strGt n name = true then some i else regIndex name rest (i + 1)

/-- `for (j = lengthof(cmd_table) - 1; j > i; j--) cmd_table[j] = cmd_table[j-1];` — `j` counts down -/
def shiftLoop (i : Nat) : Nat → Table → Table
  | 0, t => t
  | j + 1, t => if j + 1 > i then shiftLoop i j (t.set (j + 1) (t.getD j none)) else t

/-- `console_register`: `(table, 0)` or `(table, -1)`; `none` = undefined behaviour (NULL dereferenced
    or a store past the array) -/
def register (tab : Table) (cmd : Cmd) : Option (Table × Int) :=
  match tab.getD (tableCap - 1) none with
  | some _ => some (tab, -1)
  | none =>
    match cmd.name with
    | none => none                                   -- strcmp(…, NULL)
    | some name =>
      match regIndex name tab 0 with
      | none => none
      | some i => if i < tableCap then some ((shiftLoop i (tableCap - 1) tab).set i (some cmd), 0) else none

/-! ## do_prompt, editing -/

/-- `memset(c->scratch.buf, 0, sizeof(c->scratch)); c->bufp = c->scratch.buf;` + the prompt -/
def doPrompt (s : St) : St :=
  { s with mem := List.replicate scratchSize 0, bufp := 0 }.print "> "

/-- the three editing branches of `console_run` (the line is not complete) -/
def editChar (s : St) (ch : Byte) : St :=
  if ch = 8 then
    if s.bufp > 0 then ({ s with bufp := s.bufp - 1 }.poke (s.bufp - 1) 0).print " \x08"
    else s.print " "
  else if ch = 3 then doPrompt (s.print "\n")
  else if ch ≠ 10 then { s.poke s.bufp ch with bufp := s.bufp + 1 }
  else s

/-! ## commands -/

def natBytes (n : Nat) : List Byte := bytes (toString n)

/-- `for (i = 1; i < argc; i++) fprintf(out, " %s", argv[i])` -/
def echoArgs (s : St) : Nat → Nat → List Byte
  | 0, _ => []
  | n + 1, i => if i < s.argc then
      (32 :: (match s.argv.getD i none with | some o => cstr s.mem o | none => bytes "(null)")) ++ echoArgs s n (i + 1)
    else []

/-- one invocation of a command function, by what the function is -/
def runBody (tab : Table) (s : St) : Body → St × PtState
  | .echo => ((s.printBytes (echoArgs s argvLen 1)).print "\n", .exited)
  | .unknown =>
    (match s.argv.getD 0 none with
     | some o => if s.mem.getD o 0 ≠ 0 then s.print "Unknown/bad command\n" else s
     | none => { s with fault := true }, .exited)
  | .help =>
    if s.pt = 0 then ({ s.print "Available commands:\n" with pt := 1 }, .yielded)
    else if s.pt = 1 ∨ s.pt = 2 then
      if s.hlock = true then ({ s with pt := 2 }, .waiting)
      else
        match tab.getD 0 none with
        | none => ({ s with fault := true }, .exited)
        | some c0 =>
          match c0.name with
          | some n => ({ (s.printBytes (bytes "  " ++ n ++ [10])) with pt := 3, hlock := true, hidx := 0 }, .yielded)
          | none => ({ s with pt := 2, hlock := false, hidx := 0 }, .exited)
    else if s.pt = 3 then
      match tab.getD (s.hidx + 1) none with
      | none => ({ s with fault := true }, .exited)
      | some c1 =>
        match c1.name with
        | some n => ({ (s.printBytes (bytes "  " ++ n ++ [10])) with hidx := s.hidx + 1 }, .yielded)
        | none => ({ s with hlock := false, hidx := s.hidx + 1 }, .exited)
    else ({ s with fault := true }, .exited)
  | .script id k fails dirty =>
    if s.pt = 0 then
      if s.pt < k then
        ({ s with caps := s.caps ++ [⟨id, s.argc, s.argv, s.mem.take bufSize⟩],
                  mem := if dirty = true then List.replicate scratchSize 170 else s.mem, pt := s.pt + 1 }, .yielded)
      else
        ({ s with caps := s.caps ++ [⟨id, s.argc, s.argv, s.mem.take bufSize⟩],
                  mem := if dirty = true then List.replicate scratchSize 170 else s.mem },
         if fails = true then .failed else .exited)
    else if s.pt < k then ({ s with pt := s.pt + 1 }, .yielded)
    else (s, if fails = true then .failed else .exited)

/-- one invocation `c->cmd->fn(c)` -/
def runCmd (tab : Table) (s : St) : St × PtState :=
  match s.cmd with
  | none => ({ s with fault := true }, .exited)
  | some c => runBody tab s c.body

/-! ## console_run -/

/-- after the spawned command returned `>= PT_EXITED` -/
def finishCmd (s : St) (r : PtState) : St :=
  doPrompt (if r = .failed then s.print "Command failed\n" else s)

/-- the `while (1)` loop from the `PT_WAIT_UNTIL`: structural recursion over the characters in the
    ring (the scripts never read the ring) -/
def loopW (tab : Table) : List Byte → St → St × PtState
  | [], s => ({ s with ring := [], fpt := 1 }, .waiting)
  | ch :: rest, s =>
    if ch = 10 ∨ s.bufp ≥ 79 then
      let s1 := { findCommand tab (doTokenize { s with ring := rest, fpt := 1, eaten := s.eaten ++ [ch] }) with pt := 0, fpt := 2 }
      let r := runCmd tab s1
      if r.2 = .yielded ∨ r.2 = .waiting then r
      else loopW tab rest (finishCmd r.1 r.2)
    else loopW tab rest (editChar { s with ring := rest, fpt := 1, eaten := s.eaten ++ [ch] } ch)

/-- `console_run` -/
def consoleRun (tab : Table) (s : St) : St × PtState :=
  if s.fpt = 0 then
    loopW tab s.ring (if s.argc = 0 then doPrompt s else { s with bufp := 0 })
  else if s.fpt = 1 then loopW tab s.ring s
  else if s.fpt = 2 then
    let r := runCmd tab s
    if r.2 = .yielded ∨ r.2 = .waiting then r
    else loopW tab r.1.ring (finishCmd r.1 r.2)
  else ({ s with fault := true }, .exited)       -- `default: assert(0)`

/-! ## delivery -/

/-- `do { s = console_run(c); } while (s == PT_YIELDED);` -/
def runWhileYielded (tab : Table) : Nat → St → St
  | 0, s => { s with stuck := true }                -- fuel exhausted: reported, never silently accepted
  | n + 1, s =>
    let r := consoleRun tab s
    if r.2 = .yielded then runWhileYielded tab n r.1 else r.1

/-- a bound on the number of `console_run` calls needed to drain `k` characters: every completed line
    runs a command that yields at most `maxYields` times (scripts) or once per table entry + 2 (help) -/
def maxYields : Table → Nat
  | [] => 0
  | none :: rest => maxYields rest
  | some c :: rest => max (match c.body with | .script _ k _ _ => k | _ => 0) (maxYields rest)

def runFuel (tab : Table) (s : St) : Nat := (s.ring.length + 2) * (maxYields tab + tableCap + 4)

/-- `console_process` -/
def process (tab : Table) (s : St) (d : Byte) : St :=
  let s1 := { s with ring := (ringPut s.ring d).1 }
  runWhileYielded tab (runFuel tab s1) s1

/-- `console_putchar`: ring put + `fibre_run_atomic(&c->fibre)` -/
def putchar (s : St) (d : Byte) : St := { s with ring := (ringPut s.ring d).1, runnable := true }

/-- the scheduler with this one fibre, run until idle: a dispatch clears `runnable`; a YIELDED
    fibre is made runnable again (`update_current_state`) -/
def schedLoop (tab : Table) : Nat → St → St
  | 0, s => if s.runnable then { s with stuck := true } else s
  | n + 1, s =>
    if s.runnable then
      let r := consoleRun tab { s with runnable := false }
      schedLoop tab n (if r.2 = .yielded then { r.1 with runnable := true } else r.1)
    else s

def sched (tab : Table) (s : St) : St := schedLoop tab (runFuel tab s + 1) s

/-- the loop of `console_eval` from its current cursor; returns `true` when the string is finished -/
def evalLoop (str : List Byte) : Nat → St → St × Bool
  | 0, s => (s, false)
  | n + 1, s =>
    match str[s.evali]? with
    | none => (s, true)
    | some d => if d = 0 then (s, true) else
      if (ringPut s.ring d).2 = true then evalLoop str n { s with ring := (ringPut s.ring d).1, evali := (s.evali + 1) % 65536 }
      else (s, false)

/-- one resumption of `console_eval(pt, c, str)`; `pt` is the caller's (0 = start, 1 = after the yield).
    Both exits call `fibre_run(&c->fibre)`: after the loop (`PT_END`, exited) and when the ring is full
    (`PT_YIELD`). -/
def evalResume (str : List Byte) (pt : Nat) (s : St) : St × Nat × PtState :=
  ({ (evalLoop str (str.length + 1) (if pt = 0 then { s with evali := 0 } else s)).1 with runnable := true }, 1,
   if (evalLoop str (str.length + 1) (if pt = 0 then { s with evali := 0 } else s)).2 = true then .exited else .yielded)

/-- the caller of `console_eval`: resume it, let the console fibre run until idle, repeat until it
    has exited; `none` = it did not complete within `fuel` resumptions -/
def evalDrive (tab : Table) (str : List Byte) : Nat → Nat → Nat → St → St × Option Nat
  | 0, _, _, s => (s, none)
  | fuel + 1, pt, n, s =>
    let r := evalResume str pt s
    let s1 := sched tab r.1
    if r.2.2 = .exited then (s1, some (n + 1)) else evalDrive tab str fuel r.2.1 (n + 1) s1

def evalBound (str : List Byte) : Nat := str.length + 8

def eval (tab : Table) (str : List Byte) (s : St) : St × Option Nat := evalDrive tab str (evalBound str) 0 0 s

/-- `console_silent` -/
def silent (s : St) : St := { s with argc := 1 }

/-! ## histories -/

/-- the console and the file-static command table -/
structure World where
  tab : Table
  s : St

/-- what the application (and its interrupt handlers) can do, in any order -/
inductive Op where
  | register (cmd : Cmd)
  | process (d : Byte)                       -- console_process
  | putchar (d : Byte)                       -- console_putchar
  | sched                                    -- the scheduler runs until idle
  | run                                      -- one direct call of console_run (polling loops)
  | evalStep (str : List Byte) (pt : Nat)    -- one resumption of console_eval
  | eval (str : List Byte)                   -- console_eval driven to completion
  | silent
  deriving Repr

def boot : World := ⟨initTable, init⟩

def step (w : World) : Op → World
  | .register cmd => match register w.tab cmd with
    | some (t, _) => { w with tab := t }
    | none => w
  | .process d => { w with s := process w.tab w.s d }
  | .putchar d => { w with s := putchar w.s d }
  | .sched => { w with s := sched w.tab w.s }
  | .run => { w with s := (consoleRun w.tab w.s).1 }
  | .evalStep str pt => { w with s := (evalResume str pt w.s).1 }
  | .eval str => { w with s := (eval w.tab str w.s).1 }
  | .silent => { w with s := silent w.s }

def runOps (w : World) (ops : List Op) : World := ops.foldl step w

end Librfn.Model.Console

import Librfn.Model.Messageq
import Librfn.Model.SkeletonTypes
/-! Executable interleaving model of `librfn/messageq.c` at the granularity of individual atomic operations (C04).

Any number of sender threads (`senders : List SPc`, one program counter each) run
`claim` (load num_free → 0: return NULL | CAS(num_free, v, v-1), which may fail — spuriously or because the counter changed —
and then continues with the value it read back (0: return NULL) → load sendp → CAS, which may fail and retry → return the slot),
a plain payload write, and `send` (fetch_or); one receiver runs `messageq_empty` (load, optional), `receive`
(fetch_and + private `receivep` update), a plain payload read and `release` (fetch_add).  One `step` = one atomic
operation (or one plain payload access) of one thread plus the thread-local code that follows it — exactly what one
schedule token executes in `harness/h_messageq_conc.c`.  The arithmetic is that of `Model/Messageq.lean`
(`atomic_uchar` counter that never goes below zero, cyclic 8-bit indices, 32-bit flag word).  This is the code since fix
6099fe4; the two earlier claim protocols live in `Model/MessageqOld.lean` for the witnesses only.

Ghost state (never read by the modelled code): totals `claimed`/`received`/`released`, per-ticket `owner`, `sent`,
`written`, the list of tickets returned by `receive`, and the events of the last step (`log`). -/
namespace Librfn.Model.MessageqConc
open Librfn.Model.Messageq (nextSend nextRecv bit slotOfOffset offsetOfSlot)

/-- where a sender thread is -/
inductive SPc where
  | idle                                  -- between calls; next: claim's load of num_free
  | loadedFree (v : BitVec 8)             -- claim: local `num_free = v` (not 0); next: compare-exchange(num_free, v, v-1)
  | gotPerm                               -- claim: permission obtained; next: load sendp
  | loaded (v : BitVec 8)                 -- claim: local `sendp = v`; next: compare-exchange
  | hasSlot (slot : BitVec 8) (k : Nat)   -- claim returned `slot` (ghost: ticket `k`); next: plain payload write
  | wrote (slot : BitVec 8) (k : Nat)     -- payload written; next: send's fetch_or
  deriving DecidableEq, Repr

/-- where the receiver is -/
inductive RPc where
  | idle                                        -- next: messageq_empty's load or receive's fetch_and
  | polled (nonEmpty : Bool)                    -- messageq_empty returned; next: receive's fetch_and
  | hold (slot : BitVec 8) (k : Nat)            -- receive returned `slot` (ghost: ticket `k`); next: plain payload read
  | read (slot : BitVec 8) (k : Nat) (v : Nat)  -- payload read; next: release's fetch_add
  deriving DecidableEq, Repr

inductive AOp where
  | fetch_sub | fetch_add | load | cas_ok | cas_fail | fetch_or | fetch_and
  deriving DecidableEq, Repr

inductive Fld where
  | num_free | sendp | full_flags
  deriving DecidableEq, Repr

inductive Call where
  | claim | send | empty | receive | release
  deriving DecidableEq, Repr

/-- one line of the per-step log (all memory orders are seq_cst) -/
inductive Ev where
  | atomic (tid : Nat) (op : AOp) (f : Fld) (before after : Nat)
  | plain (tid : Nat) (isWrite : Bool) (slot : Nat) (val : Nat)
  | ret (tid : Nat) (c : Call) (res : Option Nat)
  deriving DecidableEq, Repr

structure St where
  -- the structure and the storage
  msgLen : BitVec 16
  qlen : BitVec 8
  numFree : BitVec 8
  sendp : BitVec 8
  flags : BitVec 32
  receivep : BitVec 8
  payload : Nat → Nat           -- contents of slot i
  -- threads
  senders : List SPc
  recv : RPc
  -- ghost
  claimed : Nat
  received : Nat
  released : Nat
  sent : Nat → Bool             -- ticket k has been sent
  owner : Nat → Nat             -- ticket k was granted to sender `owner k`
  written : Nat → Nat           -- value the claimer of ticket k wrote before sending
  recvLog : List Nat            -- tickets returned by receive, oldest first
  log : List Ev                 -- events of the last step

/-- the queue after `messageq_init(mq, buf, depth*msgLen, msgLen)` with `n` idle senders -/
def init (depth msgLen n : Nat) : St :=
  { msgLen := BitVec.ofNat 16 msgLen, qlen := BitVec.ofNat 8 depth, numFree := BitVec.ofNat 8 depth
    sendp := 0, flags := 0, receivep := 0, payload := fun _ => 0
    senders := List.replicate n .idle, recv := .idle
    claimed := 0, received := 0, released := 0
    sent := fun _ => false, owner := fun _ => 0, written := fun _ => 0, recvLog := [], log := [] }

/-- thread id of the receiver in the log -/
def St.rtid (s : St) : Nat := s.senders.length

/-- a scheduling decision: which thread performs its next operation.  `spurious` lets a weak compare-exchange fail
    although the values match; `val` is what a sender writes if its next step is the payload write; `poll` makes an idle
    receiver call `messageq_empty` before `messageq_receive`. -/
inductive Act where
  | sender (i : Nat) (spurious : Bool) (val : Nat)
  | recv (poll : Bool)
  deriving Repr

def stepSender (s : St) (i : Nat) (spurious : Bool) (val : Nat) : SPc → St
  | .idle =>          -- unsigned char num_free = atomic_load(&mq->num_free); if (0 == num_free) return NULL;
    if s.numFree = 0 then
      { s with senders := s.senders.set i .idle
               log := [.atomic i .load .num_free s.numFree.toNat s.numFree.toNat, .ret i .claim none] }
    else
      { s with senders := s.senders.set i (.loadedFree s.numFree)
               log := [.atomic i .load .num_free s.numFree.toNat s.numFree.toNat] }
  | .loadedFree v =>  -- atomic_compare_exchange_weak(&mq->num_free, &num_free, num_free - 1); on failure: if (0 == num_free) return NULL;
    if v = s.numFree ∧ spurious = false then
      { s with numFree := v - 1
               senders := s.senders.set i .gotPerm
               log := [.atomic i .cas_ok .num_free v.toNat (v - 1).toNat] }
    else if s.numFree = 0 then
      { s with senders := s.senders.set i .idle
               log := [.atomic i .cas_fail .num_free v.toNat s.numFree.toNat, .ret i .claim none] }
    else
      { s with senders := s.senders.set i (.loadedFree s.numFree)
               log := [.atomic i .cas_fail .num_free v.toNat s.numFree.toNat] }
  | .gotPerm =>       -- unsigned char sendp = atomic_load(&mq->sendp);
    { s with senders := s.senders.set i (.loaded s.sendp)
             log := [.atomic i .load .sendp s.sendp.toNat s.sendp.toNat] }
  | .loaded v =>      -- newsendp = …; atomic_compare_exchange_weak(&mq->sendp, &sendp, newsendp)
    if v = s.sendp ∧ spurious = false then
      { s with sendp := nextSend s.qlen v
               senders := s.senders.set i (.hasSlot v s.claimed)
               claimed := s.claimed + 1
               owner := fun k => if k = s.claimed then i else s.owner k
               log := [.atomic i .cas_ok .sendp v.toNat (nextSend s.qlen v).toNat, .ret i .claim (some v.toNat)] }
    else
      { s with senders := s.senders.set i (.loaded s.sendp)
               log := [.atomic i .cas_fail .sendp v.toNat s.sendp.toNat] }
  | .hasSlot slot k =>  -- the caller fills the buffer (plain accesses)
    { s with payload := fun j => if j = slot.toNat then val else s.payload j
             written := fun t => if t = k then val else s.written t
             senders := s.senders.set i (.wrote slot k)
             log := [.plain i true slot.toNat val] }
  | .wrote slot k =>    -- offset = msg - basep; sendp = offset / msg_len; atomic_fetch_or(&mq->full_flags, 1 << sendp)
    { s with flags := s.flags ||| bit (slotOfOffset s.msgLen (offsetOfSlot s.msgLen slot))
             sent := fun t => if t = k then true else s.sent t
             senders := s.senders.set i .idle
             log := [.atomic i .fetch_or .full_flags s.flags.toNat
                       (s.flags ||| bit (slotOfOffset s.msgLen (offsetOfSlot s.msgLen slot))).toNat,
                     .ret i .send none] }

/-- `messageq_receive` from the fetch_and on -/
def stepReceive (s : St) : St :=
  if s.flags &&& bit s.receivep.toNat = 0 then
    { s with flags := s.flags &&& ~~~ bit s.receivep.toNat, recv := .idle
             log := [.atomic s.rtid .fetch_and .full_flags s.flags.toNat (s.flags &&& ~~~ bit s.receivep.toNat).toNat,
                     .ret s.rtid .receive none] }
  else
    { s with flags := s.flags &&& ~~~ bit s.receivep.toNat
             receivep := nextRecv s.qlen s.receivep
             recv := .hold s.receivep s.received
             received := s.received + 1
             recvLog := s.recvLog ++ [s.received]
             log := [.atomic s.rtid .fetch_and .full_flags s.flags.toNat (s.flags &&& ~~~ bit s.receivep.toNat).toNat,
                     .ret s.rtid .receive (some s.receivep.toNat)] }

def stepRecv (s : St) (poll : Bool) : RPc → St
  | .idle =>
    if poll then        -- messageq_empty: 0 == (atomic_load(&mq->full_flags) & (1 << mq->receivep))
      { s with recv := .polled (decide (s.flags &&& bit s.receivep.toNat ≠ 0))
               log := [.atomic s.rtid .load .full_flags s.flags.toNat s.flags.toNat,
                       .ret s.rtid .empty (some (if s.flags &&& bit s.receivep.toNat = 0 then 1 else 0))] }
    else stepReceive s
  | .polled _ => stepReceive s
  | .hold slot k =>     -- the caller reads the buffer (plain accesses)
    { s with recv := .read slot k (s.payload slot.toNat)
             log := [.plain s.rtid false slot.toNat (s.payload slot.toNat)] }
  | .read _ _ _ =>      -- messageq_release: atomic_fetch_add(&mq->num_free, 1)
    { s with numFree := s.numFree + 1, released := s.released + 1, recv := .idle
             log := [.atomic s.rtid .fetch_add .num_free s.numFree.toNat (s.numFree + 1).toNat, .ret s.rtid .release none] }

/-- one scheduling step; naming a thread that does not exist changes nothing -/
def step (s : St) : Act → St
  | .sender i sp v => match s.senders[i]? with
    | some pc => stepSender s i sp v pc
    | none => { s with log := [] }
  | .recv poll => stepRecv s poll s.recv

def run (s : St) (acts : List Act) : St := acts.foldl step s

/-! ### who holds which slot -/

inductive Party where
  | sender (i : Nat) | receiver
  deriving DecidableEq, Repr

def SPc.slot? : SPc → Option (BitVec 8)
  | .hasSlot sl _ => some sl | .wrote sl _ => some sl | _ => none
def SPc.ticket? : SPc → Option Nat
  | .hasSlot _ k => some k | .wrote _ k => some k | _ => none
def RPc.slot? : RPc → Option (BitVec 8)
  | .hold sl _ => some sl | .read sl _ _ => some sl | _ => none
def RPc.ticket? : RPc → Option Nat
  | .hold _ k => some k | .read _ k _ => some k | _ => none

/-- the slot a party currently owns through a pointer returned to it (claim … send, receive … release) -/
def holds (s : St) : Party → Option (BitVec 8)
  | .sender i => (s.senders[i]?).bind SPc.slot?
  | .receiver => s.recv.slot?

/-! ### The model's own atomic-operation skeleton (tie S)

Written by hand from the step functions above (and from `Model/Messageq.lean` for the plain geometry reads): one `Site`
per shared access of each function of messageq.c / messageq.h, in evaluation order, with the memory order the
interleaving semantics relies on (all `seq_cst`).  The three counters/flag words are touched by atomic operations
only; `receivep` is a plain field touched only by the receiver's functions; `basep`, `msg_len`, `queue_len` are written
by `messageq_init` before any thread exists and only read afterwards.  `Props/C04.lean` proves
`Gen.Skeleton.messageq = skeleton` against the table extracted from the current source on every run. -/
section Skeleton
open Librfn.Skeleton

private def sc (k : Kind) (obj : String) (ctx : List String) : Site := ⟨k, obj, .seqCst, .na, ctx⟩
private def pl (k : Kind) (obj : String) (ctx : List String) : Site := ⟨k, obj, .na, .na, ctx⟩

def skeleton : CUnit where
  funcs := [
    ⟨"messageq_init", [                                  -- runs before the threads exist (`init`)
        pl .call "memset" [], pl .plainWrite "mq->basep" [], pl .plainWrite "mq->msg_len" [],
        pl .plainWrite "mq->queue_len" [], sc .store "mq->num_free" []]⟩,
    ⟨"messageq_claim", [
        sc .load "mq->num_free" [],                      -- SPc.idle       → loadedFree | idle (return NULL)
        ⟨.casWeak, "mq->num_free", .seqCst, .seqCst, ["loop#1.cond"]⟩,   -- SPc.loadedFree → gotPerm | loadedFree | idle
        sc .load "mq->sendp" [],                         -- SPc.gotPerm → loaded
        pl .plainRead "mq->queue_len" ["loop#2.body", "cond#1.cond"],     -- nextSend
        ⟨.casWeak, "mq->sendp", .seqCst, .seqCst, ["loop#2.cond"]⟩,      -- SPc.loaded  → hasSlot | loaded
        pl .plainRead "mq->basep" [], pl .plainRead "mq->msg_len" []]⟩,  -- offsetOfSlot
    ⟨"messageq_send", [
        pl .plainRead "mq->basep" [], pl .plainRead "mq->msg_len" [],     -- slotOfOffset
        sc .fetchOr "mq->full_flags" []]⟩,               -- SPc.wrote   → idle
    ⟨"messageq_receive", [
        pl .plainRead "mq->receivep" [],
        sc .fetchAnd "mq->full_flags" [],                -- RPc.idle/polled → hold | idle
        pl .plainRead "mq->queue_len" ["cond#1.cond"],   -- nextRecv
        pl .plainWrite "mq->receivep" [],
        pl .plainRead "mq->basep" [], pl .plainRead "mq->msg_len" []]⟩,
    ⟨"messageq_release", [
        sc .fetchAdd "mq->num_free" []]⟩,                -- RPc.read    → idle
    ⟨"messageq_empty", [
        sc .load "mq->full_flags" [],                    -- RPc.idle    → polled
        pl .plainRead "mq->receivep" []]⟩ ]
  fields := [
    ⟨"messageq_t", "basep", "char *", false⟩,
    ⟨"messageq_t", "msg_len", "uint16_t", false⟩,
    ⟨"messageq_t", "queue_len", "unsigned char", false⟩,
    ⟨"messageq_t", "num_free", "atomic_uchar", true⟩,
    ⟨"messageq_t", "sendp", "atomic_uchar", true⟩,
    ⟨"messageq_t", "full_flags", "atomic_uint", true⟩,
    ⟨"messageq_t", "receivep", "unsigned char", false⟩ ]

end Skeleton

end Librfn.Model.MessageqConc

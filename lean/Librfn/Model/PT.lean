/-!
# Model of `include/librfn/protothreads.h` (C08)

Deep embedding of protothread bodies and the switch/case semantics of the PT_* macros.
* `exec fuel s entry res n st`: `entry = none` runs `s` from its first statement, `entry = some ℓ`
  enters `s` at the `case ℓ:` planted inside it (C rules: conditions of enclosing if/while are not
  evaluated on entry, a loop continues normally afterwards).
* `res` is the local `pt_spawn_res` (0 = PT_YIELDED at PT_BEGIN of every invocation).
* `n` is a *budget of blocking points to pass through*: `n = 0` is the real macro behaviour (store the
  label, return).  With `n > 0` the blocking point emits its return code as an event, the main loop's
  tick is bumped, `pt_spawn_res` is fresh again and execution goes on: the body run as ONE sequential
  program.  `Props/C08.lean` proves that budget `n+1` = one real invocation followed by a real
  re-entry (through the `case` label) with budget `n`.
* control state of one protothread function: its `pt_t` and the `pt_t`s it passes to children
  (keyed by the line of the PT_SPAWN / PT_CALL), recursively: `PtSt`.
Fuel is consumed by loop iterations and PT_CALL spins only.
-/
namespace Librfn.Model.PT

abbrev Label := Nat

/-- conditions over the persistent variables and the main loop's invocation counter; some have side effects -/
inductive Cond
  | lt (v k : Nat)          -- v[v] < k
  | odd (v : Nat)           -- v[v] & 1
  | tickGe (k : Nat)        -- tick >= k
  | incMod (v m : Nat)      -- (++v[v]) % (m+1) == 0
  | postIncGe (v k : Nat)   -- v[v]++ >= k
  | not (c : Cond)
  deriving Repr, Inhabited

inductive Stmt
  | skip
  | eff (e : Nat)                       -- logs `e`, bumps v[e % 4]
  | seq (a b : Stmt)
  | ifte (c : Cond) (a b : Stmt)
  | while (c : Cond) (b : Stmt)
  | yield (l : Label)
  | wait (l : Label)
  | waitUntil (l : Label) (c : Cond)
  | exit
  | exitOn (c : Cond)
  | fail
  | failOn (c : Cond)
  | spawn (l : Label) (ch : Stmt)
  | spawnAndCheck (l : Label) (ch : Stmt)
  | call (k : Label) (ch : Stmt)        -- `k`: which child pt_t variable (the line of the PT_CALL)
  | ifChildOk (a b : Stmt)
  | join (l : Label) (ch : Stmt)        -- PT_SPAWN without PT_INIT and without the store: the text after `case l:`
  | spin (k : Label) (ch : Stmt)        -- PT_CALL without PT_INIT: `while ((thread) < PT_EXITED);`
  deriving Repr, Inhabited

open Stmt

/-- the `case` labels planted in a function body (children are separate functions) -/
def labels : Stmt → List Label
  | seq a b => labels a ++ labels b
  | ifte _ a b => labels a ++ labels b
  | .while _ b => labels b
  | ifChildOk a b => labels a ++ labels b
  | yield l => [l] | wait l => [l] | waitUntil l _ => [l]
  | spawn l _ => [l] | spawnAndCheck l _ => [l] | join l _ => [l]
  | _ => []

/-- termination measure of `exec` (the sugar forms are bigger than their expansions) -/
def size : Stmt → Nat
  | seq a b => size a + size b + 1
  | ifte _ a b => size a + size b + 1
  | .while _ b => size b + 1
  | ifChildOk a b => size a + size b + 1
  | exitOn _ => 4 | failOn _ => 4
  | join _ ch => size ch + 1
  | spin _ ch => size ch + 1
  | spawn _ ch => size ch + 2
  | call _ ch => size ch + 2
  | spawnAndCheck _ ch => size ch + 7
  | _ => 1

inductive Code | yielded | waiting | exited | failed
  deriving DecidableEq, Repr, Inhabited

def Code.blocking : Code → Bool
  | .yielded => true | .waiting => true | _ => false

def Code.toNat : Code → Nat
  | .yielded => 0 | .waiting => 1 | .exited => 2 | .failed => 3

/-- observable events: an effect, or a return code of the root protothread function -/
inductive Ev | eff (e : Nat) | ret (c : Code) | abort
  deriving DecidableEq, Repr

/-- control state of one protothread function -/
inductive PtSt
  | mk (pt : Nat) (kids : List (Nat × PtSt))
  deriving Inhabited

def PtSt.pt : PtSt → Nat | .mk p _ => p
def PtSt.kids : PtSt → List (Nat × PtSt) | .mk _ k => k
/-- a child `pt_t` never written is a zero-initialised static -/
def PtSt.kid (p : PtSt) (l : Nat) : PtSt :=
  match p.kids.lookup l with | some k => k | none => .mk 0 []
def PtSt.setPt (p : PtSt) (l : Nat) : PtSt := .mk l p.kids
def PtSt.setKid (p : PtSt) (l : Nat) (k : PtSt) : PtSt := .mk p.pt ((l, k) :: p.kids.filter (fun x => x.1 != l))

structure St where
  var : Nat → Nat
  tick : Nat
  me : PtSt

def St.setPt (s : St) (l : Nat) : St := { s with me := s.me.setPt l }
def St.bump (s : St) : St := { s with tick := s.tick + 1 }
def St.setVar (s : St) (v x : Nat) : St := { s with var := fun i => if i = v then x else s.var i }
/-- PT_INIT(child): only the child's own pt_t is cleared -/
def St.initKid (s : St) (l : Nat) : St := { s with me := s.me.setKid l ((s.me.kid l).setPt 0) }

def evalCond : Cond → St → Bool × St
  | .lt v k, s => (decide (s.var v < k), s)
  | .odd v, s => (s.var v % 2 == 1, s)
  | .tickGe k, s => (decide (s.tick ≥ k), s)
  | .incMod v m, s => ((s.var v + 1) % (m + 1) == 0, s.setVar v (s.var v + 1))
  | .postIncGe v k, s => (decide (s.var v ≥ k), s.setVar v (s.var v + 1))
  | .not c, s => let (b, s1) := evalCond c s; (!b, s1)

/-- outcome of running a statement: falls through, the protothread function returns, or `assert(0)` -/
inductive Out
  | normal (st : St) (res : Code) (n : Nat) (tr : List Ev)
  | ret (c : Code) (st : St) (n : Nat) (tr : List Ev)
  | abort (tr : List Ev)

def Out.prepend (t : List Ev) : Out → Out
  | .normal st r n tr => .normal st r n (t ++ tr)
  | .ret c st n tr => .ret c st n (t ++ tr)
  | .abort tr => .abort (t ++ tr)

/-- PT_YIELD / PT_WAIT -/
def block (c : Code) (l : Label) (entry : Option Label) (res : Code) (n : Nat) (st : St) : Out :=
  if entry = some l then .normal st res n []
  else match n with
    | 0 => .ret c (st.setPt l) 0 []
    | n + 1 => .normal (st.setPt l).bump .yielded n [.ret c]

/-- the test of PT_WAIT_UNTIL, re-evaluated on every resumption -/
def waitLoop (c : Cond) (res : Code) : Nat → St → Out
  | n, st =>
    match evalCond c st with
    | (true, st1) => .normal st1 res n []
    | (false, st1) =>
      match n with
      | 0 => .ret .waiting st1 0 []
      | n + 1 => (waitLoop c .yielded n st1.bump).prepend [.ret .waiting]

/-- `switch (*pt)`: 0 → start, a planted label → that `case`, anything else → `default: assert(0)` -/
def entryOf (body : Stmt) (pt : Nat) : Option (Option Label) :=
  if pt = 0 then some none else if pt ∈ labels body then some (some pt) else none

/-- put the child's control state back into the parent's -/
def St.wrap (parent : St) (l : Nat) (child : St) : St := { child with me := parent.me.setKid l child.me }
def St.enter (s : St) (l : Nat) : St := { s with me := s.me.kid l }

def flag : Option Label → Nat | some _ => 1 | none => 0

def exec : Nat → Stmt → Option Label → Code → Nat → St → Option Out
  | _, skip, _, res, n, st => some (.normal st res n [])
  | _, eff e, _, res, n, st => some (.normal (st.setVar (e % 4) (st.var (e % 4) + 1)) res n [.eff e])
  | _, exit, _, _, n, st => some (.ret .exited st n [])
  | _, fail, _, _, n, st => some (.ret .failed st n [])
  | fuel, exitOn c, e, res, n, st => exec fuel (ifte c exit skip) e res n st
  | fuel, failOn c, e, res, n, st => exec fuel (ifte c fail skip) e res n st
  | _, yield l, e, res, n, st => some (block .yielded l e res n st)
  | _, wait l, e, res, n, st => some (block .waiting l e res n st)
  | _, waitUntil l c, e, res, n, st =>
      some (waitLoop c res n (if e = some l then st else st.setPt l))
  | fuel, seq a b, e, res, n, st =>
      match e with
      | some l =>
        if l ∈ labels a then
          match exec fuel a (some l) res n st with
          | some (.normal st1 r1 n1 t) => (exec fuel b none r1 n1 st1).map (Out.prepend t)
          | r => r
        else exec fuel b (some l) res n st
      | none =>
        match exec fuel a none res n st with
        | some (.normal st1 r1 n1 t) => (exec fuel b none r1 n1 st1).map (Out.prepend t)
        | r => r
  | fuel, ifte c a b, e, res, n, st =>
      match e with
      | some l => if l ∈ labels a then exec fuel a (some l) res n st else exec fuel b (some l) res n st
      | none =>
        match evalCond c st with
        | (true, st1) => exec fuel a none res n st1
        | (false, st1) => exec fuel b none res n st1
  | fuel, ifChildOk a b, e, res, n, st =>
      match e with
      | some l => if l ∈ labels a then exec fuel a (some l) res n st else exec fuel b (some l) res n st
      | none => if res ≠ .failed then exec fuel a none res n st else exec fuel b none res n st
  | fuel, .while c body, e, res, n, st =>
      match e with
      | some l =>
        match exec fuel body (some l) res n st with
        | some (.normal st1 r1 n1 t) => (exec fuel (.while c body) none r1 n1 st1).map (Out.prepend t)
        | r => r
      | none =>
        match fuel with
        | 0 => none
        | f + 1 =>
          match evalCond c st with
          | (true, st1) =>
            match exec f body none res n st1 with
            | some (.normal st2 r2 n2 t) => (exec f (.while c body) none r2 n2 st2).map (Out.prepend t)
            | r => r
          | (false, st1) => some (.normal st1 res n [])
  | fuel, join l ch, _, _, n, st =>
      match entryOf ch (st.me.kid l).pt with
      | none => some (.abort [])
      | some e' =>
        match exec fuel ch e' .yielded n (st.enter l) with
        | some (.normal st2 _ n2 t) => some (.normal (st.wrap l st2) .exited n2 t)
        | some (.ret c st2 n2 t) =>
            if c.blocking then some (.ret c (st.wrap l st2) n2 t) else some (.normal (st.wrap l st2) c n2 t)
        | r => r
  | fuel, spawn l ch, e, res, n, st =>
      if e = some l then exec fuel (join l ch) none res n st
      else exec fuel (join l ch) none res n ((st.initKid l).setPt l)
  | fuel, spawnAndCheck l ch, e, res, n, st =>
      exec fuel (seq (spawn l ch) (ifChildOk skip fail)) e res n st
  | fuel, call k ch, _, res, n, st => exec fuel (spin k ch) none res n (st.initKid k)
  | fuel, spin k ch, _, res, n, st =>
      match fuel with
      | 0 => none
      | f + 1 =>
        match entryOf ch (st.me.kid k).pt with
        | none => some (.abort [])
        | some e' =>
          match exec f ch e' .yielded 0 (st.enter k) with
          | some (.normal st2 _ _ t) => some (.normal (st.wrap k st2) res n t)
          | some (.ret c st2 _ t) =>
              if c.blocking then (exec f (spin k ch) none res n (st.wrap k st2)).map (Out.prepend t)
              else some (.normal (st.wrap k st2) res n t)
          | r => r
termination_by fuel s e => (fuel, size s, flag e)
decreasing_by
  all_goals simp_wf
  all_goals (first
    | (apply Prod.Lex.left; omega)
    | (apply Prod.Lex.right; apply Prod.Lex.left; simp only [size]; omega)
    | (apply Prod.Lex.right; apply Prod.Lex.right; simp [flag]))

/-- result of one real invocation of a protothread function (budget 0) -/
inductive Res
  | code (c : Code) (st : St) (tr : List Ev)
  | abort (tr : List Ev)

/-- one call of the C function: `switch (*pt)`, body, `PT_END` (returns PT_EXITED, `*pt` untouched) -/
def invoke (fuel : Nat) (body : Stmt) (st : St) : Option Res :=
  match entryOf body st.me.pt with
  | none => some (.abort [])
  | some e =>
    match exec fuel body e .yielded 0 st with
    | some (.normal st1 _ _ t) => some (.code .exited st1 t)
    | some (.ret c st1 _ t) => some (.code c st1 t)
    | some (.abort t) => some (.abort t)
    | none => none

/-- the harness' main loop: `tick++; s = f(&pt);` at most `k` times, until exited/failed.
    Per invocation: the events (effects, then the return code) and the value of `*pt` afterwards. -/
def mainLoop (fuel : Nat) (body : Stmt) : Nat → St → Option (List (List Ev × Nat))
  | 0, _ => some []
  | k + 1, st =>
    match invoke fuel body st.bump with
    | none => none
    | some (.abort t) => some [(t ++ [.abort], 0)]
    | some (.code c st1 t) =>
      if c.blocking then (mainLoop fuel body k st1).map ((t ++ [.ret c], st1.me.pt) :: ·)
      else some [(t ++ [.ret c], st1.me.pt)]

/-- the body run from its start as ONE sequential program passing through at most `n` blocking points -/
def seqRun (fuel : Nat) (body : Stmt) (n : Nat) (st : St) : Option (List Ev) :=
  match exec fuel body none .yielded n st.bump with
  | some (.normal _ _ _ t) => some (t ++ [.ret .exited])
  | some (.ret c _ _ t) => some (t ++ [.ret c])
  | some (.abort t) => some (t ++ [.abort])
  | none => none

def St.init : St := ⟨fun _ => 0, 0, .mk 0 []⟩

end Librfn.Model.PT

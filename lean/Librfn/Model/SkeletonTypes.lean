/-! Tie S: the vocabulary of the atomic-operation skeleton tables.

`tools/skeleton.py` extracts one `CUnit` per lock-free source unit from clang's AST and writes it to
`Librfn/Gen/Skeleton.lean`; every hand-written interleaving model carries its own `CUnit` and a `decide`
obligation states that the two are equal (see `Props/C05.lean`).  The format is documented at the top of
`tools/skeleton.py`.  Core Lean only. -/
namespace Librfn.Skeleton

/-- what a site does to shared memory -/
inductive Kind
  | load | store | xchg | casStrong | casWeak
  | fetchAdd | fetchSub | fetchOr | fetchAnd | fetchXor
  | flagTestAndSet | flagClear
  | threadFence | signalFence
  | plainRead | plainWrite        -- ordinary lvalue-to-rvalue conversion / assignment through a shared object
  | atomicRead | atomicWrite      -- implicit seq_cst access: an `_Atomic` lvalue used without an atomic_* call
  | call                          -- call of another function of the lock-free API (`obj` = callee)
  deriving DecidableEq, Repr

/-- C11 memory orders; `na` for sites without one -/
inductive Ord | relaxed | consume | acquire | release | acqRel | seqCst | na
  deriving DecidableEq, Repr

/-- One shared-memory access site, in source (evaluation) order inside its function.
`obj` is the accessed object written as a normalised access path (`rb->readi`, `rb->bufp[]`,
`kernel.atomic_runq`, `*queued_fibre`), `ord`/`ord2` the memory-order arguments (success/failure for a
compare-exchange, `na` otherwise), `ctx` the enclosing branch context outermost first
(`if#1.cond`, `if#1.then`, `if#2.else`, `loop#1.cond`, `loop#1.body`, `cond#1.then`, …). -/
structure Site where
  kind : Kind
  obj  : String
  ord  : Ord
  ord2 : Ord
  ctx  : List String
  deriving DecidableEq, Repr

structure Func where
  name  : String
  sites : List Site
  deriving DecidableEq, Repr

/-- one field of a shared structure: declared C type as clang prints it, and whether that type is `_Atomic` -/
structure Field where
  struct : String
  name   : String
  ctype  : String
  atomic : Bool
  deriving DecidableEq, Repr

structure CUnit where
  funcs  : List Func
  fields : List Field
  deriving DecidableEq, Repr

def CUnit.sites (u : CUnit) : List Site := u.funcs.flatMap (·.sites)

def Kind.isAtomicOp : Kind → Bool
  | .plainRead | .plainWrite | .call => false
  | _ => true

/-- every atomic operation / fence / implicit atomic access of the unit is sequentially consistent -/
def CUnit.allSeqCst (u : CUnit) : Bool :=
  u.sites.all fun s => !s.kind.isAtomicOp || (s.ord == .seqCst && (s.ord2 == .seqCst || s.ord2 == .na))

/-- the objects in `objs` are touched only by atomic operations (never by a plain read or write) -/
def CUnit.onlyAtomicAccess (u : CUnit) (objs : List String) : Bool :=
  u.sites.all fun s => !objs.contains s.obj || s.kind.isAtomicOp

/-- field `name` of `struct` is declared with an `_Atomic` type -/
def CUnit.fieldAtomic (u : CUnit) (struct name : String) : Bool :=
  u.fields.any fun f => f.struct == struct && f.name == name && f.atomic

end Librfn.Skeleton

/-! Tie S: the vocabulary of the atomic-operation skeleton tables.

`tools/skeleton.py` extracts one `CUnit` per lock-free source unit from clang's AST and writes it to
`Librfn/Gen/Skeleton.lean`; every hand-written interleaving model carries its own `CUnit` and a `decide`
obligation states that the two are equal (see `Props/C05.lean`).  The format is documented at the top of
`tools/skeleton.py`.  Core Lean only. -/
namespace Librfn.Skeleton

/-- what a site does to shared memory -/
inductive Kind
  | load | store | xchg | casStrong | casWeak
  | fetchAdd | fetchSub | fetchOr | fetchAnd | fetchXor
  | flagTestAndSet | flagClear
  | threadFence | signalFence
  | plainRead | plainWrite        -- ordinary lvalue-to-rvalue conversion / assignment through a shared object
  | atomicRead | atomicWrite      -- implicit seq_cst access: an `_Atomic` lvalue used without an atomic_* call
  | call                          -- call of another function of the lock-free API (`obj` = callee)
  deriving DecidableEq, Repr

/-- C11 memory orders; `na` for sites without one -/
inductive Ord | relaxed | consume | acquire | release | acqRel | seqCst | na
  deriving DecidableEq, Repr

/-- One shared-memory access site, in source (evaluation) order inside its function.
`obj` is the accessed object written as a normalised access path (`rb->readi`, `rb->bufp[]`,
`kernel.atomic_runq`, `*queued_fibre`), `ord`/`ord2` the memory-order arguments (success/failure for a
compare-exchange, `na` otherwise), `ctx` the enclosing branch context outermost first
(`if#1.cond`, `if#1.then`, `if#2.else`, `loop#1.cond`, `loop#1.body`, `cond#1.then`, …). -/
structure Site where
  kind : Kind
  obj  : String
  ord  : Ord
  ord2 : Ord
  ctx  : List String
  deriving DecidableEq, Repr

structure Func where
  name  : String
  sites : List Site
  deriving DecidableEq, Repr

/-- one field of a shared structure: declared C type as clang prints it, and whether that type is `_Atomic` -/
structure Field where
  struct : String
  name   : String
  ctype  : String
  atomic : Bool
  deriving DecidableEq, Repr

structure CUnit where
  funcs  : List Func
  fields : List Field
  deriving DecidableEq, Repr

def CUnit.sites (u : CUnit) : List Site := u.funcs.flatMap (·.sites)

def Kind.isAtomicOp : Kind → Bool
  | .plainRead | .plainWrite | .call => false
  | _ => true

/-- every atomic operation / fence / implicit atomic access of the unit is sequentially consistent -/
def CUnit.allSeqCst (u : CUnit) : Bool :=
  u.sites.all fun s => !s.kind.isAtomicOp || (s.ord == .seqCst && (s.ord2 == .seqCst || s.ord2 == .na))

/-- the objects in `objs` are touched only by atomic operations (never by a plain read or write) -/
def CUnit.onlyAtomicAccess (u : CUnit) (objs : List String) : Bool :=
  u.sites.all fun s => !objs.contains s.obj || s.kind.isAtomicOp

/-- field `name` of `struct` is declared with an `_Atomic` type -/
def CUnit.fieldAtomic (u : CUnit) (struct name : String) : Bool :=
  u.fields.any fun f => f.struct == struct && f.name == name && f.atomic

/-! ### The part of the skeleton the interleaving proofs rest on

The invariants of `Model/*Conc.lean` are about *which* shared objects are accessed by *which* operation with *which* memory
order, in *which* sequence, and whether an access is made unconditionally, conditionally or inside a loop.  They do not depend
on how often a function re-reads a field that is written once before the threads exist (`buf_len`, `msg_len`, … — the
`config` objects; `configNeverWritten` checks that on the extracted table), nor on the numbering of the `if`s a function
happens to contain.  `core` keeps exactly the former; the tie compares `core`s, so that extracting a helper (its sites are
inlined by tools/skeleton.py), reading a length once instead of twice or writing a wrap with `?:` instead of `if` re-proves,
while a weakened order, a dropped / added / reordered atomic operation or payload access, or a changed conditionality does not. -/

structure CoreSite where
  kind : Kind
  obj : String
  ord : Ord
  ord2 : Ord
  conditional : Bool
  inLoop : Bool
  deriving DecidableEq, Repr

/-- suffix / prefix tests on character lists (these reduce under `decide`) -/
def hasSuffix (s suf : String) : Bool := s.toList.drop (s.length - suf.length) == suf.toList
def hasPrefix (s pre : String) : Bool := s.toList.take pre.length == pre.toList

def ctxConditional (ctx : List String) : Bool :=
  ctx.any fun c => hasSuffix c ".then" || hasSuffix c ".else" || hasSuffix c ".rhs"
def ctxInLoop (ctx : List String) : Bool := ctx.any fun c => hasPrefix c "loop#"

def Site.core (s : Site) : CoreSite := ⟨s.kind, s.obj, s.ord, s.ord2, ctxConditional s.ctx, ctxInLoop s.ctx⟩

def coreSites (config : List String) (sites : List Site) : List CoreSite :=
  (sites.filter fun s => !(s.kind == .plainRead && config.contains s.obj)).map Site.core

def coreFuncs (config : List String) (fs : List Func) : List (String × List CoreSite) :=
  fs.map fun f => (f.name, coreSites config f.sites)

def CUnit.core (u : CUnit) (config : List String) : List (String × List CoreSite) := coreFuncs config u.funcs

/-- the `config` objects are written by nobody but the initialisation functions `inits` -/
def CUnit.configNeverWritten (u : CUnit) (config inits : List String) : Bool :=
  u.funcs.all fun f => inits.contains f.name ||
    f.sites.all fun s => !config.contains s.obj || s.kind == .plainRead

/-- in function `fn`: the first site satisfying `a` comes before the first satisfying `b`, which comes before the first
    satisfying `c` (all three exist) -/
def inOrder3 (u : CUnit) (fn : String) (a b c : Site → Bool) : Bool :=
  match u.funcs.find? (·.name == fn) with
  | none => false
  | some f =>
    let i := f.sites.findIdx a; let j := f.sites.findIdx b; let k := f.sites.findIdx c
    decide (i < j) && decide (j < k) && decide (k < f.sites.length)

end Librfn.Skeleton

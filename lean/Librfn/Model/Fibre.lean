import Librfn.Model.FibreTypes
import Librfn.Gen.Util
/-!
# Executable model of `librfn/fibre.c` (the scheduler; C01–C03)

Hand transcription, one definition per C function, of the code **as it is after fix b9baab6**
(`make_runnable` helper; the drain loop of `handle_atomic_runq` no longer recurses through `fibre_run`).
Tied to the C on every check run by `props/sched_common.py` (harness `harness/h_sched.c`).

Layering (DESIGN §6): the run queue and the timer queue are Lean `List`s standing for `list.c`
(`list_insert` = append, `list_extract` = pop head, `list_remove` = erase first occurrence,
`list_contains` = membership, `list_insert_sorted` = tail fast path, else insertion in front of the
first element that compares greater).  That `list.c` refines these sequence operations **when the
inserted node is in no list** is property C09; `Props/C01.lean` proves that every insertion the
scheduler makes satisfies that precondition.  `atomq` is the list of committed (sent, not yet
received) entries of the 8-deep `kernel.atomic_runq`; the lock-free protocol itself is C04/C06.

Time comparison: `cyclecmp32` is the **generated** definition (tie T, `Gen/Util.lean`, translated
from util.c on every run); its `int32_t` result is read as signed (`BitVec.toInt`).  `duetime_cmp`
returns `f1->duetime - f2->duetime` (a `uint32_t`) converted to `int`: the signed reinterpretation.

Not modelled: `fibre_t.state` (written by `update_current_state`, never read anywhere),
`kernel.taint_flags` (write-only diagnostics).
-/
namespace Librfn.Model.Fibre
open Librfn.Sched

/-- the static `kernel` plus the two scheduler-relevant fields of every `fibre_t` -/
structure K where
  runq : List Fid := []
  timerq : List Fid := []
  /-- committed entries of `kernel.atomic_runq`, oldest first (capacity 8) -/
  atomq : List Fid := []
  current : Option Fid := none
  /-- `kernel.state`; the static initialiser leaves it 0 = `FIBRE_STATE_YIELDED` -/
  state : Ret := .yielded
  now : BitVec 32 := 0
  /-- `fibre_t.priv`, the protothread resume point -/
  priv : Fid → BitVec 16 := fun _ => 0
  /-- `fibre_t.duetime` -/
  due : Fid → BitVec 32 := fun _ => 0

/-- the static initialiser of `kernel` and zero-initialised fibres (`FIBRE_VAR_INIT` / `fibre_init`) -/
def init : K := {}

def upd {α : Type} (m : Fid → α) (f : Fid) (v : α) : Fid → α := fun g => if g = f then v else m g

/-- `make_runnable` -/
def makeRunnable (k : K) (f : Fid) : K :=
  if f ∈ k.runq then k
  else { k with timerq := k.timerq.erase f, runq := k.runq ++ [f] }

/-- `handle_atomic_runq`: receive the committed entries oldest first, `make_runnable` each, release -/
def handleAtomic (k : K) : K :=
  k.atomq.foldl makeRunnable { k with atomq := [] }

/-- `cyclecmp32(d, now) <= 0` -/
def notAfter (d now : BitVec 32) : Bool := decide ((Librfn.Gen.Util.cyclecmp32 d now).toInt ≤ 0)

/-- the loop of `handle_timerq`: while the head of the timer queue is due, `list_iterator_remove` it and
    `list_insert` it on the run queue (no `list_contains` guard here).  Returns (timerq, runq). -/
def timerqLoop (due : Fid → BitVec 32) (now : BitVec 32) : List Fid → List Fid → List Fid × List Fid
  | [], rq => ([], rq)
  | f :: r, rq => if notAfter (due f) now then timerqLoop due now r (rq ++ [f]) else (f :: r, rq)

/-- `handle_timerq` -/
def handleTimerq (k : K) : K :=
  let p := timerqLoop k.due k.now k.timerq k.runq
  { k with timerq := p.1, runq := p.2 }

/-- `get_next_task` followed by the assignment to `kernel.current` -/
def getNextTask (k : K) : K :=
  match k.runq with
  | [] => { k with current := none }
  | f :: r => { k with current := some f, runq := r }

/-- `fibre_run` -/
def fibreRun (k : K) (f : Fid) : K := makeRunnable (handleAtomic k) f

/-- `update_current_state` for `kernel.current = c` -/
def updateCurrent (k : K) (c : Fid) : K :=
  match k.state with
  | .yielded => fibreRun k c
  | .failed | .exited => { k with priv := upd k.priv c 0 }     -- PT_INIT
  | .waiting => k

/-- `get_next_wakeup` -/
def getNextWakeup (k : K) : BitVec 32 :=
  if k.atomq ≠ [] ∨ k.runq ≠ [] then k.now
  else match k.timerq with
    | [] => k.now + 0x7fffffff#32
    | f :: _ => k.due f

/-- `duetime_cmp(n1, n2) >= 0` -/
def dueGe (due : Fid → BitVec 32) (f x : Fid) : Bool := decide ((due f - due x).toInt ≥ 0)

/-- the search loop of `list_insert_sorted`: in front of the first element `x` with `cmp(f, x) < 0`
    (the C loop would dereference NULL at the end of the list; it is only entered when the tail
    compares greater, see `insertSorted`) -/
def insertScan (due : Fid → BitVec 32) (f : Fid) : List Fid → List Fid
  | [] => [f]
  | x :: xs => if dueGe due f x then x :: insertScan due f xs else f :: x :: xs

/-- `list_insert_sorted(&kernel.timerq, &f->link, duetime_cmp)` incl. its two fast paths -/
def insertSorted (due : Fid → BitVec 32) (f : Fid) (l : List Fid) : List Fid :=
  match l.getLast? with
  | none => [f]
  | some t => if dueGe due f t then l ++ [f] else insertScan due f l

/-- `fibre_timeout(d)` called by the running fibre `c` (= `kernel.current`; the function dereferences
    `kernel.current`, so it may only be called from inside a dispatch — the scripts of a history are
    exactly those calls) -/
def fibreTimeout (k : K) (c : Fid) (d : BitVec 32) : K × Bool :=
  if notAfter d k.now then (k, true)
  else
    let k1 := { k with due := upd k.due c d }
    (if c ∈ k1.runq then k1 else { k1 with timerq := insertSorted k1.due c k1.timerq }, false)

/-- `fibre_kill` -/
def fibreKill (k : K) (f : Fid) : K × Bool :=
  let k1 := handleAtomic k
  ({ k1 with runq := k1.runq.erase f, timerq := k1.timerq.erase f },
   decide (f ∈ k1.runq) || decide (f ∈ k1.timerq))

/-- `fibre_run_atomic`, run to completion: claim + store + send; the claim fails when 8 are pending -/
def fibreRunAtomic (k : K) (f : Fid) : K × Bool :=
  if k.atomq.length < 8 then ({ k with atomq := k.atomq ++ [f] }, true) else (k, false)

/-- `fibre_self` -/
def fibreSelf (k : K) : Option Fid := k.current

/-- the body of the dispatched fibre `c`: the harness's script interpreter -/
def runScript (c : Fid) : K → List (Call (BitVec 32)) → K × List Res
  | k, [] => (k, [])
  | k, .run g :: r => let p := runScript c (fibreRun k g) r; (p.1, Res.unit :: p.2)
  | k, .runAtomic g :: r => let q := fibreRunAtomic k g; let p := runScript c q.1 r; (p.1, Res.bool q.2 :: p.2)
  | k, .kill g :: r => let q := fibreKill k g; let p := runScript c q.1 r; (p.1, Res.bool q.2 :: p.2)
  | k, .timeout d :: r => let q := fibreTimeout k c d; let p := runScript c q.1 r; (p.1, Res.bool q.2 :: p.2)
  | k, .setPriv l :: r => let p := runScript c { k with priv := upd k.priv c l } r; (p.1, Res.unit :: p.2)

/-- the part of `fibre_scheduler_next` before the dispatch, incl. the single-yielder fast path -/
def prelude (k : K) : K :=
  if k.state ≠ .yielded ∨ k.runq ≠ [] ∨ k.timerq ≠ [] ∨ k.atomq ≠ [] then
    let k1 := handleAtomic k
    let k2 := match k1.current with
      | some c => updateCurrent k1 c
      | none => k1
    getNextTask (handleTimerq k2)
  else k

/-- `fibre_scheduler_next(t)`, the dispatched fibre performing `script` and returning `ret` -/
def schedulerNext (k : K) (t : BitVec 32) (script : List (Call (BitVec 32))) (ret : Ret) : K × PassOut :=
  let k1 := prelude { k with now := t }
  match k1.current with
  | some c =>
    let p := runScript c k1 script
    let k2 := { p.1 with state := ret }
    (k2, { disp := some (c, k1.priv c, p.2), self := fibreSelf k2,
           wake := if ret = .yielded then k2.now else getNextWakeup k2 })
  | none => (k1, { disp := none, self := fibreSelf k1, wake := getNextWakeup k1 })

def step (k : K) : Op (BitVec 32) → K × Out
  | .run f => (fibreRun k f, .unit)
  | .runAtomic f => let q := fibreRunAtomic k f; (q.1, .bool q.2)
  | .kill f => let q := fibreKill k f; (q.1, .bool q.2)
  | .next t s r => let q := schedulerNext k t s r; (q.1, .pass q.2)

/-- run a history from state `k`: final state and the outputs, one per call -/
def runFrom : K → List (Op (BitVec 32)) → K × List Out
  | k, [] => (k, [])
  | k, op :: h => let q := step k op; let p := runFrom q.1 h; (p.1, q.2 :: p.2)

/-- the outputs of a history started from the static initial state -/
def runModel (h : List (Op (BitVec 32))) : List Out := (runFrom init h).2

end Librfn.Model.Fibre

/-! Executable model of `librfn/messageq.c` + `include/librfn/messageq.h`, one C function = one sequential
operation (hand-written; tied to the C by the correspondence runs of C10 and, through
`Model/MessageqConc.lean` which reuses the arithmetic below, of C04).

Widths are the C widths: `num_free`, `sendp` are `atomic_uchar`, `queue_len`, `receivep` are
`unsigned char`, `msg_len` is `uint16_t`, `full_flags` is a 32-bit `atomic_uint`.  Pointers returned by
`claim` / `receive` are byte offsets from `basep`; `none` is NULL.  A call whose C behaviour is undefined
(division by a zero message size, a shift by ≥ 32) is rejected explicitly (`none` state), never totalised. -/
namespace Librfn.Model.Messageq

structure St where
  base : Nat              -- identity of the caller's storage (`basep`)
  msgLen : BitVec 16      -- `uint16_t msg_len`
  qlen : BitVec 8         -- `unsigned char queue_len`
  numFree : BitVec 8      -- `atomic_uchar num_free`
  sendp : BitVec 8        -- `atomic_uchar sendp`
  flags : BitVec 32       -- `atomic_uint full_flags`
  receivep : BitVec 8     -- `unsigned char receivep`
  deriving DecidableEq, Repr

/-! ### the arithmetic shared with the concurrent model -/

/-- HISTORICAL (claims before fix 6099fe4): `int num_free = (signed char) atomic_fetch_sub(..)` … `if (num_free <= 0)`
    fails.  `signedRead = false` is the arithmetic before fix d97db7e (`int num_free = atomic_fetch_sub(..)` on an
    `atomic_uchar`: the value read is 0…255).  Used only by the old-variant witnesses. -/
def granted (signedRead : Bool) (old : BitVec 8) : Bool :=
  if signedRead then decide (0 < old.toInt) else decide (0 < old.toNat)

/-- `sendp >= (mq->queue_len-1) ? 0 : sendp+1`, compared in `int`, stored to an `unsigned char` -/
def nextSend (qlen p : BitVec 8) : BitVec 8 :=
  if (p.toNat : Int) ≥ (qlen.toNat : Int) - 1 then 0 else BitVec.ofNat 8 (p.toNat + 1)

/-- `receivep >= (unsigned int)(mq->queue_len - 1) ? 0 : receivep + 1` on `unsigned int receivep`,
    stored to an `unsigned char` -/
def nextRecv (qlen p : BitVec 8) : BitVec 8 :=
  if p.toNat ≥ (qlen.toNat + 4294967296 - 1) % 4294967296 then 0 else BitVec.ofNat 8 (p.toNat + 1)

/-- `(1 << i)` in a 32-bit word (`i ≤ 31`; bit 31 is gcc's defined result of `1 << 31`) -/
def bit (i : Nat) : BitVec 32 := (1 : BitVec 32) <<< i

/-- `unsigned int offset = msg - basep; unsigned int sendp = offset / mq->msg_len;` -/
def slotOfOffset (msgLen : BitVec 16) (off : Nat) : Nat := (off % 4294967296) / msgLen.toNat

/-- `basep + (index * msg_len)` as an offset from `basep` -/
def offsetOfSlot (msgLen : BitVec 16) (i : BitVec 8) : Nat := i.toNat * msgLen.toNat

/-! ### the operations -/

/-- `messageq_init(mq, basep, base_len, msg_len)` (`size_t` arguments) -/
def init (base baseLen msgLen : Nat) : Option St :=
  if msgLen = 0 then none            -- division by zero: undefined
  else some {
    base := base
    msgLen := BitVec.ofNat 16 msgLen                 -- mq->msg_len = msg_len (truncating store)
    qlen := BitVec.ofNat 8 (baseLen / msgLen)        -- mq->queue_len = base_len / msg_len
    numFree := BitVec.ofNat 8 (baseLen / msgLen)     -- atomic_store(&mq->num_free, base_len / msg_len)
    sendp := 0, flags := 0, receivep := 0 }          -- memset

/-- `MESSAGEQ_VAR_INIT(basep, base_len, msg_len)`: a brace initialiser, field by field -/
def staticInit (base baseLen msgLen : Nat) : Option St :=
  if msgLen = 0 then none
  else some ⟨base, BitVec.ofNat 16 msgLen, BitVec.ofNat 8 (baseLen / msgLen),
             BitVec.ofNat 8 (baseLen / msgLen), BitVec.ofNat 8 0, BitVec.ofNat 32 0, BitVec.ofNat 8 0⟩

/-- `messageq_claim` (current code, since fix 6099fe4): `num_free = atomic_load(..); do { if (0 == num_free) return NULL; }
    while (!compare_exchange(&num_free, &num_free, num_free - 1));` — sequentially the first compare-exchange succeeds;
    then load `sendp` and advance it with the second compare-exchange loop -/
def claim (s : St) : St × Option Nat :=
  if s.numFree = 0 then (s, none)                          -- return NULL, nothing was written
  else ({ s with numFree := s.numFree - 1, sendp := nextSend s.qlen s.sendp }, some (offsetOfSlot s.msgLen s.sendp))

/-- HISTORICAL (`messageq_claim` before fix 6099fe4): optimistic `fetch_sub`, undone by `fetch_add` on failure.
    `signedRead = true`: `int num_free = (signed char) atomic_fetch_sub(..)` (d97db7e … 6099fe4);
    `signedRead = false`: `int num_free = atomic_fetch_sub(..)` on the `atomic_uchar` (before d97db7e).
    Kept only for the witnesses that document why the two fixes were needed; no current theorem depends on it. -/
def claimFetchSub (signedRead : Bool) (s : St) : St × Option Nat :=
  if granted signedRead s.numFree then
    ({ s with numFree := s.numFree - 1, sendp := nextSend s.qlen s.sendp }, some (offsetOfSlot s.msgLen s.sendp))
  else
    ({ s with numFree := s.numFree - 1 + 1 }, none)          -- fetch_add, return NULL

/-- `messageq_send(mq, msg)`, `msg = basep + off`; undefined for `msg_len = 0` or a slot ≥ 32 -/
def send (s : St) (off : Nat) : Option St :=
  if s.msgLen.toNat = 0 then none
  else if slotOfOffset s.msgLen off ≥ 32 then none
  else some { s with flags := s.flags ||| bit (slotOfOffset s.msgLen off) }

/-- `messageq_receive`; undefined if `receivep ≥ 32` (never the case for a queue of depth ≤ 32) -/
def receive (s : St) : Option (St × Option Nat) :=
  if s.receivep.toNat ≥ 32 then none
  else
    let old := s.flags                                      -- fetch_and returns the old value
    let s1 := { s with flags := s.flags &&& ~~~ bit s.receivep.toNat }
    if old &&& bit s.receivep.toNat = 0 then some (s1, none)
    else some ({ s1 with receivep := nextRecv s.qlen s.receivep }, some (offsetOfSlot s.msgLen s.receivep))

/-- `messageq_release` (the message argument is ignored by the code) -/
def release (s : St) : St := { s with numFree := s.numFree + 1 }

/-- `messageq_empty` -/
def empty (s : St) : Option Bool :=
  if s.receivep.toNat ≥ 32 then none else some (decide (s.flags &&& bit s.receivep.toNat = 0))

/-! ### histories -/

inductive Op where
  | claim | send (off : Nat) | receive | release | empty
  deriving Repr, DecidableEq

inductive Out where
  | ptr (o : Option Nat)    -- returned pointer as offset, `none` = NULL
  | unit
  | bool (b : Bool)
  | undefined               -- the call has no defined behaviour in C (out of every property's scope)
  deriving Repr, DecidableEq

def step (s : St) : Op → St × Out
  | .claim => let r := claim s; (r.1, .ptr r.2)
  | .send off => match send s off with
    | some s' => (s', .unit)
    | none => (s, .undefined)
  | .receive => match receive s with
    | some r => (r.1, .ptr r.2)
    | none => (s, .undefined)
  | .release => (release s, .unit)
  | .empty => match empty s with
    | some b => (s, .bool b)
    | none => (s, .undefined)

def run (s : St) : List Op → List Out
  | [] => []
  | op :: ops => (step s op).2 :: run (step s op).1 ops

def runSt (s : St) : List Op → St
  | [] => s
  | op :: ops => runSt (step s op).1 ops

end Librfn.Model.Messageq

/-! Executable model of `librfn/mlog.c` (hand-written; tied to the C by the correspondence run of C20).
`M` is the opaque record `(fmt, arg0, arg1, arg2)`; formatting is libc's and is not modelled. -/
namespace Librfn.Model.Mlog

structure St (M : Type) where
  line : Nat → M          -- 256 slots (only indices < 256 are used)
  head : Nat              -- `unsigned int head`

variable {M : Type}

/-- `vmlog` -/
def log (s : St M) (m : M) : St M :=
  let slot := s.head % 256
  let h1 := s.head + 1
  { line := fun i => if i = slot then m else s.line i,
    head := if h1 ≥ 0x7fffffff then h1 - 256 else h1 }

/-- `vmlog_nice` -/
def logNice (s : St M) (m : M) : St M := if s.head < 256 then log s m else s

/-- `mlog_clear` -/
def clear (s : St M) : St M := { s with head := 0 }

/-- `get_line(unsigned n)` -/
def getLine (s : St M) (n : Nat) : Option M :=
  if n ≥ s.head ∨ n ≥ 256 then none
  else
    let n' := if s.head ≥ 256 then (n + s.head) % 4294967296 else n
    some (s.line (n' % 256))

/-- `mlog_get_line(int k)`: the conversion int → unsigned makes a negative `k` huge -/
def getLineInt (s : St M) (k : Int) : Option M :=
  getLine s (if k < 0 then (k + 4294967296).toNat else k.toNat)

/-- `mlog_dump`: `for (int i = 0; (line = get_line(i)); i++) print(line)`; `fuel` bounds the loop
    (257 always suffices because `get_line` is NULL from 256 on) -/
def dumpFrom (s : St M) : Nat → Nat → List M
  | 0, _ => []
  | fuel + 1, i => match getLine s i with
    | none => []
    | some m => m :: dumpFrom s fuel (i + 1)

def dump (s : St M) : List M := dumpFrom s 257 0

inductive Op (M : Type) where
  | log (m : M) | nice (m : M) | clear | get (k : Int) | dump
  deriving Repr

inductive Out (M : Type) where
  | unit | line (o : Option M) | lines (l : List M)
  deriving Repr, DecidableEq

def step (s : St M) : Op M → St M × Out M
  | .log m => (log s m, .unit)
  | .nice m => (logNice s m, .unit)
  | .clear => (clear s, .unit)
  | .get k => (s, .line (getLineInt s k))
  | .dump => (s, .lines (dump s))

def run (s : St M) : List (Op M) → St M × List (Out M)
  | [] => (s, [])
  | op :: ops => let r := step s op; let rs := run r.1 ops; (rs.1, r.2 :: rs.2)

end Librfn.Model.Mlog

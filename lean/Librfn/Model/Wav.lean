import Librfn.Model.Pack
/-! Executable model of `librfn/wavheader.c` on top of the pack model (hand-written; tied to the C by
the correspondence runs of C13 and C14).  It mirrors the code as it is in /repo now (with the
`fix:` commits D3–D6 and D10 = e9578e3): `init` clears the structure first and derives `chunk_size`
from the chunks it emits, `set_num_frames` writes `sample_length` only when there is a fact chunk,
`decode` rejects a format chunk size above 0x7fffff00 before skipping, `tostring` guards its
division.  The pre-fix behaviours survive only as explicitly named `…Old…` variants used by the
regression-witness theorems.

32-bit / 16-bit fields are `BitVec 32` / `BitVec 16` (C's unsigned arithmetic wraps exactly like
`BitVec`'s); `int` arithmetic in `rf_wavheader_init` is modelled as wrapping 32-bit arithmetic,
which is what gcc emits (inside the property's scope no product overflows, see C13).  The byte
arrays of the structure are `List UInt8`; `Wh.WF` states their C lengths (4 / 16). -/
namespace Librfn.Model.Wav
open Librfn.Model.Pack

structure Wh where
  chunkId : List UInt8             -- uint8_t[4]
  chunkSize : BitVec 32
  format : List UInt8              -- uint8_t[4]
  fmtChunkId : List UInt8          -- uint8_t[4]
  fmtChunkSize : BitVec 32
  audioFormat : BitVec 16
  numChannels : BitVec 16
  sampleRate : BitVec 32
  byteRate : BitVec 32
  blockAlign : BitVec 16
  bitsPerSample : BitVec 16
  cbSize : BitVec 16
  validBitsPerSample : BitVec 16
  channelMask : BitVec 32
  subFormat : List UInt8           -- uint8_t[16]
  factChunkId : List UInt8         -- uint8_t[4]
  factChunkSize : BitVec 32
  sampleLength : BitVec 32
  dataChunkId : List UInt8         -- uint8_t[4]
  dataChunkSize : BitVec 32
  deriving DecidableEq, Repr

/-- the array lengths fixed by the C type -/
structure Wh.WF (wh : Wh) : Prop where
  chunkId : wh.chunkId.length = 4
  format : wh.format.length = 4
  fmtChunkId : wh.fmtChunkId.length = 4
  subFormat : wh.subFormat.length = 16
  factChunkId : wh.factChunkId.length = 4
  dataChunkId : wh.dataChunkId.length = 4

def zero4 : List UInt8 := [0, 0, 0, 0]
def zero16 : List UInt8 := [0, 0, 0, 0, 0, 0, 0, 0, 0, 0, 0, 0, 0, 0, 0, 0]
def riff : List UInt8 := [0x52, 0x49, 0x46, 0x46]
def wave : List UInt8 := [0x57, 0x41, 0x56, 0x45]
def fmtId : List UInt8 := [0x66, 0x6d, 0x74, 0x20]
def fact : List UInt8 := [0x66, 0x61, 0x63, 0x74]
def data : List UInt8 := [0x64, 0x61, 0x74, 0x61]

/-- `memset(wh, 0, sizeof(*wh))` -/
def Wh.zero : Wh :=
  { chunkId := zero4, chunkSize := 0, format := zero4, fmtChunkId := zero4, fmtChunkSize := 0, audioFormat := 0,
    numChannels := 0, sampleRate := 0, byteRate := 0, blockAlign := 0, bitsPerSample := 0, cbSize := 0,
    validBitsPerSample := 0, channelMask := 0, subFormat := zero16, factChunkId := zero4, factChunkSize := 0,
    sampleLength := 0, dataChunkId := zero4, dataChunkSize := 0 }

def EINVAL : Int := 22

/-! ### rf_wavheader_decode -/

/-- wavheader.c:36-47: the eleven fixed fields -/
def decHead (m : Mem) (b sz : Nat) : Wh × Pk :=
  let r1 := unpackBytes m (Pack.init b sz) 4
  let r2 := unpackU32le m r1.2
  let r3 := unpackBytes m r2.2 4
  let r4 := unpackBytes m r3.2 4
  let r5 := unpackU32le m r4.2
  let r6 := unpackU16le m r5.2
  let r7 := unpackU16le m r6.2
  let r8 := unpackU32le m r7.2
  let r9 := unpackU32le m r8.2
  let r10 := unpackU16le m r9.2
  let r11 := unpackU16le m r10.2
  ({ Wh.zero with chunkId := r1.1, chunkSize := r2.1, format := r3.1, fmtChunkId := r4.1, fmtChunkSize := r5.1,
                  audioFormat := r6.1, numChannels := r7.1, sampleRate := r8.1, byteRate := r9.1,
                  blockAlign := r10.1, bitsPerSample := r11.1 }, r11.2)

/-- wavheader.c:53-63: the optional extension of the format chunk -/
def decExt (m : Mem) (s : Wh × Pk) : Wh × Pk :=
  if 18#32 ≤ s.1.fmtChunkSize then
    let r1 := unpackU16le m s.2
    if r1.1 = 22#16 then
      let r2 := unpackU16le m r1.2
      let r3 := unpackU32le m r2.2
      let r4 := unpackBytes m r3.2 16
      ({ s.1 with cbSize := r1.1, validBitsPerSample := r2.1, channelMask := r3.1, subFormat := r4.1 }, r4.2)
    else
      ({ s.1 with cbSize := r1.1 }, unpackSkip r1.2 (s.1.fmtChunkSize - 18#32).toNat)
  else s

/-- wavheader.c:65-78: data chunk header, preceded by an optional fact chunk -/
def decTail (m : Mem) (s : Wh × Pk) : Wh × Pk :=
  let r1 := unpackBytes m s.2 4            -- read into data_chunk_id
  if r1.1 = fact then
    let r2 := unpackU32le m r1.2
    let r3 := unpackU32le m r2.2
    let r4 := unpackBytes m r3.2 4
    let r5 := unpackU32le m r4.2
    ({ s.1 with factChunkId := r1.1, factChunkSize := r2.1, sampleLength := r3.1, dataChunkId := r4.1,
                dataChunkSize := r5.1 }, r5.2)
  else
    let r5 := unpackU32le m r1.2
    ({ s.1 with dataChunkId := r1.1, dataChunkSize := r5.1 }, r5.2)

/-- wavheader.c:81-86 (also the first three tests of `rf_wavheader_validate`); the sum is computed in
    `uint32_t` and wraps -/
def headerBad (wh : Wh) : Bool :=
  wh.chunkId ≠ riff || decide (wh.chunkSize < 12#32 + wh.fmtChunkSize + wh.factChunkSize) || wh.format ≠ wave

/-- the cursor at the end of a parse that is not cut short by the range check -/
def decPk (m : Mem) (b sz : Nat) : Pk := (decTail m (decExt m (decHead m b sz))).2

/-- `rf_wavheader_decode(p = b, sz, wh)`: the resulting structure and the returned `int` -/
def decode (m : Mem) (b sz : Nat) : Wh × Int :=
  let h := decHead m b sz
  if 0x7fffff00#32 < h.1.fmtChunkSize then (h.1, -EINVAL)
  else
    let t := decTail m (decExt m h)
    if headerBad t.1 then (t.1, -EINVAL)
    else (t.1, wrap32 ((sz : Int) - remaining t.2))       -- `sz - rf_pack_remaining()`: unsigned, then `int`

/-! ### rf_wavheader_encode -/

def encHead (wh : Wh) (m : Mem) (p : Pk) : Mem × Pk :=
  let r := packBytes m p wh.chunkId
  let r := packU32le r.1 r.2 wh.chunkSize
  let r := packBytes r.1 r.2 wh.format
  let r := packBytes r.1 r.2 wh.fmtChunkId
  let r := packU32le r.1 r.2 wh.fmtChunkSize
  let r := packU16le r.1 r.2 wh.audioFormat
  let r := packU16le r.1 r.2 wh.numChannels
  let r := packU32le r.1 r.2 wh.sampleRate
  let r := packU32le r.1 r.2 wh.byteRate
  let r := packU16le r.1 r.2 wh.blockAlign
  packU16le r.1 r.2 wh.bitsPerSample

def encExt (wh : Wh) (s : Mem × Pk) : Mem × Pk :=
  if 18#32 ≤ wh.fmtChunkSize then
    let r := packU16le s.1 s.2 wh.cbSize
    if wh.cbSize = 22#16 then
      let r := packU16le r.1 r.2 wh.validBitsPerSample
      let r := packU32le r.1 r.2 wh.channelMask
      packBytes r.1 r.2 wh.subFormat
    else
      packNull r.1 r.2 (wh.fmtChunkSize - 18#32).toNat
  else s

def encTail (wh : Wh) (s : Mem × Pk) : Mem × Pk :=
  let s := if wh.factChunkId = fact then
      let r := packBytes s.1 s.2 wh.factChunkId
      let r := packU32le r.1 r.2 wh.factChunkSize
      packU32le r.1 r.2 wh.sampleLength
    else s
  let r := packBytes s.1 s.2 wh.dataChunkId
  packU32le r.1 r.2 wh.dataChunkSize

/-- `rf_wavheader_encode(wh, p = b, sz)`: memory afterwards and the returned `int` -/
def encode (wh : Wh) (m : Mem) (b sz : Nat) : Mem × Int :=
  let s := encTail wh (encExt wh (encHead wh m (Pack.init b sz)))
  (s.1, wrap32 ((sz : Int) - remaining s.2))

/-! ### helpers -/

/-- `rf_wavheader_get_format`: −1 UNKNOWN, 0 S16LE, 1 S32LE, 2 FLOAT -/
def getFormat (wh : Wh) : Int :=
  if wh.audioFormat = 1#16 then
    (if wh.bitsPerSample = 16#16 then 0 else if wh.bitsPerSample = 32#16 then 1 else -1)
  else if wh.audioFormat = 3#16 then
    (if wh.bitsPerSample = 32#16 then 2 else -1)
  else if wh.audioFormat = 0xfffe#16 then
    (if wh.bitsPerSample = 16#16 then 0 else 1)
  else -1

/-- `rf_wavheader_validate` -/
def validate (wh : Wh) : Int :=
  if wh.chunkId ≠ riff then -EINVAL
  else if wh.chunkSize < 12#32 + wh.fmtChunkSize + wh.factChunkSize then -EINVAL
  else if wh.format ≠ wave then -EINVAL
  else if wh.fmtChunkId ≠ fmtId then -EINVAL
  else if wh.dataChunkId ≠ data then -EINVAL
  else 0

/-- `rf_wavheader_init(wh, sfreq, num_channels, format)`; `prior` is what `*wh` held before the call.
    `sfreq`, `num_channels` are the bit patterns of the `int` arguments, `format` the enum value. -/
def init (_prior : Wh) (sfreq nch : BitVec 32) (format : Int) : Wh :=
  let wh : Wh := Wh.zero                                   -- memset(wh, 0, sizeof(*wh)): `_prior` is overwritten
  let isFloat : Bool := format = 2
  let fmtSz : BitVec 32 := if isFloat then 18#32 else 16#32
  let bps : BitVec 32 := if format = 0 then 2#32 else 4#32   -- uint8_t bytes_per_sample, promoted to int when used
  let wh := { wh with chunkId := riff, format := wave, fmtChunkId := fmtId, fmtChunkSize := fmtSz,
                      chunkSize := 4#32 + (8#32 + fmtSz) + (if isFloat then 12#32 else 0#32) + 8#32,
                      audioFormat := if isFloat then 3#16 else 1#16,
                      numChannels := nch.setWidth 16,
                      sampleRate := sfreq,
                      byteRate := sfreq * bps * nch,
                      blockAlign := (bps * nch).setWidth 16,
                      bitsPerSample := (bps * 8#32).setWidth 16,
                      cbSize := 0#16 }
  let wh := if isFloat then { wh with factChunkId := fact, factChunkSize := 12#32, sampleLength := 0#32 } else wh
  { wh with dataChunkId := data, dataChunkSize := 0#32 }

/-- `rf_wavheader_set_num_frames` (since fix e9578e3: `sample_length` is written only when the structure
    carries a fact chunk) -/
def setNumFrames (wh : Wh) (nf : BitVec 32) : Wh :=
  let cs := wh.chunkSize - wh.dataChunkSize
  { wh with dataChunkSize := nf * wh.blockAlign.setWidth 32,
            sampleLength := if wh.factChunkId = fact then nf * wh.numChannels.setWidth 32 else wh.sampleLength,
            chunkSize := cs + nf * wh.blockAlign.setWidth 32 }

/-- the function as it was *before* fix e9578e3 (defect D10): `sample_length` written unconditionally.
    Used only by the regression witness `C13.d10_old_setNumFrames_breaks_roundtrip`. -/
def setNumFramesOldD10 (wh : Wh) (nf : BitVec 32) : Wh :=
  let cs := wh.chunkSize - wh.dataChunkSize
  { wh with dataChunkSize := nf * wh.blockAlign.setWidth 32,
            sampleLength := nf * wh.numChannels.setWidth 32,
            chunkSize := cs + nf * wh.blockAlign.setWidth 32 }

/-- unsigned 32-bit division as the machine performs it: a zero divisor traps (SIGFPE) -/
def udivChecked (x y : BitVec 32) : Option (BitVec 32) := if y = 0#32 then none else some (x / y)

def formatName (f : Int) : String :=
  if f = 0 then "S16LE" else if f = 1 then "S32LE" else if f = 2 then "FLOAT" else "UNKNOWN"

/-- the four values `rf_wavheader_tostring` formats (`%d %s %d %d`), `none` = the division trapped.
    `printf`/`strdup` are libc and are not modelled. -/
def tostringArgs (wh : Wh) : Option (Int × String × Int × Int) :=
  let samples : Option (BitVec 32) :=
    if wh.blockAlign ≠ 0#16 then udivChecked wh.dataChunkSize (wh.blockAlign.setWidth 32) else some 0#32
  match samples with
  | none => none
  | some s => some (s.toInt, formatName (getFormat wh), wh.numChannels.toNat, wh.sampleRate.toInt)

/-! ### the structure as 80 raw bytes (x86-64 layout, no padding): used by the driver to set "prior
contents" and nowhere in the theorems -/

def u16At (bs : List UInt8) (i : Nat) : BitVec 16 := dec16 (bs.getD i 0) (bs.getD (i + 1) 0)
def u32At (bs : List UInt8) (i : Nat) : BitVec 32 :=
  dec32 (bs.getD i 0) (bs.getD (i + 1) 0) (bs.getD (i + 2) 0) (bs.getD (i + 3) 0)
def sliceD (bs : List UInt8) (i n : Nat) : List UInt8 := (List.range n).map fun k => bs.getD (i + k) 0

def Wh.ofRaw (bs : List UInt8) : Wh :=
  { chunkId := sliceD bs 0 4, chunkSize := u32At bs 4, format := sliceD bs 8 4, fmtChunkId := sliceD bs 12 4,
    fmtChunkSize := u32At bs 16, audioFormat := u16At bs 20, numChannels := u16At bs 22, sampleRate := u32At bs 24,
    byteRate := u32At bs 28, blockAlign := u16At bs 32, bitsPerSample := u16At bs 34, cbSize := u16At bs 36,
    validBitsPerSample := u16At bs 38, channelMask := u32At bs 40, subFormat := sliceD bs 44 16,
    factChunkId := sliceD bs 60 4, factChunkSize := u32At bs 64, sampleLength := u32At bs 68,
    dataChunkId := sliceD bs 72 4, dataChunkSize := u32At bs 76 }

end Librfn.Model.Wav

/-! # Happens-before race detector (C07)

An execution is a list of events in the order in which they were executed (the harnesses run sequentially
consistent interleavings of the real code and log every atomic operation with the memory-order argument it was
actually given, and every plain payload access).  From the memory orders the detector computes C11's
happens-before with vector clocks:

* program order: each event of a thread happens after the previous events of that thread;
* synchronises-with: a release (or stronger) store / read-modify-write `w` on an atomic location
  synchronises with an acquire (or stronger) load / read-modify-write `r` of the same location that reads the
  value written by `w` or by a later read-modify-write of `w`'s release sequence.  In the logged interleavings
  every atomic read sees the most recent write of its location, so "reads from" is "latest earlier write";
* a relaxed store starts a new, empty release sequence; a read-modify-write continues the sequence it reads.

A **race** is a pair of conflicting plain accesses (same location, different threads, at least one a write)
that are not ordered by happens-before.  Core Lean only; executable (driver `hb`). -/
namespace Librfn.Model.HB

inductive Ord | relaxed | consume | acquire | release | acqRel | seqCst
  deriving DecidableEq, Repr

inductive Kind | aload | astore | armw | pread | pwrite
  deriving DecidableEq, Repr

structure Ev where
  tid : Nat
  kind : Kind
  loc : Nat
  ord : Ord
  deriving DecidableEq, Repr

def Ord.acq : Ord → Bool
  | .acquire | .acqRel | .seqCst | .consume => true      -- consume is treated as acquire (as compilers do)
  | _ => false
def Ord.rel : Ord → Bool
  | .release | .acqRel | .seqCst => true
  | _ => false

abbrev VC := List Nat                      -- one component per thread

def vget (v : VC) (i : Nat) : Nat := v.getD i 0
def vjoin : VC → VC → VC
  | [], w => w
  | v, [] => v
  | a :: v, b :: w => max a b :: vjoin v w
def vset : VC → Nat → Nat → VC
  | [], 0, x => [x]
  | [], i + 1, x => 0 :: vset [] i x
  | _ :: v, 0, x => x :: v
  | a :: v, i + 1, x => a :: vset v i x
def vle (v w : VC) : Bool := (List.range (max v.length w.length)).all fun i => vget v i ≤ vget w i

def lookup {α : Type} (m : List (Nat × α)) (k : Nat) : Option α := (m.find? (·.1 == k)).map (·.2)
def update {α : Type} (m : List (Nat × α)) (k : Nat) (x : α) : List (Nat × α) := (k, x) :: m.filter (·.1 != k)

/-- a remembered plain access: index in the trace, thread, that thread's clock component at the access -/
structure Acc where
  idx : Nat
  tid : Nat
  clk : Nat
  deriving Repr

structure St where
  clocks : List (Nat × VC) := []           -- per thread
  rels : List (Nat × VC) := []             -- per atomic location: clock released by the head of the current release sequence
  lastW : List (Nat × Acc) := []           -- per plain location: last write
  reads : List (Nat × List Acc) := []      -- per plain location: reads since the last write
  races : List (Nat × Nat) := []           -- (earlier index, later index)
  deriving Repr

def clockOf (s : St) (t : Nat) : VC := (lookup s.clocks t).getD []

/-- `a` happened before the current point of thread `t` (whose clock is `c`) -/
def ordered (a : Acc) (t : Nat) (c : VC) : Bool := a.tid == t || a.clk ≤ vget c a.tid

def step (s : St) (i : Nat) (e : Ev) : St :=
  let c0 := clockOf s e.tid
  let c := vset c0 e.tid (vget c0 e.tid + 1)             -- program order: tick
  match e.kind with
  | .aload =>
      let c' := if e.ord.acq then vjoin c ((lookup s.rels e.loc).getD []) else c
      { s with clocks := update s.clocks e.tid c' }
  | .astore =>
      { s with clocks := update s.clocks e.tid c,
               rels := update s.rels e.loc (if e.ord.rel then c else []) }
  | .armw =>
      let old := (lookup s.rels e.loc).getD []
      let c' := if e.ord.acq then vjoin c old else c
      { s with clocks := update s.clocks e.tid c',
               rels := update s.rels e.loc (if e.ord.rel then vjoin old c' else old) }
  | .pread =>
      let bad := match lookup s.lastW e.loc with
        | some w => if ordered w e.tid c then [] else [(w.idx, i)]
        | none => []
      { s with clocks := update s.clocks e.tid c,
               reads := update s.reads e.loc (⟨i, e.tid, vget c e.tid⟩ :: (lookup s.reads e.loc).getD []),
               races := s.races ++ bad }
  | .pwrite =>
      let badW := match lookup s.lastW e.loc with
        | some w => if ordered w e.tid c then [] else [(w.idx, i)]
        | none => []
      let badR := ((lookup s.reads e.loc).getD []).filterMap fun r => if ordered r e.tid c then none else some (r.idx, i)
      { s with clocks := update s.clocks e.tid c,
               lastW := update s.lastW e.loc ⟨i, e.tid, vget c e.tid⟩,
               reads := update s.reads e.loc [],
               races := s.races ++ badW ++ badR.reverse }

def runFrom (s : St) : Nat → List Ev → St
  | _, [] => s
  | i, e :: es => runFrom (step s i e) (i + 1) es

/-- all races of an execution, as pairs of event indices -/
def races (tr : List Ev) : List (Nat × Nat) := (runFrom {} 0 tr).races

def raceFree (tr : List Ev) : Bool := (races tr).isEmpty

end Librfn.Model.HB

import Librfn.Model.Fibre
import Librfn.Model.MessageqConc
import Librfn.Spec.IsrSpec
/-!
# The scheduler of `fibre.c` with interrupt contexts (C06, and C03's interrupt clause) — executable model

Refinement of `Model/Fibre.lean` (C01–C03): every main-context API call (`fibre_scheduler_next`, `fibre_run`,
`fibre_kill`, and the `fibre_eventq_receive` / `fibre_eventq_release` of a handler fibre) is **split at its atomic
operations** on `kernel.atomic_runq`, on the event queue and on `kernel.taint_flags`.  The two message queues are
instances of C04's interleaving model `Model/MessageqConc.lean` (which uses the arithmetic of `Model/Messageq.lean`:
8-bit counter read through `(signed char)`, cyclic 8-bit indices, 32-bit flag word): the main context is their single
receiver, interrupt contexts are their senders — sender 0 an interrupt handler, sender 1 a handler nested inside it,
sender 2 a sender running on another thread.  **Every change to a queue is a `MessageqConc.step`**, so C04's
invariant `mq_inv` holds for both queues under every interleaving of the steps below (`Props/C06.lean`).

Granularity.  A context executes `plain ; (gap k.a) ; atomic op k ; (gap k.b) ; plain ; (gap (k+1).a) ; …`:
`mainPlain` / `senderPlain` run the ordinary code up to (not including) the next atomic operation — list
manipulation, the plain reads and writes of queue slots, calling the fibre's entry point — and `mainAtomic` /
`senderAtomic` perform exactly one atomic operation.  An interrupt (or, for a thread, the other context) runs at a
*gap*: `k.a` immediately before atomic operation number `k` of the interrupted call, `k.b` immediately after it, i.e.
before the plain code that follows (the read of `*f` in `handle_atomic_runq`, the store of the fibre pointer in
`fibre_run_atomic`, …).  Handlers run to completion, so from the interrupted context an interrupt is one block at
a gap; a nested handler is a block at a gap of the handler it interrupts.

Scenario fibres (the ones the property names): fibre 0 is the **event handler** bound to the event queue, with the
canonical body `for (;;) { PT_WAIT_UNTIL(NULL != (e = fibre_eventq_receive(q))); process(e); fibre_eventq_release(q, e); }`;
a **yielder** returns *yielded* while it has budget, then *waiting*; a **sleeper** does
`if (fibre_timeout(due)) { due = now + period; fibre_timeout(due); } return waiting`; a **waiter** just returns *waiting*.

Ghost state (never read by modelled code): `a`, the abstract specification `Spec/IsrSpec.lean` fed with the
observable calls/returns at the instants they happen (a request is *accepted* at the `fetch_or` that publishes it, an
event takes its place in the queue at the compare-exchange that fixes its buffer); `drainFrom`, `evlog`,
`evWakeFailed`, `handlerKilled`; the ghost tickets of the two queues.  Not modelled: `fibre_t.state` (write-only).

Fuel: `runMain` / `runSender` take fuel; when it runs out the history is cut explicitly (`hung`, token `!!model-fuel`,
and no context can enter another call) — never silently.  No theorem depends on the fuel: they are stated over the
step relation (`Isr.L.Reach`), through which the runner is proved to move for every fuel value.
-/
namespace Librfn.Model.FibreIsr
open Librfn.Sched (Fid Ret)
open Librfn.Model.Fibre (K upd makeRunnable handleTimerq getNextTask fibreTimeout)
open Librfn.Model.Messageq (bit)
open Librfn.Spec.IsrSpec (Obs A)

abbrev MQ := Librfn.Model.MessageqConc.St
abbrev mqStep := Librfn.Model.MessageqConc.step

inductive Kind
  | handler | yielder | sleeper (period : BitVec 32) | waiter
  /-- a fibre whose body is scripted by the history (like C01's): during its dispatch it calls `fibre_run(g)` /
      `fibre_kill(g)` — main-context calls with their own atomic points, nested inside the pass — and then returns the
      scripted code -/
  | scripted
  deriving DecidableEq, Repr

/-- a call the running (scripted) fibre makes during its dispatch -/
inductive BCall
  | run (g : Fid) | kill (g : Fid)
  deriving DecidableEq, Repr

/-- an interrupt-context call -/
inductive ICall
  | runAtomic (f : Fid)        -- fibre_run_atomic(f)
  | eventSend (stamp : Nat)    -- p = fibre_eventq_claim(q); if (p) { *p = stamp; fibre_eventq_send(q, p); }
  deriving DecidableEq, Repr

inductive IRes
  | pending | bool (b : Bool) | noBuffer
  deriving DecidableEq, Repr

/-- a main-context call -/
inductive MCall
  | next (t : BitVec 32) | run (f : Fid) | kill (f : Fid)
  deriving DecidableEq, Repr

/-- what the drain loop of `handle_atomic_runq` returns to -/
inductive Cont
  | run (f : Fid)      -- fibre_run(f): then make_runnable(f)
  | kill (f : Fid)     -- fibre_kill(f): then the two list_remove
  | pass1              -- fibre_scheduler_next: then update_current_state …
  | pass2 (c : Fid)    -- the handle_atomic_runq inside update_current_state's fibre_run(kernel.current)
  | brun (g : Fid)     -- fibre_run(g) called by the running fibre: then make_runnable(g) and the rest of the body
  | bkill (g : Fid)    -- fibre_kill(g) called by the running fibre
  deriving DecidableEq, Repr

/-- control location of the main context.  "B" locations are immediately before an atomic operation,
    "A" locations immediately after one (plain code pending). -/
inductive MPc
  | idle
  | start (c : MCall)      -- A: the call was entered
  | fast                   -- B: messageq_empty(&kernel.atomic_runq), last operand of the fast-path condition
  | fastDone (e : Bool)    -- A
  | recv (c : Cont)        -- B: fetch_and of messageq_receive(&kernel.atomic_runq)
  | recvd (c : Cont)       -- A: result = `aq.recv` (`hold` = a slot, `idle` = NULL)
  | rel (c : Cont)         -- B: fetch_add of messageq_release
  | reld (c : Cont)        -- A
  | taintF                 -- B: add_taint('F') (the dispatched fibre returned FAILED)
  | taintFd                -- A
  | hRecv                  -- B: the handler's fibre_eventq_receive
  | hRecvd                 -- A
  | hRel                   -- B: the handler's fibre_eventq_release
  | hReld                  -- A
  | wake                   -- B: messageq_empty in get_next_wakeup — the scheduler's final check
  | woke (e : Bool)        -- A
  deriving DecidableEq, Repr

/-- control location of a sender (interrupt handler, nested handler, thread); its position inside
    `messageq_claim` … `messageq_send` is the queue's own sender pc (`MessageqConc.SPc`) -/
inductive IPc
  | idle
  | evClaim (st : Nat)      -- B: inside messageq_claim(&evtq->eventq)
  | evClaimed (st : Nat)    -- A: claim returned a buffer; pending: `*p = stamp`
  | evNull (st : Nat)       -- A: claim returned NULL
  | evTaint (st : Nat)      -- B: add_taint('E')
  | evTainted (st : Nat)    -- A
  | evSend (st : Nat)       -- B: fetch_or of messageq_send(&evtq->eventq, p)
  | evSent (st : Nat)       -- A: pending: fibre_run_atomic(&evtq->fibre)
  | raClaim (f : Fid) (ev : Option Nat)     -- B: inside messageq_claim(&kernel.atomic_runq)
  | raClaimed (f : Fid) (ev : Option Nat)   -- A: pending: `*queued_fibre = f`
  | raNull (f : Fid) (ev : Option Nat)      -- A
  | raTaint (f : Fid) (ev : Option Nat)     -- B: add_taint('A')
  | raTainted (f : Fid) (ev : Option Nat)   -- A: pending: return false
  | raSend (f : Fid) (ev : Option Nat)      -- B: fetch_or of messageq_send(&kernel.atomic_runq, queued_fibre)
  | raSent (f : Fid) (ev : Option Nat)      -- A: pending: return true
  deriving DecidableEq, Repr

/-- what the outside sees, in execution order (rendered by the driver; the harness prints the same) -/
inductive Tok
  | passBegin
  | look                                  -- the main context read `kernel.atomic_runq.full_flags` (messageq_empty)
  | disp (f : Fid)
  | proc (st : Nat)
  | tmo (b : Bool)
  | bret (r : Ret)
  | commit (f : Fid)                      -- the fetch_or that publishes a run request for `f`
  | claimed (st : Nat)                    -- the compare-exchange handing out an event buffer (to be stamped `st`)
  | done (lvl : Nat) (c : ICall) (r : IRes) (n : Nat)
  | bcall (c : BCall) (b : Bool)          -- a call made by the running fibre returned (`b`: what fibre_kill returned)
  | threadBegin                           -- a sender on another thread enters its call
  | mret (c : MCall) (self : Option Fid) (wake : BitVec 32) (b : Bool) (n : Nat)
  | hang
  deriving DecidableEq, Repr

structure S where
  /-- the scheduler's lists and scalars (`atomq` of `K` is unused: the queue is `aq`) -/
  k : K := {}
  /-- `kernel.atomic_runq`: 8 slots holding fibre pointers -/
  aq : MQ := Librfn.Model.MessageqConc.init 8 8 3
  /-- the handler's event queue: `uint32_t` stamps -/
  eq : MQ := Librfn.Model.MessageqConc.init 4 4 3
  /-- `kernel.taint_flags` -/
  taint : BitVec 32 := 0
  kind : Fid → Kind := fun _ => .waiter
  budget : Fid → Nat := fun _ => 0
  sdue : Fid → BitVec 32 := fun _ => 0
  /-- what a scripted fibre still has to do during the current dispatch, and what it then returns -/
  bscript : List BCall := []
  bret : Ret := .waiting
  mpc : MPc := .idle
  ipc : Nat → IPc := fun _ => .idle
  ires : Nat → IRes := fun _ => .pending
  -- results of the latest main-context call
  lastWake : BitVec 32 := 0
  lastBool : Bool := false
  dispatchedNow : Bool := false
  nops : Nat := 0
  fired : Nat := 0
  hung : Bool := false
  trace : List Tok := []
  -- ghost
  a : A := {}
  /-- `aq.received` when the current main-context call was entered -/
  drainFrom : Nat := 0
  /-- stamps the handler has read from the events it received, oldest first -/
  evlog : List Nat := []
  /-- some `fibre_eventq_send` has returned false (its wake-up was refused: taint 'A') -/
  evWakeFailed : Bool := false
  /-- `fibre_kill` was applied to the handler fibre -/
  handlerKilled : Bool := false

/-- fibre 0 is the handler fibre embedded in the `fibre_eventq_t` -/
def HANDLER : Fid := 0

def initWith (eqDepth : Nat) (kinds : List Kind) (budgets : List Nat) : S :=
  { eq := Librfn.Model.MessageqConc.init eqDepth 4 3
    kind := fun f => if f = HANDLER then .handler else (kinds[f - 1]?).getD .waiter
    budget := fun f => if f = HANDLER then 0 else (budgets[f - 1]?).getD 0
    a := { nf := kinds.length + 1 } }

def init : S := initWith 4 [] []

/-- `messageq_empty`: `0 == (atomic_load(&mq->full_flags) & (1 << mq->receivep))`
    (`receivep < 32` in every reachable state: `C04.shifts_defined`) -/
def mqEmpty (q : MQ) : Bool := decide (q.flags &&& bit q.receivep.toNat = 0)

def tok (t : Tok) (s : S) : S := { s with trace := s.trace ++ [t] }

/-- an observable instant: the specification monitor sees it -/
def emit (o : Obs) (s : S) : S := { s with a := s.a.step o }

/-! ## senders -/

/-- the next atomic operation of sender `i` -/
def senderAtomic (i : Nat) (s : S) : S :=
  match s.ipc i with
  | .evClaim st =>
    match (mqStep s.eq (.sender i false st)).senders[i]? with
    | some (.hasSlot _ _) =>
      -- the compare-exchange that fixes the buffer: the event takes its place in the queue at this instant
      tok (.claimed st) (emit (.evClaimed st) { s with eq := mqStep s.eq (.sender i false st), ipc := upd s.ipc i (.evClaimed st) })
    | some .idle => { s with eq := mqStep s.eq (.sender i false st), ipc := upd s.ipc i (.evNull st) }    -- fetch_add done: NULL
    | _ => { s with eq := mqStep s.eq (.sender i false st) }                                           -- still inside messageq_claim
  | .evTaint st => { s with taint := s.taint ||| 16#32, ipc := upd s.ipc i (.evTainted st) }       -- 1 << ('E' - 'A')
  | .evSend st => { s with eq := mqStep s.eq (.sender i false st), ipc := upd s.ipc i (.evSent st) }
  | .raClaim f ev =>
    match (mqStep s.aq (.sender i false f)).senders[i]? with
    | some (.hasSlot _ _) => { s with aq := mqStep s.aq (.sender i false f), ipc := upd s.ipc i (.raClaimed f ev) }
    | some .idle => { s with aq := mqStep s.aq (.sender i false f), ipc := upd s.ipc i (.raNull f ev) }
    | _ => { s with aq := mqStep s.aq (.sender i false f) }
  | .raTaint f ev => { s with taint := s.taint ||| 1#32, ipc := upd s.ipc i (.raTainted f ev) }     -- 1 << ('A' - 'A')
  | .raSend f ev =>
    -- the request is published at this instant
    tok (.commit f) (emit (.accepted f) { s with aq := mqStep s.aq (.sender i false f), ipc := upd s.ipc i (.raSent f ev) })
  | _ => s

def finishSender (i : Nat) (r : IRes) (s : S) : S := { s with ipc := upd s.ipc i .idle, ires := upd s.ires i r }

/-- the plain code of sender `i` up to its next atomic operation (or to its return) -/
def senderPlain (i : Nat) (s : S) : S :=
  match s.ipc i with
  | .evClaimed st =>     -- *p = stamp
    { s with eq := mqStep s.eq (.sender i false st), ipc := upd s.ipc i (.evSend st) }
  | .evNull st => { s with ipc := upd s.ipc i (.evTaint st) }
  | .evTainted _ => finishSender i .noBuffer s
  | .evSent st => { s with ipc := upd s.ipc i (.raClaim HANDLER (some st)) }     -- return fibre_run_atomic(&evtq->fibre)
  | .raClaimed f ev =>   -- *queued_fibre = f
    { s with aq := mqStep s.aq (.sender i false f), ipc := upd s.ipc i (.raSend f ev) }
  | .raNull f ev => { s with ipc := upd s.ipc i (.raTaint f ev) }
  | .raTainted f ev =>
    finishSender i (.bool false)
      (match ev with
       | some st => emit (.evSent st false) (emit (.rejected f) { s with evWakeFailed := true })
       | none => emit (.rejected f) s)
  | .raSent _ ev =>
    finishSender i (.bool true) (match ev with | some st => emit (.evSent st true) s | none => s)
  | _ => s

def startPc : ICall → IPc
  | .runAtomic f => .raClaim f none
  | .eventSend st => .evClaim st

/-! ## the main context -/

/-- `fibre_scheduler_next` returns `v` -/
def finishPass (s : S) (v : BitVec 32) : S :=
  emit (.passEnd (decide (v = s.k.now))) { s with mpc := .idle, lastWake := v }

/-- the entry point returned `r`: `kernel.state = r; if (r == YIELDED) return kernel.now;` else `get_next_wakeup()` -/
def returned (s : S) (r : Ret) : S :=
  if r = .yielded then
    finishPass (emit (.bodyReturned true) (tok (.bret r) { s with k := { s.k with state := r } })) s.k.now
  else emit (.bodyReturned false) (tok (.bret r) { s with k := { s.k with state := r }, mpc := .wake })

/-- a scripted body continues: its next call (whose first atomic operation is the `messageq_receive` of
    `handle_atomic_runq`), or its return -/
def bodyStep (s : S) : S :=
  match s.bscript with
  | [] => returned s s.bret
  | .run g :: r => { s with bscript := r, mpc := .recv (.brun g), drainFrom := s.aq.received }
  | .kill g :: r => { s with bscript := r, mpc := .recv (.bkill g), drainFrom := s.aq.received }

/-- the entry point of fibre `c`, by kind, up to its first atomic operation or its return -/
def bodyOf (s : S) (c : Fid) : S :=
  match s.kind c with
  | .handler => { s with mpc := .hRecv }
  | .yielder =>
    if s.budget c > 0 then returned { s with budget := upd s.budget c (s.budget c - 1) } .yielded
    else returned s .waiting
  | .sleeper period =>
    if (fibreTimeout s.k c (s.sdue c)).2 then
      -- due = now + period; fibre_timeout(due);
      returned (tok (.tmo (fibreTimeout (fibreTimeout s.k c (s.sdue c)).1 c (s.k.now + period)).2)
        (tok (.tmo true)
          { s with k := (fibreTimeout (fibreTimeout s.k c (s.sdue c)).1 c (s.k.now + period)).1
                   sdue := upd s.sdue c (s.k.now + period) })) .waiting
    else returned (tok (.tmo false) { s with k := (fibreTimeout s.k c (s.sdue c)).1 }) .waiting
  | .waiter => returned s .waiting
  | .scripted => bodyStep s

/-- `kernel.current->fn(kernel.current)` for `kernel.current = c` -/
def body (s : S) (c : Fid) : S :=
  bodyOf (tok (.disp c) (emit (.dispatched c) { s with dispatchedNow := true })) c

/-- `if (kernel.current) { kernel.state = kernel.current->fn(kernel.current); … } return get_next_wakeup();` -/
def dispatch (s : S) : S :=
  match s.k.current with
  | some c => body s c
  | none => { s with mpc := .wake }

/-- `handle_timerq(); kernel.current = get_next_task();` and the dispatch -/
def afterUpdate (s : S) : S := dispatch { s with k := getNextTask (handleTimerq s.k) }

/-- a scripted body's `fibre_run(g)` after its drain loop -/
def brunPre (s : S) (g : Fid) : S := tok (.bcall (.run g) false) { s with k := makeRunnable s.k g }

/-- a scripted body's `fibre_kill(g)` after its drain loop -/
def bkillPre (s : S) (g : Fid) : S :=
  tok (.bcall (.kill g) (decide (g ∈ s.k.runq) || decide (g ∈ s.k.timerq)))
    (emit (.killed g)
      { s with k := { s.k with runq := s.k.runq.erase g, timerq := s.k.timerq.erase g }
               handlerKilled := s.handlerKilled || decide (g = HANDLER) })

/-- the drain loop of `handle_atomic_runq` has received NULL: continue with the caller -/
def afterDrain (s : S) : Cont → S
  | .run f => { s with k := makeRunnable s.k f, mpc := .idle }
  | .kill f =>
    emit (.killed f)
      { s with k := { s.k with runq := s.k.runq.erase f, timerq := s.k.timerq.erase f }
               lastBool := decide (f ∈ s.k.runq) || decide (f ∈ s.k.timerq)
               handlerKilled := s.handlerKilled || decide (f = HANDLER)
               mpc := .idle }
  | .pass1 =>
    match s.k.current with
    | none => afterUpdate s
    | some c =>                                        -- update_current_state
      match s.k.state with
      | .yielded => { s with mpc := .recv (.pass2 c) }   -- fibre_run(kernel.current): handle_atomic_runq first
      | .failed => { s with mpc := .taintF }
      | .exited => afterUpdate { s with k := { s.k with priv := upd s.k.priv c 0 } }
      | .waiting => afterUpdate s
  | .pass2 c => afterUpdate { s with k := makeRunnable s.k c }
  | .brun g => bodyStep (brunPre s g)
  | .bkill g => bodyStep (bkillPre s g)

/-- `get_next_wakeup` once `messageq_empty(&kernel.atomic_runq)` returned `e` -/
def wakeValue (k : K) (e : Bool) : BitVec 32 :=
  if e = false ∨ k.runq ≠ [] then k.now
  else match k.timerq with
    | [] => k.now + 0x7fffffff#32
    | f :: _ => k.due f

/-- the next atomic operation of the main context -/
def mainAtomic (s : S) : S :=
  match s.mpc with
  | .fast => tok .look (emit .looked { s with mpc := .fastDone (mqEmpty s.aq) })
  | .recv c => { s with aq := mqStep s.aq (.recv false), mpc := .recvd c }
  | .rel c => { s with aq := mqStep s.aq (.recv false), mpc := .reld c }
  | .taintF => { s with taint := s.taint ||| 32#32, mpc := .taintFd }              -- 1 << ('F' - 'A')
  | .hRecv => { s with eq := mqStep s.eq (.recv false), mpc := .hRecvd }
  | .hRel => { s with eq := mqStep s.eq (.recv false), mpc := .hReld }
  | .wake => tok .look (emit .looked { s with mpc := .woke (mqEmpty s.aq) })
  | _ => s

/-- `kernel.now = time` is done; the first three operands of the fast-path condition are plain reads -/
def startNext (s : S) : S :=
  if s.k.state ≠ .yielded ∨ s.k.runq ≠ [] ∨ s.k.timerq ≠ [] then { s with mpc := .recv .pass1 }
  else { s with mpc := .fast }

/-- the plain code at the entry of a main-context call -/
def startCall (s : S) : MCall → S
  | .next t => startNext (tok .passBegin (emit .passBegin { s with k := { s.k with now := t }, drainFrom := s.aq.received }))
  | .run f => { s with mpc := .recv (.run f), drainFrom := s.aq.received }
  | .kill f => { s with mpc := .recv (.kill f), drainFrom := s.aq.received }

/-- `PT_INIT(&kernel.current->priv)` -/
def resetPriv (s : S) : S :=
  match s.k.current with
  | some c => { s with k := { s.k with priv := upd s.k.priv c 0 } }
  | none => s

/-- the plain code of the main context up to its next atomic operation (or to the return of the call) -/
def mainPlain (s : S) : S :=
  match s.mpc with
  | .start c => startCall s c
  | .fastDone e => if e then dispatch s else { s with mpc := .recv .pass1 }
  | .recvd c =>
    match s.aq.recv with
    | .hold sl _ =>      -- make_runnable(*f)
      { s with aq := mqStep s.aq (.recv false), k := makeRunnable s.k (s.aq.payload sl.toNat), mpc := .rel c }
    | _ => afterDrain s c
  | .reld c => { s with mpc := .recv c }
  | .taintFd => afterUpdate (resetPriv s)
  | .hRecvd =>
    match s.eq.recv with
    | .hold sl _ =>      -- process(e): read the stamp
      tok (.proc (s.eq.payload sl.toNat)) (emit (.evProcessed (s.eq.payload sl.toNat))
        { s with eq := mqStep s.eq (.recv false), mpc := .hRel, evlog := s.evlog ++ [s.eq.payload sl.toNat] })
    | _ => returned s .waiting       -- PT_WAIT_UNTIL: nothing there
  | .hReld => { s with mpc := .hRecv }
  | .woke e => finishPass s (wakeValue s.k e)
  | _ => s

/-! ## executions: calls with interrupt scripts -/

/-- a gap: atomic operation number `k` of the interrupted call, `false` = immediately before it, `true` = after it -/
abbrev Point := Nat × Bool

def noGap : Point → S → S := fun _ s => s

/-- run the current call of sender `i` to its return; `gap` is what happens at its gaps -/
def runSender (gap : Point → S → S) (i : Nat) (c : ICall) : Nat → Nat → S → S
  | 0, _, s => tok .hang { s with hung := true }
  | fuel + 1, k, s =>
    let s1 := senderPlain i s
    match s1.ipc i with
    | .idle => tok (.done i c (s1.ires i) k) s1
    | _ => runSender gap i c fuel (k + 1) (gap (k, true) (senderAtomic i (gap (k, false) s1)))

def SENDER_FUEL : Nat := 400

def enterSender (i : Nat) (c : ICall) (s : S) : S :=
  { s with ipc := upd s.ipc i (startPc c), ires := upd s.ires i .pending, fired := s.fired + 1 }

/-- sender `i` performs the call `c` (a context that is still inside a call — only possible after the fuel of an
    earlier run was exhausted — cannot enter another one: the history is cut, `hung`) -/
def callSender (gap : Point → S → S) (i : Nat) (c : ICall) (s : S) : S :=
  match s.ipc i with
  | .idle => runSender gap i c SENDER_FUEL 0 (enterSender i c s)
  | _ => tok .hang { s with hung := true }

def runMain (gap : Point → S → S) (c : MCall) : Nat → Nat → S → S
  | 0, _, s => tok .hang { s with hung := true }
  | fuel + 1, k, s =>
    let s1 := mainPlain s
    match s1.mpc with
    | .idle => tok (.mret c s1.k.current s1.lastWake s1.lastBool k) { s1 with nops := k }
    | _ => runMain gap c fuel (k + 1) (gap (k, true) (mainAtomic (gap (k, false) s1)))

def MAIN_FUEL : Nat := 4000

/-- the main context performs the call `c` -/
def enterMain (c : MCall) (s : S) : S := { s with mpc := .start c, dispatchedNow := false, fired := s.fired + 1 }

def callMain (gap : Point → S → S) (c : MCall) (s : S) : S :=
  match s.mpc with
  | .idle => runMain gap c MAIN_FUEL 0 (enterMain c s)
  | _ => tok .hang { s with hung := true }

/-- an interrupt-context call with the handlers nested inside it -/
structure Isr where
  call : ICall
  nested : List (Point × ICall) := []
  deriving Repr

abbrev Script := List (Point × Isr)

def nestedGap (nested : List (Point × ICall)) : Point → S → S :=
  fun p s => (nested.filter (fun e => e.1 = p)).foldl (fun s e => callSender noGap 1 e.2 s) s

def runIsr (s : S) (e : Isr) : S := callSender (nestedGap e.nested) 0 e.call s

def isrGap (script : Script) : Point → S → S :=
  fun p s => (script.filter (fun e => e.1 = p)).foldl (fun s e => runIsr s e.2) s

/-- a main-context call with its interrupt script -/
structure MItem where
  call : MCall
  script : Script := []
  /-- what the dispatched fibre does if it is a scripted one -/
  body : List BCall := []
  bret : Ret := .waiting
  deriving Repr

def runMItem (s : S) (m : MItem) : S := callMain (isrGap m.script) m.call { s with bscript := m.body, bret := m.bret }

def threadGap (script : List (Point × MItem)) : Point → S → S :=
  fun p s => (script.filter (fun e => e.1 = p)).foldl (fun s e => runMItem s e.2) s

/-- the quiescent run: no more yields, passes at the current time until one is idle (at most `n`) -/
def quiesceLoop : Nat → S → S
  | 0, s => s
  | n + 1, s =>
    let s1 := callMain noGap (.next s.k.now) s
    if s1.dispatchedNow then quiesceLoop n s1 else s1

inductive Item
  /-- a main-context call, interrupted as scripted -/
  | main (m : MItem)
  /-- an interrupt between two main-context calls -/
  | isr (e : Isr)
  /-- a sender on another thread: the main context executes whole (interrupted) calls at its gaps -/
  | thread (c : ICall) (script : List (Point × MItem))
  | quiesce
  deriving Repr

def runItem (s : S) (it : Item) : S :=
  let s := { s with trace := [], fired := 0 }
  match it with
  | .main m => runMItem s m
  | .isr e => runIsr s e
  | .thread c script => emit .threadEnd (callSender (threadGap script) 2 c (tok .threadBegin (emit .threadBegin s)))
  | .quiesce => quiesceLoop 64 { ({ s with budget := fun _ => 0 } : S) with bscript := [], bret := .waiting }

/-- number of scripted calls of an item (to report the ones whose gap never came up) -/
def Isr.size (e : Isr) : Nat := 1 + e.nested.length
def MItem.size (m : MItem) : Nat := 1 + (m.script.map (fun e => e.2.size)).sum
def Item.size : Item → Nat
  | .main m => m.size
  | .isr e => e.size
  | .thread _ script => 1 + (script.map (fun e => e.2.size)).sum
  | .quiesce => 0

def runHistory (s : S) (h : List Item) : S := h.foldl runItem s

end Librfn.Model.FibreIsr

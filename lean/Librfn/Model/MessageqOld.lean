import Librfn.Model.Messageq
/-! HISTORICAL interleaving model of `messageq_claim` as it was BEFORE fix 6099fe4: an optimistic
`atomic_fetch_sub(&mq->num_free, 1)`, undone by `atomic_fetch_add` when the value read was not positive, followed by the
(unchanged) load / compare-exchange loop on `sendp`.

`signedRead = false`: `int num_free = atomic_fetch_sub(..)` on the `atomic_uchar` (before fix d97db7e; defect D2);
`signedRead = true` : `int num_free = (signed char) atomic_fetch_sub(..)` (d97db7e … 6099fe4; defect D12).

Only what the two witnesses in `Props/C04.lean` need is modelled: the counter, the send index and one program counter per
sender, at the granularity of one atomic operation per step; a sender that obtained a buffer keeps it.  No theorem about
the current code depends on this file. -/
namespace Librfn.Model.MessageqOld
open Librfn.Model.Messageq (granted nextSend)

inductive Pc where
  | idle                        -- next: fetch_sub
  | failed                      -- fetch_sub read a value ≤ 0; next: fetch_add, return NULL
  | gotPerm                     -- next: load sendp
  | loaded (v : BitVec 8)       -- next: compare-exchange on sendp
  | hasSlot (slot : BitVec 8)   -- claim returned this slot; the sender keeps it
  deriving DecidableEq, Repr

structure St where
  signedRead : Bool
  qlen : BitVec 8
  numFree : BitVec 8
  sendp : BitVec 8
  senders : List Pc
  deriving DecidableEq, Repr

/-- after `messageq_init` with `n` idle senders -/
def init (signedRead : Bool) (depth n : Nat) : St :=
  ⟨signedRead, BitVec.ofNat 8 depth, BitVec.ofNat 8 depth, 0, List.replicate n .idle⟩

/-- one atomic operation of sender `i` -/
def step (s : St) (i : Nat) : St :=
  match s.senders[i]? with
  | none => s
  | some .idle =>
    { s with numFree := s.numFree - 1
             senders := s.senders.set i (if granted s.signedRead s.numFree then .gotPerm else .failed) }
  | some .failed => { s with numFree := s.numFree + 1, senders := s.senders.set i .idle }
  | some .gotPerm => { s with senders := s.senders.set i (.loaded s.sendp) }
  | some (.loaded v) =>
    if v = s.sendp then { s with sendp := nextSend s.qlen v, senders := s.senders.set i (.hasSlot v) }
    else { s with senders := s.senders.set i (.loaded s.sendp) }
  | some (.hasSlot _) => s

def run (s : St) (sched : List Nat) : St := sched.foldl step s

/-- the slot sender `i` owns -/
def holds (s : St) (i : Nat) : Option (BitVec 8) :=
  match s.senders[i]? with
  | some (.hasSlot sl) => some sl
  | _ => none

end Librfn.Model.MessageqOld

/-! Executable model of `librfn/bintree.c` (hand-written, statement by statement; tied to the C by the
correspondence run of C11).

* A node pointer is `Option Nat` (`none` = NULL, `some i` = the node with id `i`).
* The heap maps a node id to its two link fields, or to `none` once the node has been handed to the
  deallocator (or was never allocated).  **Every read or write of such a node is an error result**
  (`Err.dead`), never a value.
* The `left` field is the pair (`left`, `tag`): pointer bits and the low bit that the post-order
  iterator uses as its "not yet visited" mark.  That they are independent components is the model's
  form of the assumption that nodes are at least 2-byte aligned.  Loading a tagged field into a
  pointer that the C code then dereferences is the error `Err.misaligned`.
* Every C loop takes fuel; running out is the error `Err.fuel` (the model's "does not terminate").
  `Librfn.C11` proves that `2·size + 2` suffices on every well-formed tree.
-/
namespace Librfn.Model.Bintree

abbrev Ptr := Option Nat

/-- `bintree_node_t`; the raw value of the C field `left` is the pair (`left`, `tag`) -/
structure Node where
  left : Ptr
  tag : Bool
  right : Ptr
  deriving DecidableEq, Inhabited

abbrev Heap := Nat → Option Node

inductive Err where
  | dead (n : Nat)     -- a node was accessed after deallocation (or was never allocated)
  | misaligned         -- a tagged `left` value was used as a node pointer
  | null               -- NULL was dereferenced
  | fuel               -- a loop did not finish within its fuel
  deriving DecidableEq, Inhabited

/-- which `next` function the iterator holds -/
inductive Kind where
  | inOrder | preOrder | postOrder | listLeft | listRight
  deriving DecidableEq, Inhabited

/-- `bintree_iterator_t` (the `filter` member is the model-wide parameter `isList`) -/
structure Iter where
  next : Kind
  curr : Ptr
  parent : Ptr
  deriving DecidableEq, Inhabited

/-- result of one iterator call: returned node, heap afterwards, iterator afterwards -/
abbrev Res := Except Err (Ptr × Heap × Iter)

/-- store to a field of node `p` (the callers have just read `p`, so it is live) -/
def upd (h : Heap) (p : Nat) (f : Node → Node) : Heap :=
  fun i => if i = p then (h i).map f else h i

def setRight (h : Heap) (p : Nat) (v : Ptr) : Heap := upd h p (fun n => { n with right := v })
def setTag (h : Heap) (p : Nat) (b : Bool) : Heap := upd h p (fun n => { n with tag := b })
def setLeftRaw (h : Heap) (p : Nat) (v : Ptr) (b : Bool) : Heap := upd h p (fun n => { n with left := v, tag := b })

/-- the deallocator really frees: the node is dead from now on -/
def kill (h : Heap) (p : Nat) : Heap := fun i => if i = p then none else h i

/-! ### in_order_iterator / pre_order_iterator (bintree.c:130-172, 313-355) -/

/-- `while (prev->right != NULL && prev->right != curr) prev = prev->right;` — returns the final `prev` -/
def findPred : Nat → Heap → Nat → Nat → Except Err Nat
  | 0, _, _, _ => .error .fuel
  | f + 1, h, c, p =>
    match h p with
    | none => .error (.dead p)
    | some n =>
      match n.right with
      | none => .ok p
      | some q => if q = c then .ok p else findPred f h c q

/-- what one run of an iterator's loop hands back: the node returned to the caller, the heap, and the
    value stored into `iter->curr` on the way out -/
abbrev LoopRes := Except Err (Ptr × Heap × Ptr)

/-- the `while (curr)` loop of `in_order_iterator`; `g` is the fuel of the inner loop -/
def inOrderLoop (g : Nat) : Nat → Heap → Ptr → LoopRes
  | 0, _, _ => .error .fuel
  | _ + 1, h, none => .ok (none, h, none)                                  -- iter->curr = NULL; return NULL
  | f + 1, h, some c =>
    match h c with
    | none => .error (.dead c)
    | some n =>
      match n.left, n.tag with
      | none, false => .ok (some c, h, n.right)                            -- curr->left == NULL: iter->curr = curr->right; return curr
      | _, true => .error .misaligned                                     -- prev = curr->left; prev->right
      | some l, false =>
        match findPred g h c l with
        | .error e => .error e
        | .ok prev =>
          match h prev with
          | none => .error (.dead prev)
          | some pn =>
            match pn.right with
            | none =>
              -- prev->right = curr; curr = curr->left;   (a store to a `right` field cannot change `curr->left`)
              inOrderLoop g f (setRight h prev (some c)) (some l)
            | some _ =>
              -- prev->right = NULL; iter->curr = curr->right; return curr;
              match setRight h prev none c with
              | none => .error (.dead c)
              | some n1 => .ok (some c, setRight h prev none, n1.right)

/-- `in_order_iterator`: `curr = iter->curr` on entry, `iter->curr = …` on every way out -/
def inOrderIterator (g : Nat) (h : Heap) (it : Iter) : Res :=
  match inOrderLoop g g h it.curr with
  | .error e => .error e
  | .ok (r, h1, c1) => .ok (r, h1, { it with curr := c1 })

/-- `bintree_iterate_in_order` -/
def iterateInOrder (g : Nat) (h : Heap) (it : Iter) (tree : Ptr) : Res :=
  inOrderIterator g h { it with next := .inOrder, curr := tree }

/-- the `while (curr)` loop of `pre_order_iterator` -/
def preOrderLoop (g : Nat) : Nat → Heap → Ptr → LoopRes
  | 0, _, _ => .error .fuel
  | _ + 1, h, none => .ok (none, h, none)
  | f + 1, h, some c =>
    match h c with
    | none => .error (.dead c)
    | some n =>
      match n.left, n.tag with
      | none, false => .ok (some c, h, n.right)
      | _, true => .error .misaligned
      | some l, false =>
        match findPred g h c l with
        | .error e => .error e
        | .ok prev =>
          match h prev with
          | none => .error (.dead prev)
          | some pn =>
            if pn.right = some c then
              -- prev->right = NULL; curr = curr->right;
              match setRight h prev none c with
              | none => .error (.dead c)
              | some n1 => preOrderLoop g f (setRight h prev none) n1.right
            else
              -- prev->right = curr; iter->curr = curr->left; return curr;
              .ok (some c, setRight h prev (some c), some l)

def preOrderIterator (g : Nat) (h : Heap) (it : Iter) : Res :=
  match preOrderLoop g g h it.curr with
  | .error e => .error e
  | .ok (r, h1, c1) => .ok (r, h1, { it with curr := c1 })

/-- `bintree_iterate_pre_order` -/
def iteratePreOrder (g : Nat) (h : Heap) (it : Iter) (tree : Ptr) : Res :=
  preOrderIterator g h { it with next := .preOrder, curr := tree }

/-! ### post_order_iterator (bintree.c:237-280) -/

/-- `p && is_visited(p) == false` for an (untagged) pointer `p` -/
def unvisited (h : Heap) : Ptr → Except Err Bool
  | none => .ok false
  | some p =>
    match h p with
    | none => .error (.dead p)
    | some n => .ok n.tag

/-- the `while (tmp && is_visited(tmp) == false)` loop; arguments `tmp`, `prev`.  Hands back `none` for
    `return NULL`, or the node that is unmarked and returned together with the value stored into `iter->parent` -/
def postOrderLoop : Nat → Heap → Ptr → Ptr → Except Err (Option (Nat × Ptr) × Heap)
  | 0, _, _, _ => .error .fuel
  | _ + 1, h, none, _ => .ok (none, h)
  | f + 1, h, some tmp, prev =>
    match h tmp with
    | none => .error (.dead tmp)
    | some n =>
      if n.tag = false then .ok (none, h)                    -- is_visited(tmp): the loop ends, return NULL
      else
        -- left = tmp->left & ~1
        match unvisited h n.left with
        | .error e => .error e
        | .ok true => postOrderLoop f h n.left (some tmp)
        | .ok false =>
          match unvisited h n.right with
          | .error e => .error e
          | .ok true => postOrderLoop f h n.right (some tmp)
          | .ok false => .ok (some (tmp, prev), setTag h tmp false)       -- tmp->left &= ~1; …; return tmp

/-- `post_order_iterator`: on the way out with a node, `if (tmp == iter->curr) iter->curr = NULL;
    iter->parent = prev;` -/
def postOrderIterator (g : Nat) (h : Heap) (it : Iter) : Res :=
  match postOrderLoop g h it.curr none with
  | .error e => .error e
  | .ok (none, h1) => .ok (none, h1, it)
  | .ok (some (tmp, prev), h1) =>
    .ok (some tmp, h1, { it with curr := if it.curr = some tmp then none else it.curr, parent := prev })

/-! ### list iterators (bintree.c:174-235); `isList` is the caller's `is_list` callback -/

/-- calling the `is_list` callback on a pointer: the callback inspects the node (NULL is "not a list") -/
def callFilter (isList : Nat → Bool) (h : Heap) : Ptr → Except Err Bool
  | none => .ok false
  | some p =>
    match h p with
    | none => .error (.dead p)
    | some _ => .ok (isList p)

/-- `while (parent->left != curr) parent = parent->left;` -/
def listLeftWalk : Nat → Heap → Nat → Nat → Except Err Nat
  | 0, _, _, _ => .error .fuel
  | f + 1, h, parent, c =>
    match h parent with
    | none => .error (.dead parent)
    | some n =>
      match n.left, n.tag with
      | _, true => .error .misaligned
      | none, false => .error .null
      | some q, false => if q = c then .ok parent else listLeftWalk f h q c

def listLeftIterator (g : Nat) (h : Heap) (it : Iter) : Res :=
  match it.curr with
  | none => .ok (none, h, it)                                       -- already at end
  | some c =>
    if it.parent = some c then                                      -- one from end
      match h c with
      | none => .error (.dead c)
      | some n => .ok (n.right, h, { it with curr := none })
    else
      match it.parent with
      | none => .error .null
      | some p =>
        match listLeftWalk g h p c with
        | .error e => .error e
        | .ok p' =>
          match h c with
          | none => .error (.dead c)
          | some n => .ok (n.right, h, { it with curr := some p' })

def listRightIterator (isList : Nat → Bool) (h : Heap) (it : Iter) : Res :=
  match it.curr with
  | none => .ok (none, h, { it with curr := none })
  | some c =>
    match callFilter isList h (some c) with
    | .error e => .error e
    | .ok false => .ok (some c, h, { it with curr := none })
    | .ok true =>
      match h c with
      | none => .error (.dead c)
      | some n => if n.tag then .error .misaligned else .ok (n.left, h, { it with curr := n.right })

/-- `do { tree = tree->left; } while (is_list(tree->left));` — returns the final `tree` -/
def listDescend (isList : Nat → Bool) : Nat → Heap → Nat → Except Err Nat
  | 0, _, _ => .error .fuel
  | f + 1, h, tree =>
    match h tree with
    | none => .error (.dead tree)
    | some n =>
      match n.left, n.tag with
      | _, true => .error .misaligned
      | none, false => .error .null
      | some l, false =>
        match h l with
        | none => .error (.dead l)
        | some ln =>
          if ln.tag then .error .misaligned
          else
            match callFilter isList h ln.left with
            | .error e => .error e
            | .ok true => listDescend isList f h l
            | .ok false => .ok l

/-- `bintree_iterate_list` -/
def iterateList (isList : Nat → Bool) (g : Nat) (h : Heap) (it : Iter) (tree : Ptr) : Res :=
  let right : Res := listRightIterator isList h { it with next := .listRight, curr := tree }
  match callFilter isList h tree with
  | .error e => .error e
  | .ok false => right
  | .ok true =>
    match tree with
    | none => right
    | some t =>
      match h t with
      | none => .error (.dead t)
      | some n =>
        match n.left, n.tag with
        | none, false => right                       -- tree->left == NULL
        | _, true => .error .misaligned              -- is_list(tree->left) on a tagged value
        | some l, false =>
          match callFilter isList h (some l) with
          | .error e => .error e
          | .ok false => right
          | .ok true =>
            match listDescend isList g h t with
            | .error e => .error e
            | .ok d =>
              match h d with
              | none => .error (.dead d)
              | some dn =>
                if dn.tag then .error .misaligned
                else .ok (dn.left, h, { it with next := .listLeft, parent := some t, curr := some d })

/-! ### bintree_next, bintree_iterate_post_order, bintree_free -/

/-- `bintree_next`: `iter->next(iter)` -/
def next (isList : Nat → Bool) (g : Nat) (h : Heap) (it : Iter) : Res :=
  match it.next with
  | .inOrder => inOrderIterator g h it
  | .preOrder => preOrderIterator g h it
  | .postOrder => postOrderIterator g h it
  | .listLeft => listLeftIterator g h it
  | .listRight => listRightIterator isList h it

/-- `for (curr = bintree_iterate_in_order(iter, tree); curr; curr = bintree_next(iter)) curr->left |= 1;`
    from the loop test on -/
def tagLoop (isList : Nat → Bool) (g : Nat) : Nat → Heap → Iter → Ptr → Except Err (Heap × Iter)
  | 0, _, _, _ => .error .fuel
  | _ + 1, h, it, none => .ok (h, it)
  | f + 1, h, it, some c =>
    match h c with
    | none => .error (.dead c)
    | some _ =>
      match next isList g (setTag h c true) it with
      | .error e => .error e
      | .ok (r, h1, it1) => tagLoop isList g f h1 it1 r

/-- `bintree_iterate_post_order` -/
def iteratePostOrder (isList : Nat → Bool) (g : Nat) (h : Heap) (it : Iter) (tree : Ptr) : Res :=
  match iterateInOrder g h it tree with
  | .error e => .error e
  | .ok (r, h1, it1) =>
    match tagLoop isList g g h1 it1 r with
    | .error e => .error e
    | .ok (h2, it2) => postOrderIterator g h2 { it2 with next := .postOrder, curr := tree }

/-- `if (iter.parent) { if (iter.parent->right == n) iter.parent->right = NULL; else iter.parent->left = (bintree_node_t *) 1; }` -/
def patchParent (h : Heap) (parent : Ptr) (n : Nat) : Except Err Heap :=
  match parent with
  | none => .ok h
  | some p =>
    match h p with
    | none => .error (.dead p)
    | some pn => if pn.right = some n then .ok (setRight h p none) else .ok (setLeftRaw h p none true)

/-- the body and continuation of the `for` loop of `bintree_free`, from the loop test on; the
    deallocator log is accumulated in `log` -/
def freeLoop (isList : Nat → Bool) (g : Nat) : Nat → Heap → Iter → Ptr → List Nat → Except Err (Heap × List Nat)
  | 0, _, _, _, _ => .error .fuel
  | _ + 1, h, _, none, log => .ok (h, log)
  | f + 1, h, it, some n, log =>
    -- dealloc(n): the deallocator is handed a live node (anything else is a double free) and really frees it
    match h n with
    | none => .error (.dead n)
    | some _ =>
      match patchParent (kill h n) it.parent n with
      | .error e => .error e
      | .ok h2 =>
        match next isList g h2 it with
        | .error e => .error e
        | .ok (r, h3, it3) => freeLoop isList g f h3 it3 r (log ++ [n])

/-- `bintree_free`: returns the heap and the sequence of nodes passed to the deallocator; `it0` is the
    uninitialised stack iterator -/
def free (isList : Nat → Bool) (g : Nat) (h : Heap) (it0 : Iter) (tree : Ptr) : Except Err (Heap × List Nat) :=
  match iteratePostOrder isList g h it0 tree with
  | .error e => .error e
  | .ok (r, h1, it1) => freeLoop isList g g h1 it1 r []

/-- `bintree_free_left` -/
def freeLeft (isList : Nat → Bool) (g : Nat) (h : Heap) (it0 : Iter) (tree : Nat) : Except Err (Heap × List Nat) :=
  match h tree with
  | none => .error (.dead tree)
  | some n =>
    match n.left, n.tag with
    | none, false => .ok (h, [])
    | _, true => .error .misaligned
    | some l, false =>
      match free isList g h it0 (some l) with
      | .error e => .error e
      | .ok (h1, log) =>
        match h1 tree with
        | none => .error (.dead tree)
        | some _ => .ok (setLeftRaw h1 tree none false, log)

/-- `bintree_free_right` -/
def freeRight (isList : Nat → Bool) (g : Nat) (h : Heap) (it0 : Iter) (tree : Nat) : Except Err (Heap × List Nat) :=
  match h tree with
  | none => .error (.dead tree)
  | some n =>
    match n.right with
    | none => .ok (h, [])
    | some r =>
      match free isList g h it0 (some r) with
      | .error e => .error e
      | .ok (h1, log) =>
        match h1 tree with
        | none => .error (.dead tree)
        | some _ => .ok (setRight h1 tree none, log)

/-! ### the caller's loop `for (n = bintree_iterate_X(&it, tree); n; n = bintree_next(&it))` -/

/-- collect the nodes returned from `r` on until NULL; `calls` bounds the number of `bintree_next` calls.
    Each entry is the pair (node, `iter.parent` as the caller sees it at that visit); `iter.parent` is
    meaningful for post-order only. -/
def drain (isList : Nat → Bool) (g : Nat) : Nat → Heap → Iter → Ptr → Except Err (List (Nat × Ptr) × Heap × Iter)
  | 0, _, _, _ => .error .fuel
  | _ + 1, h, it, none => .ok ([], h, it)
  | calls + 1, h, it, some n =>
    match next isList g h it with
    | .error e => .error e
    | .ok (r, h1, it1) =>
      match drain isList g calls h1 it1 r with
      | .error e => .error e
      | .ok (out, h2, it2) => .ok ((n, it.parent) :: out, h2, it2)

inductive Order where
  | inOrder | preOrder | postOrder | list
  deriving DecidableEq, Inhabited

def iterate (isList : Nat → Bool) (g : Nat) (o : Order) (h : Heap) (it : Iter) (tree : Ptr) : Res :=
  match o with
  | .inOrder => iterateInOrder g h it tree
  | .preOrder => iteratePreOrder g h it tree
  | .postOrder => iteratePostOrder isList g h it tree
  | .list => iterateList isList g h it tree

/-- iterate to completion: the visit sequence (with `iter.parent` as seen at each visit) and the final heap -/
def iterateAll (isList : Nat → Bool) (g : Nat) (o : Order) (h : Heap) (it0 : Iter) (tree : Ptr) :
    Except Err (List (Nat × Ptr) × Heap × Iter) :=
  match iterate isList g o h it0 tree with
  | .error e => .error e
  | .ok (r, h1, it1) => drain isList g g h1 it1 r

/-! ### the recursive traversals of bintree.c:23-97 (the C recursion bounded by `fuel` = depth) -/

def travIn : Nat → Heap → Ptr → Except Err (List Nat)
  | 0, _, _ => .error .fuel
  | _ + 1, _, none => .ok []
  | f + 1, h, some p =>
    match h p with
    | none => .error (.dead p)
    | some n =>
      if n.tag then .error .misaligned else
      match travIn f h n.left with
      | .error e => .error e
      | .ok a => match travIn f h n.right with
        | .error e => .error e
        | .ok b => .ok (a ++ p :: b)

def travPre : Nat → Heap → Ptr → Except Err (List Nat)
  | 0, _, _ => .error .fuel
  | _ + 1, _, none => .ok []
  | f + 1, h, some p =>
    match h p with
    | none => .error (.dead p)
    | some n =>
      if n.tag then .error .misaligned else
      match travPre f h n.left with
      | .error e => .error e
      | .ok a => match travPre f h n.right with
        | .error e => .error e
        | .ok b => .ok (p :: a ++ b)

def travPost : Nat → Heap → Ptr → Except Err (List Nat)
  | 0, _, _ => .error .fuel
  | _ + 1, _, none => .ok []
  | f + 1, h, some p =>
    match h p with
    | none => .error (.dead p)
    | some n =>
      if n.tag then .error .misaligned else
      match travPost f h n.left with
      | .error e => .error e
      | .ok a => match travPost f h n.right with
        | .error e => .error e
        | .ok b => .ok (a ++ b ++ [p])

/-- `bintree_traverse_list` -/
def travList (isList : Nat → Bool) : Nat → Heap → Ptr → Except Err (List Nat)
  | 0, _, _ => .error .fuel
  | _ + 1, _, none => .ok []
  | f + 1, h, some p =>
    match h p with
    | none => .error (.dead p)
    | some n =>
      if isList p then
        if n.tag then .error .misaligned else
        match travList isList f h n.left with
        | .error e => .error e
        | .ok a => match travList isList f h n.right with
          | .error e => .error e
          | .ok b => .ok (a ++ b)
      else .ok [p]

end Librfn.Model.Bintree

/-! Executable model of `librfn/hex.c` (hand-written; tied to the C by the correspondence run of C18).

A C string is modelled by the list of its bytes; the terminating NUL is **explicit** in the accessors:
index `length` reads as 0 and every index beyond it is the error result `.oob` (a 0 byte inside the
list terminates the string in the same way, so the model is faithful for every byte list, not only
for lists without zeros).  A `const char *` into the string is the suffix it points at (`[]` = it
points at the NUL); `NULL` is `none`.  All reads (`rd`) and all pointer steps (`adv`) are checked.
`char` is signed on the modelled platform (x86-64, gcc); `nibble`/`hexchar` are transcribed for all
256 values and the harness compares them, and libc's `isspace`/`isxdigit`, with the real ones. -/
namespace Librfn.Model.Hex

abbrev Str := List UInt8

/-- result of a checked access -/
inductive R (α : Type) where
  | ok (a : α)
  | oob                                   -- beyond the terminating NUL
  deriving Repr, DecidableEq

/-- `s[k]` -/
def rd : Str → Nat → R UInt8
  | [], 0 => .ok 0                        -- the NUL itself
  | [], _ + 1 => .oob
  | c :: _, 0 => .ok c
  | c :: t, k + 1 => if c = 0 then .oob else rd t k

/-- `s + k` (a pointer may be moved up to the NUL, not past it) -/
def adv : Str → Nat → R Str
  | s, 0 => .ok s
  | [], _ + 1 => .oob
  | c :: t, k + 1 => if c = 0 then .oob else adv t k

/-- libc `isspace((int) c)` in the C locale, `c` a (signed) `char`: space, \t \n \v \f \r -/
def isSpace (c : UInt8) : Bool := c = 32 || (9 ≤ c && c ≤ 13)

/-- libc `isxdigit((int) c)` in the C locale -/
def isXDigit (c : UInt8) : Bool := (48 ≤ c && c ≤ 57) || (65 ≤ c && c ≤ 70) || (97 ≤ c && c ≤ 102)

/-- libc `strchr(s, ch)`: the suffix starting at the first `ch`, `none` = NULL; the search ends at the NUL
    (which itself matches `ch = 0`) -/
def strchr (ch : UInt8) : Str → Option Str
  | [] => if ch = 0 then some [] else none
  | c :: t => if c = ch then some (c :: t) else if c = 0 then none else strchr ch t

/-- `static inline char hexchar(char h)`: `h < 10 ? '0' + h : 'a' - 10 + h`, the `int` result converted
    back to `char` (mod 256).  A byte ≥ 128 is a negative `char`, hence `< 10`. -/
def hexchar (h : UInt8) : UInt8 := if h < 10 ∨ 128 ≤ h then 48 + h else 87 + h

/-- `static inline int nibble(char h)`: `h <= '9' ? h - '0' : (h & ~('a' - 'A')) - 'A' + 10` on the signed
    value of `h` -/
def nibble (h : UInt8) : Int :=
  if 128 ≤ h then (h.toNat : Int) - 256 - 48
  else if h ≤ 57 then (h.toNat : Int) - 48
  else ((h &&& 0xDF).toNat : Int) - 65 + 10

/-- `16 * nibble(a) | nibble(b)`.  Core Lean has no bitwise or on `Int`; the expression is only evaluated
    after `isxdigit` accepted both characters, where both operands are natural numbers
    (`Lemmas.Hex.nibble_xdigit`), so it is computed on `Nat`. -/
def byteVal (a b : UInt8) : Int := (((16 * nibble a).toNat ||| (nibble b).toNat : Nat) : Int)

/-! ### hex_dump_to_file -/

/-- inner loop `for (i = 0; i < 16 && sz > 0; i++, sz--, p++) fprintf(f, "%c%c", …)`; the first argument is
    `16 - i`.  Returns the characters written and the bytes left. -/
def dumpRow : Nat → List UInt8 → Str × List UInt8
  | 0, bs => ([], bs)
  | _ + 1, [] => ([], [])
  | n + 1, b :: bs =>
    let r := dumpRow n bs
    (hexchar (b >>> 4) :: hexchar (b &&& 0xf) :: r.1, r.2)

/-- outer loop `while (sz > 0) { row; fprintf(f, "\n"); }` with fuel; `none` = fuel exhausted
    (`C18.dump_format` shows it never is when the fuel is the number of bytes) -/
def dumpLoop : Nat → List UInt8 → Option Str
  | _, [] => some []
  | 0, _ :: _ => none
  | f + 1, b :: bs =>
    let r := dumpRow 16 (b :: bs)
    match dumpLoop f r.2 with
    | none => none
    | some rest => some (r.1 ++ 10 :: rest)

/-- the text `hex_dump_to_file(f, p, sz)` writes -/
def dump (bs : List UInt8) : Option Str := dumpLoop bs.length bs

/-! ### hex_get_byte -/

/-- outcome of one call -/
inductive Out where
  | byte (v : Int) (p : Str)              -- returns `v`, `*p` = `p`
  | done                                  -- returns -1, `*p` = NULL
  | oob                                   -- a read or pointer step beyond the NUL
  | nofuel                                -- model artefact: recursion budget exhausted (`C18.parser_safe`: never)
  deriving Repr, DecidableEq

/-- `char *q = strchr(s, ':'); if (q) s = q+1;` -/
def skipColon (s : Str) : R Str :=
  match strchr 58 s with
  | some q => adv q 1
  | none => .ok s

/-- `if ('0' == s[0] && 'x' == s[1]) s += 2;` — `s[1]` is read only when `s[0]` is `'0'` -/
def skip0x (s : Str) : R Str :=
  match rd s 0 with
  | .oob => .oob
  | .ok c0 =>
    if c0 = 48 then
      match rd s 1 with
      | .oob => .oob
      | .ok c1 => if c1 = 120 then adv s 2 else .ok s
    else .ok s

/-- `if (isxdigit(s[0]) && isxdigit(s[1])) { *p = s + 2; return 16 * nibble(s[0]) | nibble(s[1]); }`
    — `some (value, s+2)` when taken; `s[1]` is read only when `s[0]` is a hex digit -/
def pair (s : Str) : R (Option (Int × Str)) :=
  match rd s 0 with
  | .oob => .oob
  | .ok a =>
    if isXDigit a then
      match rd s 1 with
      | .oob => .oob
      | .ok b =>
        if isXDigit b then
          match adv s 2 with
          | .oob => .oob
          | .ok p => .ok (some (byteVal a b, p))
        else .ok none
    else .ok none

/-- where one pass through the body of `hex_get_byte` ends: a `return`, or a jump (`goto next_line`
    with `nl = true`, the next iteration of the white-space loop with `nl = false`) on the rest `s` -/
inductive Step where
  | ret (o : Out)
  | jump (nl : Bool) (s : Str)
  deriving Repr, DecidableEq

/-- from the top of the white-space loop to the next jump or return -/
def body (s : Str) : Step :=
  match rd s 0 with
  | .oob => .ret .oob
  | .ok c =>
    if isSpace c then
      -- `while (isspace(*s)) if (*s++ == '\n') goto next_line;`
      match adv s 1 with
      | .oob => .ret .oob
      | .ok s' => .jump (c = 10) s'
    else
      match skip0x s with
      | .oob => .ret .oob
      | .ok s1 =>
        match pair s1 with
        | .oob => .ret .oob
        | .ok (some (v, p)) => .ret (.byte v p)
        | .ok none =>
          -- `s = *p = strchr(s, '\n'); if (s++) goto next_line; return -1;`
          match strchr 10 s1 with
          | none => .ret .done
          | some q =>
            match adv q 1 with
            | .oob => .ret .oob
            | .ok s' => .jump true s'

/-- from the label `next_line` (`nl = true`: `s` is not NULL, so the colon search runs first) or from the
    top of the white-space loop (`nl = false`: entry with `s = *p`, and every further loop iteration) -/
def step (nl : Bool) (s0 : Str) : Step :=
  match (if nl then skipColon s0 else .ok s0) with
  | .oob => .ret .oob
  | .ok s => body s

/-- The goto structure of `hex_get_byte` as a recursion: every `goto next_line` and every iteration of the
    white-space loop continues on a strictly shorter rest of the string (`Lemmas.Hex.step_spec`), so a budget
    larger than the remaining length is never exhausted (`Lemmas.Hex.scan_fuel`, `C18.parser_safe`). -/
def scan : Nat → Bool → Str → Out
  | 0, _, _ => .nofuel
  | fuel + 1, nl, s =>
    match step nl s with
    | .ret o => o
    | .jump nl' s' => scan fuel nl' s'

/-- one call `hex_get_byte(s, &p)`: `s = some _` is a non-NULL first argument, `s = none` is NULL with
    the current `*p` given by `p` -/
def getByte (s : Option Str) (p : Option Str) : Out :=
  match s with
  | some s => scan (s.length + 1) true s
  | none =>
    match p with
    | none => .done                       -- `s = *p; if (!s) return -1;`
    | some s => scan (s.length + 1) false s

/-- `*p` after a call -/
def ptrOf : Out → Option Str
  | .byte _ p => some p
  | _ => none

/-- the outcome of the next call in the calling style `again`:
    `false`: `hex_get_byte(NULL, &p)` (strtok style, the documented protocol);
    `true` : `hex_get_byte(p, &p)` (the style of tests/hextest.c) -/
def nextCall (again : Bool) (o : Out) : Out :=
  if again then getByte (ptrOf o) (ptrOf o) else getByte none (ptrOf o)

/-- outcomes of the first `n` calls on `text`: `hex_get_byte(text, &p)` then `n-1` further calls -/
def traceFrom (again : Bool) : Nat → Out → List Out
  | 0, _ => []
  | n + 1, o => o :: traceFrom again n (nextCall again o)

def trace (again : Bool) (n : Nat) (text : Str) : List Out := traceFrom again n (getByte (some text) none)

/-- the returned `int` -/
def retOf : Out → Option Int
  | .byte v _ => some v
  | .done => some (-1)
  | _ => none

end Librfn.Model.Hex

import Librfn.Driver.Messageq
/-! executable model driver for engine `messageq` (one executable per engine: see Driver/PureBits.lean) -/
def main (args : List String) : IO UInt32 := Librfn.Driver.Messageq.main args

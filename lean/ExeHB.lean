import Librfn.Driver.HB
/-! executable model driver for engine `hb` (one executable per engine: see Driver/PureBits.lean) -/
def main (args : List String) : IO UInt32 := Librfn.Driver.HB.main args

import Librfn.Driver.Console
/-! executable model driver for engine `console` (one executable per engine: see Driver/PureBits.lean) -/
def main (args : List String) : IO UInt32 := Librfn.Driver.Console.main args

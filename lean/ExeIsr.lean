import Librfn.Driver.Isr
/-! executable model driver for engine `isr` (one executable per engine: see Driver/PureBits.lean) -/
def main (args : List String) : IO UInt32 := Librfn.Driver.Isr.main args

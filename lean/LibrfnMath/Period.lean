import Mathlib.NumberTheory.LucasLehmer
import Mathlib.GroupTheory.OrderOfElement
import Mathlib.Tactic.ReduceModChar
import Mathlib.Data.ZMod.Basic
import Mathlib.Tactic.NormNum.Prime
import Librfn.Props.C17
/-!
# C17 (extension) — the generator has the full period 2^31 − 2

The only Mathlib user in the project; nothing the executable driver imports depends on it.
`2^31 − 1` is prime (Lucas–Lehmer), `16807` has multiplicative order `2^31 − 2` modulo it (its
`(p−1)/q`-th powers differ from 1 for every prime `q ∣ p − 1 = 2·3²·7·11·31·151·331`), hence by
`Librfn.C17.iterate_spec` the state returns to its start exactly at the multiples of `2^31 − 2`.
-/
namespace Librfn.C17

theorem p_prime : Nat.Prime 2147483647 := by
  have : (mersenne 31).Prime := lucas_lehmer_sufficiency _ (by norm_num) (by norm_num)
  simpa [mersenne] using this

instance : Fact (Nat.Prime 2147483647) := ⟨p_prime⟩

theorem prime_factors_of_pred (q : ℕ) (hq : q.Prime) (hd : q ∣ 2147483646) :
    q = 2 ∨ q = 3 ∨ q = 7 ∨ q = 11 ∨ q = 31 ∨ q = 151 ∨ q = 331 := by
  have e : 2147483646 = 2 * (3 * (3 * (7 * (11 * (31 * (151 * 331)))))) := by norm_num
  rw [e] at hd
  have step : ∀ {a b : ℕ}, a.Prime → q ∣ a * b → q = a ∨ q ∣ b := fun ha h =>
    (hq.dvd_mul.mp h).imp (fun h => (Nat.prime_dvd_prime_iff_eq hq ha).mp h) id
  rcases step (by norm_num) hd with h | hd; · exact Or.inl h
  rcases step (by norm_num) hd with h | hd; · exact Or.inr (Or.inl h)
  rcases step (by norm_num) hd with h | hd; · exact Or.inr (Or.inl h)
  rcases step (by norm_num) hd with h | hd; · exact Or.inr (Or.inr (Or.inl h))
  rcases step (by norm_num) hd with h | hd; · exact Or.inr (Or.inr (Or.inr (Or.inl h)))
  rcases step (by norm_num) hd with h | hd; · exact Or.inr (Or.inr (Or.inr (Or.inr (Or.inl h))))
  rcases step (by norm_num) hd with h | hd; · exact Or.inr (Or.inr (Or.inr (Or.inr (Or.inr (Or.inl h)))))
  exact Or.inr (Or.inr (Or.inr (Or.inr (Or.inr (Or.inr ((Nat.prime_dvd_prime_iff_eq hq (by norm_num)).mp hd))))))

/-- 16807 is a primitive root modulo 2^31 − 1 -/
theorem order_16807 : orderOf (16807 : ZMod 2147483647) = 2147483646 := by
  apply orderOf_eq_of_pow_and_pow_div_prime (by norm_num) (by reduce_mod_char)
  intro q hq hd
  rcases prime_factors_of_pred q hq hd with rfl | rfl | rfl | rfl | rfl | rfl | rfl <;>
    (norm_num; reduce_mod_char; decide)

/-- **full period**: from every valid seed the state sequence returns to the seed after `n` calls
    exactly when `n` is a multiple of `2^31 − 2`; in particular the first return is at `2^31 − 2` -/
theorem full_period (s : BitVec 32) (h1 : 1 ≤ s.toNat) (h2 : s.toNat ≤ 2147483646) (n : ℕ) :
    iter n s = s ↔ 2147483646 ∣ n := by
  have hs := (iterate_spec n s h1 h2).1
  rw [← order_16807, orderOf_dvd_iff_pow_eq_one]
  have hs0 : ((s.toNat : ℕ) : ZMod 2147483647) ≠ 0 := by
    rw [Ne, ZMod.natCast_eq_zero_iff]
    intro hdiv
    have := Nat.le_of_dvd (by omega) hdiv
    omega
  constructor
  · intro h
    have h' : (16807 ^ n * s.toNat) % 2147483647 = s.toNat % 2147483647 := by
      rw [← show P = 2147483647 from rfl, ← hs, h, Nat.mod_eq_of_lt (by unfold P; omega)]
    have hz : ((16807 ^ n * s.toNat : ℕ) : ZMod 2147483647) = (s.toNat : ZMod 2147483647) :=
      (ZMod.natCast_eq_natCast_iff' _ _ _).mpr h'
    push_cast at hz
    have : (16807 : ZMod 2147483647) ^ n * (s.toNat : ZMod 2147483647) = 1 * (s.toNat : ZMod 2147483647) := by
      rw [one_mul]; exact hz
    exact mul_right_cancel₀ hs0 this
  · intro h
    apply BitVec.eq_of_toNat_eq
    rw [hs]
    have hz : ((16807 ^ n * s.toNat : ℕ) : ZMod 2147483647) = (s.toNat : ZMod 2147483647) := by
      push_cast; rw [h, one_mul]
    have := (ZMod.natCast_eq_natCast_iff' _ _ _).mp hz
    rw [show P = 2147483647 from rfl, this, Nat.mod_eq_of_lt (by omega)]

/-- the first return to the seed is after exactly `2^31 − 2` calls -/
theorem first_return (s : BitVec 32) (h1 : 1 ≤ s.toNat) (h2 : s.toNat ≤ 2147483646) :
    iter 2147483646 s = s ∧ ∀ n, 0 < n → n < 2147483646 → iter n s ≠ s := by
  refine ⟨(full_period s h1 h2 _).mpr (dvd_refl _), fun n hn hlt h => ?_⟩
  have := Nat.le_of_dvd hn ((full_period s h1 h2 n).mp h)
  omega

end Librfn.C17

-- root of the `Librfn` library: everything a clean `lake build` must check
import Librfn.Props.C16
import Librfn.Props.C17
import Librfn.Props.C18
import Librfn.Props.C18Tie
import Librfn.Props.C09
import Librfn.Props.C19
import Librfn.Props.C05
import Librfn.Props.C07
import Librfn.Props.C20
import Librfn.Props.C12
import Librfn.Props.C13
import Librfn.Props.C14
import Librfn.Props.C10
import Librfn.Props.C04
import Librfn.Props.C11
import Librfn.Props.C08
import Librfn.Props.C07HB

-- root of the `Librfn` library: everything a clean `lake build` must check
import Librfn.Props.C16

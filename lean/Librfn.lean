-- root of the `Librfn` library: everything a clean `lake build` must check
import Librfn.Props.C15
import Librfn.Props.C16
import Librfn.Props.C17
import Librfn.Props.C19
import Librfn.Props.C20

-- root of the Mathlib-using library (never imported by the executable driver)
import LibrfnMath.Period

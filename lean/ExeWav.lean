import Librfn.Driver.Wav
/-! executable model driver for engine `wav` (one executable per engine: see Driver/PureBits.lean) -/
def main (args : List String) : IO UInt32 := Librfn.Driver.Wav.main args

import Librfn.Driver.PureRotenc
/-! executable model driver for engine `pure-rotenc` (one executable per engine: see Driver/PureBits.lean) -/
def main (args : List String) : IO UInt32 := Librfn.Driver.PureRotenc.main args

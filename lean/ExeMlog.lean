import Librfn.Driver.Mlog
/-! executable model driver for engine `mlog` (one executable per engine: see Driver/PureBits.lean) -/
def main (args : List String) : IO UInt32 := Librfn.Driver.Mlog.main args

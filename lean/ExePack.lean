import Librfn.Driver.Pack
/-! executable model driver for engine `pack` (one executable per engine: see Driver/PureBits.lean) -/
def main (args : List String) : IO UInt32 := Librfn.Driver.Pack.main args

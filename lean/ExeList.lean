import Librfn.Driver.List
/-! executable model driver for engine `list` (one executable per engine: see Driver/PureBits.lean) -/
def main (args : List String) : IO UInt32 := Librfn.Driver.List.main args

import Librfn.Driver.Ring
/-! executable model driver for engine `ring` (one executable per engine: see Driver/PureBits.lean) -/
def main (args : List String) : IO UInt32 := Librfn.Driver.Ring.main args

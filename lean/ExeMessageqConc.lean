import Librfn.Driver.MessageqConc
/-! executable model driver for engine `messageq-conc` (one executable per engine: see Driver/PureBits.lean) -/
def main (args : List String) : IO UInt32 := Librfn.Driver.MessageqConc.main args

import Librfn.Driver.Hex
/-! executable model driver for engine `hex` (one executable per engine: see Driver/PureBits.lean) -/
def main (args : List String) : IO UInt32 := Librfn.Driver.Hex.main args

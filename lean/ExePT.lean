import Librfn.Driver.PT
/-! executable model driver for engine `pt` (one executable per engine: see Driver/PureBits.lean) -/
def main (args : List String) : IO UInt32 := Librfn.Driver.PT.main args

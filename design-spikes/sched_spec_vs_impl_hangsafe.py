import random, subprocess, sys
NF=6
Y,W,E,FAIL=0,1,2,3
class Spec:
    def __init__(s, reverse_atomic):
        s.rq=[]; s.pend=[]; s.yielder=None; s.sleep={}; s.reg=0; s.self=None
        s.priv=[0]*NF; s.reset=None; s.rev=reverse_atomic
    def enqueue(s,f):
        if f not in s.rq:
            s.sleep.pop(f,None); s.rq.append(f)
    def drain(s):
        p=s.pend; s.pend=[]
        for g in (reversed(p) if s.rev else p): s.enqueue(g)
    def run(s,f): s.drain(); s.enqueue(f)
    def run_atomic(s,f):
        if len(s.pend)<8: s.pend.append(f); return True
        return False
    def kill(s,f):
        s.drain(); r = (f in s.rq) or (f in s.sleep)
        if f in s.rq: s.rq.remove(f)
        s.sleep.pop(f,None); return r
    def next(s,T,ret,script):
        s.drain()
        if s.yielder is not None: s.enqueue(s.yielder)
        if s.reset is not None: s.priv[s.reset]=0; s.reset=None
        exp=sorted((D,reg,f) for f,(D,reg) in s.sleep.items() if D<=T)
        for D,reg,f in exp:
            del s.sleep[f]; s.rq.append(f)
        d = s.rq.pop(0) if s.rq else None
        s.self=d; s.yielder=None
        if d is None:
            out="idle"
        else:
            res=""
            out0="disp=%d priv=%d res="%(d,s.priv[d])
            for k,v in script:
                if k=='r': s.run(v); res+='.'
                elif k=='a': res+='1' if s.run_atomic(v) else '0'
                elif k=='k': res+='1' if s.kill(v) else '0'
                elif k=='t':
                    if v<=T: res+='T'
                    else:
                        if d not in s.rq: s.sleep[d]=(v,s.reg); s.reg+=1
                        res+='F'
                elif k=='p': s.priv[d]=v; res+='.'
            out=out0+res
            if ret==Y: s.yielder=d
            if ret in (E,FAIL): s.reset=d
        if d is not None and ret==Y: wake=0
        elif s.pend or s.rq: wake=0
        elif s.sleep: wake=min(D for D,_ in s.sleep.values())-T
        else: wake=0x7fffffff
        return "%s self=%d wake=%d"%(out, -1 if d is None else d, wake)

def gen(seed, reverse_atomic, n):
    rnd=random.Random(seed)
    sp=Spec(reverse_atomic)
    base=rnd.choice([0, 2**32-50, 2**31-50, rnd.randrange(2**32)])
    T=base
    ops=["X"]; exp=["reset"]
    nf=rnd.randint(2,NF)
    for _ in range(n):
        r=rnd.random()
        f=rnd.randrange(nf)
        if r<0.15: ops.append("R %d"%f); sp.run(f); exp.append("ok")
        elif r<0.27 and len(sp.pend)<8: ops.append("A %d"%f); exp.append("1" if sp.run_atomic(f) else "0")
        elif r<0.35: ops.append("K %d"%f); exp.append("1" if sp.kill(f) else "0")
        else:
            T+=rnd.choice([0,0,1,2,5,20])
            ret=rnd.choice([Y,Y,W,W,W,E,FAIL])
            script=[]; did_to=False
            for _ in range(rnd.choice([0,0,1,1,2,3,4])):
                q=rnd.random(); g=rnd.randrange(nf)
                if q<0.25: script.append(('r',g))
                elif q<0.4 and len(sp.pend)+sum(1 for k,_ in script if k=='a')<8: script.append(('a',g))
                elif q<0.5: script.append(('k',g))
                elif q<0.85 and not did_to:
                    D=T+rnd.choice([-3,0,1,2,3,7,15,40]); 
                    if D>T: did_to=True
                    script.append(('t',D))
                else: script.append(('p',rnd.randrange(1,9)))
            ops.append("N %d %d %s"%(T%2**32, ret, " ".join("%s:%d"%(k,(v%2**32 if k=='t' else v)) for k,v in script)))
            exp.append(sp.next(T,ret,script))
    return ops,exp

import os
HBIN=os.environ.get('HBIN','./h')
def main():
    rev = sys.argv[1]=='rev'
    nhist=int(sys.argv[2]); bad=0
    for seed in range(nhist):
        ops,exp=gen(seed,rev,random.Random(seed*7+1).randint(5,60))
        try:
            p=subprocess.run([HBIN],input="\n".join(ops)+"\n",capture_output=True,text=True,timeout=10)
        except subprocess.TimeoutExpired:
            bad+=1
            if bad<=3: print("SEED",seed,"HANG")
            continue
        got=p.stdout.strip().split("\n")
        if p.returncode!=0 or got!=exp:
            bad+=1
            if bad<=3:
                print("SEED",seed,"rc",p.returncode, p.stderr[-500:])
                for i,(o,e) in enumerate(zip(ops,exp)):
                    g=got[i] if i<len(got) else "<none>"
                    print(("  " if g==e else "!!"),o,"| exp:",e,"| got:",g)
                    if g!=e: break
    print("histories",nhist,"bad",bad)
main()

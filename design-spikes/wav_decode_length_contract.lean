/-! Spike for C14: rf_wavheader_decode's length contract, as arithmetic on the number of bytes
    requested from the packer.  `fixed = false` is the code as it is (D5), `fixed = true` adds the
    planned range check on fmt_chunk_size. -/
namespace Wav

/-- little-endian u32 / u16 at offset i of the input, 0 if it does not fit in the first `sz` bytes
    (the packer transfers nothing once an item does not fit) -/
def u8 (bs : List UInt8) (i : Nat) : Nat := (bs.getD i 0).toNat
def u16 (bs : List UInt8) (sz i : Nat) : Nat := if i + 2 ≤ sz then u8 bs i + 256 * u8 bs (i+1) else 0
def u32 (bs : List UInt8) (sz i : Nat) : Nat :=
  if i + 4 ≤ sz then u8 bs i + 256 * u8 bs (i+1) + 65536 * u8 bs (i+2) + 16777216 * u8 bs (i+3) else 0
def tag (bs : List UInt8) (sz i : Nat) : List Nat := if i + 4 ≤ sz then [u8 bs i, u8 bs (i+1), u8 bs (i+2), u8 bs (i+3)] else [0,0,0,0]

def toInt32 (n : Nat) : Int := let m := n % 4294967296; if m < 2147483648 then m else (m : Int) - 4294967296

/-- total number of bytes the decoder asks the packer for (the cursor position at the end) -/
def consumedBytes (bs : List UInt8) (sz : Nat) : Nat :=
  let fmt := u32 bs sz 16
  let c := 36
  let c := if fmt ≥ 18 then
      let cb := u16 bs sz 36
      if cb = 22 then c + 2 + 22 else c + 2 + (fmt - 18)
    else c
  let isFact := tag bs sz c = [102, 97, 99, 116]          -- "fact"
  let c := c + 4
  let c := if isFact then c + 12 else c
  c + 4

/-- the `int` the C function returns (negative = error) -/
def decodeRet (fixed : Bool) (bs : List UInt8) (sz : Nat) : Int :=
  let fmt := u32 bs sz 16
  if fixed ∧ fmt > 0x7fffff00 then -22
  else if tag bs sz 0 ≠ [82, 73, 70, 70] then -22
  else
    let remaining := toInt32 ((sz + 4294967296 * 4 - consumedBytes bs sz % (4294967296 * 4)) % 4294967296)  -- (int)(endp - p)
    toInt32 ((sz + 4294967296 - (remaining % 4294967296).toNat) % 4294967296)        -- sz - remaining, as int

theorem consumed_ge (bs : List UInt8) (sz : Nat) : 44 ≤ consumedBytes bs sz := by
  unfold consumedBytes; simp only; split <;> split <;> (try split) <;> omega

theorem consumed_le (bs : List UInt8) (sz : Nat) (h : u32 bs sz 16 ≤ 0x7fffff00) :
    consumedBytes bs sz ≤ 0x7fffff00 + 60 := by
  unfold consumedBytes; simp only; split <;> split <;> (try split) <;> omega

/-- D5 as a theorem: the code as it is returns 27 for a 64-byte input -/
def hostile : List UInt8 :=
  [82,73,70,70, 255,255,255,255, 87,65,86,69, 102,109,116,32, 255,255,255,255,
   3,0, 2,0, 68,172,0,0, 32,98,5,0, 8,0, 32,0, 1,0] ++ List.replicate 26 0
end Wav

open Wav
theorem d5_fixed : decodeRet true hostile 64 = -22 := by decide
theorem d5_witness : decodeRet false hostile 64 = 27 := by decide
#print axioms d5_witness

theorem toInt32_small (n : Nat) (h : n < 2147483648) : toInt32 n = n := by
  unfold toInt32; simp only
  have : n % 4294967296 = n := Nat.mod_eq_of_lt (by omega)
  rw [this]; simp [h]
theorem l1 (sz C : Nat) (hsz : sz < 2147483648) (hC : C < 2147483648) :
    toInt32 ((sz + 4294967296 * 4 - C) % 4294967296) = (sz : Int) - C := by
  unfold toInt32; simp only
  rw [Nat.mod_mod]
  by_cases h : C ≤ sz
  · have e : (sz + 4294967296 * 4 - C) % 4294967296 = sz - C := by omega
    rw [e]; rw [if_pos (by omega)]; omega
  · have e : (sz + 4294967296 * 4 - C) % 4294967296 = sz + 4294967296 - C := by omega
    rw [e]; rw [if_neg (by omega)]; omega
theorem l2 (sz C : Nat) (hsz : sz < 2147483648) (hC : C < 2147483648) :
    toInt32 ((sz + 4294967296 - (((sz : Int) - C) % 4294967296).toNat) % 4294967296) = C := by
  have e : (((sz : Int) - C) % 4294967296).toNat = if C ≤ sz then sz - C else sz + 4294967296 - C := by
    split <;> omega
  rw [e]
  by_cases h : C ≤ sz
  · simp only [h, if_true]
    have : (sz + 4294967296 - (sz - C)) % 4294967296 = C := by omega
    rw [this]; exact toInt32_small C hC
  · simp only [h, if_false]
    have : (sz + 4294967296 - (sz + 4294967296 - C)) % 4294967296 = C := by omega
    rw [this]; exact toInt32_small C hC

/-- with the range check the returned value is negative or exactly the number of bytes requested -/
theorem ret_fixed (bs : List UInt8) (sz : Nat) (hsz : sz < 2147483648) :
    decodeRet true bs sz < 0 ∨ decodeRet true bs sz = consumedBytes bs sz := by
  unfold decodeRet
  by_cases h1 : u32 bs sz 16 > 0x7fffff00
  · left; simp [h1]
  · have hle := consumed_le bs sz (by omega)
    simp only [h1, and_false, if_false]
    split
    · left; decide
    · right
      have hC : consumedBytes bs sz < 2147483648 := by omega
      have e1 : consumedBytes bs sz % (4294967296 * 4) = consumedBytes bs sz := Nat.mod_eq_of_lt (by omega)
      simp only [e1]
      rw [l1 sz _ hsz hC]
      exact l2 sz _ hsz hC
/-- corollaries in the property's words -/
theorem never_short_success (bs : List UInt8) (sz : Nat) (hsz : sz < 2147483648) (h : 0 ≤ decodeRet true bs sz) :
    44 ≤ decodeRet true bs sz := by
  rcases ret_fixed bs sz hsz with h' | h'
  · omega
  · have := consumed_ge bs sz; omega
#print axioms never_short_success

import Mathlib.NumberTheory.LucasLehmer
import Mathlib.GroupTheory.OrderOfElement
import Mathlib.Tactic.NormNum.Prime

theorem p31_prime : (mersenne 31).Prime :=
  lucas_lehmer_sufficiency _ (by norm_num) (by norm_num)

theorem p31_eq : mersenne 31 = 2147483647 := by norm_num [mersenne]

#print axioms p31_prime

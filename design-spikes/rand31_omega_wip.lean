def rand31 (s : Nat) : Nat :=
  let lo := (16807 * (s % 65536)) % 4294967296
  let hi := (16807 * (s / 65536)) % 4294967296
  let lo := (lo + ((hi % 32768) * 65536) % 4294967296) % 4294967296
  let lo := (lo + hi / 32768) % 4294967296
  if lo > 2147483647 then (lo - 2147483647) % 4294967296 else lo

theorem mul_nz (s : Nat) (h1 : 1 ≤ s) (h2 : s ≤ 2147483646) : (16807 * s) % 2147483647 ≠ 0 := by
  intro h
  have hd : 2147483647 ∣ 16807 * s := Nat.dvd_of_mod_eq_zero h
  have hc : Nat.Coprime 2147483647 16807 := by decide
  have := hc.dvd_of_dvd_mul_left hd
  have := Nat.le_of_dvd (by omega) this
  omega

theorem core (L q : Nat) (hL : L < 3248881664) (hnz : (L + 2147483647 * q) % 2147483647 ≠ 0) :
    let r := if L > 2147483647 then (L - 2147483647) % 4294967296 else L
    r = (L + 2147483647 * q) % 2147483647 ∧ 1 ≤ r ∧ r ≤ 2147483646 := by
  rw [Nat.add_mul_mod_self_left] at hnz ⊢
  intro r
  show (if L > 2147483647 then (L - 2147483647) % 4294967296 else L) = _ ∧ _
  split <;> omega

theorem fold (s : Nat) (h2 : s ≤ 2147483646) :
    ∃ L q, L < 3248881664 ∧ 16807 * s = L + 2147483647 * q ∧
      (((16807 * (s % 65536)) % 4294967296 + (((16807 * (s / 65536)) % 4294967296) % 32768 * 65536) % 4294967296) % 4294967296
        + ((16807 * (s / 65536)) % 4294967296) / 32768) % 4294967296 = L := by
  refine ⟨16807 * (s % 65536) + ((16807 * (s / 65536)) % 32768) * 65536 + (16807 * (s / 65536)) / 32768,
          (16807 * (s / 65536)) / 32768, ?_, ?_, ?_⟩ <;> omega

theorem rand31_spec (s : Nat) (h1 : 1 ≤ s) (h2 : s ≤ 2147483646) :
    rand31 s = (16807 * s) % 2147483647 ∧ 1 ≤ rand31 s ∧ rand31 s ≤ 2147483646 := by
  obtain ⟨L, q, hL, hmul, hfold⟩ := fold s h2
  have hnz := mul_nz s h1 h2
  unfold rand31
  simp only [hfold]
  rw [hmul] at hnz ⊢
  exact core L q hL hnz

#print axioms rand31_spec

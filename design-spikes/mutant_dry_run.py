import subprocess, shutil, os, re, sys
R='/repo'
def sh(cmd, **kw): return subprocess.run(cmd, shell=True, capture_output=True, text=True, **kw)
mutants=[
 # (name, file, old, new, harness)
 ('duetime_noncyclic','librfn/fibre.c','return f1->duetime - f2->duetime;','return f1->duetime < f2->duetime ? -1 : (f1->duetime > f2->duetime);','sched'),
 ('timeout_lt','librfn/fibre.c','if (cyclecmp32(duetime, kernel.now) <= 0)\n\t\treturn true;','if (cyclecmp32(duetime, kernel.now) < 0)\n\t\treturn true;','sched'),
 ('run_no_timer_remove','librfn/fibre.c','(void) list_remove(&kernel.timerq, &f->link);\n\t\tlist_insert(&kernel.runq, &f->link);\n\t}\n}\n\nbool fibre_run_atomic','list_insert(&kernel.runq, &f->link);\n\t}\n}\n\nbool fibre_run_atomic','sched'),
 ('wakeup_forgets_runq','librfn/fibre.c','if (!messageq_empty(&kernel.atomic_runq) || !list_empty(&kernel.runq))','if (!messageq_empty(&kernel.atomic_runq))','sched'),
 ('kill_only_runq','librfn/fibre.c','res |= list_remove(&kernel.timerq, &f->link);\n\n\treturn res;','return res;','sched'),
 ('timerq_le_to_lt','librfn/fibre.c','cyclecmp32(timeout_fibre->duetime, kernel.now) <= 0) {','cyclecmp32(timeout_fibre->duetime, kernel.now) < 0) {','sched'),
 ('sorted_gt','librfn/list.c','nodecmp(node, curr) >= 0;','nodecmp(node, curr) > 0;','sched+list'),
 ('iter_remove_tail','librfn/list.c','if (iter->list->tail == curr)\n\t\titer->list->tail = prev;','','list'),
 ('push_no_tail','librfn/list.c','} else {\n\t\tlist->tail = node;\n\t}\n\tlist->head = node;','}\n\tlist->head = node;','list'),
 ('pack_lt','librfn/pack.c','if (pack->p <= pack->endp)','if (pack->p < pack->endp)','misc'),
 ('u16be_swap','librfn/pack.c','p[0] = (u16 >> 8) & 0xff;\n\t\tp[1] = u16 & 0xff;','p[0] = u16 & 0xff;\n\t\tp[1] = (u16 >> 8) & 0xff;','misc'),
 ('mq_wrap_off_by_one','librfn/messageq.c','newsendp = (sendp >= (mq->queue_len-1) ? 0 : sendp+1);','newsendp = (sendp >= (mq->queue_len) ? 0 : sendp+1);','misc'),
 ('hex_nibble','librfn/hex.c',"return (h & ~('a' - 'A')) - 'A' + 10;","return (h & ~('a' - 'A')) - 'A' + 9;",'misc'),
 ('ring_publish_first','librfn/ringbuf.c','rb->bufp[old_writei] = d;\n\tatomic_signal_fence(memory_order_seq_cst);\n\tatomic_store(&rb->writei, writei);','atomic_store(&rb->writei, writei);\n\tatomic_signal_fence(memory_order_seq_cst);\n\trb->bufp[old_writei] = d;','conc1'),
 ('ring_full_check','librfn/ringbuf.c','if (writei == atomic_load(&rb->readi))\n\t\treturn false;','','conc1'),
 ('mq_send_before_write','librfn/fibre.c','*queued_fibre = f;\n\tmessageq_send(&kernel.atomic_runq, queued_fibre);','messageq_send(&kernel.atomic_runq, queued_fibre);\n\t*queued_fibre = f;','isr'),
]
results=[]
for name,f,old,new,harness in mutants:
    d=f'/tmp/mut/{name}'
    if os.path.exists(d): shutil.rmtree(d)
    os.makedirs(d+'/librfn/posix'); os.makedirs(d+'/include')
    sh(f'cp -r {R}/include/* {d}/include/; cp {R}/librfn/*.c {d}/librfn/; cp {R}/librfn/posix/*.c {d}/librfn/posix/')
    src=open(f'{d}/{f}').read()
    if old not in src: results.append((name,'PATCH-FAILED')); continue
    open(f'{d}/{f}','w').write(src.replace(old,new,1))
    det=[]
    if 'sched' in harness:
        sh(f"sed 's#/repo/librfn/fibre.c#{d}/librfn/fibre.c#' /tmp/exp/sched/h.c > {d}/h.c")
        c=sh(f'gcc -g -fsanitize=address -I{d}/include {d}/h.c {d}/librfn/list.c {d}/librfn/messageq.c {d}/librfn/util.c {d}/librfn/posix/time_posix.c -o {d}/h')
        r=sh(f'cd /tmp/exp/sched && HBIN={d}/h python3 spec_t.py rev 200', timeout=2500)
        m=re.search(r'bad (\d+)', r.stdout); det.append(('sched', m.group(1) if m else 'ERR:'+c.stderr[-100:]+r.stderr[-200:]))
    if 'list' in harness:
        c=sh(f'gcc -g -fsanitize=address -I{d}/include /tmp/exp/lst/lh.c {d}/librfn/list.c -o {d}/lh')
        sh(f"sed \"s#'./lh'#'{d}/lh'#; s#range(1500)#range(300)#\" /tmp/exp/lst/lspec.py > {d}/lspec.py")
        r=sh(f'python3 {d}/lspec.py', timeout=600)
        m=re.search(r'bad (\d+)', r.stdout); det.append(('list', m.group(1) if m else 'ERR'+r.stderr[-200:]))
    if harness=='misc':
        c=sh(f'gcc -g -O1 -fsanitize=address -I{d}/include /tmp/exp/misc/mh.c {d}/librfn/hex.c {d}/librfn/messageq.c {d}/librfn/pack.c {d}/librfn/util.c {d}/librfn/string.c {d}/librfn/posix/time_posix.c -o {d}/mh')
        sh(f"sed \"s#'./mh'#'{d}/mh'#\" /tmp/exp/misc/mspec.py > {d}/mspec.py")
        r=sh(f'python3 {d}/mspec.py', timeout=600)
        m=re.search(r"bad (\d+)", r.stdout); det.append(('misc', m.group(1) if m else 'ERR'+r.stderr[-200:]))
    if harness=='conc1':
        c=sh(f'gcc -g -O1 -fsanitize=address -I/tmp/exp/conc/shim -I{d}/include /tmp/exp/conc/conc.c {d}/librfn/messageq.c {d}/librfn/ringbuf.c -lpthread -o {d}/conc')
        r=sh(f'{d}/conc 1 1500 1', timeout=600)
        m=re.search(r'with-violations (\d+)', r.stdout); det.append(('conc', m.group(1) if m else 'ERR'+c.stderr[-200:]))
    if harness=='isr':
        sh(f"sed 's#/repo/librfn/fibre.c#{d}/librfn/fibre.c#' /tmp/exp/isr/isr.c > {d}/isr.c")
        c=sh(f'gcc -g -O1 -fsanitize=address -I/tmp/exp/conc/shim -I{d}/include {d}/isr.c /tmp/exp/isr/mq_fixed.c {d}/librfn/list.c {d}/librfn/util.c {d}/librfn/posix/time_posix.c -lpthread -o {d}/isr')
        r=sh(f'{d}/isr 1500 1', timeout=600)
        m=re.search(r'bad (\d+)', r.stdout); det.append(('isr', (m.group(1) if m else 'ERR')+(' asan' if 'AddressSanitizer' in r.stderr else '')+(' rc=%d'%r.returncode)))
    # does the repository's own test for that module still pass? (only informative)
    results.append((name,det))
    shutil.rmtree(d)
for r in results: print(r)

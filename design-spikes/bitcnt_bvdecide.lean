import Std.Tactic.BVDecide

def bitcnt (x : BitVec 32) : BitVec 32 :=
  let n := (x >>> 1) &&& 0x77777777#32
  let x := x - n
  let n := (n >>> 1) &&& 0x77777777#32
  let x := x - n
  let n := (n >>> 1) &&& 0x77777777#32
  let x := x - n
  let x := (x + (x >>> 4)) &&& 0x0F0F0F0F#32
  let x := x * 0x01010101#32
  x >>> 24

def popSpec (x : BitVec 32) : BitVec 32 :=
  (List.range 32).foldl (fun acc i => acc + ((x >>> i) &&& 1#32)) 0#32

theorem bitcnt_eq (x : BitVec 32) : bitcnt x = popSpec x := by
  unfold bitcnt popSpec
  simp only [List.range, List.range.loop, List.foldl]
  bv_decide

#print axioms bitcnt_eq

/-! Spike for C18: model of hex_get_byte (librfn/hex.c:58-90) over a NUL-terminated byte string.
    Every read goes through `rd`, which reports reads beyond the terminator. -/
namespace Hex

/-- the string's bytes (none of them 0) — the terminating NUL is at index `s.length` -/
abbrev Str := List UInt8

inductive R (α : Type) | ok (a : α) | oob      -- oob = read beyond the NUL
  deriving Repr

def rd (s : Str) (i : Nat) : R UInt8 :=
  if h : i < s.length then .ok s[i] else if i = s.length then .ok 0 else .oob

def isSpace (c : UInt8) : Bool := c = 32 || (9 ≤ c && c ≤ 13)
def isXDigit (c : UInt8) : Bool := (48 ≤ c && c ≤ 57) || (97 ≤ c && c ≤ 102) || (65 ≤ c && c ≤ 70)
def nibble (c : UInt8) : Nat := if c ≤ 57 then (c - 48).toNat else ((c &&& 0xDF) - 65 + 10).toNat

/-- strchr(s+i, ch): index of the first `ch` at or after i, before the NUL -/
def strchr (s : Str) (ch : UInt8) (i : Nat) : Option Nat :=
  match (s.drop i).findIdx? (· = ch) with
  | some k => some (i + k)
  | none => none

/-- result of one call: byte and new `*p` (none = NULL), or -1 with `*p = NULL`/unchanged -/
inductive Out | byte (b : Nat) (p : Nat) | end_ | fault
  deriving Repr, DecidableEq

/-- the body from label `next_line` (newline = true) or from the whitespace loop (false);
    `fuel` bounds the number of line restarts + whitespace characters -/
def scan (s : Str) : Nat → Bool → Nat → Out
  | 0, _, _ => .fault
  | fuel + 1, newline, i =>
    let i := if newline then (match strchr s 58 i with | some q => q + 1 | none => i) else i
    match rd s i with
    | .oob => .fault
    | .ok c =>
      if isSpace c then
        scan s fuel (c == 10) (i + 1)           -- `*s++ == '\n'` → goto next_line, else keep skipping
      else
        -- `'0' == s[0] && 'x' == s[1]`: s[1] is read only if s[0] is '0' (so s[0] ≠ NUL)
        let i := if c == 48 then (match rd s (i + 1) with | .ok 120 => i + 2 | _ => i) else i
        match rd s i with
        | .oob => .fault
        | .ok a =>
          if isXDigit a then
            match rd s (i + 1) with       -- read only after s[0] was a hex digit, hence not NUL
            | .oob => .fault
            | .ok b =>
              if isXDigit b then .byte (16 * nibble a ||| nibble b) (i + 2)
              else (match strchr s 10 i with | some j => scan s fuel true (j + 1) | none => .end_)
          else (match strchr s 10 i with | some j => scan s fuel true (j + 1) | none => .end_)

/-- first call `hex_get_byte(s, &p)` and later calls `hex_get_byte(NULL, &p)` -/
def first (s : Str) : Out := scan s (2 * s.length + 2) true 0
def next (s : Str) (p : Option Nat) : Out :=
  match p with
  | none => .end_
  | some i => scan s (2 * s.length + 2) false i

/-- all bytes returned by repeated calls (bounded by the string length + 1 calls) -/
def parseAll (s : Str) : List Nat × Bool :=     -- (bytes, reached −1 cleanly)
  let rec go : Nat → Out → List Nat → List Nat × Bool
    | 0, _, acc => (acc, false)
    | _ + 1, .end_, acc => (acc, true)
    | _ + 1, .fault, acc => (acc, false)
    | n + 1, .byte b p, acc => go n (scan s (2 * s.length + 2) false p) (acc ++ [b])
  go (s.length + 2) (first s) []

def hexchar (h : Nat) : UInt8 := if h < 10 then (48 + h).toUInt8 else (97 - 10 + h).toUInt8
def dump : List UInt8 → Str
  | [] => []
  | b :: r => (((b :: r).take 16).flatMap fun b => [hexchar (b.toNat / 16), hexchar (b.toNat % 16)]) ++ [10] ++ dump (r.drop 15)
termination_by bs => bs.length
decreasing_by simp; omega

-- sanity: evaluate on examples (the theorem work is parser_safe / dump_parse_roundtrip)
#eval parseAll (dump [0, 1, 0xab, 0xff, 16, 17, 18, 19, 20, 21, 22, 23, 24, 25, 26, 27, 28, 29])
#eval parseAll "0000: 0x01 02\n0010: 0A ff\n".toUTF8.toList
#eval parseAll "12 zz 34\n56".toUTF8.toList
end Hex

/-! Spike for C02: the half-window lemma — the signed reinterpretation of the 32-bit difference of
    two truncated times has the sign of the true difference whenever the true times are less than
    2^31 apart.  This is what makes every comparison in fibre.c cyclic. -/
def w32 (x : Int) : BitVec 32 := BitVec.ofInt 32 x
def cyclecmp (a b : BitVec 32) : Int := (a - b).toInt

theorem toInt_ofInt_sub (a b : Int) : ((w32 a) - (w32 b)).toInt = (a - b).bmod 4294967296 := by
  unfold w32
  rw [BitVec.toInt_sub, BitVec.toInt_ofInt, BitVec.toInt_ofInt]
  simp only [Int.reducePow, Nat.reducePow]
  rw [Int.bmod_sub_bmod, Int.sub_bmod_bmod]

theorem bmod_small (d : Int) (h : -2147483648 ≤ d ∧ d < 2147483648) : d.bmod 4294967296 = d := by
  rw [Int.bmod_def]
  have e : ((4294967296 : Nat) : Int) = 4294967296 := rfl
  rw [e]
  split <;> omega

theorem cyclecmp_window (a b : Int) (h : -2147483648 ≤ a - b ∧ a - b < 2147483648) :
    cyclecmp (w32 a) (w32 b) = a - b := by
  unfold cyclecmp
  rw [toInt_ofInt_sub, bmod_small _ h]

theorem cyclecmp_le_iff (a b : Int) (h : -2147483648 ≤ a - b ∧ a - b < 2147483648) :
    cyclecmp (w32 a) (w32 b) ≤ 0 ↔ a ≤ b := by
  rw [cyclecmp_window a b h]; omega

/-- wrap-invariance at the root: shifting both times by any amount changes nothing -/
theorem cyclecmp_shift (a b c : BitVec 32) : cyclecmp (a + c) (b + c) = cyclecmp a b := by
  unfold cyclecmp
  congr 1
  bv_omega

#print axioms cyclecmp_le_iff
#print axioms cyclecmp_shift

#include <stdio.h>
#include <string.h>
#include <stdlib.h>
#include <librfn.h>
int main() {
  rf_wavheader_t wh, out; uint8_t b[256];
  memset(&wh, 0, sizeof wh);
  rf_wavheader_init(&wh, 44100, 2, RF_WAVHEADER_S16LE);
  rf_wavheader_set_num_frames(&wh, 100);
  int n = rf_wavheader_encode(&wh, b, sizeof b);
  printf("PCM: len=%d chunk_size=%u data=%u validate=%d  expected chunk_size=%u\n", n, wh.chunk_size, wh.data_chunk_size, rf_wavheader_validate(&wh), n - 8 + wh.data_chunk_size);
  memset(&wh, 0xAA, sizeof wh);
  rf_wavheader_init(&wh, 44100, 2, RF_WAVHEADER_S16LE);
  n = rf_wavheader_encode(&wh, b, sizeof b);
  int m = rf_wavheader_decode(b, n, &out);
  printf("dirty PCM: enc=%d dec=%d validate=%d same=%d\n", n, m, rf_wavheader_validate(&wh), 0==memcmp(&wh,&out,sizeof wh));
  // decode wrap
  memset(&wh, 0, sizeof wh);
  rf_wavheader_init(&wh, 44100, 2, RF_WAVHEADER_FLOAT);
  n = rf_wavheader_encode(&wh, b, sizeof b);
  b[4]=b[5]=b[6]=b[7]=0xff; b[16]=b[17]=b[18]=b[19]=0xff; b[36]=1; /* cb_size=1 */
  uint8_t *h = malloc(64); memcpy(h, b, 64);
  m = rf_wavheader_decode(h, 64, &out);
  printf("hostile fmt_chunk_size: decode returned %d (sz=64)\n", m);
  // block_align 0
  memset(&wh, 0, sizeof wh);
  rf_wavheader_init(&wh, 44100, 0, RF_WAVHEADER_S16LE);
  printf("block_align=%u\n", wh.block_align); fflush(stdout);
  char *s = rf_wavheader_tostring(&wh); printf("%s\n", s);
  return 0;
}

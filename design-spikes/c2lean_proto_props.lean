import Gen
import Std.Tactic.BVDecide

def pop32 (x : BitVec 32) : BitVec 32 :=
  (List.range 32).foldl (fun acc i => acc + ((x >>> i) &&& 1#32)) 0#32
def pop64 (x : BitVec 64) : BitVec 32 :=
  (List.range 64).foldl (fun acc i => acc + BitVec.setWidth 32 ((x >>> i) &&& 1#64)) 0#32

theorem bitcnt_eq (x : BitVec 32) : bitcnt x = pop32 x := by
  unfold bitcnt pop32; simp only [List.range, List.range.loop, List.foldl]; bv_decide
theorem clz_eq (x : BitVec 32) : clz x = x.clz := by
  unfold clz bitcnt; bv_decide
theorem ctz_eq (x : BitVec 32) : ctz x = x.reverse.clz := by
  unfold ctz bitcnt; bv_decide
theorem ilog2_eq (x : BitVec 32) (h : x ≠ 0) : ilog2 x = 31#32 - x.clz := by
  unfold ilog2; rw [clz_eq]
theorem const_pop_eq (c : BitVec 64) : w_const_pop c = pop64 c := by
  unfold w_const_pop pop64; simp only [List.range, List.range.loop, List.foldl]; bv_decide
theorem const_lssb_eq (c : BitVec 64) :
    w_const_lssb c = if c = 0 then (-1 : BitVec 32) else BitVec.setWidth 32 c.reverse.clz := by
  unfold w_const_lssb; bv_decide
-- rotenc: +1 on the four clockwise transitions (states < 4)
theorem rotenc_cw (ls cnt : BitVec 8) (ic : BitVec 16) :
    (rotenc_decode 0#8 cnt ic 1#8).2.2 = ic + 1 ∧ (rotenc_decode 1#8 cnt ic 3#8).2.2 = ic + 1 ∧
    (rotenc_decode 3#8 cnt ic 2#8).2.2 = ic + 1 ∧ (rotenc_decode 2#8 cnt ic 0#8).2.2 = ic + 1 := by
  unfold rotenc_decode; bv_decide
#print axioms const_lssb_eq

#include <stdio.h>
#include <stdlib.h>
#include <pthread.h>
#include <semaphore.h>
#include <librfn/messageq.h>
#define NT 2
static sem_t sem[NT], sched_sem; static int cur = -1; static int done[NT];
static __thread int me = -1;
void verif_point(const char *op, const volatile void *addr, int order, const char *file, int line) {
  if (me < 0) return;
  sem_post(&sched_sem); sem_wait(&sem[me]);   /* yield to scheduler, wait to be resumed */
  printf("T%d %s order=%d line=%d\n", me, op, order, line);
}
void verif_result(const char *op, const volatile void *addr, unsigned long long b, unsigned long long a) { if (me>=0) printf("   -> %s before=%llu after=%llu\n", op, b, a); }
static int buf[2]; static messageq_t q = MESSAGEQ_VAR_INIT(buf, sizeof buf, sizeof buf[0]);
static void *res[NT];
static void *thr(void *arg) { me = (int)(long)arg; sem_wait(&sem[me]); res[me] = messageq_claim(&q); done[me] = 1; sem_post(&sched_sem); return NULL; }
int main() {
  messageq_claim(&q); messageq_claim(&q); /* full */
  sem_init(&sched_sem,0,0); pthread_t th[NT];
  for (long i=0;i<NT;i++){ sem_init(&sem[i],0,0); pthread_create(&th[i],NULL,thr,(void*)i);} 
  int schedule[] = {0,0,1,1,1,1,1,0,0,-1};
  for (int i=0; schedule[i]>=0; i++) { int t = schedule[i]; if (done[t]) continue; sem_post(&sem[t]); sem_wait(&sched_sem); }
  for (int i=0;i<NT;i++) pthread_join(th[i],NULL);
  printf("res0=%p res1=%p buf=%p num_free=%u\n", res[0], res[1], (void*)buf, (unsigned)q.num_free);
  return 0;
}

#include <stdio.h>
#include <string.h>
#include <stdlib.h>
#include <librfn.h>
static int ids[8]; static int nlog;
static int body(fibre_t *f);
static fibre_t F[4] = { FIBRE_VAR_INIT(body), FIBRE_VAR_INIT(body), FIBRE_VAR_INIT(body), FIBRE_VAR_INIT(body) };
static int body(fibre_t *f) { printf("dispatch %ld\n", (long)(f - F)); return PT_WAITING; }
int main() {
  // rotenc
  rotenc_t r = ROTENC_VAR_INIT;
  for (int i=0;i<256;i++){ rotenc_decode(&r,1); rotenc_decode(&r,3); rotenc_decode(&r,2); rotenc_decode(&r,0);} 
  printf("at 256 clicks: count=%u count14=%u\n", rotenc_count(&r), rotenc_count14(&r));
  rotenc_decode(&r,2); // one quarter step back (acw)
  printf("quarter step back: count=%u count14=%u (latched position 256)\n", rotenc_count(&r), rotenc_count14(&r));
  // fibre atomic order
  fibre_run_atomic(&F[0]); fibre_run_atomic(&F[1]); fibre_run_atomic(&F[2]);
  for (int i=0;i<4;i++) fibre_scheduler_next(i);
  // messageq wrap: queue full, simulate claimer A preempted after fetch_sub
  static int buf[2]; static messageq_t q = MESSAGEQ_VAR_INIT(buf, sizeof buf, sizeof buf[0]);
  int *a = messageq_claim(&q), *b = messageq_claim(&q);
  printf("claims %p %p third=%p\n", (void*)a,(void*)b, messageq_claim(&q));
  int nf = atomic_fetch_sub(&q.num_free, 1); // thread A step 1 (returns 0 -> will fail)
  int *c = messageq_claim(&q);               // thread/ISR B complete claim
  atomic_fetch_add(&q.num_free, 1);          // thread A step 2 (undo)
  printf("A saw %d; B nested claim on full queue got %p (a=%p) num_free now %u\n", nf, (void*)c, (void*)a, (unsigned)atomic_load(&q.num_free));
  return 0;
}

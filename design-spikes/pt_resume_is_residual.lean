/-! Spike for C08: "each invocation continues immediately after the point where the previous
    one returned".  `exec … (some ℓ)` is the switch/case semantics of the PT_* macros (jump to
    the `case ℓ:` planted inside nested statements); `residual s ℓ` is the program text that
    follows label ℓ.  Theorem: entering at ℓ = running the residual from its start. -/
namespace PT

abbrev Label := Nat

inductive Stmt
  | skip
  | eff (e : Nat)
  | seq (a b : Stmt)
  | ifte (c : Nat) (a b : Stmt)
  | loop (c : Nat) (body : Stmt)
  | yield (l : Label)
  | wait (l : Label)
  | waitUntil (l : Label) (c : Nat)
  | exit
  | failOn (c : Nat)

open Stmt

def labels : Stmt → List Label
  | skip => [] | eff _ => [] | exit => [] | failOn _ => []
  | seq a b => labels a ++ labels b
  | ifte _ a b => labels a ++ labels b
  | loop _ b => labels b
  | yield l => [l] | wait l => [l] | waitUntil l _ => [l]

inductive Code | yielded | waiting | exited | failed
  deriving DecidableEq, Repr

/-- outcome of running a statement: falls through, or the protothread function returns -/
inductive Out (S : Type)
  | normal (σ : S) (tr : List Nat)
  | ret (code : Code) (pt : Option Label) (σ : S) (tr : List Nat)   -- pt = some ℓ: `*pt = ℓ` was stored

def Out.prepend {S} (t : List Nat) : Out S → Out S
  | .normal σ tr => .normal σ (t ++ tr)
  | .ret c p σ tr => .ret c p σ (t ++ tr)

structure Interp (S : Type) where
  eff : Nat → S → S
  cond : Nat → S → Bool × S      -- conditions may have side effects (`count++ >= 1`)

variable {S : Type} (I : Interp S)

/-- `exec fuel s entry σ`: `entry = none` runs `s` from its first statement, `entry = some ℓ`
    enters `s` at the `case ℓ:` label inside it.  Fuel is consumed by loop iterations only;
    `none` = out of fuel. -/
def exec : Nat → Stmt → Option Label → S → Option (Out S)
  | _, skip, _, σ => some (.normal σ [])
  | _, eff e, _, σ => some (.normal (I.eff e σ) [e])
  | _, exit, _, σ => some (.ret .exited none σ [])
  | _, failOn c, _, σ =>
      let (b, σ1) := I.cond c σ
      some (if b then .ret .failed none σ1 [] else .normal σ1 [])
  | _, yield l, entry, σ =>
      if entry = some l then some (.normal σ []) else some (.ret .yielded (some l) σ [])
  | _, wait l, entry, σ =>
      if entry = some l then some (.normal σ []) else some (.ret .waiting (some l) σ [])
  | _, waitUntil l c, _, σ =>        -- the label is *before* the test: re-evaluated on resumption
      let (b, σ1) := I.cond c σ
      some (if b then .normal σ1 [] else .ret .waiting (some l) σ1 [])
  | fuel, seq a b, entry, σ =>
      match entry with
      | some l =>
        if l ∈ labels a then
          match exec fuel a (some l) σ with
          | some (.normal σ1 t) => (exec fuel b none σ1).map (Out.prepend t)
          | r => r
        else exec fuel b (some l) σ
      | none =>
        match exec fuel a none σ with
        | some (.normal σ1 t) => (exec fuel b none σ1).map (Out.prepend t)
        | r => r
  | fuel, ifte c a b, entry, σ =>
      match entry with
      | some l => if l ∈ labels a then exec fuel a (some l) σ else exec fuel b (some l) σ   -- condition skipped
      | none =>
        let (t, σ1) := I.cond c σ
        if t then exec fuel a none σ1 else exec fuel b none σ1
  | fuel, loop c body, entry, σ =>
      match entry with
      | some l =>       -- jump into the body, then continue looping normally
        match exec fuel body (some l) σ with
        | some (.normal σ1 t) => (exec fuel (loop c body) none σ1).map (Out.prepend t)
        | r => r
      | none =>
        match fuel with
        | 0 => none
        | f + 1 =>
          let (t, σ1) := I.cond c σ
          if t then
            match exec f body none σ1 with
            | some (.normal σ2 tr) => (exec f (loop c body) none σ2).map (Out.prepend tr)
            | r => r
          else some (.normal σ1 [])
termination_by fuel s entry => (fuel, sizeOf s, if entry.isSome then 1 else 0)

/-- the program text after label `ℓ` -/
def residual : Stmt → Label → Stmt
  | seq a b, l => if l ∈ labels a then seq (residual a l) b else residual b l
  | ifte _ a b, l => if l ∈ labels a then residual a l else residual b l
  | loop c body, l => seq (residual body l) (loop c body)
  | yield _, _ => skip
  | wait _, _ => skip
  | waitUntil l c, _ => waitUntil l c
  | s, _ => s

theorem exec_seq_none (fuel : Nat) (a b : Stmt) (σ : S) :
    exec I fuel (seq a b) none σ =
      match exec I fuel a none σ with
      | some (.normal σ1 t) => (exec I fuel b none σ1).map (Out.prepend t)
      | r => r := by rw [exec]

theorem exec_loop_some (fuel : Nat) (c : Nat) (body : Stmt) (l : Label) (σ : S) :
    exec I fuel (loop c body) (some l) σ =
      match exec I fuel body (some l) σ with
      | some (.normal σ1 t) => (exec I fuel (loop c body) none σ1).map (Out.prepend t)
      | r => r := by rw [exec]

/-- C08 core: resuming at `ℓ` is running the text after `ℓ` -/
theorem resume_is_residual (fuel : Nat) (s : Stmt) (l : Label) (σ : S) (hl : l ∈ labels s) :
    exec I fuel s (some l) σ = exec I fuel (residual s l) none σ := by
  induction s generalizing σ with
  | skip => simp [labels] at hl
  | eff e => simp [labels] at hl
  | exit => simp [labels] at hl
  | failOn c => simp [labels] at hl
  | yield l' =>
    simp [labels] at hl; subst hl
    simp [exec, residual]
  | wait l' =>
    simp [labels] at hl; subst hl
    simp [exec, residual]
  | waitUntil l' c =>
    simp [exec, residual]
  | seq a b iha ihb =>
    simp only [labels, List.mem_append] at hl
    by_cases ha : l ∈ labels a
    · simp only [residual, ha, if_true]
      rw [exec, exec]
      simp only [ha, if_true]
      rw [iha σ ha]
    · have hb : l ∈ labels b := by rcases hl with h | h; exact absurd h ha; exact h
      simp only [residual, ha, if_false]
      rw [exec]
      simp only [ha, if_false]
      exact ihb σ hb
  | ifte c a b iha ihb =>
    simp only [labels, List.mem_append] at hl
    by_cases ha : l ∈ labels a
    · simp only [residual, ha, if_true]
      rw [exec]; simp only [ha, if_true]; exact iha σ ha
    · have hb : l ∈ labels b := by rcases hl with h | h; exact absurd h ha; exact h
      simp only [residual, ha, if_false]
      rw [exec]; simp only [ha, if_false]; exact ihb σ hb
  | loop c body ih =>
    simp only [labels] at hl
    simp only [residual]
    rw [exec_loop_some, exec_seq_none, ih σ hl]

#print axioms resume_is_residual

end PT

import random, subprocess, sys
sys.argv=['x','rev','0']
src=open('spec.py').read()
src=src[:src.index("def main():")]
exec(src)
RET={0:'.yielded',1:'.waiting',2:'.exited',3:'.failed'}
def lean_ops(seed,n):
    # regenerate same history but keep structured form: re-run generator with hooks
    rnd=random.Random(seed); sp=Spec(True)
    base=rnd.choice([0, 2**32-50, 2**31-50, rnd.randrange(2**32)]); T=base
    ops=["X"]; lean=[]; nf=rnd.randint(2,NF)
    for _ in range(n):
        r=rnd.random(); f=rnd.randrange(nf)
        if r<0.15: ops.append("R %d"%f); sp.run(f); lean.append(".run %d"%f)
        elif r<0.27 and len(sp.pend)<8: ops.append("A %d"%f); sp.run_atomic(f); lean.append(".runAtomic %d"%f)
        elif r<0.35: ops.append("K %d"%f); sp.kill(f); lean.append(".kill %d"%f)
        else:
            T+=rnd.choice([0,0,1,2,5,20]); ret=rnd.choice([Y,Y,W,W,W,E,FAIL]); script=[]; did_to=False
            for _ in range(rnd.choice([0,0,1,1,2,3,4])):
                q=rnd.random(); g=rnd.randrange(nf)
                if q<0.25: script.append(('r',g))
                elif q<0.4 and len(sp.pend)+sum(1 for k,_ in script if k=='a')<8: script.append(('a',g))
                elif q<0.5: script.append(('k',g))
                elif q<0.85 and not did_to:
                    D=T+rnd.choice([-3,0,1,2,3,7,15,40])
                    if D>T: did_to=True
                    script.append(('t',D))
                else: script.append(('p',rnd.randrange(1,9)))
            ops.append("N %d %d %s"%(T%2**32, ret, " ".join("%s:%d"%(k,(v%2**32 if k=='t' else v)) for k,v in script)))
            sp.next(T,ret,script)
            ls=", ".join({'r':'.run %d','a':'.runAtomic %d','k':'.kill %d','t':'.timeout (%d)','p':'.setPriv %d'}[k]%v for k,v in script)
            lean.append(".next (%d) %s [%s]"%(T,RET[ret],ls))
    p=subprocess.run(["./h"],input="\n".join(ops)+"\n",capture_output=True,text=True)
    got=p.stdout.strip().split("\n")[1:]
    return lean,got
out=["import Sched","open Sched","set_option maxRecDepth 100000"]
names=[]
for seed in range(120):
    lean,got=lean_ops(seed, random.Random(seed*7+1).randint(5,60))
    out.append("def t%d : List Op × List String := ([%s],\n   [%s])"%(seed, ", ".join(lean), ", ".join('"%s"'%g for g in got)))
    names.append("t%d"%seed)
out.append("def tests : List (List Op × List String) := [%s]"%", ".join(names))
out.append('#eval (tests.filter (fun t => runK t.1 != t.2)).length   -- concrete model vs real fibre.c: expect 0')
out.append('#eval (tests.filter (fun t => runA t.1 != t.2)).length   -- abstract spec vs real fibre.c: > 0 only because of D1')
out.append('#eval tests.length')
open('/tmp/spike/SchedTest.lean','w').write("\n".join(out)+"\n")

#include <stdio.h>
#include <stdlib.h>
#include <string.h>
#include <librfn.h>
/* line protocol: 
   HEX <hexstring of text>            -> sequence of bytes returned by hex_get_byte until -1 (max 400 calls), then 2 more calls
   MQ <depth> <msglen> <slack> ops... -> ops: c s<i> r l e ; outputs per op
   PK <size> ops...                   -> ops: U2<v> u2 U4<v> u4 S2<v> S4<v> B2<v>(u16be) Y<n>(pack n bytes 0xA5..) y<n>(unpack n) N<n>(pack NULL n) u1 c1 s1 ; outputs buffer+consumed/remaining */
int main(void) {
  static char line[1<<16];
  while (fgets(line, sizeof line, stdin)) {
    char *t = strtok(line, " \n");
    if (!t) continue;
    if (!strcmp(t,"HEX")) {
      char *hx = strtok(NULL," \n"); size_t n = hx ? strlen(hx)/2 : 0; char *s = malloc(n+1);
      for (size_t i=0;i<n;i++){ unsigned x; sscanf(hx+2*i,"%2x",&x); s[i]=(char)x;} s[n]=0;
      const char *p; int b = hex_get_byte(s,&p); int cnt=0; 
      while (b!=-1 && cnt<400) { printf("%d,", b); b = hex_get_byte(NULL,&p); cnt++; }
      printf("|%d,%d\n", hex_get_byte(NULL,&p), hex_get_byte(NULL,&p)); free(s);
    } else if (!strcmp(t,"MQ")) {
      int depth=atoi(strtok(NULL," \n")), ml=atoi(strtok(NULL," \n")), slack=atoi(strtok(NULL," \n"));
      size_t len=(size_t)depth*ml+slack; char *store=malloc(len+16); memset(store,0xEE,len+16); char *base=store+8;
      messageq_t q; messageq_init(&q, base, len, ml);
      messageq_t q2 = MESSAGEQ_VAR_INIT(base, len, ml); printf("init%d ", 0==memcmp(&q,&q2,sizeof q));
      char *o; while ((o=strtok(NULL," \n"))) {
        if (o[0]=='c') { char *p=messageq_claim(&q); if(!p) printf("N "); else printf("%ld ", (long)(p-base)); }
        else if (o[0]=='s') messageq_send(&q, base+(size_t)atoi(o+1)*ml), printf(". ");
        else if (o[0]=='r') { char *p=messageq_receive(&q); if(!p) printf("N "); else printf("%ld ", (long)(p-base)); }
        else if (o[0]=='l') messageq_release(&q, base), printf(". ");
        else if (o[0]=='e') printf("%d ", messageq_empty(&q));
      }
      int g=1; for (int i=0;i<8;i++) if ((unsigned char)store[i]!=0xEE || (unsigned char)store[8+len+i]!=0xEE) g=0;
      for (size_t i=0;i<len;i++) if ((unsigned char)base[i]!=0xEE) g=0;
      printf("guard%d\n", g); free(store);
    } else if (!strcmp(t,"PK")) {
      int size=atoi(strtok(NULL," \n")); uint8_t *store=malloc(size+16); memset(store,0xEE,size+16); uint8_t *b=store+8;
      rf_pack_t pk; rf_pack_init(&pk,b,size); char *o; uint8_t tmp[64];
      while ((o=strtok(NULL," \n"))) {
        unsigned long v = strlen(o)>2 ? strtoul(o+2,NULL,10) : 0;
        if (!strncmp(o,"U2",2)) rf_pack_u16le(&pk,v); else if (!strncmp(o,"U4",2)) rf_pack_u32le(&pk,v);
        else if (!strncmp(o,"S2",2)) rf_pack_s16le(&pk,(int16_t)v); else if (!strncmp(o,"S4",2)) rf_pack_s32le(&pk,(int32_t)v);
        else if (!strncmp(o,"B2",2)) rf_pack_u16be(&pk,v);
        else if (o[0]=='Y') { int n=atoi(o+1); for(int i=0;i<n;i++) tmp[i]=0xA0+i; rf_pack_bytes(&pk,tmp,n); }
        else if (o[0]=='N') rf_pack_bytes(&pk,NULL,atoi(o+1));
        else if (o[0]=='y') { int n=atoi(o+1); memset(tmp,0x77,sizeof tmp); rf_unpack_bytes(&pk,tmp,n); printf("["); for(int i=0;i<n;i++) printf("%02x",tmp[i]); printf("] "); }
        else if (o[0]=='z') rf_unpack_bytes(&pk,NULL,atoi(o+1));
        else if (!strcmp(o,"u2")) printf("%u ", rf_unpack_u16le(&pk)); else if (!strcmp(o,"u4")) printf("%u ", rf_unpack_u32le(&pk));
        else if (!strcmp(o,"u1")) printf("%u ", rf_unpack_u8(&pk)); else if (!strcmp(o,"s1")) printf("%d ", rf_unpack_s8(&pk)); else if (!strcmp(o,"c1")) printf("%d ", rf_unpack_char(&pk));
        else if (!strcmp(o,"R")) rf_pack_init(&pk,b,size);
        printf("(%d,%d) ", rf_pack_consumed(&pk), rf_pack_remaining(&pk));
      }
      printf("buf="); for (int i=0;i<size;i++) printf("%02x", b[i]);
      int g=1; for (int i=0;i<8;i++) if (store[i]!=0xEE || store[8+size+i]!=0xEE) g=0; printf(" guard%d\n", g); free(store);
    }
  }
  return 0;
}

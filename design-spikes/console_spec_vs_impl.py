import random, subprocess
def edit_spec(stream):
    """lines completed by the stream, per the property: stack editing, completion on \\n or on the char arriving with 79 stored"""
    lines=[]; cur=[]
    for ch in stream:
        if ch=='\n' or len(cur)>=79: lines.append(''.join(cur)); cur=[]
        elif ch=='\b':
            if cur: cur.pop()
        elif ch=='\x03': cur=[]
        else: cur.append(ch)
    return lines, len(cur)
def code_tokenize(s):
    """transcription of do_tokenize for sanity"""
    b=list(s)+['\0']; n=len(s); argv=[0]; quote='\0'
    for i in range(1,n):
        if b[i] in ' \t\n\v\f\r' and quote=='\0': b[i]='\0'; continue
        if b[i]==quote: quote='\0'; b[i]='\0'; continue
        if b[i-1]=='\0':
            if b[i] in '\'"': quote=b[i]; b[i]='\0'
            else:
                argv.append(i)
                if len(argv)>=4: break
    def cstr(i):
        j=i
        while b[j]!='\0': j+=1
        return ''.join(b[i:j])
    out=[cstr(i) for i in argv]; argc=len(out)
    return argc, out+['']*(4-argc)
def render(args, rnd):
    parts=[args[0]]
    for a in args[1:]:
        sep=''.join(rnd.choice(' \t') for _ in range(rnd.randint(1,3)))
        if any(c in a for c in ' \t') or rnd.random()<0.3:
            q = '"' if '"' not in a else "'"
            parts.append(sep+q+a+q)
        else: parts.append(sep+a)
    return ''.join(parts)
rnd=random.Random(1)
streams=[]; expects=[]
# (1) tokenizer round trip on rendered argument lists
for _ in range(3000):
    k=rnd.randint(1,4); args=['cap']
    for _ in range(k-1):
        kind=rnd.random()
        if kind<0.5: a=''.join(rnd.choice('abcxyz012-_') for _ in range(rnd.randint(1,6)))
        elif kind<0.8: a=''.join(rnd.choice('ab c\tz') for _ in range(rnd.randint(1,8))); a=a if a.strip() else 'a b'
        else: a=''.join(rnd.choice("ab'c ") for _ in range(rnd.randint(1,6))) or "a'"
        if a[0] in '\'"': a='x'+a
        if '"' in a and "'" in a: a=a.replace("'", '')
        args.append(a)
    line=render(args,rnd)
    if len(line)>78: continue
    streams.append(line+'\n'); expects.append(('tok',[ 'CAP %d|%s'%(len(args),'|'.join(args+['']*(4-len(args)))) ]))
# (2) editing: random streams with backspace/ctrl-c, commands all 'cap'
for _ in range(3000):
    s=''.join(rnd.choice(['c','a','p',' ','x','\b','\b','\x03','\n','"']) for _ in range(rnd.randint(1,40)))+'\n'
    lines,_=edit_spec(s)
    exp=[]
    for l in lines:
        argc,av=code_tokenize(l) if l else (1,['','','',''])
        if av[0]=='cap': exp.append('CAP %d|%s'%(argc,'|'.join(av)))
    streams.append(s); expects.append(('edit',exp))
inp='\n'.join(s.encode().hex() for s in streams)+'\n'
out=subprocess.run(['./ch'],input=inp,capture_output=True,text=True)
blocks=[]; cur=[]
for l in out.stdout.split('\n'):
    if l.startswith('END'): blocks.append(cur); cur=[]
    elif l: cur.append(l)
bad={'tok':0,'edit':0}; shown={'tok':0,'edit':0}
for s,(kind,exp),got in zip(streams,expects,blocks):
    if got!=exp:
        bad[kind]+=1
        if shown[kind]<4: shown[kind]+=1; print(kind,'MISMATCH',repr(s),'\n  exp',exp,'\n  got',got)
print('streams',len(streams),'blocks',len(blocks),'bad',bad, 'stderr', out.stderr[:300])

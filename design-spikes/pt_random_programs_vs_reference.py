#!/usr/bin/env python3
"""Spike for C08: random protothread bodies -> C using the real PT_* macros, vs a reference
'sequential program with blocking markers' interpreter (the planned seqTrace spec)."""
import random, subprocess, sys
Y,W,E,F = 0,1,2,3
# AST: ('eff',id) ('seq',[..]) ('if',cond,a,b) ('loop',n,body)  [for(v=0;v<n;v++)]
# ('yield',) ('wait',) ('wuntil',k) [wait until counter reaches k evaluations] ('exit',) ('exiton',cond) ('fail',) ('failon',cond)
# ('spawn',child) ('spawncheck',child) ('call',child) ('childok',a,b)
# conditions: ('bit',i) -> reads input bit i (persistent, constant) ; loops use persistent counters
class Gen:
    def __init__(s, rnd): s.r=rnd; s.nvar=0; s.nfun=0; s.funs=[]
    def var(s): s.nvar+=1; return s.nvar-1
    def cond(s): return ('bit', s.r.randrange(8))
    def stmt(s, depth, allow_spawn):
        r=s.r.random()
        if depth<=0 or r<0.25: 
            return s.r.choice([('eff',s.r.randrange(100)), ('yield',), ('wait',), ('wuntil', s.var(), s.r.randint(0,3)), ('eff',s.r.randrange(100)),
                               ('exiton',s.cond()), ('failon',s.cond())])
        if r<0.45: return ('seq',[s.stmt(depth-1,allow_spawn) for _ in range(s.r.randint(2,4))])
        if r<0.6: return ('if',s.cond(),s.stmt(depth-1,allow_spawn),s.stmt(depth-1,allow_spawn))
        if r<0.75: return ('loop',s.var(),s.r.randint(0,3),s.stmt(depth-1,allow_spawn))
        if r<0.9 and allow_spawn>0:
            child=s.fun(depth-1,allow_spawn-1)
            k=s.r.random()
            if k<0.4: return ('seq',[('spawn',child),('childok',('eff',1000+child),('eff',2000+child))])
            if k<0.7: return ('spawncheck',child)
            if k<0.85: return ('call',child)
            return ('spawn',child)
        if r<0.95: return s.r.choice([('exit',),('fail',)]) if s.r.random()<0.3 else ('eff',s.r.randrange(100))
        return ('eff',s.r.randrange(100))
    def fun(s, depth, allow_spawn):
        body=('seq',[s.stmt(depth,allow_spawn) for _ in range(s.r.randint(1,4))])
        s.funs.append(body); return len(s.funs)-1

def emit_c(g, root, inputs):
    out=['#include <stdio.h>','#include <librfn/protothreads.h>','static int bits=%d;'%inputs,
         'static int v[%d]; static pt_t cpt[%d];'%(max(1,g.nvar),max(1,len(g.funs))),
         '#define EFF(x) printf("e%d\\n", x)','#define BIT(i) ((bits>>(i))&1)']
    for i in range(len(g.funs)): out.append('static pt_state_t f%d(pt_t *pt);'%i)
    def st(n,ind):
        p='\t'*ind; k=n[0]
        if k=='eff': return [p+'EFF(%d);'%n[1]]
        if k=='seq':
            r=[]
            for c in n[1]: r+=st(c,ind)
            return r
        if k=='if': return [p+'if (BIT(%d)) {'%n[1][1]]+st(n[2],ind+1)+[p+'} else {']+st(n[3],ind+1)+[p+'}']
        if k=='loop': return [p+'for (v[%d]=0; v[%d]<%d; v[%d]++) {'%(n[1],n[1],n[2],n[1])]+st(n[3],ind+1)+[p+'}']
        if k=='yield': return [p+'PT_YIELD();']
        if k=='wait': return [p+'PT_WAIT();']
        if k=='wuntil': return [p+'v[%d]=0;'%n[1], p+'PT_WAIT_UNTIL(v[%d]++ >= %d);'%(n[1],n[2])]
        if k=='exit': return [p+'PT_EXIT();']
        if k=='fail': return [p+'PT_FAIL();']
        if k=='exiton': return [p+'PT_EXIT_ON(BIT(%d));'%n[1][1]]
        if k=='failon': return [p+'PT_FAIL_ON(BIT(%d));'%n[1][1]]
        if k=='spawn': return [p+'PT_SPAWN(&cpt[%d], f%d(&cpt[%d]));'%(n[1],n[1],n[1])]
        if k=='spawncheck': return [p+'PT_SPAWN_AND_CHECK(&cpt[%d], f%d(&cpt[%d]));'%(n[1],n[1],n[1])]
        if k=='call': return [p+'PT_CALL(&cpt[%d], f%d(&cpt[%d]));'%(n[1],n[1],n[1])]
        if k=='childok': return [p+'if (PT_CHILD_OK()) {']+st(n[1],ind+1)+[p+'} else {']+st(n[2],ind+1)+[p+'}']
        raise Exception(k)
    for i,b in enumerate(g.funs):
        out+=['static pt_state_t f%d(pt_t *pt)'%i,'{','\tPT_BEGIN(pt);']+st(b,1)+['\tPT_END();','}']
    out+=['int main(void) { pt_t t; PT_INIT(&t); for (int i=0;i<400;i++) { pt_state_t s = f%d(&t); printf("r%%d\\n", s); if (s>=PT_EXITED) break; } return 0; }'%root]
    return '\n'.join(out)+'\n'

class Done(Exception):
    def __init__(s,code): s.code=code
def reference(g, root, inputs, limit=400):
    """sequential semantics: blocking points emit r<code>; terminates at first exit/fail of root."""
    tr=[]; v=[0]*max(1,g.nvar); budget=[limit]
    def bit(i): return (inputs>>i)&1
    def mark(code):
        tr.append('r%d'%code); budget[0]-=1
        if budget[0]<=0: raise Done(None)
    def run(fn, top, relay):
        # returns E or F for the function; relay(code) called at blocking points
        res=[E]
        def ex(n):
            k=n[0]
            if k=='eff': tr.append('e%d'%n[1])
            elif k=='seq':
                for c in n[1]: ex(c)
            elif k=='if': ex(n[2] if bit(n[1][1]) else n[3])
            elif k=='loop':
                v[n[1]]=0
                while v[n[1]]<n[2]:
                    ex(n[3]); v[n[1]]+=1
            elif k=='yield': relay(Y)
            elif k=='wait': relay(W)
            elif k=='wuntil':
                v[n[1]]=0
                while True:
                    c = v[n[1]]>=n[2]; v[n[1]]+=1
                    if c: break
                    relay(W)
            elif k=='exit': raise Done(E)
            elif k=='fail': raise Done(F)
            elif k=='exiton':
                if bit(n[1][1]): raise Done(E)
            elif k=='failon':
                if bit(n[1][1]): raise Done(F)
            elif k in ('spawn','spawncheck'):
                r=run(n[1], False, relay); res[0]=r
                if k=='spawncheck' and r==F: raise Done(F)
            elif k=='call':
                run(n[1], False, lambda code: None)   # spins: yields/waits swallowed
            elif k=='childok': ex(n[1] if res[0]!=F else n[2])
        try:
            ex(g.funs[fn]); return E
        except Done as d:
            if d.code is None: raise
            return d.code
    try:
        r=run(root, True, mark); tr.append('r%d'%r)
    except Done: pass
    return tr

def main():
    nprog=int(sys.argv[1]); bad=0
    for seed in range(nprog):
        rnd=random.Random(seed); g=Gen(rnd); root=g.fun(rnd.randint(1,4), 2)
        for inputs in [rnd.randrange(256) for _ in range(3)]:
            open('p.c','w').write(emit_c(g,root,inputs))
            c=subprocess.run(['gcc','-w','-O0','-I/repo/include','p.c','-o','p'],capture_output=True,text=True)
            if c.returncode: print('COMPILE FAIL seed',seed,c.stderr[:400]); bad+=1; break
            try: got=subprocess.run(['./p'],capture_output=True,text=True,timeout=5).stdout.split()
            except subprocess.TimeoutExpired: got=['TIMEOUT']
            exp=reference(g,root,inputs)
            if got!=exp[:len(got)] or (len(got)<len(exp) and len(got)<400 and got[-1] not in ('r2','r3')) or (got and got[-1] in('r2','r3') and got!=exp):
                bad+=1; print('MISMATCH seed',seed,'inputs',inputs); print(' got',got[:40]); print(' exp',exp[:40]); open('bad_%d.c'%seed,'w').write(emit_c(g,root,inputs)); break
    print('programs',nprog,'bad',bad)
main()

#!/usr/bin/env python3
"""prototype of tie S: extract the shared-access skeleton of the lock-free functions"""
import json, subprocess, sys
def load(path):
    js=subprocess.run(['clang','-Xclang','-ast-dump=json','-fsyntax-only','-I/repo/include',path],capture_output=True,text=True).stdout
    return json.loads(js)
def member(n):
    while n['kind'] in ('ImplicitCastExpr','ParenExpr','UnaryOperator','CStyleCastExpr'): n=n['inner'][0]
    if n['kind']=='MemberExpr': return n['name'], n['type']['qualType']
    if n['kind']=='ArraySubscriptExpr': m,t=member(n['inner'][0]); return m+'[]', n['type']['qualType']
    return None,None
SHARED={'ringbuf_t':['readi','writei','bufp[]'],'messageq_t':['num_free','sendp','full_flags','receivep','basep']}
def walk(n, out, ctx):
    k=n.get('kind')
    if k=='AtomicExpr':
        m,t=member(n['inner'][0]); order=[c for c in n['inner'][1:] if c['kind']=='IntegerLiteral']
        out.append(('atomic:'+n.get('name','?'), m, t, order[0]['value'] if order else '?', ctx)); 
        for c in n['inner'][1:]: walk(c,out,ctx)
        return
    if k=='CallExpr':
        callee=n['inner'][0]
        while callee['kind'] in ('ImplicitCastExpr','ParenExpr'): callee=callee['inner'][0]
        nm=callee.get('referencedDecl',{}).get('name','')
        if 'fence' in nm: out.append(('fence:'+nm,None,None,None,ctx))
    if k=='BinaryOperator' and n.get('opcode')=='=':
        m,t=member(n['inner'][0])
        if m: out.append(('plain-write',m,t,None,ctx)); walk(n['inner'][1],out,ctx); 
        if m: return
    if k in ('MemberExpr','ArraySubscriptExpr'):
        m,t=member(n)
        if m: out.append(('plain-read',m,t,None,ctx)); 
        if k=='ArraySubscriptExpr':
            walk(n['inner'][1],out,ctx)
        return
    if k=='IfStmt':
        walk(n['inner'][0],out,ctx)
        for i,c in enumerate(n['inner'][1:]): walk(c,out,ctx+('then' if i==0 else 'else',))
        return
    for c in n.get('inner',[]): walk(c,out,ctx)
for path,fns in [('/repo/librfn/ringbuf.c',['ringbuf_get','ringbuf_empty','ringbuf_put']),('/repo/librfn/messageq.c',['messageq_claim','messageq_send','messageq_receive','messageq_release','messageq_empty'])]:
    ast=load(path)
    for c in ast['inner']:
        if c.get('kind')=='RecordDecl' and 'inner' in c:
            fs=[(f['name'],f['type']['qualType']) for f in c['inner'] if f['kind']=='FieldDecl']
            if any(n in ('readi','num_free') for n,_ in fs): print('fields',fs)
        if c.get('kind')=='FunctionDecl' and c.get('name') in fns and any(x.get('kind')=='CompoundStmt' for x in c.get('inner',[])):
            out=[]; walk([x for x in c['inner'] if x['kind']=='CompoundStmt'][0],out,())
            print(c['name'])
            for o in out:
                if o[1] in ('readi','writei','bufp[]','num_free','sendp','full_flags','receivep','basep') or o[0].startswith('fence'): print('   ',o)

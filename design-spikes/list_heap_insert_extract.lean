/-! Spike for C09: librfn/list.c on an explicit heap, including the deliberately stale tail pointer
    (list_iterator_remove stores `containerof(&list->head, list_node_t, next)` as tail when the
    only node is removed). -/
namespace ListHeap

abbrev Node := Nat

/-- what `list->tail` can hold -/
inductive Tail
  | null                 -- zero-initialised
  | node (n : Node)
  | bogusHead            -- address of the list's own head field, mis-typed as a node
  deriving DecidableEq, Repr

structure L where
  head : Option Node
  tail : Tail

abbrev Heap := Node → Option Node     -- node ↦ node->next

inductive Res (α : Type) | ok (a : α) | assertFail | wild   -- wild = dereference of a non-node
  deriving Repr

/-- `xs` is the chain starting at `start` -/
def Chain (h : Heap) : Option Node → List Node → Prop
  | start, [] => start = none
  | start, x :: r => start = some x ∧ Chain h (h x) r

/-- abstraction relation: tail is only constrained while the list is non-empty -/
structure IsList (h : Heap) (l : L) (xs : List Node) : Prop where
  chain : Chain h l.head xs
  nodup : xs.Nodup
  tail : ∀ x, xs.getLast? = some x → l.tail = .node x

/-- list_insert -/
def insert (h : Heap) (l : L) (n : Node) : Res (Heap × L) :=
  if h n ≠ none then .assertFail
  else match l.head with
    | some _ =>
      (match l.tail with
       | .node t => .ok (fun i => if i = t then some n else h i, { l with tail := .node n })
       | _ => .wild)                                  -- would write through a stale tail
    | none => .ok (h, { head := some n, tail := .node n })

/-- list_extract -/
def extract (h : Heap) (l : L) : Heap × L × Option Node :=
  match l.head with
  | none => (h, l, none)
  | some n => (fun i => if i = n then none else h i, { l with head := h n }, some n)

/-! ### chain lemmas -/

theorem chain_congr {h h' : Heap} : ∀ (xs : List Node) (s : Option Node),
    (∀ x ∈ xs, h' x = h x) → Chain h s xs → Chain h' s xs
  | [], _, _, c => c
  | x :: r, s, hag, ⟨c1, c2⟩ =>
    ⟨c1, by rw [hag x (by simp)]; exact chain_congr r _ (fun y hy => hag y (by simp [hy])) c2⟩

/-- appending at the end: set last.next := n where n.next = none and n is fresh -/
theorem chain_snoc {h : Heap} : ∀ (xs : List Node) (s : Option Node) (t n : Node),
    Chain h s xs → xs.getLast? = some t → (t :: xs).Nodup ∨ True → xs.Nodup → n ∉ xs → h n = none →
    Chain (fun i => if i = t then some n else h i) s (xs ++ [n])
  | [], _, _, _, _, hl, _, _, _, _ => by simp at hl
  | [x], s, t, n, ⟨c1, c2⟩, hl, _, _, hn, hnn => by
    simp at hl; subst hl
    have hne : n ≠ x := by intro e; apply hn; simp [e]
    refine ⟨c1, ?_⟩
    simp only [if_true]
    exact ⟨rfl, by simp [hne, hnn, Chain]⟩
  | x :: y :: r, s, t, n, ⟨c1, c2⟩, hl, ht, hnd, hn, hnn => by
    have hl' : (y :: r).getLast? = some t := by simpa [List.getLast?_cons_cons] using hl
    have hnd' : (y :: r).Nodup := (List.nodup_cons.mp hnd).2
    have hxt : x ≠ t := by
      intro e
      have : t ∈ y :: r := List.mem_of_getLast? hl'
      exact (List.nodup_cons.mp hnd).1 (e ▸ this)
    refine ⟨c1, ?_⟩
    simp only [hxt, if_false]
    exact chain_snoc (y :: r) (h x) t n c2 hl' (Or.inr trivial) hnd' (fun hm => hn (by simp [List.mem_cons] at hm ⊢; right; exact hm)) hnn

/-! ### operations refine sequence operations -/

/-- list_insert appends; in particular it is correct on a list emptied by any earlier operation,
    whatever junk the tail holds, and never dereferences a stale tail -/
theorem insert_spec (h : Heap) (l : L) (xs : List Node) (n : Node)
    (hl : IsList h l xs) (hn : n ∉ xs) (hnn : h n = none) :
    ∃ h' l', insert h l n = .ok (h', l') ∧ IsList h' l' (xs ++ [n]) ∧ (∀ i, i ∉ xs → i ≠ n → h' i = h i) := by
  unfold insert
  simp only [hnn, ne_eq, not_true_eq_false, if_false]
  cases xs with
  | nil =>
    have : l.head = none := hl.chain
    simp only [this]
    refine ⟨_, _, rfl, ⟨?_, by simp, ?_⟩, fun _ _ _ => rfl⟩
    · exact ⟨rfl, by simp [hnn, Chain]⟩
    · intro x hx; simp at hx; simp [hx]
  | cons x r =>
    obtain ⟨c1, c2⟩ := hl.chain
    obtain ⟨t, ht⟩ : ∃ t, (x :: r).getLast? = some t := by
      cases hgl : (x :: r).getLast? with
      | none => simp at hgl
      | some t => exact ⟨t, rfl⟩
    have htail := hl.tail t ht
    simp only [c1, htail]
    refine ⟨_, _, rfl, ⟨?_, ?_, ?_⟩, ?_⟩
    · have := chain_snoc (x :: r) (some x) t n ⟨rfl, c2⟩ ht (Or.inr trivial) hl.nodup hn hnn
      simpa [c1] using this
    · rw [List.nodup_append]
      refine ⟨hl.nodup, by simp, ?_⟩
      intro a ha b hb
      simp at hb; subst hb
      intro e; exact hn (e ▸ ha)
    · intro y hy
      have e : (x :: r ++ [n]).getLast? = some n := by
        exact List.getLast?_concat ..
      rw [e] at hy
      cases hy; rfl
    · intro i hi _
      have : i ≠ t := fun e => hi (e ▸ List.mem_of_getLast? ht)
      simp [this]

/-- list_extract pops the head, clears its link (immediately reusable), leaves the tail stale
    when the list becomes empty -/
theorem extract_spec (h : Heap) (l : L) (xs : List Node) (hl : IsList h l xs) :
    match xs with
    | [] => extract h l = (h, l, none)
    | x :: r => ∃ h' l', extract h l = (h', l', some x) ∧ IsList h' l' r ∧ h' x = none := by
  cases xs with
  | nil =>
    have : l.head = none := hl.chain
    simp [extract, this]
  | cons x r =>
    obtain ⟨c1, c2⟩ := hl.chain
    simp only [extract, c1]
    refine ⟨_, _, rfl, ⟨?_, (List.nodup_cons.mp hl.nodup).2, ?_⟩, by simp⟩
    · apply chain_congr r _ _ c2
      intro y hy
      have : y ≠ x := fun e => (List.nodup_cons.mp hl.nodup).1 (e ▸ hy)
      simp [this]
    · intro y hy
      apply hl.tail y
      cases r with
      | nil => simp at hy
      | cons z r' => simpa [List.getLast?_cons_cons] using hy

#print axioms insert_spec
#print axioms extract_spec

/-- non-vacuity: the state after removing the only node (stale tail) is a valid empty list,
    and inserting into it works -/
example : IsList (fun _ => none) { head := none, tail := .bogusHead } [] :=
  ⟨rfl, by simp, by simp⟩

end ListHeap

import Std.Tactic.BVDecide
/-! Spike for C12: librfn/pack.c.  Memory is a total map; the buffer is [base, base+size);
    the cursor is an unbounded offset (it may run past the end: the sticky overflow state). -/
namespace Pack

abbrev Mem := Nat → UInt8

structure Pk where
  base : Nat
  size : Nat
  cur : Nat        -- offset from base; may exceed size

def Pk.fits (p : Pk) (n : Nat) : Bool := p.cur + n ≤ p.size
def consumed (p : Pk) : Int := p.cur
def remaining (p : Pk) : Int := (p.size : Int) - p.cur

def writeBytes (m : Mem) (a : Nat) : List UInt8 → Mem
  | [] => m
  | b :: bs => writeBytes (fun i => if i = a then b else m i) (a + 1) bs
def readBytes (m : Mem) (a : Nat) : Nat → List UInt8
  | 0 => []
  | n + 1 => m a :: readBytes m (a + 1) n

/-- the PACK macro: advance first, transfer only if the new cursor is within the buffer -/
def packBytes (m : Mem) (p : Pk) (bs : List UInt8) : Mem × Pk :=
  (if p.fits bs.length then writeBytes m (p.base + p.cur) bs else m, { p with cur := p.cur + bs.length })

/-- the UNPACK macro / rf_unpack_bytes: `none` = nothing transferred (caller sees zeros) -/
def unpackBytes (m : Mem) (p : Pk) (n : Nat) : Option (List UInt8) × Pk :=
  (if p.fits n then some (readBytes m (p.base + p.cur) n) else none, { p with cur := p.cur + n })

def le16 (v : BitVec 16) : List UInt8 := [⟨v.setWidth 8⟩, ⟨(v >>> 8).setWidth 8⟩]
def be16 (v : BitVec 16) : List UInt8 := [⟨(v >>> 8).setWidth 8⟩, ⟨v.setWidth 8⟩]
def le32 (v : BitVec 32) : List UInt8 :=
  [⟨v.setWidth 8⟩, ⟨(v >>> 8).setWidth 8⟩, ⟨(v >>> 16).setWidth 8⟩, ⟨(v >>> 24).setWidth 8⟩]
def unle16 : List UInt8 → BitVec 16
  | [a, b] => a.toBitVec.setWidth 16 ||| (b.toBitVec.setWidth 16 <<< 8)
  | _ => 0
def unle32 : List UInt8 → BitVec 32
  | [a, b, c, d] => a.toBitVec.setWidth 32 ||| (b.toBitVec.setWidth 32 <<< 8) |||
      (c.toBitVec.setWidth 32 <<< 16) ||| (d.toBitVec.setWidth 32 <<< 24)
  | _ => 0

/-! ### memory lemmas -/

theorem writeBytes_outside (m : Mem) (a : Nat) (bs : List UInt8) (i : Nat) (h : i < a ∨ a + bs.length ≤ i) :
    writeBytes m a bs i = m i := by
  induction bs generalizing m a with
  | nil => rfl
  | cons b bs ih =>
    simp only [writeBytes, List.length_cons] at *
    rw [ih _ _ (by omega)]
    have : i ≠ a := by omega
    simp [this]

theorem readBytes_congr (m m' : Mem) (a n : Nat) (h : ∀ i, a ≤ i → i < a + n → m i = m' i) :
    readBytes m a n = readBytes m' a n := by
  induction n generalizing a with
  | zero => rfl
  | succ n ih =>
    simp only [readBytes]
    rw [h a (Nat.le_refl _) (by omega), ih (a + 1) (fun i h1 h2 => h i (by omega) (by omega))]

theorem readBytes_writeBytes (m : Mem) (a : Nat) (bs : List UInt8) :
    readBytes (writeBytes m a bs) a bs.length = bs := by
  induction bs generalizing m a with
  | nil => rfl
  | cons b bs ih =>
    simp only [writeBytes, readBytes, List.length_cons]
    rw [ih]
    rw [writeBytes_outside _ _ _ _ (Or.inl (Nat.lt_succ_self a))]
    simp

/-! ### C12 statements -/

/-- no byte outside the buffer is ever written -/
theorem pack_writes_confined (m : Mem) (p : Pk) (bs : List UInt8) (i : Nat)
    (h : i < p.base ∨ p.base + p.size ≤ i) : (packBytes m p bs).1 i = m i := by
  unfold packBytes
  by_cases hf : p.fits bs.length
  · simp only [hf, if_true]
    apply writeBytes_outside
    simp only [Pk.fits, decide_eq_true_eq] at hf
    omega
  · simp [hf]

/-- the result of an unpack depends only on the bytes of the buffer -/
theorem unpack_reads_confined (m m' : Mem) (p : Pk) (n : Nat)
    (h : ∀ i, p.base ≤ i → i < p.base + p.size → m i = m' i) : unpackBytes m p n = unpackBytes m' p n := by
  unfold unpackBytes
  by_cases hf : p.fits n
  · simp only [hf, if_true]
    simp only [Pk.fits, decide_eq_true_eq] at hf
    rw [readBytes_congr m m' _ _ (fun i h1 h2 => h i (by omega) (by omega))]
  · simp [hf]

/-- all-or-nothing, exact fit succeeds -/
theorem pack_all_or_nothing (m : Mem) (p : Pk) (bs : List UInt8) :
    (p.cur + bs.length ≤ p.size → readBytes (packBytes m p bs).1 (p.base + p.cur) bs.length = bs) ∧
    (p.size < p.cur + bs.length → (packBytes m p bs).1 = m) := by
  unfold packBytes
  constructor
  · intro h
    have : p.fits bs.length = true := by simp [Pk.fits, h]
    simp only [this, if_true]
    exact readBytes_writeBytes _ _ _
  · intro h
    have : p.fits bs.length = false := by simp [Pk.fits]; omega
    simp [this]

/-- sticky: once overflowed, every later item (of any size) is not transferred -/
theorem sticky (p : Pk) (n k : Nat) (h : p.size < p.cur + n) : ({ p with cur := p.cur + n } : Pk).fits k = false := by
  simp [Pk.fits]; omega

/-- the counters keep counting every requested byte: remaining goes negative on overflow -/
theorem counters (m : Mem) (p : Pk) (bs : List UInt8) :
    consumed (packBytes m p bs).2 = consumed p + bs.length ∧
    remaining (packBytes m p bs).2 = remaining p - bs.length := by
  simp [packBytes, consumed, remaining]; omega

/-- fixed byte order and round trip, every 16- and 32-bit value -/
theorem le16_roundtrip (v : BitVec 16) : unle16 (le16 v) = v := by
  simp only [le16, unle16]; bv_decide
theorem le32_roundtrip (v : BitVec 32) : unle32 (le32 v) = v := by
  simp only [le32, unle32]; bv_decide
theorem le16_layout (v : BitVec 16) : (le16 v)[0]! = ⟨v.setWidth 8⟩ ∧ (be16 v)[1]! = ⟨v.setWidth 8⟩ := by
  simp [le16, be16]

#print axioms pack_all_or_nothing
#print axioms le32_roundtrip
end Pack

import random, subprocess
NN,NL=8,3
HEAD='H'
def run(seed, n):
    rnd=random.Random(seed)
    L=[[] for _ in range(NL)]; pred=[None]*NL   # iterator: None invalid | HEAD | node id (predecessor)
    ops=['reset 0 0']; exp=[]
    def dump():
        s=''.join(' L%d:%s'%(l,''.join('%d,'%x for x in L[l])) for l in range(NL))
        infree=[i for i in range(NN) if not any(i in l for l in L)]
        return s+' free:'+''.join('%d,'%i for i in infree)
    def position(l):
        return 0 if pred[l]==HEAD else L[l].index(pred[l])+1
    def revalidate():
        for l in range(NL):
            if pred[l] not in (None,HEAD) and pred[l] not in L[l]: pred[l]=None
    exp.append('ok'+dump())
    key=lambda i:i//2
    for _ in range(n):
        l=rnd.randrange(NL); free=[i for i in range(NN) if not any(i in x for x in L)]
        r=rnd.random(); res=None
        if r<0.14 and free: b=rnd.choice(free); ops.append('insert %d %d'%(l,b)); L[l].append(b); res='ok'
        elif r<0.22 and free: b=rnd.choice(free); ops.append('push %d %d'%(l,b)); L[l].insert(0,b); res='ok'
        elif r<0.34 and free and all(key(L[l][i])<=key(L[l][i+1]) for i in range(len(L[l])-1)):
            b=rnd.choice(free); i=0
            while i<len(L[l]) and key(L[l][i])<=key(b): i+=1
            ops.append('sorted %d %d'%(l,b)); L[l].insert(i,b); res='ok'
        elif r<0.42: ops.append('extract %d 0'%l); res=str(L[l].pop(0)) if L[l] else '-1'
        elif r<0.52: b=rnd.randrange(NN); ops.append('remove %d %d'%(l,b)); res='1' if b in L[l] else '0'; (L[l].remove(b) if b in L[l] else None)
        elif r<0.58: b=rnd.randrange(NN); ops.append('contains %d %d'%(l,b)); res='1' if b in L[l] else '0'
        elif r<0.66: ops.append('iterate %d 0'%l); pred[l]=HEAD; res=str(L[l][0]) if L[l] else '-1'
        elif r<0.72:
            b=rnd.randrange(NN); ops.append('find %d %d'%(l,b)); res='1' if b in L[l] else '0'
            if b in L[l]: i=L[l].index(b); pred[l]=HEAD if i==0 else L[l][i-1]
            else: pred[l]=L[l][-1] if L[l] else HEAD
        elif pred[l] is not None and r<0.82:
            ops.append('next %d 0'%l); p=position(l)
            if p<len(L[l]): pred[l]=L[l][p]; p+=1
            res=str(L[l][p]) if p<len(L[l]) else '-1'
        elif pred[l] is not None and r<0.91 and free:
            b=rnd.choice(free); ops.append('iinsert %d %d'%(l,b)); L[l].insert(position(l),b); res='ok'
        elif pred[l] is not None and position(l)<len(L[l]):
            p=position(l); ops.append('iremove %d 0'%l); L[l].pop(p); res=str(L[l][p]) if p<len(L[l]) else '-1'
        else: continue
        revalidate()
        exp.append(res+dump())
    out=subprocess.run(['./lh'],input='\n'.join(ops)+'\n',capture_output=True,text=True,timeout=10)
    got=out.stdout.strip().split('\n')
    if got!=exp or out.returncode:
        for i,(o,e) in enumerate(zip(ops,exp)):
            g=got[i] if i<len(got) else None
            if g!=e: print('seed',seed,'op',i,o,'\n exp',e,'\n got',g, out.stderr[-300:]); break
        return 1
    return 0
bad=0
for s in range(1500):
    try: bad+=run(s,random.Random(s).randint(5,120))
    except subprocess.TimeoutExpired: print("TIMEOUT seed",s); bad+=1
    if bad>=3: break
print('list histories bad',bad)

#include <stdio.h>
#include <string.h>
#include <stdlib.h>
#include <assert.h>
#include <librfn/bintree.h>
typedef struct { bintree_node_t n; int id; } N;
static N *mk(int *ctr, int size, unsigned *seed) {
  if (size == 0) return NULL;
  N *x = calloc(1, sizeof *x);
  int l = rand_r(seed) % size; int r = size - 1 - l;
  x->n.left = (bintree_node_t*) mk(ctr, l, seed);
  x->id = (*ctr)++;
  x->n.right = (bintree_node_t*) mk(ctr, r, seed);
  return x;
}
static int seq[1000], nseq;
static void vis(void *c, bintree_node_t *n, bintree_node_t *p, int d) { if (n) seq[nseq++] = ((N*)n)->id; }
static int freed[1000], nfreed;
static void dealloc(bintree_node_t *n) { freed[nfreed++] = ((N*)n)->id; free(n); }
static void snap(N *t, long *out, int *k) { if (!t) return; out[(*k)++] = (long)t->n.left; out[(*k)++]=(long)t->n.right; snap((N*)t->n.left,out,k); snap((N*)t->n.right,out,k);} 
int main() {
  unsigned seed = 1;
  for (int iter = 0; iter < 20000; iter++) {
    int size = rand_r(&seed) % 12; int ctr = 0;
    N *t = mk(&ctr, size, &seed);
    long s0[64], s1[64]; int k0=0,k1=0; snap(t,s0,&k0);
    bintree_iterator_t it; int got[1000], ng;
    for (int mode=0; mode<3; mode++) {
      nseq=0; ng=0;
      if (mode==0) bintree_traverse_in_order(&t->n, vis, NULL); else if (mode==1) bintree_traverse_pre_order(&t->n, vis, NULL); else bintree_traverse_post_order(&t->n, vis, NULL);
      bintree_node_t *n = mode==0 ? bintree_iterate_in_order(&it, t?&t->n:NULL) : mode==1 ? bintree_iterate_pre_order(&it, t?&t->n:NULL) : bintree_iterate_post_order(&it, t?&t->n:NULL);
      for (; n; n = bintree_next(&it)) got[ng++] = ((N*)n)->id;
      if (ng != nseq || memcmp(got, seq, ng*sizeof(int))) { printf("MISMATCH mode %d size %d\n", mode, size); return 1; }
      k1=0; snap(t,s1,&k1); if (k1!=k0 || memcmp(s0,s1,k0*sizeof(long))) { printf("NOT RESTORED mode %d\n", mode); return 1; }
    }
    nseq=0; bintree_traverse_post_order(t?&t->n:NULL, vis, NULL);
    nfreed=0; bintree_free(t?&t->n:NULL, dealloc);
    if (nfreed != nseq || memcmp(freed, seq, nseq*sizeof(int))) { printf("FREE MISMATCH size %d\n", size); return 1; }
  }
  printf("bintree ok\n");
  return 0;
}

/-! Spike for C11: post_order_iterator (librfn/bintree.c:242-280).  After the tagging pass every
    node's left pointer carries the "not yet visited" tag; each call walks down from the root to
    the first unvisited node in post-order, untags it and returns it with its parent. -/
namespace Post

structure Node where
  left : Option Nat
  tag : Bool            -- low bit of the left pointer: true = not yet visited
  right : Option Nat

abbrev Heap := Nat → Node

inductive Tree
  | nil
  | node (l : Tree) (x : Nat) (r : Tree)

namespace Tree
def postorder : Tree → List Nat
  | nil => []
  | node l x r => postorder l ++ postorder r ++ [x]
def root : Tree → Option Nat
  | nil => none
  | node _ x _ => some x
def size : Tree → Nat
  | nil => 0
  | node l _ r => size l + 1 + size r
end Tree
open Tree

/-- pointers of the heap spell the tree (tags are separate) -/
def Repr (h : Heap) : Tree → Prop
  | nil => True
  | node l x r => (h x).left = root l ∧ (h x).right = root r ∧ Repr h l ∧ Repr h r

/-- exactly the first `j` nodes of `postorder t` are visited (untagged) -/
def Visited (h : Heap) : Tree → Nat → Prop
  | nil, _ => True
  | node l x r, j =>
      Visited h l (min j (size l)) ∧ Visited h r (min (j - size l) (size r)) ∧
      ((h x).tag = decide (j < size l + size r + 1))

/-- the `while` loop of post_order_iterator: returns (node, parent) -/
def descend : Nat → Heap → Nat → Option Nat → Option (Nat × Option Nat)
  | 0, _, _, _ => none
  | fuel + 1, h, tmp, prev =>
    if (h tmp).tag = false then none            -- `is_visited(tmp)`: loop exits, iterator returns NULL
    else
      match (h tmp).left with
      | some l =>
        if (h l).tag then descend fuel h l (some tmp)
        else (match (h tmp).right with
              | some r => if (h r).tag then descend fuel h r (some tmp) else some (tmp, prev)
              | none => some (tmp, prev))
      | none =>
        (match (h tmp).right with
         | some r => if (h r).tag then descend fuel h r (some tmp) else some (tmp, prev)
         | none => some (tmp, prev))

theorem root_tag (h : Heap) : ∀ (t : Tree) (x : Nat) (j : Nat), root t = some x → Visited h t j →
    (h x).tag = decide (j < size t)
  | node l y r, x, j, hr, ⟨_, _, ht⟩ => by
    simp [root] at hr; subst hr
    simp only [size]; rw [ht]; congr 1; apply propext; omega

theorem len_post : ∀ t : Tree, (postorder t).length = size t
  | nil => rfl
  | node a b c => by simp [postorder, size, len_post a, len_post c]; omega

/-- when a subtree's root is untagged the whole subtree has been visited -/
theorem all_visited_of_root (h : Heap) (t : Tree) (x : Nat) (j : Nat) (hr : root t = some x)
    (hv : Visited h t j) (hj : j ≤ size t) (ht : (h x).tag = false) : j = size t := by
  have := root_tag h t x j hr hv
  rw [ht] at this
  simp at this; omega

/-- C11 (post-order): with the first `j < size t` nodes visited, the walk from the root returns
    the `j`-th node of the post-order sequence, and reports `prev` for the root itself -/
theorem descend_spec : ∀ (t : Tree) (x : Nat) (j : Nat) (h : Heap) (prev : Option Nat) (fuel : Nat),
    root t = some x → size t ≤ fuel → j < size t → Repr h t → Visited h t j →
    ∃ p, descend fuel h x prev = some ((postorder t)[j]?.getD 0, p) ∧
         (j + 1 = size t → p = prev)
  | nil, x, _, _, _, _, hr, _, _, _, _ => by simp [root] at hr
  | node l y r, x, j, h, prev, fuel, hr, hf, hj, ⟨hl, hrr, rl, rr⟩, ⟨vl, vr, vt⟩ => by
    simp [root] at hr; subst hr
    have hsz : size (node l y r) = size l + 1 + size r := rfl
    rw [hsz] at hf hj
    cases fuel with
    | zero => omega
    | succ f =>
      have htag : (h y).tag = true := by rw [vt]; simp; omega
      have hpo : postorder (node l y r) = postorder l ++ (postorder r ++ [y]) := by
        simp [postorder, List.append_assoc]
      -- the right-subtree / root part of the walk, used after the left subtree is exhausted
      have right_part : j ≥ size l →
          ∃ p, (match (h y).right with
                | some r' => if (h r').tag then descend f h r' (some y) else some (y, prev)
                | none => some (y, prev)) = some ((postorder (node l y r))[j]?.getD 0, p) ∧
               (j + 1 = size (node l y r) → p = prev) := by
        intro hge
        have hmin : min (j - size l) (size r) = j - size l := by omega
        rw [hmin] at vr
        by_cases hjr : j - size l < size r
        · cases r with
          | nil => simp [size] at hjr
          | node rl' z rr' =>
            have hz : (h y).right = some z := by simpa [root] using hrr
            have hzt : (h z).tag = true := by
              rw [root_tag h (node rl' z rr') z _ rfl vr]; simp [hjr]
            obtain ⟨p, hp, _⟩ := descend_spec (node rl' z rr') z (j - size l) h (some y) f rfl (by omega) hjr rr vr
            refine ⟨p, ?_, by intro e; rw [hsz] at e; omega⟩
            simp only [hz, hzt, if_true]
            rw [hp, hpo, List.getElem?_append_right (by rw [len_post]; exact hge), len_post,
              List.getElem?_append_left (by rw [len_post]; exact hjr)]
        · -- everything below is visited: return y itself
          have hjy : j = size l + size r := by omega
          refine ⟨prev, ?_, fun _ => rfl⟩
          have hget : (postorder (node l y r))[j]?.getD 0 = y := by
            rw [hpo, List.getElem?_append_right (by rw [len_post]; omega), len_post,
              List.getElem?_append_right (by rw [len_post]; omega), len_post]
            have : j - size l - size r = 0 := by omega
            rw [this]; rfl
          rw [hget]
          cases r with
          | nil =>
            have : (h y).right = none := by simpa [root] using hrr
            simp [this]
          | node rl' z rr' =>
            have hz : (h y).right = some z := by simpa [root] using hrr
            have hzt : (h z).tag = false := by
              rw [root_tag h (node rl' z rr') z _ rfl vr]; simp; omega
            simp [hz, hzt]
      simp only [descend, htag]
      by_cases hjl : j < size l
      · -- the next node is in the left subtree
        cases l with
        | nil => simp [size] at hjl
        | node ll z lr =>
          have hz : (h y).left = some z := by simpa [root] using hl
          have hmin : min j (size (node ll z lr)) = j := by omega
          rw [hmin] at vl
          have hzt : (h z).tag = true := by
            rw [root_tag h (node ll z lr) z j rfl vl]; simp [hjl]
          obtain ⟨p, hp, _⟩ := descend_spec (node ll z lr) z j h (some y) f rfl (by omega) hjl rl vl
          refine ⟨p, ?_, by intro e; rw [hsz] at e; omega⟩
          simp only [hz, hzt, if_true]
          rw [hp, hpo, List.getElem?_append_left (by rw [len_post]; exact hjl)]
          simp
      · have hge : j ≥ size l := by omega
        have hmin : min j (size l) = size l := by omega
        rw [hmin] at vl
        cases l with
        | nil =>
          have : (h y).left = none := by simpa [root] using hl
          simp only [this]
          exact right_part hge
        | node ll z lr =>
          have hz : (h y).left = some z := by simpa [root] using hl
          have hzt : (h z).tag = false := by
            rw [root_tag h (node ll z lr) z _ rfl vl]; simp
          simp only [hz, hzt]
          exact right_part hge

#print axioms descend_spec
end Post

#include <stdio.h>
#include <stdlib.h>
#include <string.h>
#include <librfn/list.h>
#include <librfn/util.h>
#define NN 8
#define NL 3
typedef struct { list_node_t n; int key; } N;
static N nodes[NN]; static list_t L[NL]; static list_iterator_t it[NL]; static int itvalid[NL];
static int cmp(list_node_t *a, list_node_t *b) { return containerof(a,N,n)->key - containerof(b,N,n)->key; }
static int id(list_node_t *p) { return p ? (int)(containerof(p,N,n) - nodes) : -1; }
static void dump(void) {
  for (int l=0;l<NL;l++) { printf(" L%d:", l); for (list_node_t *p = L[l].head; p; p = p->next) printf("%d,", id(p)); }
  printf(" free:"); for (int i=0;i<NN;i++) { int in=0; for (int l=0;l<NL;l++) for (list_node_t *p=L[l].head;p;p=p->next) if (p==&nodes[i].n) in=1; if(!in) printf("%d%s,", i, nodes[i].n.next? "!":""); }
  printf("\n");
}
int main(void) {
  char op[16]; int a,b;
  for (int i=0;i<NN;i++) nodes[i].key = i/2;   /* duplicate keys for stability */
  while (scanf("%15s %d %d", op, &a, &b) == 3) {
    if (!strcmp(op,"reset")) { memset(L,0,sizeof L); memset(nodes,0,sizeof nodes); for (int i=0;i<NN;i++) nodes[i].key=i/2; printf("ok"); }
    else if (!strcmp(op,"insert")) { list_insert(&L[a], &nodes[b].n); printf("ok"); }
    else if (!strcmp(op,"push")) { list_push(&L[a], &nodes[b].n); printf("ok"); }
    else if (!strcmp(op,"sorted")) { list_insert_sorted(&L[a], &nodes[b].n, cmp); printf("ok"); }
    else if (!strcmp(op,"extract")) { printf("%d", id(list_extract(&L[a]))); }
    else if (!strcmp(op,"remove")) { printf("%d", list_remove(&L[a], &nodes[b].n)); }
    else if (!strcmp(op,"contains")) { printf("%d", list_contains(&L[a], &nodes[b].n, NULL)); }
    else if (!strcmp(op,"iterate")) { printf("%d", id(list_iterate(&L[a], &it[a]))); }
    else if (!strcmp(op,"next")) { printf("%d", id(list_iterator_next(&it[a]))); }
    else if (!strcmp(op,"iinsert")) { list_iterator_insert(&it[a], &nodes[b].n); printf("ok"); }
    else if (!strcmp(op,"iremove")) { printf("%d", id(list_iterator_remove(&it[a]))); }
    else if (!strcmp(op,"find")) { printf("%d", list_contains(&L[a], &nodes[b].n, &it[a])); }
    dump();
  }
  return 0;
}

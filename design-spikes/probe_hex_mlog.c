#define _GNU_SOURCE
#include <stdio.h>
#include <string.h>
#include <stdlib.h>
#include <assert.h>
#include <librfn.h>
#include "/repo/librfn/mlog.c"
int main() {
  unsigned seed = 7;
  for (int iter=0; iter<3000; iter++) {
    size_t n = rand_r(&seed) % 70; unsigned char *p = malloc(n+1);
    for (size_t i=0;i<n;i++) p[i] = rand_r(&seed);
    char *txt; size_t tl; FILE *f = open_memstream(&txt, &tl);
    hex_dump_to_file(f, p, n); fclose(f);
    char *exact = malloc(tl+1); memcpy(exact, txt, tl+1);
    const char *q; int b = hex_get_byte(exact, &q); size_t k=0;
    while (b != -1) { if (k>=n || b != p[k]) { printf("HEX MISMATCH n=%zu k=%zu\n", n,k); return 1;} k++; b = hex_get_byte(NULL, &q); }
    if (k != n) { printf("HEX SHORT n=%zu k=%zu text=[%s]\n", n, k, exact); return 1; }
    assert(hex_get_byte(NULL,&q) == -1);
    free(exact); free(txt); free(p);
  }
  // random strings
  const char alpha[] = "0123456789abcdefABCDEFxX: \t\n\ngz";
  for (int iter=0; iter<200000; iter++) {
    size_t n = rand_r(&seed) % 24; char *s = malloc(n+1);
    for (size_t i=0;i<n;i++) s[i] = alpha[rand_r(&seed) % (sizeof alpha - 1)]; s[n]=0;
    const char *q; int b = hex_get_byte(s,&q); int cnt=0;
    while (b != -1) { assert(b>=0 && b<=255); b = hex_get_byte(NULL,&q); assert(++cnt < 100);} 
    assert(hex_get_byte(NULL,&q) == -1);
    free(s);
  }
  printf("hex ok\n");
  // mlog wrap
  log.head = 0x7fffffff - 300;  // pretend
  // fill consistent: emulate by logging 600 messages with numeric args
  for (int i=0;i<600;i++) { mlog("m%d", i); }
  int bad=0; for (int k=0;k<256;k++) { char *l = mlog_get_line(k); char e[32]; sprintf(e,"m%d", 600-256+k); if (!l || strcmp(l,e)) bad++; free(l);} 
  printf("mlog wrap head=%x bad=%d line256=%p lineneg=%p\n", log.head, bad, (void*)mlog_get_line(256), (void*)mlog_get_line(-1));
  return 0;
}

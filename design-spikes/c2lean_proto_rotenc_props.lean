import Gen
import Std.Tactic.BVDecide
/-! C19 on generated code -/

/-- spec: quarter-step delta (as a 16-bit two's complement number) for a (from,to) pair of 2-bit states -/
def deltaBV (f t : BitVec 2) : BitVec 16 :=
  if (f = 0 ∧ t = 1) ∨ (f = 1 ∧ t = 3) ∨ (f = 3 ∧ t = 2) ∨ (f = 2 ∧ t = 0) then 1#16
  else if (f = 0 ∧ t = 2) ∨ (f = 2 ∧ t = 3) ∨ (f = 3 ∧ t = 1) ∨ (f = 1 ∧ t = 0) then 0xffff#16 else 0#16

/-- one decode step: all 16 (from,to) pairs, all counts, all latched values -/
theorem step_delta (f t : BitVec 2) (cnt : BitVec 8) (ic : BitVec 16) :
    let r := rotenc_decode (f.setWidth 8) cnt ic (t.setWidth 8)
    r.2.2 = ic + deltaBV f t ∧ r.1 = t.setWidth 8 ∧
    r.2.1 = (if t = 0 then (r.2.2 >>> 2).setWidth 8 else cnt) := by
  simp only [rotenc_decode, deltaBV]
  bv_decide

/-- the defect D9 as a theorem about the generated code: a state in which the 14-bit reading is
    not the latched position -/
theorem count14_glitch_witness :
    ∃ cnt ic, cnt = (BitVec.setWidth 8 ((1024#16) >>> 2)) ∧ ic = 1023#16 ∧
      (rotenc_count14 2#8 cnt ic).1 ≠ ((1024#16) >>> 2) &&& 0x3fff#16 := by
  refine ⟨_, _, rfl, rfl, ?_⟩
  decide
#print axioms step_delta
#print axioms count14_glitch_witness

#ifndef VERIF_SHIM_STDATOMIC_H
#define VERIF_SHIM_STDATOMIC_H
#include_next <stdatomic.h>
void verif_pre(const char *op, const volatile void *addr, int order, int line);
void verif_post(const char *op, const volatile void *addr, unsigned long long before, unsigned long long after);
#undef atomic_load
#undef atomic_store
#undef atomic_fetch_add
#undef atomic_fetch_sub
#undef atomic_fetch_or
#undef atomic_fetch_and
#undef atomic_compare_exchange_weak
#define atomic_load(p) ({ verif_pre("load", (p), __ATOMIC_SEQ_CST, __LINE__); __auto_type v_ = __atomic_load_n((p), __ATOMIC_SEQ_CST); verif_post("load", (p), v_, v_); v_; })
#define atomic_store(p, v) ({ verif_pre("store", (p), __ATOMIC_SEQ_CST, __LINE__); __auto_type n_ = (v); __atomic_store_n((p), n_, __ATOMIC_SEQ_CST); verif_post("store", (p), 0, n_); })
#define VERIF_RMW(name, builtin, p, v) ({ verif_pre(name, (p), __ATOMIC_SEQ_CST, __LINE__); __auto_type o_ = builtin((p), (v), __ATOMIC_SEQ_CST); verif_post(name, (p), o_, __atomic_load_n((p), __ATOMIC_RELAXED)); o_; })
#define atomic_fetch_add(p, v) VERIF_RMW("fetch_add", __atomic_fetch_add, p, v)
#define atomic_fetch_sub(p, v) VERIF_RMW("fetch_sub", __atomic_fetch_sub, p, v)
#define atomic_fetch_or(p, v)  VERIF_RMW("fetch_or", __atomic_fetch_or, p, v)
#define atomic_fetch_and(p, v) VERIF_RMW("fetch_and", __atomic_fetch_and, p, v)
#define atomic_compare_exchange_weak(p, e, d) ({ verif_pre("cas", (p), __ATOMIC_SEQ_CST, __LINE__); __auto_type ex_ = *(e); _Bool ok_ = __atomic_compare_exchange_n((p), (e), (d), 0, __ATOMIC_SEQ_CST, __ATOMIC_SEQ_CST); verif_post(ok_ ? "cas_ok" : "cas_fail", (p), ex_, __atomic_load_n((p), __ATOMIC_RELAXED)); ok_; })
#endif

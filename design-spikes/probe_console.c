#include <stdio.h>
#include <string.h>
#include <stdlib.h>
#include <librfn.h>
void console_hwinit(console_t *c) {}
static pt_state_t cap(console_t *c) { printf("CAP argc=%d [%s][%s][%s][%s]\n", c->argc, c->argv[0], c->argv[1], c->argv[2], c->argv[3]); return PT_EXITED; }
static const console_cmd_t cmd_cap = CONSOLE_CMD_VAR_INIT("cap", cap);
static const console_cmd_t cmd_ca = CONSOLE_CMD_VAR_INIT("ca", cap);
int main(int argc, char **argv) {
  console_t *c = malloc(sizeof(console_t));
  console_register(&cmd_cap); console_register(&cmd_ca);
  console_init(c, stdout);
  const char *s = argv[1];
  for (; *s; s++) { char ch = *s; if (ch=='B') ch='\b'; if (ch=='N') ch='\n'; if (ch=='C') ch=3; console_process(c, ch); }
  printf("\noffsetof scratch=%zu sizeof=%zu\n", offsetof(console_t, scratch), sizeof(console_t));
  if (argc > 2) { pt_t pt = 0; pt_state_t st; int n=0; do { st = console_eval(&pt, c, argv[2]); while (console_run(c)==PT_YIELDED); n++; } while (st < PT_EXITED && n < 100); printf("eval done n=%d\n", n);}
  return 0;
}

/* random-schedule exploration of the unmodified lock-free sources with ownership/FIFO monitors */
#include <stdio.h>
#include <stdlib.h>
#include <string.h>
#include <pthread.h>
#include <semaphore.h>
#include <librfn/messageq.h>
#include <librfn/ringbuf.h>
#define MAXT 6
static sem_t sem[MAXT], sched_sem; static volatile int done[MAXT]; static int nthreads;
static __thread int me = -1;
static void yield_point(void) { if (me < 0) return; sem_post(&sched_sem); sem_wait(&sem[me]); }
void verif_pre(const char *op, const volatile void *a, int order, int line) { yield_point(); }
void verif_post(const char *op, const volatile void *a, unsigned long long b, unsigned long long c) { yield_point(); }
/* ---- scenario state ---- */
static int mode; /* 0 = messageq, 1 = ringbuf */
static int depth, nmsg; static int *store; static messageq_t q;
static int owner[64];            /* monitor: who holds slot i (-1 free, tid, 100=in flight, 200=receiver) */
static int claim_order[1024], nclaimed, nreceived; static int violations;
static uint8_t rstore[64]; static ringbuf_t rb; static int rlen; static int rsent[4096], nrsent, nrrecv;
static unsigned seed; static volatile int inflight;
#define V(...) do { violations++; printf("MONITOR: " __VA_ARGS__); printf("\n"); } while (0)
static void *sender(void *arg) {
  me = (int)(long)arg; sem_wait(&sem[me]);
  for (int k = 0; k < nmsg; k++) {
    int *p = messageq_claim(&q);
    if (!p) continue;
    int slot = (int)(p - store);
    if (slot < 0 || slot >= depth) V("claim returned pointer outside storage");
    else { if (owner[slot] != -1) V("slot %d handed out while owned by %d (claimer %d)", slot, owner[slot], me); owner[slot] = me; }
    int stamp = me * 1000 + k; *p = stamp;
    /* claim order is CAS order; record at return is not exact, so record stamp per slot for payload check only */
    owner[slot] = 100; messageq_send(&q, p);
  }
  done[me] = 1; sem_post(&sched_sem); return NULL;
}
static void *receiver(void *arg) {
  me = (int)(long)arg; sem_wait(&sem[me]);
  int expect_slot = 0;
  for (int tries = 0; tries < nmsg * (nthreads) * 4; tries++) {
    int *p = messageq_receive(&q);
    if (!p) { if (!messageq_empty(&q)) {/* may legitimately change concurrently */} continue; }
    int slot = (int)(p - store);
    if (slot != expect_slot) V("received slot %d expected %d", slot, expect_slot);
    expect_slot = (expect_slot + 1) % depth;
    if (owner[slot] != 100) V("received slot %d whose owner is %d", slot, owner[slot]);
    owner[slot] = 200; nreceived++;
    int v = *p; (void)v;
    owner[slot] = -1; messageq_release(&q, p);
  }
  done[me] = 1; sem_post(&sched_sem); return NULL;
}
static void *producer(void *arg) {
  me = (int)(long)arg; sem_wait(&sem[me]);
  for (int k = 0; k < nmsg * 3; k++) { uint8_t d = rand_r(&seed); rsent[nrsent] = d; inflight = 1; if (ringbuf_put(&rb, d)) nrsent++; inflight = 0; }
  done[me] = 1; sem_post(&sched_sem); return NULL;
}
static void *consumer(void *arg) {
  me = (int)(long)arg; sem_wait(&sem[me]);
  for (int k = 0; k < nmsg * 4; k++) {
    int d = ringbuf_get(&rb);
    if (d == -1) continue;
    if (nrrecv >= nrsent + inflight) V("got a byte that was never put"); else if (d != rsent[nrrecv]) V("byte %d: got %d expected %d", nrrecv, d, rsent[nrrecv]);
    nrrecv++;
  }
  done[me] = 1; sem_post(&sched_sem); return NULL;
}
int main(int argc, char **argv) {
  mode = atoi(argv[1]); int iters = atoi(argv[2]); unsigned s0 = atoi(argv[3]); int isr = argc > 4 ? atoi(argv[4]) : 0;
  int total_viol = 0;
  for (int it = 0; it < iters; it++) {
    unsigned s = s0 * 100003u + it; seed = s; violations = 0;
    pthread_t th[MAXT]; sem_init(&sched_sem, 0, 0);
    if (mode == 0) {
      depth = 1 + rand_r(&s) % 3; nmsg = 1 + rand_r(&s) % 4; int ns = 1 + rand_r(&s) % 3; nthreads = ns + 1;
      store = calloc(depth, sizeof(int)); messageq_init(&q, store, depth * sizeof(int), sizeof(int));
      for (int i = 0; i < 64; i++) owner[i] = -1; nreceived = 0;
      for (long i = 0; i < nthreads; i++) { done[i] = 0; sem_init(&sem[i], 0, 0); pthread_create(&th[i], NULL, i < ns ? sender : receiver, (void *)i); }
    } else {
      rlen = 2 + rand_r(&s) % 4; nmsg = 2 + rand_r(&s) % 6; nthreads = 2; ringbuf_init(&rb, rstore + 8, rlen); memset(rstore, 0xEE, sizeof rstore); nrsent = nrrecv = 0;
      for (long i = 0; i < 2; i++) { done[i] = 0; sem_init(&sem[i], 0, 0); pthread_create(&th[i], NULL, i == 0 ? producer : consumer, (void *)i); }
    }
    int cur = -1;
    for (;;) {
      int alive = 0; for (int i = 0; i < nthreads; i++) alive += !done[i];
      if (!alive) break;
      int t;
      if (isr && cur >= 0 && !done[cur] && rand_r(&s) % 4) t = cur;   /* run-to-completion flavour: mostly stay */
      else do { t = rand_r(&s) % nthreads; } while (done[t]);
      cur = t; sem_post(&sem[t]); sem_wait(&sched_sem);
    }
    for (int i = 0; i < nthreads; i++) pthread_join(th[i], NULL);
    if (mode == 0) { if ((unsigned)q.num_free > (unsigned)depth) { V("quiescent num_free=%u depth=%d", (unsigned)q.num_free, depth); } free(store); }
    else { for (int i = 0; i < 8; i++) if (rstore[i] != 0xEE || rstore[8 + rlen + i] != 0xEE) { V("guard byte touched"); break; } }
    if (violations) { total_viol++; if (total_viol <= 3) printf("  ^ iteration %d seed %u mode %d\n", it, s0, mode); }
  }
  printf("mode %d iterations %d with-violations %d\n", mode, iters, total_viol);
  return 0;
}

#include <stdio.h>
#include <stdlib.h>
#include <string.h>
#include <stdint.h>
#include "/repo/librfn/fibre.c"
#define NF 6
static int body(fibre_t *f);
static fibre_t F[NF];
typedef struct { char k; long long v; } item_t;
static item_t script[64]; static int nscript; static int sret;
static char outbuf[4096]; static int dispatched;
static int body(fibre_t *f) {
  int id = (int)(f - F); dispatched = id;
  char *o = outbuf; o += sprintf(o, "disp=%d priv=%u res=", id, f->priv);
  for (int i=0;i<nscript;i++) {
    item_t it = script[i];
    switch (it.k) {
    case 'r': fibre_run(&F[it.v]); *o++='.'; break;
    case 'a': *o++ = fibre_run_atomic(&F[it.v]) ? '1':'0'; break;
    case 'k': *o++ = fibre_kill(&F[it.v]) ? '1':'0'; break;
    case 't': *o++ = fibre_timeout((uint32_t)it.v) ? 'T':'F'; break;
    case 'p': f->priv = (uint16_t)it.v; *o++='.'; break;
    }
  }
  *o = 0;
  return sret;
}
int main() {
  char line[4096];
  while (fgets(line, sizeof line, stdin)) {
    char op; 
    if (line[0]=='X') { /* reset */
      memset(&kernel, 0, sizeof kernel);
      messageq_init(&kernel.atomic_runq, atomic_runq_buf, sizeof(atomic_runq_buf), sizeof(atomic_runq_buf[0]));
      for (int i=0;i<NF;i++) fibre_init(&F[i], body);
      printf("reset\n"); continue; }
    char *tok = strtok(line, " \n"); op = tok[0];
    if (op=='R') { int f = atoi(strtok(NULL," \n")); fibre_run(&F[f]); printf("ok\n"); }
    else if (op=='A') { int f = atoi(strtok(NULL," \n")); printf("%d\n", fibre_run_atomic(&F[f])); }
    else if (op=='K') { int f = atoi(strtok(NULL," \n")); printf("%d\n", fibre_kill(&F[f])); }
    else if (op=='N') { long long T = atoll(strtok(NULL," \n")); sret = atoi(strtok(NULL," \n")); nscript = 0; char *t;
      while ((t = strtok(NULL," \n"))) { script[nscript].k = t[0]; script[nscript].v = atoll(t+2); nscript++; }
      dispatched = -1; outbuf[0]=0;
      uint32_t r = fibre_scheduler_next((uint32_t)T);
      fibre_t *s = fibre_self();
      if (dispatched < 0) sprintf(outbuf, "idle");
      printf("%s self=%d wake=%u\n", outbuf, s ? (int)(s-F) : -1, (uint32_t)(r - (uint32_t)T)); }
  }
  return 0;
}

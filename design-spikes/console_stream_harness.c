#include <stdio.h>
#include <string.h>
#include <stdlib.h>
#include "/repo/librfn/console.c"
void console_hwinit(console_t *c) {}
static pt_state_t cap(console_t *c) { printf("CAP %d", c->argc); for (int i=0;i<4;i++) printf("|%s", c->argv[i]); printf("\n"); return PT_EXITED; }
static const console_cmd_t cmd_cap = CONSOLE_CMD_VAR_INIT("cap", cap);
int main(void) {
  static char line[1<<16];
  FILE *nul = fopen("/dev/null","w");
  console_register(&cmd_cap);
  while (fgets(line, sizeof line, stdin)) {
    console_t *c = malloc(sizeof *c); console_init(c, nul);
    size_t n = strlen(line); if (n && line[n-1]=='\n') line[--n]=0;
    /* hex-encoded stream */
    for (size_t i=0;i+1<n;i+=2) { unsigned x; sscanf(line+i,"%2x",&x); console_process(c,(char)x); }
    printf("END bufp=%ld\n", (long)(c->bufp - c->scratch.buf)); fflush(stdout);
    free(c);
  }
  return 0;
}

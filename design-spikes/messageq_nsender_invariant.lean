/-! Spike for C04: permission-counter invariant of messageq_claim/release for ANY number of
    senders under arbitrary interleaving (idealised signed counter; the real model uses UInt8
    plus a bound on the number of threads). -/
namespace Mq

inductive SPc
  | idle | gotPerm | failed | loaded (s : Nat) | hasSlot (k : Nat) | wrote (k : Nat)
  deriving DecidableEq

def SPc.holdsPerm : SPc → Bool
  | .gotPerm => true | .loaded _ => true | _ => false
def SPc.isFailed : SPc → Bool
  | .failed => true | _ => false
def SPc.ticket? : SPc → Option Nat
  | .hasSlot k => some k | .wrote k => some k | _ => none

structure St where
  qlen : Nat
  numFree : Int
  claimed : Nat
  received : Nat
  released : Nat
  sent : Nat → Bool
  senders : List SPc

inductive Act | sender (i : Nat) (spurious : Bool) | receive | release

def stepSender (s : St) (i : Nat) (spurious : Bool) (pc : SPc) : St :=
  match pc with
  | .idle =>      -- fetch_sub
      { s with numFree := s.numFree - 1,
               senders := s.senders.set i (if s.numFree > 0 then .gotPerm else .failed) }
  | .failed =>    -- fetch_add (undo), return NULL
      { s with numFree := s.numFree + 1, senders := s.senders.set i .idle }
  | .gotPerm =>   -- load sendp
      { s with senders := s.senders.set i (.loaded (s.claimed % s.qlen)) }
  | .loaded v =>  -- weak CAS
      if v = s.claimed % s.qlen ∧ spurious = false then
        { s with claimed := s.claimed + 1, senders := s.senders.set i (.hasSlot s.claimed) }
      else { s with senders := s.senders.set i (.loaded (s.claimed % s.qlen)) }
  | .hasSlot k => { s with senders := s.senders.set i (.wrote k) }      -- plain payload write
  | .wrote k =>   -- fetch_or
      { s with sent := fun j => if j = k then true else s.sent j, senders := s.senders.set i .idle }

def step (s : St) : Act → St
  | .sender i sp => match s.senders[i]? with
      | some pc => stepSender s i sp pc
      | none => s
  | .receive => if s.received < s.claimed ∧ s.sent s.received = true then { s with received := s.received + 1 } else s
  | .release => if s.released < s.received then { s with released := s.released + 1, numFree := s.numFree + 1 } else s

def nPerm (l : List SPc) : Nat := l.countP SPc.holdsPerm
def nFail (l : List SPc) : Nat := l.countP SPc.isFailed

structure Inv (s : St) : Prop where
  counter : s.numFree = (s.qlen : Int) - ((s.claimed : Int) - s.released) - nPerm s.senders - nFail s.senders
  order : s.released ≤ s.received ∧ s.received ≤ s.claimed
  bound : s.claimed - s.released + nPerm s.senders ≤ s.qlen
  tickets : ∀ (i k : Nat), (s.senders[i]?).bind SPc.ticket? = some k → s.received ≤ k ∧ k < s.claimed ∧ s.sent k = false
  sentlt : ∀ k, s.sent k = true → k < s.claimed
  distinct : ∀ (i j k : Nat), (s.senders[i]?).bind SPc.ticket? = some k → (s.senders[j]?).bind SPc.ticket? = some k → i = j

theorem countP_set {p : SPc → Bool} (l : List SPc) (i : Nat) (a b : SPc) (h : l[i]? = some a) :
    ((l.set i b).countP p : Int) = l.countP p - (if p a then 1 else 0) + (if p b then 1 else 0) := by
  induction l generalizing i with
  | nil => simp at h
  | cons x xs ih =>
    cases i with
    | zero =>
      simp at h; subst h
      simp only [List.set_cons_zero, List.countP_cons]
      split <;> split <;> simp <;> omega
    | succ n =>
      simp at h
      simp only [List.set_cons_succ, List.countP_cons]
      have := ih n h
      split <;> omega

theorem getElem?_set' (l : List SPc) (i j : Nat) (b : SPc) (hi : i < l.length) :
    (l.set i b)[j]? = if j = i then some b else l[j]? := by
  by_cases h : j = i
  · subst h; simp [hi]
  · simp [h, List.getElem?_set_ne (Ne.symm h)]

theorem step_inv (s : St) (a : Act) (hi : Inv s) : Inv (step s a) := by
  cases a with
  | receive =>
    simp only [step]
    split
    · rename_i hc
      refine { counter := hi.counter, order := ⟨by have := hi.order; dsimp only; omega, by dsimp only; omega⟩, bound := hi.bound, tickets := ?_, sentlt := hi.sentlt, distinct := hi.distinct }
      intro i k hk
      have ⟨h1, h2, h3⟩ := hi.tickets i k hk
      refine ⟨?_, h2, h3⟩
      -- k ≠ received because received is sent and k is not
      by_cases e : k = s.received
      · subst e; simp [hc.2] at h3
      · simp only; omega
    · exact hi
  | release =>
    simp only [step]
    split
    · rename_i hc
      refine { counter := ?_, order := ⟨by have := hi.order; dsimp only; omega, hi.order.2⟩, bound := by have := hi.bound; have := hi.order; dsimp only; omega, tickets := hi.tickets, sentlt := hi.sentlt, distinct := hi.distinct }
      have := hi.counter; simp only; push_cast; omega
    · exact hi
  | sender i sp =>
    simp only [step]
    split
    · rename_i pc hpc
      have hlen : i < s.senders.length := by
        have := List.getElem?_eq_some_iff.mp hpc; exact this.1
      cases pc with
      | idle =>
        simp only [stepSender]
        by_cases hpos : s.numFree > 0
        · simp only [hpos, if_true]
          have c1 := countP_set (p := SPc.holdsPerm) s.senders i .idle .gotPerm hpc
          have c2 := countP_set (p := SPc.isFailed) s.senders i .idle .gotPerm hpc
          simp [SPc.holdsPerm, SPc.isFailed] at c1 c2
          refine { counter := ?_, order := hi.order, bound := ?_, tickets := ?_, sentlt := hi.sentlt, distinct := ?_ }
          · have := hi.counter; simp only [nPerm, nFail] at *; omega
          · have := hi.counter; have := hi.bound; have := hi.order; simp only [nPerm, nFail] at *; omega
          · intro j k hk
            rw [getElem?_set' _ _ _ _ hlen] at hk
            split at hk
            · simp [SPc.ticket?] at hk
            · exact hi.tickets j k hk
          · intro j j' k hj hj'
            rw [getElem?_set' _ _ _ _ hlen] at hj hj'
            split at hj
            · simp [SPc.ticket?] at hj
            · split at hj'
              · simp [SPc.ticket?] at hj'
              · exact hi.distinct j j' k hj hj'
        · simp only [hpos, if_false]
          have c1 := countP_set (p := SPc.holdsPerm) s.senders i .idle .failed hpc
          have c2 := countP_set (p := SPc.isFailed) s.senders i .idle .failed hpc
          simp [SPc.holdsPerm, SPc.isFailed] at c1 c2
          refine { counter := ?_, order := hi.order, bound := ?_, tickets := ?_, sentlt := hi.sentlt, distinct := ?_ }
          · have := hi.counter; simp only [nPerm, nFail] at *; omega
          · have := hi.bound; simp only [nPerm, nFail] at *; omega
          · intro j k hk
            rw [getElem?_set' _ _ _ _ hlen] at hk
            split at hk
            · simp [SPc.ticket?] at hk
            · exact hi.tickets j k hk
          · intro j j' k hj hj'
            rw [getElem?_set' _ _ _ _ hlen] at hj hj'
            split at hj
            · simp [SPc.ticket?] at hj
            · split at hj'
              · simp [SPc.ticket?] at hj'
              · exact hi.distinct j j' k hj hj'
      | failed =>
        simp only [stepSender]
        have c1 := countP_set (p := SPc.holdsPerm) s.senders i .failed .idle hpc
        have c2 := countP_set (p := SPc.isFailed) s.senders i .failed .idle hpc
        simp [SPc.holdsPerm, SPc.isFailed] at c1 c2
        refine { counter := ?_, order := hi.order, bound := ?_, tickets := ?_, sentlt := hi.sentlt, distinct := ?_ }
        · have := hi.counter; simp only [nPerm, nFail] at *; omega
        · have := hi.bound; simp only [nPerm, nFail] at *; omega
        · intro j k hk
          rw [getElem?_set' _ _ _ _ hlen] at hk
          split at hk
          · simp [SPc.ticket?] at hk
          · exact hi.tickets j k hk
        · intro j j' k hj hj'
          rw [getElem?_set' _ _ _ _ hlen] at hj hj'
          split at hj
          · simp [SPc.ticket?] at hj
          · split at hj'
            · simp [SPc.ticket?] at hj'
            · exact hi.distinct j j' k hj hj'
      | gotPerm =>
        simp only [stepSender]
        have c1 := countP_set (p := SPc.holdsPerm) s.senders i .gotPerm (.loaded (s.claimed % s.qlen)) hpc
        have c2 := countP_set (p := SPc.isFailed) s.senders i .gotPerm (.loaded (s.claimed % s.qlen)) hpc
        simp [SPc.holdsPerm, SPc.isFailed] at c1 c2
        refine { counter := ?_, order := hi.order, bound := ?_, tickets := ?_, sentlt := hi.sentlt, distinct := ?_ }
        · have := hi.counter; simp only [nPerm, nFail] at *; omega
        · have := hi.bound; simp only [nPerm, nFail] at *; omega
        · intro j k hk
          rw [getElem?_set' _ _ _ _ hlen] at hk
          split at hk
          · simp [SPc.ticket?] at hk
          · exact hi.tickets j k hk
        · intro j j' k hj hj'
          rw [getElem?_set' _ _ _ _ hlen] at hj hj'
          split at hj
          · simp [SPc.ticket?] at hj
          · split at hj'
            · simp [SPc.ticket?] at hj'
            · exact hi.distinct j j' k hj hj'
      | loaded v =>
        simp only [stepSender]
        split
        · -- CAS succeeded: ticket `claimed` is granted
          have c1 := countP_set (p := SPc.holdsPerm) s.senders i (.loaded v) (.hasSlot s.claimed) hpc
          have c2 := countP_set (p := SPc.isFailed) s.senders i (.loaded v) (.hasSlot s.claimed) hpc
          simp [SPc.holdsPerm, SPc.isFailed] at c1 c2
          refine { counter := ?_, order := ⟨hi.order.1, by have := hi.order.2; simp only; omega⟩, bound := ?_, tickets := ?_, sentlt := fun k hk => by have := hi.sentlt k hk; dsimp only; omega, distinct := ?_ }
          · have := hi.counter; simp only [nPerm, nFail] at *; push_cast; omega
          · have := hi.bound; have := hi.order; simp only [nPerm, nFail] at *; omega
          · intro j k hk
            rw [getElem?_set' _ _ _ _ hlen] at hk
            split at hk
            · simp [SPc.ticket?] at hk; subst hk
              refine ⟨hi.order.2, by simp, ?_⟩
              -- ticket `claimed` has never been sent
              cases hs : s.sent s.claimed with
              | false => rfl
              | true => have := hi.sentlt _ hs; omega
            · have ⟨a, b, c⟩ := hi.tickets j k hk; exact ⟨a, by simp only; omega, c⟩
          · intro j j' k hj hj'
            rw [getElem?_set' _ _ _ _ hlen] at hj hj'
            split at hj
            · split at hj'
              · omega
              · simp [SPc.ticket?] at hj; subst hj
                have := (hi.tickets j' _ hj').2.1; omega
            · split at hj'
              · simp [SPc.ticket?] at hj'; subst hj'
                have := (hi.tickets j _ hj).2.1; omega
              · exact hi.distinct j j' k hj hj'
        · have c1 := countP_set (p := SPc.holdsPerm) s.senders i (.loaded v) (.loaded (s.claimed % s.qlen)) hpc
          have c2 := countP_set (p := SPc.isFailed) s.senders i (.loaded v) (.loaded (s.claimed % s.qlen)) hpc
          simp [SPc.holdsPerm, SPc.isFailed] at c1 c2
          refine { counter := ?_, order := hi.order, bound := ?_, tickets := ?_, sentlt := hi.sentlt, distinct := ?_ }
          · have := hi.counter; simp only [nPerm, nFail] at *; omega
          · have := hi.bound; simp only [nPerm, nFail] at *; omega
          · intro j k hk
            rw [getElem?_set' _ _ _ _ hlen] at hk
            split at hk
            · simp [SPc.ticket?] at hk
            · exact hi.tickets j k hk
          · intro j j' k hj hj'
            rw [getElem?_set' _ _ _ _ hlen] at hj hj'
            split at hj
            · simp [SPc.ticket?] at hj
            · split at hj'
              · simp [SPc.ticket?] at hj'
              · exact hi.distinct j j' k hj hj'
      | hasSlot k0 =>
        simp only [stepSender]
        have c1 := countP_set (p := SPc.holdsPerm) s.senders i (.hasSlot k0) (.wrote k0) hpc
        have c2 := countP_set (p := SPc.isFailed) s.senders i (.hasSlot k0) (.wrote k0) hpc
        simp [SPc.holdsPerm, SPc.isFailed] at c1 c2
        have hk0 : (s.senders[i]?).bind SPc.ticket? = some k0 := by simp [hpc, SPc.ticket?]
        refine { counter := ?_, order := hi.order, bound := ?_, tickets := ?_, sentlt := hi.sentlt, distinct := ?_ }
        · have := hi.counter; simp only [nPerm, nFail] at *; omega
        · have := hi.bound; simp only [nPerm, nFail] at *; omega
        · intro j k hk
          rw [getElem?_set' _ _ _ _ hlen] at hk
          split at hk
          · simp [SPc.ticket?] at hk; subst hk; exact hi.tickets i k0 hk0
          · exact hi.tickets j k hk
        · intro j j' k hj hj'
          rw [getElem?_set' _ _ _ _ hlen] at hj hj'
          split at hj
          · split at hj'
            · omega
            · simp [SPc.ticket?] at hj; subst hj
              rename_i e _; subst e
              exact hi.distinct _ j' _ hk0 hj'
          · split at hj'
            · simp [SPc.ticket?] at hj'; subst hj'
              rename_i _ e; subst e
              exact hi.distinct j _ _ hj hk0
            · exact hi.distinct j j' k hj hj'
      | wrote k0 =>
        simp only [stepSender]
        have c1 := countP_set (p := SPc.holdsPerm) s.senders i (.wrote k0) .idle hpc
        have c2 := countP_set (p := SPc.isFailed) s.senders i (.wrote k0) .idle hpc
        simp [SPc.holdsPerm, SPc.isFailed] at c1 c2
        have hk0 : (s.senders[i]?).bind SPc.ticket? = some k0 := by simp [hpc, SPc.ticket?]
        refine { counter := ?_, order := hi.order, bound := ?_, tickets := ?_, sentlt := ?_, distinct := ?_ }
        · have := hi.counter; simp only [nPerm, nFail] at *; omega
        · have := hi.bound; simp only [nPerm, nFail] at *; omega
        · intro j k hk
          rw [getElem?_set' _ _ _ _ hlen] at hk
          split at hk
          · simp [SPc.ticket?] at hk
          · rename_i hne
            have ⟨a, b, c⟩ := hi.tickets j k hk
            refine ⟨a, b, ?_⟩
            simp only
            split
            · rename_i e; subst e
              exact absurd (hi.distinct j i k hk hk0) hne
            · exact c
        · intro k hk
          dsimp only at hk ⊢
          split at hk
          · rename_i e; subst e; exact (hi.tickets i _ hk0).2.1
          · exact hi.sentlt k hk
        · intro j j' k hj hj'
          rw [getElem?_set' _ _ _ _ hlen] at hj hj'
          split at hj
          · simp [SPc.ticket?] at hj
          · split at hj'
            · simp [SPc.ticket?] at hj'
            · exact hi.distinct j j' k hj hj'
    · exact hi

end Mq

/-- every reachable state, any number of senders, any interleaving -/
theorem reachable_inv (s0 : Mq.St) (h0 : Mq.Inv s0) (acts : List Mq.Act) : Mq.Inv (acts.foldl Mq.step s0) := by
  induction acts generalizing s0 with
  | nil => exact h0
  | cons a as ih => exact ih _ (Mq.step_inv s0 a h0)

/-- slots of two different sender-held tickets are different (no buffer handed out twice) -/
theorem no_double_handout (s : Mq.St) (hi : Mq.Inv s) (i j k k' : Nat) (hq : 0 < s.qlen)
    (hk : (s.senders[i]?).bind Mq.SPc.ticket? = some k) (hk' : (s.senders[j]?).bind Mq.SPc.ticket? = some k')
    (hij : i ≠ j) : k % s.qlen ≠ k' % s.qlen := by
  have ⟨a1, a2, _⟩ := hi.tickets i k hk
  have ⟨b1, b2, _⟩ := hi.tickets j k' hk'
  have hne : k ≠ k' := fun e => hij (hi.distinct i j k hk (e ▸ hk'))
  have hb := hi.bound; have ho := hi.order
  intro hmod
  -- both tickets lie in a window of length ≤ qlen
  have hw : ∀ a b : Nat, a ≤ b → b < a + s.qlen → a % s.qlen = b % s.qlen → a = b := by
    intro a b hab hlt h
    have h0 : (b - a) % s.qlen = 0 := Nat.sub_mod_eq_zero_of_mod_eq h.symm
    have : (b - a) % s.qlen = b - a := Nat.mod_eq_of_lt (by omega)
    omega
  rcases Nat.lt_or_ge k k' with h | h
  · exact hne (hw k k' (by omega) (by omega) hmod)
  · exact hne (hw k' k h (by omega) hmod.symm).symm

#print axioms reachable_inv
#print axioms no_double_handout

/-! Spike: SPSC ring buffer at atomic-op granularity, arbitrary interleaving. -/
namespace Ring

inductive PPc | idle | p1 (d : UInt8) (w : Nat) | p2 (d : UInt8) (w nw : Nat) | p3 (d : UInt8) (w nw : Nat)
inductive CPc | idle | c1 (r : Nat) | c2 (r : Nat) | c3 (r : Nat) (d : UInt8)

structure St where
  len : Nat
  buf : Nat → UInt8
  readi : Nat
  writei : Nat
  p : PPc
  c : CPc
  sent : List UInt8
  recv : List UInt8

def wrap (len i : Nat) : Nat := if i + 1 ≥ len then i + 1 - len else i + 1

inductive Act | put (d : UInt8) | pstep | get | cstep

/-- one atomic step; `none` = action not enabled -/
def step (s : St) : Act → Option St
  | .put d => match s.p with
      | .idle => some { s with p := .p1 d s.writei }            -- load writei
      | _ => none
  | .pstep => match s.p with
      | .p1 d w =>                                               -- load readi, compare
          let nw := wrap s.len w
          if nw = s.readi then some { s with p := .idle } else some { s with p := .p2 d w nw }
      | .p2 d w nw => some { s with buf := fun i => if i = w then d else s.buf i, p := .p3 d w nw }
      | .p3 d _ nw => some { s with writei := nw, p := .idle, sent := s.sent ++ [d] }
      | .idle => none
  | .get => match s.c with
      | .idle => some { s with c := .c1 s.readi }
      | _ => none
  | .cstep => match s.c with
      | .c1 r => if r = s.writei then some { s with c := .idle } else some { s with c := .c2 r }
      | .c2 r => some { s with c := .c3 r (s.buf r) }
      | .c3 r d => some { s with readi := wrap s.len r, c := .idle, recv := s.recv ++ [d] }
      | .idle => none

def PInv (s : St) : Prop := match s.p with
  | .idle => True
  | .p1 _ w => w = s.writei
  | .p2 _ w nw => w = s.writei ∧ nw = (s.sent.length + 1) % s.len ∧ s.sent.length + 1 < s.recv.length + s.len
  | .p3 d w nw => w = s.writei ∧ nw = (s.sent.length + 1) % s.len ∧ s.sent.length + 1 < s.recv.length + s.len ∧ s.buf w = d

def CInv (s : St) : Prop := match s.c with
  | .idle => True
  | .c1 r => r = s.readi
  | .c2 r => r = s.readi ∧ s.recv.length < s.sent.length
  | .c3 r d => r = s.readi ∧ s.recv.length < s.sent.length ∧ some d = s.sent[s.recv.length]?

structure Inv (s : St) : Prop where
  len2 : 2 ≤ s.len
  ri : s.readi = s.recv.length % s.len
  wi : s.writei = s.sent.length % s.len
  le : s.recv.length ≤ s.sent.length
  lt : s.sent.length < s.recv.length + s.len
  content : ∀ i, s.recv.length ≤ i → i < s.sent.length → some (s.buf (i % s.len)) = s.sent[i]?
  pre : s.recv = s.sent.take s.recv.length
  pinv : PInv s
  cinv : CInv s

theorem wrap_succ {len n : Nat} (h : 0 < len) : wrap len (n % len) = (n + 1) % len := by
  unfold wrap
  have h1 := Nat.mod_lt n h
  have e : (n + 1) % len = (n % len + 1) % len := by
    rw [Nat.add_mod n 1 len]
    by_cases h3 : len = 1
    · subst h3; simp [Nat.mod_one]
    · rw [Nat.mod_eq_of_lt (by omega : 1 < len)]
  rw [e]
  by_cases h2 : n % len + 1 ≥ len
  · have : n % len + 1 = len := by omega
    simp only [h2, if_true]
    rw [this, Nat.mod_self]; omega
  · simp only [h2, if_false]
    exact (Nat.mod_eq_of_lt (by omega)).symm

theorem slot_inj {len i j : Nat} (hij : i ≤ j) (hlt : j < i + len) (h : i % len = j % len) : i = j := by
  have h0 : (j - i) % len = 0 := Nat.sub_mod_eq_zero_of_mod_eq h.symm
  have : (j - i) % len = j - i := Nat.mod_eq_of_lt (by omega)
  omega

theorem mod_ne_of_lt {len a b : Nat} (hab : a < b) (hlt : b < a + len) : a % len ≠ b % len :=
  fun h => by have := slot_inj (Nat.le_of_lt hab) hlt h; omega

theorem step_inv (s s' : St) (a : Act) (hi : Inv s) (hs : step s a = some s') : Inv s' := by
  have hlen : 0 < s.len := by have := hi.len2; omega
  cases a with
  | put d =>
    simp only [step] at hs
    split at hs <;> simp at hs
    subst hs
    rename_i hp
    refine { hi with pinv := ?_, cinv := ?_ }
    · simp [PInv]
    · have := hi.cinv; simpa [CInv] using this
  | get =>
    simp only [step] at hs
    split at hs <;> simp at hs
    subst hs
    refine { hi with pinv := ?_, cinv := ?_ }
    · have := hi.pinv; simpa [PInv] using this
    · simp [CInv]
  | pstep =>
    simp only [step] at hs
    split at hs
    · -- p1
      rename_i d w hp
      have hpi := hi.pinv
      simp only [PInv, hp] at hpi
      split at hs <;> simp at hs <;> subst hs
      · refine { hi with pinv := ?_, cinv := ?_ }
        · simp [PInv]
        · have := hi.cinv; simpa [CInv] using this
      · rename_i hne
        refine { hi with pinv := ?_, cinv := ?_ }
        · simp only [PInv]
          refine ⟨hpi, ?_, ?_⟩
          · rw [hpi, hi.wi, wrap_succ hlen]
          · -- space: wrap w ≠ readi
            rw [hpi, hi.wi, wrap_succ hlen, hi.ri] at hne
            have h1 := hi.le; have h2 := hi.lt
            by_cases h3 : s.sent.length + 1 < s.recv.length + s.len
            · exact h3
            · exfalso; apply hne
              have : s.sent.length + 1 = s.recv.length + s.len := by omega
              rw [this, Nat.add_mod_right]
        · have := hi.cinv; simpa [CInv] using this
    · -- p2: write buffer
      rename_i d w nw hp
      have hpi := hi.pinv
      simp only [PInv, hp] at hpi
      simp at hs; subst hs
      obtain ⟨hw, hnw, hsp⟩ := hpi
      refine { hi with content := ?_, pinv := ?_, cinv := ?_ }
      · intro i h1 h2
        simp only at h1 h2
        have := hi.content i h1 h2
        simp only
        rw [if_neg]; exact this
        rw [hw, hi.wi]
        exact mod_ne_of_lt h2 (by have := hi.lt; omega)
      · simp only [PInv]; exact ⟨hw, hnw, hsp, by simp⟩
      · have hc := hi.cinv
        unfold CInv at hc ⊢
        simp only
        split <;> simp_all
    · -- p3: publish
      rename_i d w nw hp
      have hpi := hi.pinv
      simp only [PInv, hp] at hpi
      simp at hs; subst hs
      obtain ⟨hw, hnw, hsp, hbuf⟩ := hpi
      refine { len2 := hi.len2, ri := hi.ri, wi := ?_, le := ?_, lt := ?_, content := ?_, pre := ?_, pinv := ?_, cinv := ?_ }
      · simp [hnw]
      · simp; have := hi.le; omega
      · simp; omega
      · intro i h1 h2
        simp only [List.length_append, List.length_singleton] at h2
        by_cases h3 : i < s.sent.length
        · rw [List.getElem?_append_left h3]; exact hi.content i h1 h3
        · have : i = s.sent.length := by omega
          subst this
          simp only [List.getElem?_append_right (Nat.le_refl _), Nat.sub_self, List.getElem?_cons_zero]
          rw [← hi.wi, ← hw, hbuf]
      · simp only
        rw [List.take_append_of_le_length hi.le]; exact hi.pre
      · simp [PInv]
      · have hc := hi.cinv
        unfold CInv at hc ⊢
        simp only
        split
        · trivial
        · simp_all
        · rename_i r hcr; simp only [hcr] at hc; exact ⟨hc.1, by simp; omega⟩
        · rename_i r d' hcr; simp only [hcr] at hc
          refine ⟨hc.1, by simp; omega, ?_⟩
          rw [List.getElem?_append_left hc.2.1]; exact hc.2.2
    · simp at hs
  | cstep =>
    simp only [step] at hs
    split at hs
    · -- c1
      rename_i r hc
      have hci := hi.cinv
      simp only [CInv, hc] at hci
      split at hs <;> simp at hs <;> subst hs
      · refine { hi with pinv := ?_, cinv := ?_ }
        · have := hi.pinv; simpa [PInv] using this
        · simp [CInv]
      · rename_i hne
        refine { hi with pinv := ?_, cinv := ?_ }
        · have := hi.pinv; simpa [PInv] using this
        · simp only [CInv]
          refine ⟨hci, ?_⟩
          rw [hci, hi.ri, hi.wi] at hne
          have := hi.le
          by_cases h : s.recv.length < s.sent.length
          · exact h
          · exfalso; apply hne; have : s.recv.length = s.sent.length := by omega
            rw [this]
    · -- c2
      rename_i r hc
      have hci := hi.cinv
      simp only [CInv, hc] at hci
      simp at hs; subst hs
      refine { hi with pinv := ?_, cinv := ?_ }
      · have := hi.pinv; simpa [PInv] using this
      · simp only [CInv]
        refine ⟨hci.1, hci.2, ?_⟩
        have := hi.content s.recv.length (Nat.le_refl _) hci.2
        rw [hci.1, hi.ri]; exact this
    · -- c3
      rename_i r d hc
      have hci := hi.cinv
      simp only [CInv, hc] at hci
      simp at hs; subst hs
      obtain ⟨hr, hlt, hd⟩ := hci
      refine { len2 := hi.len2, ri := ?_, wi := hi.wi, le := ?_, lt := ?_, content := ?_, pre := ?_, pinv := ?_, cinv := ?_ }
      · simp only [List.length_append, List.length_singleton]; rw [hr, hi.ri, wrap_succ hlen]
      · simp; omega
      · simp; have := hi.lt; omega
      · intro i h1 h2
        simp only [List.length_append, List.length_singleton] at h1
        exact hi.content i (by omega) h2
      · simp only [List.length_append, List.length_singleton]
        rw [List.take_add_one, ← hi.pre, ← hd]; rfl
      · have hp := hi.pinv
        unfold PInv at hp ⊢
        simp only
        split
        · trivial
        · simp_all
        · rename_i d' w nw hpr; simp only [hpr] at hp; exact ⟨hp.1, hp.2.1, by simp; omega⟩
        · rename_i d' w nw hpr; simp only [hpr] at hp; exact ⟨hp.1, hp.2.1, by simp; omega, hp.2.2.2⟩
      · simp [CInv]
    · simp at hs

end Ring

import random, subprocess
rnd=random.Random(5)
lines=[]; exps=[]
# ---------- HEX spec: transcription of the planned model (text + NUL, strchr semantics) ----------
SP=b' \t\n\v\f\r'; XD=b'0123456789abcdefABCDEF'
def nib(c): return c-48 if c<=57 else ((c & ~0x20)-65+10)
def hex_all(text):
    s=text+b'\0'; out=[]
    def strchr(i,ch):
        j=s.find(bytes([ch]),i); z=s.find(b'\0',i)
        return j if (j!=-1 and j<z) else None
    def get(i, first):
        # returns (byte or -1, newp)  newp None = NULL
        newline=first
        while True:
            if newline:
                q=strchr(i,58)
                if q is not None: i=q+1
            newline=False
            restart=False
            while s[i] in SP:
                c=s[i]; i+=1
                if c==10: restart=True; break
            if restart: newline=True; continue
            if s[i]==48 and s[i+1]==120: i+=2
            if s[i] in XD and s[i+1] in XD: return 16*nib(s[i])|nib(s[i+1]), i+2
            j=strchr(i,10)
            if j is None: return -1, None
            i=j+1; newline=True
    b,p=get(0,True); cnt=0
    while b!=-1 and cnt<400:
        out.append(b); cnt+=1
        if p is None: b=-1
        else: b,p=get(p,False)
    return out
def hexexp(text): return ''.join('%d,'%b for b in hex_all(text))+'|-1,-1'
alpha=b"0123456789abcdefABCDEFxX:  \t\n\ngz"
for _ in range(4000):
    n=rnd.randrange(0,28); t=bytes(rnd.choice(alpha) for _ in range(n))
    lines.append('HEX '+t.hex()); exps.append(hexexp(t))
# address-prefixed dumps: every line has prefix -> bytes must be the pairs
for _ in range(500):
    data=bytes(rnd.randrange(256) for _ in range(rnd.randrange(0,40)))
    txt=b''
    for off in range(0,len(data),16):
        chunk=data[off:off+16]
        txt+=b'%04x: '%off + b' '.join((b'0x' if rnd.random()<0.3 else b'')+(b'%02X' if rnd.random()<0.5 else b'%02x')%c for c in chunk)+b'\n'
    lines.append('HEX '+txt.hex()); exps.append(''.join('%d,'%b for b in data)+'|-1,-1')
# ---------- MQ spec ----------
for _ in range(1500):
    depth=rnd.choice(list(range(1,33))); ml=rnd.choice([1,2,3,4,7,8,12,255,4096]); slack=rnd.randrange(0,ml)
    claimed=[]; # tickets outstanding: list of dict(slot,status)
    nclaim=0; nrecv=0; nrel=0; status={}  # ticket -> 'c','s','h'
    ops=[]; out=['init1']
    for _ in range(rnd.randint(1,80)):
        r=rnd.random()
        if r<0.35:
            ops.append('c')
            if nclaim-nrel<depth: out.append(str((nclaim%depth)*ml)); status[nclaim]='c'; nclaim+=1
            else: out.append('N')
        elif r<0.6:
            cand=[k for k,v in status.items() if v=='c']
            if cand: k=rnd.choice(cand); ops.append('s%d'%(k%depth)); status[k]='s'; out.append('.')
        elif r<0.8:
            ops.append('r')
            if nrecv<nclaim and status[nrecv]=='s': out.append(str((nrecv%depth)*ml)); status[nrecv]='h'; nrecv+=1
            else: out.append('N')
        elif r<0.9:
            if nrel<nrecv: ops.append('l'); del status[nrel]; nrel+=1; out.append('.')
        else:
            ops.append('e'); out.append('0' if (nrecv<nclaim and status[nrecv]=='s') else '1')
    lines.append('MQ %d %d %d %s'%(depth,ml,slack,' '.join(ops))); exps.append(' '.join(out)+' guard1')
# ---------- PACK spec ----------
def i32(x): x&=0xffffffff; return x-(1<<32) if x>=1<<31 else x
for _ in range(3000):
    size=rnd.randrange(0,24); buf=[0xEE]*size; cur=0; ops=[]; out=[]
    def put(bs):
        global cur
        st=cur; cur+=len(bs)
        if cur<=size: buf[st:st+len(bs)]=bs
    def getb(n):
        global cur
        st=cur; cur+=n
        return buf[st:st+n] if cur<=size else None
    for _ in range(rnd.randint(1,12)):
        k=rnd.choice(['U2','U4','S2','S4','B2','Y','N','y','z','u2','u4','u1','s1','c1','R'])
        v=rnd.choice([0,1,0x80,0xff,0x100,0x7fff,0x8000,0xffff,0x10000,0x7fffffff,0x80000000,0xffffffff,rnd.randrange(1<<32)])
        if k=='U2': v&=0xffff; ops.append('U2%d'%v); put([v&255,v>>8])
        elif k=='B2': v&=0xffff; ops.append('B2%d'%v); put([v>>8,v&255])
        elif k=='S2': v&=0xffff; ops.append('S2%d'%v); put([v&255,v>>8])
        elif k=='U4': ops.append('U4%d'%v); put([(v>>(8*i))&255 for i in range(4)])
        elif k=='S4': ops.append('S4%d'%v); put([(v>>(8*i))&255 for i in range(4)])
        elif k=='Y': n=rnd.randrange(0,9); ops.append('Y%d'%n); put([0xA0+i for i in range(n)])
        elif k=='N': n=rnd.randrange(0,9); ops.append('N%d'%n); put([0]*n)
        elif k=='y': n=rnd.randrange(0,9); ops.append('y%d'%n); g=getb(n); out.append('['+''.join('%02x'%x for x in (g if g is not None else [0]*n))+']')
        elif k=='z': n=rnd.randrange(0,9); ops.append('z%d'%n); getb(n)
        elif k=='u2': ops.append('u2'); g=getb(2); out.append(str(g[0]|g[1]<<8 if g else 0))
        elif k=='u4': ops.append('u4'); g=getb(4); out.append(str(sum(g[i]<<(8*i) for i in range(4)) if g else 0))
        elif k=='u1': ops.append('u1'); g=getb(1); out.append(str(g[0] if g else 0))
        elif k=='s1': ops.append('s1'); g=getb(1); out.append(str((g[0]-256 if g[0]>=128 else g[0]) if g else 0))
        elif k=='c1': ops.append('c1'); g=getb(1); out.append(str((g[0]-256 if g[0]>=128 else g[0]) if g else 0))
        elif k=='R': ops.append('R'); cur=0
        out.append('(%d,%d)'%(cur,size-cur))
    lines.append('PK %d %s'%(size,' '.join(ops))); exps.append(' '.join(out)+' buf='+''.join('%02x'%x for x in buf)+' guard1')
p=subprocess.run(['./mh'],input='\n'.join(lines)+'\n',capture_output=True,text=True)
got=[g.strip() for g in p.stdout.strip().split('\n')]
bad=0
for l,e,g in zip(lines,exps,got):
    if ' '.join(e.split())!=' '.join(g.split()):
        bad+=1
        if bad<=6: print('MISMATCH',l[:150],'\n exp',e[:300],'\n got',g[:300])
print('cases',len(lines),'got',len(got),'bad',bad,'rc',p.returncode,p.stderr[-300:])

#include <stdio.h>
#include <string.h>
#include <stdlib.h>
#include <librfn.h>
static unsigned seed = 12345;
static unsigned r(void) { return rand_r(&seed); }
int main(int argc, char **argv) {
  int iters = atoi(argv[1]); long acc=0, tri_viol=0, trunc_viol=0, reenc_viol=0, small=0;
  for (int it=0; it<iters; it++) {
    /* start from a valid header of a random kind, mutate */
    rf_wavheader_t wh; memset(&wh,0,sizeof wh);
    int fmt = r()%3; rf_wavheader_init(&wh, r()%200000, 1+r()%8, fmt);
    if (r()%3==0) { wh.audio_format=0xfffe; wh.fmt_chunk_size = (r()%2)?40:18+r()%30; wh.cb_size = (r()%2)?22:r()%40; wh.chunk_size += 64; }
    rf_wavheader_set_num_frames(&wh, r()%100000);
    uint8_t full[256]; memset(full,0,sizeof full);
    int n = rf_wavheader_encode(&wh, full, sizeof full);
    if (n<0 || n>(int)sizeof full) continue;
    int nm = r()%4; for (int m=0;m<nm;m++) { int pos = r()%n; if (r()%2) full[pos] = r(); else { /* hit a size field */ int offs[]={4,16,36}; int o=offs[r()%3]; uint32_t v = (r()%2)? r() : (0xffffffffu - r()%64); if (r()%3==0) v &= 0x7fffffff; memcpy(full+o,&v,4);} }
    int sz = (r()%4==0) ? r()%(n+8) : n + r()%4;
    uint8_t *buf = malloc(sz ? sz : 1); memcpy(buf, full, sz < (int)sizeof full ? sz : (int)sizeof full);
    rf_wavheader_t out; int res = rf_wavheader_decode(buf, sz, &out);
    uint32_t fcs; memcpy(&fcs, full+16, 4);
    int hostile_wrap = (sz>=20 && fcs >= 0x7fffff00u);
    if (!(res < 0 || res > sz || (res >= 44 && res <= sz))) { if (hostile_wrap) small++; else { tri_viol++; if (tri_viol<4) printf("TRICHOTOMY res=%d sz=%d fcs=%u\n",res,sz,fcs);} }
    if (res >= 44 && res <= sz && !hostile_wrap) {
      acc++;
      /* truncation never succeeds */
      for (int k=0;k<res;k++) { uint8_t *t = malloc(k?k:1); memcpy(t,buf,k); rf_wavheader_t o2; int r2 = rf_wavheader_decode(t,k,&o2); if (!(r2<0 || r2>k)) { trunc_viol++; if (trunc_viol<4) printf("TRUNC k=%d r2=%d res=%d\n",k,r2,res);} free(t);} 
      /* re-encode reproduces the bytes (skipped extension bytes zeroed) */
      uint8_t *e = malloc(res); int r3 = rf_wavheader_encode(&out, e, res);
      if (r3 != res) { reenc_viol++; if (reenc_viol<4) printf("REENC len %d vs %d\n", r3, res);} 
      else { int diff=0; for (int i=0;i<res;i++) if (e[i]!=buf[i]) { int skipped = (out.fmt_chunk_size>=18 && out.cb_size!=22 && i>=38 && (uint32_t)i < 38+out.fmt_chunk_size-18); if (!(skipped && e[i]==0)) diff=1; } if (diff) { reenc_viol++; if (reenc_viol<4) printf("REENC bytes differ res=%d\n",res);} }
      free(e);
      rf_wavheader_validate(&out); rf_wavheader_get_format(&out); if (out.block_align) free(rf_wavheader_tostring(&out));
    }
    free(buf);
  }
  printf("iters %d accepted %ld trichotomy_viol %ld (wrap-class %ld) trunc_viol %ld reenc_viol %ld\n", iters, acc, tri_viol, small, trunc_viol, reenc_viol);
  return 0;
}

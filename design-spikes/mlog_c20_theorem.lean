/-! Spike for C20: librfn/mlog.c keeps the most recent 256 messages, oldest first, for every
    number of messages including across the fold of the counter at 0x7fffffff. -/
namespace Mlog

structure St (M : Type) where
  line : Nat → M          -- 256 slots (index < 256 used)
  head : Nat              -- `unsigned int head`

variable {M : Type}

/-- vmlog -/
def log (s : St M) (m : M) : St M :=
  let slot := s.head % 256
  let h1 := s.head + 1
  { line := fun i => if i = slot then m else s.line i,
    head := if h1 ≥ 0x7fffffff then h1 - 256 else h1 }

/-- vmlog_nice -/
def logNice (s : St M) (m : M) : St M := if s.head < 256 then log s m else s

def clear (s : St M) : St M := { s with head := 0 }

/-- get_line(n) with n already converted to unsigned (a negative int is ≥ 2^31) -/
def getLine (s : St M) (n : Nat) : Option M :=
  if n ≥ s.head ∨ n ≥ 256 then none
  else
    let n' := if s.head ≥ 256 then (n + s.head) % 4294967296 else n
    some (s.line (n' % 256))

/-- `mlog_get_line(int k)`: conversion int → unsigned -/
def getLineInt (s : St M) (k : Int) : Option M :=
  getLine s (if k < 0 then (k + 4294967296).toNat else k.toNat)

/-- abstraction: `msgs` = everything logged since the last clear -/
structure Inv (s : St M) (msgs : List M) : Prop where
  bound : s.head < 0x7fffffff
  small : msgs.length < 256 → s.head = msgs.length
  big : msgs.length ≥ 256 → s.head ≥ 256 ∧ s.head % 256 = msgs.length % 256
  slots : ∀ j, msgs.length - 256 ≤ j → j < msgs.length → some (s.line (j % 256)) = msgs[j]?

theorem inv_clear (s : St M) : Inv (clear s) [] :=
  { bound := by simp [clear], small := by simp [clear], big := by simp, slots := by simp }

theorem inv_log (s : St M) (msgs : List M) (m : M) (hi : Inv s msgs) : Inv (log s m) (msgs ++ [m]) := by
  have hb := hi.bound
  have hmod : s.head % 256 = msgs.length % 256 := by
    by_cases h : msgs.length < 256
    · rw [hi.small h]
    · exact (hi.big (by omega)).2
  refine { bound := ?_, small := ?_, big := ?_, slots := ?_ }
  · simp only [log]; split <;> omega
  · intro h; simp only [List.length_append, List.length_singleton] at h
    have := hi.small (by omega)
    simp only [log, List.length_append, List.length_singleton]; split <;> omega
  · intro h; simp only [List.length_append, List.length_singleton] at h ⊢
    simp only [log]
    by_cases h2 : msgs.length < 256
    · have := hi.small h2; split <;> omega
    · have := hi.big (by omega); split <;> omega
  · intro j h1 h2
    simp only [List.length_append, List.length_singleton] at h1 h2
    show some ((log s m).line (j % 256)) = (msgs ++ [m])[j]?
    have hline : (log s m).line (j % 256) = if j % 256 = s.head % 256 then m else s.line (j % 256) := rfl
    rw [hline]
    by_cases hj : j = msgs.length
    · subst hj
      rw [if_pos hmod.symm, List.getElem?_append_right (Nat.le_refl _), Nat.sub_self]
      rfl
    · have hlt : j < msgs.length := by omega
      rw [List.getElem?_append_left hlt]
      rw [if_neg]
      · exact hi.slots j (Nat.le_trans (Nat.sub_le_sub_right (Nat.le_succ _) 256) h1) hlt
      · -- j and msgs.length are in a window of 256, so different slots
        intro e
        rw [hmod] at e
        have : (msgs.length - j) % 256 = 0 := Nat.sub_mod_eq_zero_of_mod_eq e.symm
        omega

theorem inv_logNice (s : St M) (msgs : List M) (m : M) (hi : Inv s msgs) :
    Inv (logNice s m) (if msgs.length < 256 then msgs ++ [m] else msgs) := by
  unfold logNice
  by_cases h : msgs.length < 256
  · have := hi.small h; simp only [h, if_true]; rw [if_pos (by omega)]; exact inv_log s msgs m hi
  · have := (hi.big (by omega)).1; simp only [h, if_false]; rw [if_neg (by omega)]; exact hi

theorem getLine_nat (s : St M) (msgs : List M) (hi : Inv s msgs) (n : Nat) (hn : n < 4294967296) :
    getLine s n = if n < min msgs.length 256 then msgs[msgs.length - min msgs.length 256 + n]? else none := by
  have hb := hi.bound
  unfold getLine
  by_cases hsmall : msgs.length < 256
  · have hh := hi.small hsmall
    have hmin : min msgs.length 256 = msgs.length := by omega
    rw [hmin]
    by_cases hin : n < msgs.length
    · have c1 : ¬ (n ≥ s.head ∨ n ≥ 256) := by omega
      have c2 : ¬ (s.head ≥ 256) := by omega
      simp only [c1, c2, hin, if_true, if_false]
      have := hi.slots n (by omega) hin
      rw [Nat.mod_eq_of_lt (by omega)] at this ⊢
      rw [this]; congr 1; omega
    · have c1 : (n ≥ s.head ∨ n ≥ 256) := by omega
      simp only [c1, hin, if_true, if_false]
  · have ⟨hge, hmod⟩ := hi.big (by omega)
    have hmin : min msgs.length 256 = 256 := by omega
    rw [hmin]
    by_cases hin : n < 256
    · have c1 : ¬ (n ≥ s.head ∨ n ≥ 256) := by omega
      simp only [c1, hge, hin, if_true, if_false]
      have hj := hi.slots (msgs.length - 256 + n) (by omega) (by omega)
      have e0 : (n + s.head) % 4294967296 = n + s.head := Nat.mod_eq_of_lt (by omega)
      have e : (n + s.head) % 256 = (msgs.length - 256 + n) % 256 := by omega
      rw [e0, e, hj]
    · have c1 : (n ≥ s.head ∨ n ≥ 256) := by omega
      simp only [c1, hin, if_true, if_false]

/-- C20: line k is message number n − min(n,256) + k, every other k (incl. negative) is NULL -/
theorem getLine_spec (s : St M) (msgs : List M) (hi : Inv s msgs) (k : Int)
    (hint : -2147483648 ≤ k ∧ k < 2147483648) :
    getLineInt s k =
      if 0 ≤ k ∧ k.toNat < min msgs.length 256 then msgs[msgs.length - min msgs.length 256 + k.toNat]? else none := by
  unfold getLineInt
  by_cases hk : k < 0
  · simp only [hk, if_true]
    rw [getLine_nat s msgs hi _ (by omega)]
    have h1 : ¬ ((k + 4294967296).toNat < min msgs.length 256) := by omega
    have h2 : ¬ (0 ≤ k ∧ k.toNat < min msgs.length 256) := by omega
    rw [if_neg h1, if_neg h2]
  · simp only [hk, if_false]
    rw [getLine_nat s msgs hi _ (by omega)]
    by_cases h : k.toNat < min msgs.length 256
    · have h2 : (0 ≤ k ∧ k.toNat < min msgs.length 256) := ⟨by omega, h⟩
      rw [if_pos h, if_pos h2]
    · have h2 : ¬ (0 ≤ k ∧ k.toNat < min msgs.length 256) := fun ⟨_, c⟩ => h c
      rw [if_neg h, if_neg h2]

#print axioms getLine_spec
#print axioms inv_log
end Mlog

/-! Spike for C11: Morris in-order iteration (librfn/bintree.c:130-164) restores the tree and
    yields the in-order sequence, for every tree shape, by structural induction with a continuation. -/
namespace Morris

structure Node where
  left : Option Nat
  right : Option Nat

abbrev Heap := Nat → Node

inductive Tree
  | nil
  | node (l : Tree) (x : Nat) (r : Tree)

namespace Tree
def inorder : Tree → List Nat
  | nil => []
  | node l x r => inorder l ++ x :: inorder r
def root : Tree → Option Nat
  | nil => none
  | node _ x _ => some x
/-- pointer to `t` when the place after its rightmost node is `k` -/
def rootK : Tree → Option Nat → Option Nat
  | nil, k => k
  | node _ x _, _ => some x
def size : Tree → Nat
  | nil => 0
  | node l _ r => size l + 1 + size r
/-- rightmost node id of a non-empty tree (dummy 0 for nil) -/
def rightmost : Tree → Nat
  | nil => 0
  | node _ x nil => x
  | node _ _ (node l y r) => rightmost (node l y r)
end Tree
open Tree

/-- heap represents `t`, with the right pointer of the rightmost node equal to `k` -/
def ReprK (h : Heap) : Tree → Option Nat → Prop
  | nil, _ => True
  | node l x r, k => (h x).left = root l ∧ (h x).right = rootK r k ∧ ReprK h l none ∧ ReprK h r k

def setRight (h : Heap) (p : Nat) (v : Option Nat) : Heap :=
  fun i => if i = p then { h i with right := v } else h i

/-- inner loop of the C code: walk right from `p` until right is NULL or `c` -/
def findPred : Nat → Heap → Nat → Nat → Nat
  | 0, _, _, p => p
  | fuel + 1, h, c, p =>
    match (h p).right with
    | none => p
    | some q => if q = c then p else findPred fuel h c q

/-- one iteration of the outer `while (curr)` loop at `curr = c`:
    optional returned node, new heap, new curr -/
def step1 (fuel : Nat) (h : Heap) (c : Nat) : Option Nat × Heap × Option Nat :=
  match (h c).left with
  | none => (some c, h, (h c).right)
  | some l =>
    let prev := findPred fuel h c l
    match (h prev).right with
    | none => (none, setRight h prev (some c), (h c).left)
    | some _ => (some c, setRight h prev none, (h c).right)

/-- multi-step execution at loop heads, collecting the returned nodes -/
inductive Steps (fuel : Nat) : Heap → Option Nat → List Nat → Heap → Option Nat → Prop
  | refl (h c) : Steps fuel h c [] h c
  | step {h c o h1 c1 outs h2 c2} :
      step1 fuel h c = (o, h1, c1) → Steps fuel h1 c1 outs h2 c2 →
      Steps fuel h (some c) (o.toList ++ outs) h2 c2

theorem Steps.trans {fuel h1 c1 o1 h2 c2 o2 h3 c3}
    (a : Steps fuel h1 c1 o1 h2 c2) (b : Steps fuel h2 c2 o2 h3 c3) :
    Steps fuel h1 c1 (o1 ++ o2) h3 c3 := by
  induction a with
  | refl => simpa using b
  | step hs _ ih => rw [List.append_assoc]; exact Steps.step hs (ih b)

/-! ### frame lemmas -/

theorem reprK_congr {h h' : Heap} : ∀ (t : Tree) (k : Option Nat),
    (∀ i, i ∈ inorder t → h' i = h i) → ReprK h t k → ReprK h' t k
  | nil, _, _, _ => trivial
  | node l x r, k, hag, ⟨h1, h2, h3, h4⟩ => by
    have hx : h' x = h x := hag x (by simp [inorder])
    refine ⟨by rw [hx]; exact h1, by rw [hx]; exact h2, ?_, ?_⟩
    · exact reprK_congr l none (fun i hi => hag i (by simp [inorder, hi])) h3
    · exact reprK_congr r k (fun i hi => hag i (by simp [inorder, hi])) h4

theorem rightmost_mem : ∀ (l : Tree) (x : Nat) (r : Tree), rightmost (node l x r) ∈ inorder (node l x r)
  | l, x, nil => by simp [rightmost, inorder]
  | l, x, node l' y r' => by
    have := rightmost_mem l' y r'
    simp only [rightmost, inorder] at this ⊢
    simp only [List.mem_append, List.mem_cons]
    right; right; simpa [List.mem_append] using this

/-- changing the right pointer of the rightmost node changes the continuation -/
theorem reprK_setRight : ∀ (l : Tree) (x : Nat) (r : Tree) (h : Heap) (k k' : Option Nat),
    (inorder (node l x r)).Nodup → ReprK h (node l x r) k →
    ReprK (setRight h (rightmost (node l x r)) k') (node l x r) k'
  | l, x, nil, h, k, k', nd, ⟨h1, _, h3, _⟩ => by
    simp only [rightmost]
    refine ⟨by simp [setRight]; exact h1, by simp [setRight, rootK], ?_, trivial⟩
    apply reprK_congr l none _ h3
    intro i hi
    have : i ≠ x := by
      intro e; subst e
      simp [inorder, List.nodup_append] at nd
      exact nd.2 i hi rfl |>.elim
    simp [setRight, this]
  | l, x, node l' y r', h, k, k', nd, ⟨h1, h2, h3, h4⟩ => by
    have ndr : (inorder (node l' y r')).Nodup := by
      simp only [inorder] at nd ⊢
      have := (List.nodup_append.mp nd).2.1
      exact (List.nodup_cons.mp this).2
    have ih := reprK_setRight l' y r' h k k' ndr h4
    have hm := rightmost_mem l' y r'
    have hne : rightmost (node l' y r') ≠ x := by
      intro e
      simp only [inorder] at nd
      have := (List.nodup_append.mp nd).2.1
      have hx := (List.nodup_cons.mp this).1
      rw [e] at hm; exact hx hm
    simp only [rightmost]
    refine ⟨?_, ?_, ?_, ih⟩
    · simp [setRight, Ne.symm hne]; exact h1
    · simp [setRight, Ne.symm hne]; simpa [rootK] using h2
    · apply reprK_congr l none _ h3
      intro i hi
      have : i ≠ rightmost (node l' y r') := by
        intro e; subst e
        simp only [inorder] at nd
        have := (List.nodup_append.mp nd).2.2
        exact this _ hi _ (by simp; right; simpa [inorder] using hm) rfl
      simp [setRight, this]

/-! ### the predecessor search -/

/-- walking right from the root of a non-empty tree whose rightmost.right = k, with `c` not in
    the tree: stops at the rightmost node provided `k` is none or `some c` -/
theorem findPred_spec : ∀ (l : Tree) (x : Nat) (r : Tree) (h : Heap) (c : Nat) (k : Option Nat) (fuel : Nat),
    size (node l x r) ≤ fuel → c ∉ inorder (node l x r) → (k = none ∨ k = some c) →
    ReprK h (node l x r) k →
    findPred fuel h c x = rightmost (node l x r) ∧ (h (rightmost (node l x r))).right = k
  | l, x, nil, h, c, k, fuel, hf, _, hk, ⟨_, h2, _, _⟩ => by
    have h2' : (h x).right = k := by simpa [rootK] using h2
    cases fuel with
    | zero => simp [size] at hf
    | succ f =>
      simp only [findPred, rightmost]
      rcases hk with rfl | rfl
      · simp [h2']
      · simp [h2']
  | l, x, node l' y r', h, c, k, fuel, hf, hc, hk, ⟨_, h2, _, h4⟩ => by
    have h2' : (h x).right = some y := by simpa [rootK] using h2
    cases fuel with
    | zero => simp [size] at hf
    | succ f =>
      have hyc : y ≠ c := by
        intro e; apply hc; subst e; simp [inorder]
      have ih := findPred_spec l' y r' h c k f (by simp [size] at hf ⊢; omega)
        (fun hm => hc (by simp only [inorder] at hm ⊢; simp [hm])) hk h4
      simp only [findPred, h2', rightmost, hyc, if_false]
      exact ih

/-! ### main lemma -/

theorem morris_in : ∀ (t : Tree) (k : Option Nat) (h : Heap) (fuel : Nat),
    size t ≤ fuel → (inorder t).Nodup → (∀ a, k = some a → a ∉ inorder t) → ReprK h t k →
    Steps fuel h (rootK t k) (inorder t) h k
  | nil, k, h, _, _, _, _, _ => by simpa [rootK, inorder] using Steps.refl h k
  | node nil x r, k, h, fuel, hf, nd, hk, ⟨h1, h2, _, h4⟩ => by
    -- no left subtree: return x, go right
    have hl : (h x).left = none := by simpa [root] using h1
    have hs : step1 fuel h x = (some x, h, rootK r k) := by simp [step1, hl, h2]
    have ndr : (inorder r).Nodup := by
      simp only [inorder, List.nil_append] at nd; exact (List.nodup_cons.mp nd).2
    have ih := morris_in r k h fuel (by simp [size] at hf; omega) ndr
      (fun a ha hm => hk a ha (by simp [inorder, hm])) h4
    have := Steps.step hs ih
    simpa [rootK, inorder] using this
  | node (node ll y lr) x r, k, h, fuel, hf, nd, hk, hrep => by
    obtain ⟨h1, h2, h3, h4⟩ := hrep
    have hl : (h x).left = some y := by simpa [root] using h1
    have hsz : size (node ll y lr) ≤ fuel := by simp only [size] at hf ⊢; omega
    have ndl : (inorder (node ll y lr)).Nodup := by
      simp only [inorder] at nd ⊢; exact (List.nodup_append.mp nd).1
    have ndr : (inorder r).Nodup := by
      simp only [inorder] at nd
      exact (List.nodup_cons.mp (List.nodup_append.mp nd).2.1).2
    have hxl : x ∉ inorder (node ll y lr) := by
      intro hm
      simp only [inorder] at nd hm
      exact (List.nodup_append.mp nd).2.2 x hm x (by simp) rfl
    -- first arrival: create the thread
    obtain ⟨hfp, hpr⟩ := findPred_spec ll y lr h x none fuel hsz hxl (Or.inl rfl) h3
    have hs1 : step1 fuel h x = (none, setRight h (rightmost (node ll y lr)) (some x), some y) := by
      simp only [step1, hl, hfp, hpr]
    have hrep1 : ReprK (setRight h (rightmost (node ll y lr)) (some x)) (node ll y lr) (some x) :=
      reprK_setRight ll y lr h none (some x) ndl h3
    have ih1 := morris_in (node ll y lr) (some x) _ fuel hsz ndl
      (fun a ha hm => by cases ha; exact hxl hm) hrep1
    -- second arrival: remove the thread
    have hpx : rightmost (node ll y lr) ≠ x := by
      intro e; apply hxl; rw [← e]; exact rightmost_mem ll y lr
    have hl1 : (setRight h (rightmost (node ll y lr)) (some x) x).left = some y := by
      simp [setRight, Ne.symm hpx, hl]
    obtain ⟨hfp2, hpr2⟩ := findPred_spec ll y lr _ x (some x) fuel hsz hxl (Or.inr rfl) hrep1
    have hback : setRight (setRight h (rightmost (node ll y lr)) (some x)) (rightmost (node ll y lr)) none = h := by
      funext i
      by_cases hi : i = rightmost (node ll y lr)
      · subst hi
        simp only [setRight, if_true]
        rw [← hpr]
      · simp [setRight, hi]
    have hr1 : (setRight h (rightmost (node ll y lr)) (some x) x).right = rootK r k := by
      simp [setRight, Ne.symm hpx, h2]
    have hs2 : step1 fuel (setRight h (rightmost (node ll y lr)) (some x)) x = (some x, h, rootK r k) := by
      simp only [step1, hl1, hfp2, hpr2, hback, hr1]
    have ih2 := morris_in r k h fuel (by simp only [size] at hf; omega) ndr
      (fun a ha hm => hk a ha (by simp [inorder, hm])) h4
    have e1 := Steps.step hs1 (by simpa [rootK] using ih1)
    have e2 := Steps.step hs2 ih2
    have := Steps.trans e1 e2
    simpa [rootK, inorder] using this

/-- corollary in the property's words: iterating a well-formed tree to completion returns the
    in-order sequence and every link has its original value (the final heap is the initial heap) -/
theorem in_order_iterator_correct (t : Tree) (h : Heap) (hn : (inorder t).Nodup) (hr : ReprK h t none) :
    Steps (size t) h (root t) (inorder t) h none := by
  have := morris_in t none h (size t) (Nat.le_refl _) hn (by intro a ha; cases ha) hr
  cases t <;> simpa [rootK, root] using this

end Morris

#print axioms Morris.in_order_iterator_correct
-- non-vacuity: a 3-node tree   2 <- 1 -> 3  represented in a concrete heap
example : Morris.ReprK (fun i => if i = 1 then ⟨some 2, some 3⟩ else ⟨none, none⟩)
    (.node (.node .nil 2 .nil) 1 (.node .nil 3 .nil)) none := by
  simp [Morris.ReprK, Morris.Tree.root, Morris.Tree.rootK]

/* C06 probe: interrupt-context fibre_run_atomic placed at every atomic point of the scheduler */
#include <stdio.h>
#include <stdlib.h>
#include <string.h>
#include <pthread.h>
#include <semaphore.h>
#include "/repo/librfn/fibre.c"
#define NF 4
#define MAXT 3
static sem_t sem[MAXT], sched_sem; static volatile int done[MAXT]; static int nthreads;
static __thread int me = -1;
static void yield_point(void) { if (me < 0) return; sem_post(&sched_sem); sem_wait(&sem[me]); }
void verif_pre(const char *op, const volatile void *a, int order, int line) { if (me == 0) yield_point(); }
void verif_post(const char *op, const volatile void *a, unsigned long long b, unsigned long long c) { if (me == 0) yield_point(); }
static unsigned seed; static int violations;
static fibre_t F[NF]; static volatile int pending[NF]; static int behaviour[NF]; static long ndisp, nacc, nrej;
static int body(fibre_t *f) { int id = (int)(f - F); pending[id] = 0; ndisp++;
  int b = rand_r(&seed) % 6;
  if (b == 0) return PT_YIELDED; if (b == 1) { fibre_timeout(kernel.now + 1 + rand_r(&seed)%5); return PT_WAITING; }
  if (b == 2) return PT_EXITED; return PT_WAITING; }
static int nops;
static void *mainctx(void *arg) { me = 0; sem_wait(&sem[0]);
  uint32_t t = 0xfffffff0u;
  for (int k = 0; k < nops; k++) { int r = rand_r(&seed) % 10;
    if (r < 7) { t += rand_r(&seed) % 3; fibre_scheduler_next(t); }
    else if (r < 9) fibre_run(&F[rand_r(&seed) % NF]);
    else { int f = rand_r(&seed) % NF; fibre_kill(&F[f]); pending[f] = 0; /* kill withdraws */ } }
  done[0] = 1; sem_post(&sched_sem); return NULL; }
static int nisr;
static void *isrctx(void *arg) { me = (int)(long)arg; sem_wait(&sem[me]);
  for (int k = 0; k < nisr; k++) { int f = rand_r(&seed) % NF;
    /* whole call runs to completion (me != 0 never yields inside) */
    pending[f] = 1;               /* set before: if accepted it must be dispatched later */
    if (fibre_run_atomic(&F[f])) nacc++; else { nrej++; /* rejected: cannot tell if an older request still pends; keep pending only if one was */ }
    sem_post(&sched_sem); sem_wait(&sem[me]); }
  done[me] = 1; sem_post(&sched_sem); return NULL; }
int main(int argc, char **argv) {
  int iters = atoi(argv[1]); unsigned s0 = atoi(argv[2]); int bad = 0;
  for (int it = 0; it < iters; it++) {
    unsigned s = s0 * 7919u + it; seed = s; violations = 0;
    memset(&kernel, 0, sizeof kernel); messageq_init(&kernel.atomic_runq, atomic_runq_buf, sizeof atomic_runq_buf, sizeof atomic_runq_buf[0]);
    for (int i = 0; i < NF; i++) { fibre_init(&F[i], body); pending[i] = 0; }
    nops = 3 + rand_r(&s) % 12; nisr = 1 + rand_r(&s) % 6; nthreads = 2;
    pthread_t th[MAXT]; sem_init(&sched_sem, 0, 0);
    for (long i = 0; i < nthreads; i++) { done[i] = 0; sem_init(&sem[i], 0, 0); pthread_create(&th[i], NULL, i == 0 ? mainctx : isrctx, (void *)i); }
    for (;;) { int alive = 0; for (int i = 0; i < nthreads; i++) alive += !done[i]; if (!alive) break;
      int t; do { t = rand_r(&s) % nthreads; } while (done[t]);
      if (t == 0 && rand_r(&s) % 3) t = 0; 
      sem_post(&sem[t]); sem_wait(&sched_sem); }
    for (int i = 0; i < nthreads; i++) pthread_join(th[i], NULL);
    /* quiescent: run passes until idle; every accepted request must have been dispatched */
    me = -1; uint32_t t = 100;
    for (int k = 0; k < 64; k++) { uint32_t w = fibre_scheduler_next(t); if (!fibre_self() && w != t) break; }
    for (int i = 0; i < NF; i++) if (pending[i] && nrej == 0) { violations++; printf("LOST wake-up for fibre %d (iteration %d seed %u)\n", i, it, s0); }
    nrej = 0;
    if (violations) bad++;
  }
  printf("iterations %d bad %d dispatches %ld accepted %ld\n", iters, bad, ndisp, nacc);
  return 0;
}

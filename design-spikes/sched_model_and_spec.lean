/-! Spike for C01–C03: executable concrete model of librfn/fibre.c (as it is today, including the
    handle_atomic_runq ↔ fibre_run mutual recursion) and the abstract spec written from the
    property text, both printing the line protocol of design-spikes/sched_script_harness.c. -/
namespace Sched

abbrev Fid := Nat

inductive Ret | yielded | waiting | exited | failed
  deriving DecidableEq, Repr

inductive Call
  | run (f : Fid) | runAtomic (f : Fid) | kill (f : Fid) | timeout (d : Int) | setPriv (l : Nat)
  deriving Repr

inductive Op
  | run (f : Fid) | runAtomic (f : Fid) | kill (f : Fid)
  | next (t : Int) (ret : Ret) (script : List Call)
  deriving Repr

def w32 (x : Int) : BitVec 32 := BitVec.ofInt 32 x
/-- util.c cyclecmp32 / fibre.c duetime_cmp: signed reinterpretation of the 32-bit difference -/
def cyclecmp (a b : BitVec 32) : Int := (a - b).toInt

/-! ## concrete model -/

structure Fib where
  priv : Nat := 0
  due : BitVec 32 := 0

structure K where
  runq : List Fid := []
  timerq : List Fid := []
  atomq : List Fid := []          -- accepted fibre_run_atomic requests, oldest first (≤ 8)
  current : Option Fid := none
  state : Ret := .waiting        -- C: zero-initialised = PT_YIELDED!  see `init`
  now : BitVec 32 := 0
  fib : Fid → Fib := fun _ => {}

/-- static initialisation: kernel.state = 0 = FIBRE_STATE_YIELDED, current = NULL -/
def init : K := { state := .yielded }

def setFib (k : K) (f : Fid) (v : Fib) : K := { k with fib := fun g => if g = f then v else k.fib g }

mutual
/-- handle_atomic_runq: receive, fibre_run(*f), release — fibre_run recurses into the drain -/
def handleAtomic (k : K) : K :=
  match h : k.atomq with
  | [] => k
  | f :: rest => fibreRun { k with atomq := rest } f
termination_by (k.atomq.length, 0)
decreasing_by simp [h, Prod.lex_def]
/-- fibre_run -/
def fibreRun (k : K) (f : Fid) : K :=
  let k1 := handleAtomic k
  if f ∈ k1.runq then k1 else { k1 with timerq := k1.timerq.erase f, runq := k1.runq ++ [f] }
termination_by (k.atomq.length, 1)
decreasing_by simp [Prod.lex_def]
end

/-- list_insert_sorted with duetime_cmp -/
def insertSorted (k : K) (f : Fid) : List Fid → List Fid
  | [] => [f]
  | x :: xs => if cyclecmp (k.fib f).due (k.fib x).due ≥ 0 then x :: insertSorted k f xs else f :: x :: xs

def handleTimerq (k : K) : K :=
  match h : k.timerq with
  | [] => k
  | f :: rest =>
    if cyclecmp (k.fib f).due k.now ≤ 0 then handleTimerq { k with timerq := rest, runq := k.runq ++ [f] } else k
termination_by k.timerq.length
decreasing_by simp [h]

def updateCurrent (k : K) (c : Fid) : K :=
  match k.state with
  | .yielded => fibreRun k c
  | .failed | .exited => setFib k c { k.fib c with priv := 0 }
  | .waiting => k

def getNextWakeup (k : K) : BitVec 32 :=
  if k.atomq ≠ [] ∨ k.runq ≠ [] then k.now
  else match k.timerq with
    | [] => k.now + 0x7fffffff#32
    | f :: _ => (k.fib f).due

def fibreKill (k : K) (f : Fid) : K × Bool :=
  let k := handleAtomic k
  ({ k with runq := k.runq.erase f, timerq := k.timerq.erase f }, decide (f ∈ k.runq) || decide (f ∈ k.timerq))

def fibreRunAtomic (k : K) (f : Fid) : K × Bool :=
  if k.atomq.length < 8 then ({ k with atomq := k.atomq ++ [f] }, true) else (k, false)

def fibreTimeout (k : K) (c : Fid) (d : BitVec 32) : K × Bool :=
  if cyclecmp d k.now ≤ 0 then (k, true)
  else
    let k := setFib k c { k.fib c with due := d }
    (if c ∈ k.runq then k else { k with timerq := insertSorted k c k.timerq }, false)

def runScript (k : K) (c : Fid) : List Call → K × String
  | [] => (k, "")
  | .run g :: r => let (k', s) := runScript (fibreRun k g) c r; (k', "." ++ s)
  | .runAtomic g :: r => let (k1, b) := fibreRunAtomic k g; let (k', s) := runScript k1 c r; (k', (if b then "1" else "0") ++ s)
  | .kill g :: r => let (k1, b) := fibreKill k g; let (k', s) := runScript k1 c r; (k', (if b then "1" else "0") ++ s)
  | .timeout d :: r => let (k1, b) := fibreTimeout k c (w32 d); let (k', s) := runScript k1 c r; (k', (if b then "T" else "F") ++ s)
  | .setPriv l :: r => let (k', s) := runScript (setFib k c { k.fib c with priv := l }) c r; (k', "." ++ s)

def fidStr : Option Fid → String
  | none => "-1" | some f => toString f

def schedulerNext (k : K) (t : BitVec 32) (ret : Ret) (script : List Call) : K × String :=
  let k := { k with now := t }
  let k :=
    if k.state ≠ .yielded ∨ k.runq ≠ [] ∨ k.timerq ≠ [] ∨ k.atomq ≠ [] then
      let k := handleAtomic k
      let k := match k.current with | some c => updateCurrent k c | none => k
      let k := handleTimerq k
      match k.runq with
      | [] => { k with current := none }
      | f :: r => { k with current := some f, runq := r }
    else k
  match k.current with
  | some c =>
    let priv := (k.fib c).priv
    let (k, res) := runScript k c script
    let k := { k with state := ret }
    let wake := if ret = .yielded then k.now else getNextWakeup k
    (k, s!"disp={c} priv={priv} res={res} self={c} wake={(wake - t).toNat}")
  | none => (k, s!"idle self=-1 wake={(getNextWakeup k - t).toNat}")

def stepK (k : K) : Op → K × String
  | .run f => (fibreRun k f, "ok")
  | .runAtomic f => let (k, b) := fibreRunAtomic k f; (k, if b then "1" else "0")
  | .kill f => let (k, b) := fibreKill k f; (k, if b then "1" else "0")
  | .next t ret script => schedulerNext k (w32 t) ret script

def runK (ops : List Op) : List String :=
  (ops.foldl (fun (acc : K × List String) op => let (k, o) := stepK acc.1 op; (k, acc.2 ++ [o])) (init, [])).2

/-! ## abstract spec (true, unbounded time; reasons instead of mechanisms) -/

structure A where
  rq : List Fid := []
  pend : List Fid := []
  yielder : Option Fid := none
  reset : Option Fid := none
  sleepers : List (Fid × Int) := []     -- registration order
  priv : Fid → Nat := fun _ => 0

def A.enqueue (a : A) (f : Fid) : A :=
  if f ∈ a.rq then a else { a with sleepers := a.sleepers.filter (·.1 ≠ f), rq := a.rq ++ [f] }
def A.drain (a : A) : A := a.pend.foldl A.enqueue { a with pend := [] }
def A.run (a : A) (f : Fid) : A := a.drain.enqueue f
def A.runAtomic (a : A) (f : Fid) : A × Bool :=
  if a.pend.length < 8 then ({ a with pend := a.pend ++ [f] }, true) else (a, false)
def A.kill (a : A) (f : Fid) : A × Bool :=
  let a := a.drain
  ({ a with rq := a.rq.erase f, sleepers := a.sleepers.filter (·.1 ≠ f) },
   decide (f ∈ a.rq) || a.sleepers.any (·.1 = f))

/-- stable insertion by due time: ties keep registration order -/
def insByDue (x : Fid × Int) : List (Fid × Int) → List (Fid × Int)
  | [] => [x]
  | y :: ys => if x.2 ≥ y.2 then y :: insByDue x ys else x :: y :: ys
def sortByDue (l : List (Fid × Int)) : List (Fid × Int) := l.foldl (fun acc x => insByDue x acc) []

def A.script (a : A) (c : Fid) (T : Int) : List Call → A × String
  | [] => (a, "")
  | .run g :: r => let (a', s) := A.script (a.run g) c T r; (a', "." ++ s)
  | .runAtomic g :: r => let (a1, b) := a.runAtomic g; let (a', s) := A.script a1 c T r; (a', (if b then "1" else "0") ++ s)
  | .kill g :: r => let (a1, b) := a.kill g; let (a', s) := A.script a1 c T r; (a', (if b then "1" else "0") ++ s)
  | .timeout D :: r =>
      if D ≤ T then let (a', s) := A.script a c T r; (a', "T" ++ s)
      else
        let a1 := if c ∈ a.rq then a else { a with sleepers := a.sleepers ++ [(c, D)] }
        let (a', s) := A.script a1 c T r; (a', "F" ++ s)
  | .setPriv l :: r => let (a', s) := A.script { a with priv := fun g => if g = c then l else a.priv g } c T r; (a', "." ++ s)

def A.next (a : A) (T : Int) (ret : Ret) (script : List Call) : A × String :=
  let a : A := a.drain
  let a : A := match a.yielder with | some y => a.enqueue y | none => a
  let a : A := match a.reset with
    | some f => { a with priv := fun g => if g = f then 0 else a.priv g, reset := none }
    | none => a
  let expired : List (Fid × Int) := sortByDue (a.sleepers.filter (fun x => decide (x.2 ≤ T)))
  let a : A := { a with sleepers := a.sleepers.filter (fun x => !decide (x.2 ≤ T)), rq := a.rq ++ expired.map (fun (x : Fid × Int) => x.1), yielder := none }
  match a.rq with
  | [] =>
    let wake : Int := if a.pend ≠ [] then 0 else match (sortByDue a.sleepers) with | [] => 0x7fffffff | x :: _ => x.2 - T
    (a, s!"idle self=-1 wake={wake}")
  | d :: rest =>
    let a := { a with rq := rest }
    let priv := a.priv d
    let (a, res) := A.script a d T script
    let a := { a with yielder := if ret = .yielded then some d else none,
                      reset := if ret = .exited ∨ ret = .failed then some d else none }
    let wake : Int :=
      if ret = .yielded ∨ a.pend ≠ [] ∨ a.rq ≠ [] then 0
      else match sortByDue a.sleepers with | [] => 0x7fffffff | x :: _ => x.2 - T
    (a, s!"disp={d} priv={priv} res={res} self={d} wake={wake}")

def stepA (a : A) : Op → A × String
  | .run f => (a.run f, "ok")
  | .runAtomic f => let (a, b) := a.runAtomic f; (a, if b then "1" else "0")
  | .kill f => let (a, b) := a.kill f; (a, if b then "1" else "0")
  | .next t ret script => a.next t ret script

def runA (ops : List Op) : List String :=
  (ops.foldl (fun (acc : A × List String) op => let (a, o) := stepA acc.1 op; (a, acc.2 ++ [o])) ({}, [])).2

end Sched

import Std.Tactic.BVDecide
def bitcnt (x : BitVec 32) : BitVec 32 :=
  let n := (x >>> 1) &&& 0x77777777#32
  let x := x - n
  let n := (n >>> 1) &&& 0x77777777#32
  let x := x - n
  let n := (n >>> 1) &&& 0x77777777#32
  let x := x - n
  let x := (x + (x >>> 4)) &&& 0x0F0F0F0F#32
  let x := x * 0x01010101#32
  x >>> 24
def clz (x : BitVec 32) : BitVec 32 :=
  let x := x ||| (x >>> 1); let x := x ||| (x >>> 2); let x := x ||| (x >>> 4)
  let x := x ||| (x >>> 8); let x := x ||| (x >>> 16)
  bitcnt (~~~x)
def ctz (x : BitVec 32) : BitVec 32 := bitcnt (~~~x &&& (x - 1))
-- spec: clz via BitVec.clz if exists
#check @BitVec.clz
theorem clz_eq (x : BitVec 32) : clz x = x.clz := by
  unfold clz bitcnt; bv_decide
theorem ctz_eq (x : BitVec 32) : ctz x = (x.reverse).clz := by
  unfold ctz bitcnt; bv_decide

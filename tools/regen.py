"""Regenerate lean/Librfn/Gen/*.lean from /repo's working tree (tie T).  Files are rewritten only
when their content changes.  Returns a list of (unit, error) for units that could not be translated."""
import os, sys
sys.path.insert(0, os.path.dirname(os.path.abspath(__file__)))
import c2lean, c2lean2, vlib

INC = ['-I' + os.path.join(vlib.REPO, 'include'), '-DNDEBUG']
UNITS = {
    'Wav': (os.path.join(vlib.REPO, 'librfn/wavheader.c'), ['rf_wavheader_get_format']),
    'Util': (os.path.join(vlib.REPO, 'librfn/util.c'), ['cyclecmp32']),
}

# second-generation units (tools/c2lean2.py: pointers, memory, atomics with their sequential meaning, unrolled loops)
UNITS2 = {
    'MessageqSeq': (os.path.join(vlib.REPO, 'librfn/messageq.c'),
                    ['messageq_init', 'messageq_claim', 'messageq_send', 'messageq_receive', 'messageq_release', 'messageq_empty'], 2),
    'PackSeq': (os.path.join(vlib.REPO, 'librfn/pack.c'),
                ['rf_pack_init', 'rf_pack_consumed', 'rf_pack_remaining', 'rf_pack_bytes', 'rf_pack_s16le', 'rf_pack_u16be', 'rf_pack_u16le',
                 'rf_pack_s32le', 'rf_pack_u32le', 'rf_unpack_bytes', 'rf_unpack_char', 'rf_unpack_s8', 'rf_unpack_u8', 'rf_unpack_u16le',
                 'rf_unpack_u32le'], 8),
    'RingSeq': (os.path.join(vlib.REPO, 'librfn/ringbuf.c'), ['ringbuf_init', 'ringbuf_get', 'ringbuf_empty', 'ringbuf_put'], 2),
    # C16: helpers are inlined, loops (a harmless rewrite may count nibbles or bits in one) unrolled 32 times
    'BitopsSeq': (os.path.join(vlib.REPO, 'librfn/bitops.c'), ['bitcnt', 'clz', 'ctz', 'ilog2'], 32),
    'ConstexprSeq': (os.path.join(vlib.VERIF, 'harness/wrap_constexpr.c'), ['w_const_pop', 'w_const_lssb'], 32),
    'RandSeq': (os.path.join(vlib.REPO, 'librfn/rand.c'), ['rand31_r'], 4),
    'HexSeq': (os.path.join(vlib.REPO, 'librfn/hex.c'), ['hexchar', 'nibble'], 16),
    'RotencSeq': (os.path.join(vlib.REPO, 'librfn/rotenc.c'), ['rotenc_decode', 'rotenc_count14', 'rotenc_count'], 4),
    # wavheader.c as a control skeleton with data: the pack functions, memcmp and memcpy are the environment (their calls, with the
    # arguments and the conditions under which they are executed, are the reported trace); array members, constant tables and the
    # local packer are identities (tags)
    'WavSeq': (os.path.join(vlib.REPO, 'librfn/wavheader.c'),
               ['rf_wavheader_init', 'rf_wavheader_set_num_frames', 'rf_wavheader_validate', 'rf_wavheader_encode', 'rf_wavheader_decode'], 1,
               {'externs': ['rf_pack_init', 'rf_pack_consumed', 'rf_pack_remaining', 'rf_pack_bytes', 'rf_pack_char', 'rf_pack_s8', 'rf_pack_u8',
                            'rf_pack_s16be', 'rf_pack_s16le', 'rf_pack_u16be', 'rf_pack_u16le', 'rf_pack_s32be', 'rf_pack_s32le', 'rf_pack_u32be',
                            'rf_pack_u32le', 'rf_unpack_bytes', 'rf_unpack_char', 'rf_unpack_s8', 'rf_unpack_u8', 'rf_unpack_s16be',
                            'rf_unpack_s16le', 'rf_unpack_u16be', 'rf_unpack_u16le', 'rf_unpack_s32be', 'rf_unpack_s32le', 'rf_unpack_u32be',
                            'rf_unpack_u32le', 'memcmp', 'memcpy']}),
    # mlog.c: the file-scope log (its counter is a variable, its 256 lines live in memory at `log_line`), `va_arg` reads are inputs,
    # the formatter and the stream are the environment; mlog_dump's loop is unrolled 3 times
    'MlogSeq': (os.path.join(vlib.REPO, 'librfn/mlog.c'), ['vmlog', 'vmlog_nice', 'mlog_clear', 'get_line', 'mlog_get_line', 'mlog_dump'], 3,
                {'externs': ['strdup_printf', 'fprintf'], 'inmem': ['_IO_FILE'], 'recursive_loops': True}),
    # list.c: every structure (list_t, list_node_t, list_iterator_t) lives in the byte memory and is reached through pointer values;
    # the comparison callback of list_insert_sorted is a pure function (a function-valued parameter); the walks are recursive definitions
    'ListSeq': (os.path.join(vlib.REPO, 'librfn/list.c'),
                ['list_insert', 'list_push', 'list_extract', 'list_iterate', 'list_iterator_next', 'list_iterator_insert',
                 'list_iterator_remove', 'list_contains', 'list_remove', 'list_insert_sorted'], 3,
                {'inmem': ['list_node', 'list_node_t', 'list_t', 'list_iterator_t'], 'recursive_loops': True, 'pure_calls': ['nodecmp']}),
    # fibre.c: the comparator the scheduler hands to list_insert_sorted for its timer queue (fibre_t in memory)
    'FibreSeq': (os.path.join(vlib.VERIF, 'harness/wrap_fibre.c'), ['duetime_cmp', 'get_next_wakeup', 'get_next_task', 'make_runnable', 'fibre_timeout', 'fibre_run_atomic', 'fibre_scheduler_next'], 1,
                 {'inmem': ['fibre', 'fibre_t', 'list_node', 'list_node_t', 'list_t', 'messageq_t'], 'flags': ['-I' + vlib.REPO],
                  'externs': ['messageq_empty', 'messageq_claim', 'messageq_send', 'list_extract', 'list_contains', 'list_remove', 'list_insert', 'list_insert_sorted',
                              'handle_atomic_runq', 'update_current_state', 'handle_timerq', 'get_next_task', 'get_next_wakeup', 'indirect_call'],
                  'optional': ['get_next_wakeup', 'get_next_task', 'make_runnable', 'fibre_timeout', 'fibre_run_atomic', 'fibre_scheduler_next']}),     # only C03 / C01 state theorems about these
    # one iteration of the POSIX main loop; the clock, the scheduling pass and the sleep are the environment
    'MainLoopSeq': (os.path.join(vlib.VERIF, 'harness/wrap_mainloop.c'), ['fibre_scheduler_main_loop'], 1,
                    {'externs': ['time_now', 'fibre_scheduler_next', 'usleep'], 'flags': ['-I' + vlib.REPO]}),
}

def regen(units):
    errors = []
    for u in units:
        dst = os.path.join(vlib.LEAN, 'Librfn', 'Gen', u + '.lean')
        try:
            if u in UNITS2:
                path, fns, fuel = UNITS2[u][:3]
                opt = UNITS2[u][3] if len(UNITS2[u]) > 3 else {}
                text = c2lean2.generate(path, fns, 'Librfn.Gen.' + u, INC + opt.get('flags', []), fuel=fuel, externs=opt.get('externs', ()), inmem=opt.get('inmem', ()), recursive_loops=opt.get('recursive_loops', False), optional=opt.get('optional', ()), pure_calls=opt.get('pure_calls', ()))
            else:
                path, fns = UNITS[u]
                text = c2lean.generate(path, fns, 'Librfn.Gen.' + u, INC)
        except Exception as e:  # translator error = broken tie, reported by the caller
            errors.append((u, f'{type(e).__name__}: {e}'))
            continue
        vlib.write_if_changed(dst, text)
    return errors

SIGFILE = os.path.join(vlib.LEAN, 'Librfn', 'Gen', 'signatures.json')


def signatures(unit):
    """the interface of a generated unit: parameter lists of its definitions and the fields of their result structures"""
    import re
    src = open(os.path.join(vlib.LEAN, 'Librfn', 'Gen', unit + '.lean')).read()
    out = {}
    for m in re.finditer(r'^def (\S+) (.*?) : (\S+) :=$', src, re.M):
        out['def ' + m.group(1)] = m.group(2) + ' : ' + m.group(3)
    for m in re.finditer(r'^structure (\S+) where\n((?:  .*\n)+)', src, re.M):
        out['structure ' + m.group(1)] = ' '.join(l.strip() for l in m.group(2).strip().split('\n'))
    return out


def write_signatures():
    """run on the unchanged tree before committing: the interface the hand-written tie theorems were stated against"""
    import json
    d = {u: signatures(u) for u in UNITS2 if os.path.exists(os.path.join(vlib.LEAN, 'Librfn', 'Gen', u + '.lean'))}
    vlib.write_if_changed(SIGFILE, json.dumps(d, indent=1, sort_keys=True) + '\n')


def signature_changes(unit, only=None):
    """differences between the interface regenerated now and the committed one ([] if none or unknown)"""
    import json
    try:
        exp = json.load(open(SIGFILE)).get(unit)
    except (OSError, ValueError):
        return []
    if not exp:
        return []
    cur = signatures(unit)
    out = []
    opt = UNITS2[unit][3].get('optional', ()) if unit in UNITS2 and len(UNITS2[unit]) > 3 else ()
    for k in sorted(set(exp) | set(cur)):
        if only is None and any(k.split(' ', 1)[1] == o or k.split(' ', 1)[1].startswith(o + '.') for o in opt):
            continue
        if only is not None and not any(k.split(' ', 1)[1] == o or k.split(' ', 1)[1].startswith(o + '.') for o in only):
            continue
        if exp.get(k) != cur.get(k):
            out.append(f'{k}: was `{exp.get(k)}` is `{cur.get(k)}`'[:400])
    return out


if __name__ == '__main__':
    errs = regen(sys.argv[1:] or list(UNITS) + list(UNITS2))
    for e in errs:
        print('ERROR', e)
    sys.exit(1 if errs else 0)

#!/usr/bin/env python3
"""Tie T (DESIGN.md §2): translate a loop-free, integer-only subset of C
into Lean 4 definitions over BitVec, driven by clang's *typed* JSON AST.

usage: c2lean_proto.py <file.c> <fn>[,<fn>...] [-- extra clang args]
Prints a Lean file on stdout.  Anything outside the subset raises (never skipped): loops, pointers other than
`p->scalar_field` / `*p`, static locals, shadowing declarations, side effects under `&&`/`||`/`?:`, shifts by a
non-literal or out-of-range amount, reads of possibly uninitialised locals, bit-fields.
NOT checked (trusted, stated in DESIGN §4): signed arithmetic is translated as two's-complement wrap-around — no
obligation is generated that a signed operation does not overflow (the translated sources use unsigned types or
values far from the limits).
"""
import json, re, subprocess, sys

INT_TYPES = {
    '_Bool': (8, False), 'char': (8, True), 'signed char': (8, True), 'unsigned char': (8, False),
    'short': (16, True), 'unsigned short': (16, False), 'int': (32, True), 'unsigned int': (32, False),
    'long': (64, True), 'unsigned long': (64, False), 'long long': (64, True),
    'unsigned long long': (64, False),
}

class Unsupported(Exception):
    pass

TYPEDEFS = {}

def ctype(node):
    t = node.get('type', {})
    q = t.get('desugaredQualType', t.get('qualType', ''))
    q = q.replace('const ', '').replace('volatile ', '').strip()
    for _ in range(8):                     # typedef chains that clang does not desugar (typedef'd enums)
        if q in INT_TYPES or q not in TYPEDEFS:
            break
        q = TYPEDEFS[q].replace('const ', '').replace('volatile ', '').strip()
    if q in INT_TYPES:
        return INT_TYPES[q]
    if q.startswith('enum '):
        return (32, True)          # enumerations with a negative enumerator / fitting int: `int` (gcc, clang on this ABI)
    raise Unsupported('type ' + repr(t))

def is_ptr(node):
    t = node.get('type', {})
    q = t.get('desugaredQualType', t.get('qualType', ''))
    return q.strip().endswith('*')

def lit(v, w):
    v = int(v) % (1 << w)
    return f'{v}#{w}'

def conv(e, src, dst):
    (sw, ss), (dw, ds) = src, dst
    if sw == dw:
        return e
    if dw < sw:
        return f'(BitVec.setWidth {dw} {e})'
    return f'(BitVec.signExtend {dw} {e})' if ss else f'(BitVec.setWidth {dw} {e})'

def wrapint(v, t):
    w, signed = t
    v %= (1 << w)
    if signed and v >= (1 << (w - 1)):
        v -= (1 << w)
    return v

def const_eval(n):
    """Fold an integer constant expression (case labels) with C semantics for the annotated types."""
    k = n['kind']
    if k in ('ParenExpr', 'ConstantExpr'):
        return const_eval(n['inner'][0])
    if k in ('IntegerLiteral', 'CharacterLiteral'):
        return wrapint(int(n['value']), ctype(n))
    if k in ('ImplicitCastExpr', 'CStyleCastExpr') and n.get('castKind') in ('IntegralCast', 'NoOp'):
        return wrapint(const_eval(n['inner'][0]), ctype(n))
    if k == 'UnaryOperator':
        a = const_eval(n['inner'][0])
        op = n['opcode']
        r = {'!': int(a == 0), '~': ~a, '-': -a, '+': a}[op]
        return wrapint(r, ctype(n))
    if k == 'BinaryOperator':
        a, b = const_eval(n['inner'][0]), const_eval(n['inner'][1])
        op = n['opcode']
        r = {'+': a + b, '-': a - b, '*': a * b, '<<': a << b, '>>': a >> b, '|': a | b, '&': a & b, '^': a ^ b}[op]
        return wrapint(r, ctype(n))
    raise Unsupported('constant expr ' + k)

def has_side_effect(n):
    k = n.get('kind')
    if k == 'BinaryOperator' and n.get('opcode') == '=':
        return True
    if k == 'CompoundAssignOperator':
        return True
    if k == 'UnaryOperator' and n.get('opcode') in ('++', '--'):
        return True
    if k == 'CallExpr':
        return True            # calls are only pure when we translated the callee; be conservative under short-circuit evaluation
    return any(has_side_effect(c) for c in n.get('inner', []) if isinstance(c, dict))


UNINIT = '<uninitialised>'


class Fn:
    def __init__(self, tu, decl):
        self.tu, self.decl = tu, decl
        self.lets = []
        self.n = 0

    def fresh(self, base):
        self.n += 1
        return f'{base}_{self.n}'

    def bind(self, base, expr):
        name = self.fresh(base)
        self.lets.append((name, expr))
        return name

    # ---- lvalues -----------------------------------------------------
    def lvalue_key(self, n):
        k = n['kind']
        if k == 'ParenExpr':
            return self.lvalue_key(n['inner'][0])
        if k == 'DeclRefExpr':
            return n['referencedDecl']['name']
        if k == 'MemberExpr' and n.get('isArrow'):
            base = n['inner'][0]
            while base['kind'] in ('ImplicitCastExpr', 'ParenExpr'):
                base = base['inner'][0]
            return base['referencedDecl']['name'] + '->' + n['name']
        if k == 'UnaryOperator' and n['opcode'] == '*':
            base = n['inner'][0]
            while base['kind'] in ('ImplicitCastExpr', 'ParenExpr'):
                base = base['inner'][0]
            return '*' + base['referencedDecl']['name']
        raise Unsupported('lvalue ' + k)

    def assign(self, env, key, expr):
        if env['$done'] != 'false' and env.get(key) != UNINIT:
            expr = f'(if {env["$done"]} then {env[key]} else {expr})'
        base = key.replace('->', '_').replace('*', 'deref_')
        env[key] = self.bind(base, expr)

    # ---- expressions ---------------------------------------------------
    def ev(self, n, env):
        k = n['kind']
        if k in ('ParenExpr',):
            return self.ev(n['inner'][0], env)
        if k == 'ConstantExpr':
            return self.ev(n['inner'][0], env)
        if k == 'IntegerLiteral':
            return lit(n['value'], ctype(n)[0])
        if k == 'CharacterLiteral':
            return lit(n['value'], ctype(n)[0])
        if k in ('ImplicitCastExpr', 'CStyleCastExpr'):
            ck = n.get('castKind')
            inner = n['inner'][0]
            if ck in ('LValueToRValue', 'NoOp'):
                return self.ev(inner, env)
            if ck == 'IntegralCast':
                return conv(self.ev(inner, env), ctype(inner), ctype(n))
            raise Unsupported('cast ' + str(ck))
        if k == 'DeclRefExpr' and n.get('referencedDecl', {}).get('kind') == 'EnumConstantDecl':
            return lit(self.tu['enums'][n['referencedDecl']['name']], ctype(n)[0])
        if k in ('DeclRefExpr', 'MemberExpr'):
            v = env[self.lvalue_key(n)]
            if v == UNINIT:
                raise Unsupported('read of a possibly uninitialised local: ' + self.lvalue_key(n))
            return v
        if k == 'UnaryOperator':
            op = n['opcode']
            if op == '*':
                return env[self.lvalue_key(n)]
            a = n['inner'][0]
            w, _ = ctype(n)
            if op == '~':
                return f'(~~~{self.ev(a, env)})'
            if op == '-':
                return f'(-{self.ev(a, env)})'
            if op == '!':
                aw = ctype(a)[0]
                return f'(if {self.ev(a, env)} == {lit(0, aw)} then {lit(1, w)} else {lit(0, w)})'
            if op in ('++', '--'):
                key = self.lvalue_key(a)
                old = env[key]
                if old == UNINIT:
                    raise Unsupported('read of a possibly uninitialised local: ' + key)
                aw = ctype(a)[0]
                new = f'({old} {"+" if op == "++" else "-"} {lit(1, aw)})'
                self.assign(env, key, new)
                return old if n.get('isPostfix') else env[key]
            raise Unsupported('unary ' + op)
        if k == 'BinaryOperator':
            op = n['opcode']
            l, r = n['inner']
            if op in ('&&', '||') and has_side_effect(r):
                raise Unsupported('side effect in the right operand of ' + op + ' (short-circuit evaluation)')
            if op == '=':
                v = self.ev(r, env)
                self.assign(env, self.lvalue_key(l), v)
                return env[self.lvalue_key(l)]
            return self.binop(op, self.ev(l, env), ctype(l), self.ev(r, env), ctype(r), ctype(n))
        if k == 'CompoundAssignOperator':
            op = n['opcode'][:-1]
            l, r = n['inner']
            key = self.lvalue_key(l)
            ct = INT_TYPES[n['computeLHSType'].get('desugaredQualType', n['computeLHSType']['qualType'])]
            rt = INT_TYPES[n['computeResultType'].get('desugaredQualType', n['computeResultType']['qualType'])]
            if env[key] == UNINIT:
                raise Unsupported('read of a possibly uninitialised local: ' + key)
            lv = conv(env[key], ctype(l), ct)
            res = self.binop(op, lv, ct, self.ev(r, env), ctype(r), rt)
            self.assign(env, key, conv(res, rt, ctype(l)))
            return env[key]
        if k == 'CallExpr':
            callee = n['inner'][0]
            while callee['kind'] in ('ImplicitCastExpr', 'ParenExpr'):
                callee = callee['inner'][0]
            fname = callee['referencedDecl']['name']
            if fname not in self.tu['fns']:
                raise Unsupported('call to untranslated function ' + fname)
            args = ' '.join(self.ev(a, env) for a in n['inner'][1:])
            return f'({fname} {args})'
        if k == 'ConditionalOperator':
            c, a, b = n['inner']
            if has_side_effect(a) or has_side_effect(b):
                raise Unsupported('side effect in an arm of ?: (would have to be conditional)')
            cw = ctype(c)[0]
            return f'(if {self.ev(c, env)} != {lit(0, cw)} then {self.ev(a, env)} else {self.ev(b, env)})'
        raise Unsupported('expr ' + k)

    def binop(self, op, a, ta, b, tb, tr):
        w, signed = tr
        if op in ('+', '-', '*', '&', '|', '^'):
            lop = {'&': '&&&', '|': '|||', '^': '^^^'}.get(op, op)
            return f'({a} {lop} {b})'
        if op in ('<<', '>>'):
            m = re.fullmatch(r'(\d+)#\d+', b)
            if not m or int(m.group(1)) >= tr[0]:
                raise Unsupported('shift by a non-literal or out-of-range amount (undefined behaviour needs a side condition)')
            if op == '<<':
                return f'({a} <<< ({b}).toNat)'
            return f'(BitVec.sshiftRight {a} ({b}).toNat)' if ta[1] else f'({a} >>> ({b}).toNat)'
        if op in ('<', '>', '<=', '>=', '==', '!='):
            if ta != tb:
                raise Unsupported('comparison operand types differ')
            s = ta[1]
            rel = {'<': ('BitVec.slt {a} {b}' if s else 'BitVec.ult {a} {b}'),
                   '>': ('BitVec.slt {b} {a}' if s else 'BitVec.ult {b} {a}'),
                   '<=': ('BitVec.sle {a} {b}' if s else 'BitVec.ule {a} {b}'),
                   '>=': ('BitVec.sle {b} {a}' if s else 'BitVec.ule {b} {a}'),
                   '==': '{a} == {b}', '!=': '{a} != {b}'}[op].format(a=a, b=b)
            return f'(if {rel} then {lit(1, w)} else {lit(0, w)})'
        if op in ('&&', '||'):
            za, zb = lit(0, ta[0]), lit(0, tb[0])
            j = '&&' if op == '&&' else '||'
            return f'(if ({a} != {za}) {j} ({b} != {zb}) then {lit(1, w)} else {lit(0, w)})'
        raise Unsupported('binop ' + op + ' (division needs a non-zero-divisor side condition)')

    # ---- statements ----------------------------------------------------
    def merge(self, env, cond, et, ee):
        for key in env:
            if key.startswith('$'):
                continue
            if UNINIT in (et.get(key), ee.get(key)):
                env[key] = UNINIT if et.get(key) != ee.get(key) or et.get(key) == UNINIT else et[key]
                continue
            if et[key] != ee[key]:
                base = key.replace('->', '_').replace('*', 'deref_')
                env[key] = self.bind(base, f'(if {cond} then {et[key]} else {ee[key]})')
            else:
                env[key] = et[key]
        for key in ('$done', '$ret'):
            if key == '$ret' and (et[key] is None or ee[key] is None):
                env[key] = et[key] if ee[key] is None else ee[key]   # only read when $done, i.e. on the side that returned
                continue
            if et[key] != ee[key]:
                env[key] = self.bind('ret' if key == '$ret' else 'done', f'(if {cond} then {et[key]} else {ee[key]})')
            else:
                env[key] = et[key]

    def ex(self, n, env):
        k = n['kind']
        if k == 'CompoundStmt':
            for c in n.get('inner', []):
                self.ex(c, env)
        elif k == 'DeclStmt':
            for d in n['inner']:
                if d.get('kind') != 'VarDecl':
                    raise Unsupported('declaration ' + str(d.get('kind')))
                if d.get('storageClass') in ('static', 'extern'):
                    raise Unsupported('static/extern local ' + d['name'] + ' (state that persists between calls)')
                if d['name'] in env:
                    raise Unsupported('declaration of ' + d['name'] + ' shadows another variable')
                w, _ = ctype(d)
                init = [c for c in d.get('inner', []) if not c['kind'].endswith('Comment')]
                env[d['name']] = self.bind(d['name'], self.ev(init[0], env)) if init else UNINIT
        elif k == 'IfStmt':
            parts = n['inner']
            c = parts[0]
            cond = self.bind('c', f'(decide ({self.ev(c, env)} != {lit(0, ctype(c)[0])}))')
            et, ee = dict(env), dict(env)
            self.ex(parts[1], et)
            if len(parts) > 2:
                self.ex(parts[2], ee)
            self.merge(env, cond, et, ee)
        elif k == 'ReturnStmt':
            inner = n.get('inner', [])
            if inner:
                v = self.ev(inner[0], env)
                if env['$done'] != 'false':
                    v = f'(if {env["$done"]} then {env["$ret"]} else {v})'
                env['$ret'] = self.bind('ret', v)
            env['$done'] = 'true'
        elif k == 'SwitchStmt':
            d, body = n['inner']
            dv = self.bind('sw', self.ev(d, env))
            dw = ctype(d)[0]
            segs = []  # (labels, stmts)
            def add(stmt, labels):
                if stmt['kind'] == 'CaseStmt':
                    add(stmt['inner'][-1], labels + [lit(const_eval(stmt['inner'][0]), dw)])
                elif stmt['kind'] == 'DefaultStmt':
                    add(stmt['inner'][-1], labels + ['default'])
                else:
                    if labels or not segs:
                        segs.append((labels, []))
                    segs[-1][1].append(stmt)
            for s in body['inner']:
                add(s, [])
            paths = []
            for i, (labels, _) in enumerate(segs):
                if not labels:
                    continue
                stmts = []
                for _, ss in segs[i:]:
                    brk = False
                    for s in ss:
                        if s['kind'] == 'BreakStmt':
                            brk = True
                            break
                        stmts.append(s)
                    if brk:
                        break
                paths.append((labels, stmts))
            result = dict(env)  # no case matched and no default
            for labels, stmts in reversed(paths):
                e2 = dict(env)
                for s in stmts:
                    self.ex(s, e2)
                if 'default' in labels:
                    result = e2
                    continue
                cond = self.bind('c', '(' + ' || '.join(f'{dv} == {l}' for l in labels) + ')')
                merged = dict(env)
                self.merge(merged, cond, e2, result)
                result = merged
            env.update(result)
        elif k == 'NullStmt':
            pass
        elif k == 'BreakStmt':
            raise Unsupported('break outside switch segment')
        elif k == 'ParenExpr' and n['inner'][0].get('castKind') == 'ToVoid' or n.get('castKind') == 'ToVoid':
            inner = n['inner'][0] if n.get('castKind') == 'ToVoid' else n['inner'][0]['inner'][0]
            if has_side_effect(inner):
                self.ev(inner, env)       # (void)(x++): the side effect counts; a pure operand (assert under NDEBUG) is dropped
        else:
            self.ev(n, env)  # expression statement

    def translate(self):
        d = self.decl
        name = d['name']
        params, env, outs = [], {'$done': 'false', '$ret': None}, []
        for p in [c for c in d['inner'] if c['kind'] == 'ParmVarDecl']:
            if is_ptr(p):
                pointee = p['type'].get('desugaredQualType', p['type']['qualType']).replace('*', '').strip()
                rec = self.tu['records'].get(pointee.replace('struct ', ''))
                if rec:
                    for f, ft in rec:
                        params.append((f'{p["name"]}_{f}', ft[0]))
                        env[f'{p["name"]}->{f}'] = f'{p["name"]}_{f}'
                        outs.append(f'{p["name"]}->{f}')
                else:
                    w = INT_TYPES[self.tu['typedefs'].get(pointee, pointee)][0]
                    params.append((f'{p["name"]}_in', w))
                    env['*' + p['name']] = f'{p["name"]}_in'
                    outs.append('*' + p['name'])
            else:
                params.append((p['name'], ctype(p)[0]))
                env[p['name']] = p['name']
        body = [c for c in d['inner'] if c['kind'] == 'CompoundStmt'][0]
        self.ex(body, env)
        results = ([env['$ret']] if env['$ret'] else []) + [env[o] for o in outs]
        sig = ' '.join(f'({n} : BitVec {w})' for n, w in params)
        out = [f'/-- generated from `{name}` -/', f'def {name} {sig} :=']
        for n_, e in self.lets:
            out.append(f'  let {n_} := {e}')
        out.append('  (' + ', '.join(results) + ')' if len(results) != 1 else '  ' + results[0])
        return '\n'.join(out)

def load(path, extra):
    p = subprocess.run(['clang', '-Xclang', '-ast-dump=json', '-fsyntax-only'] + extra + [path],
                       capture_output=True, text=True)
    if p.returncode != 0:
        raise Unsupported('clang failed: ' + p.stderr[-500:])
    ast = json.loads(p.stdout)
    tu = {'records': {}, 'typedefs': {}, 'fns': {}, 'enums': {}}
    def walk_enums(node):
        if node.get('kind') == 'EnumDecl':
            nxt = 0
            for e in node.get('inner', []):
                if e.get('kind') != 'EnumConstantDecl':
                    continue
                init = [x for x in e.get('inner', []) if not x['kind'].endswith('Comment')]
                if init:
                    try:
                        nxt = const_eval(init[0])
                    except (Unsupported, KeyError):
                        nxt = None           # an initialiser outside the constant subset (system headers): value unknown
                if nxt is not None:
                    tu['enums'][e['name']] = nxt
                    nxt += 1
        for ch in node.get('inner', []) if node.get('kind') in ('TranslationUnitDecl', 'TypedefDecl', 'ElaboratedType') else []:
            walk_enums(ch)
    walk_enums(ast)
    for c in ast['inner']:
      try:
          if c['kind'] == 'TypedefDecl':
              t = c['type']
              tu['typedefs'][c['name']] = t.get('desugaredQualType', t['qualType'])
              if tu['typedefs'][c['name']] == c['name']:      # clang reports a typedef'd enum as itself
                  tu['typedefs'][c['name']] = t['qualType']
              TYPEDEFS[c['name']] = tu['typedefs'][c['name']]
          if c['kind'] == 'RecordDecl' and 'inner' in c:
              fields = []
              for f in c['inner']:
                  if f['kind'] != 'FieldDecl':
                      continue
                  if f.get('isBitfield'):
                      continue             # bit-fields are not part of the translated state (an access raises)
                  if 'name' not in f:
                      continue             # the implicit field of an anonymous struct/union: not part of the translated state (an access raises)
                  try:
                      fields.append((f['name'], ctype(f)))
                  except Unsupported:
                      pass        # non-scalar field (array, pointer, nested struct): not part of the translated state; any access to it is rejected
              tu['records'][c.get('name', '')] = fields
          if c['kind'] == 'FunctionDecl' and any(x['kind'] == 'CompoundStmt' for x in c.get('inner', [])):
              tu['fns'][c['name']] = c
      except (KeyError, TypeError, IndexError):
        continue      # a declaration outside the subset (some header construct): skipped here; a translated function that needs it fails on the lookup
    for k, v in list(tu['typedefs'].items()):
        if v.startswith('struct '):
            tu['records'][k] = tu['records'].get(v[len('struct '):], [])
    return tu

def generate(path, fns, namespace, extra=(), imports=()):
    """Lean source text for the listed functions of one C file (raises Unsupported / KeyError)."""
    tu = load(path, list(extra))
    import os
    out = ['-- GENERATED by tools/c2lean.py from ' + '/'.join(path.split('/')[-2:]) + ' -- do not edit; rewritten on every check run']
    out += [f'import {i}' for i in imports]
    out += ['set_option linter.unusedVariables false', f'namespace {namespace}', '']
    for fn in fns:
        if fn not in tu['fns']:
            raise Unsupported(f'function {fn} not found in {path}')
        out.append(Fn(tu, tu['fns'][fn]).translate())
        out.append('')
    out.append(f'end {namespace}')
    return '\n'.join(out) + '\n'

if __name__ == '__main__':
    args = sys.argv[1:]
    extra = args[args.index('--') + 1:] if '--' in args else []
    print(generate(args[0], args[1].split(','), 'Librfn.Gen', extra))

#!/usr/bin/env python3
"""Regenerate every generated Lean file (tie T units, tie S skeleton, layout constants) from /repo's working tree.
Run before committing: the committed lean/Librfn/Gen must describe the pinned tree (setup_cmd builds from it)."""
import os, sys
sys.path.insert(0, os.path.dirname(os.path.abspath(__file__)))
import regen, skeleton
errs = regen.regen(list(regen.UNITS) + list(regen.UNITS2)) + list(skeleton.regen_skeleton(['ringbuf', 'messageq', 'fibre']))
regen.write_signatures()
for e in errs:
    print('ERROR', e)
sys.exit(1 if errs else 0)

#!/usr/bin/env python3
"""tools/sweep_own.py <scratch-repo-worktree> --set seeded|harmless [--only NAME ...] [--out FILE] [--update-meta]

For every change under <set>/<ID>-<name>/patch.diff: apply it to the scratch worktree of /repo, run the quick check of the
property it was written against (LIBRFN_REPO=<scratch>), record green / concrete replay / no-failing-input-found / infra,
undo it.  Run from a separate worktree of /verif (the checks rewrite evidence/ and lean/Librfn/Gen while they run).
--update-meta rewrites `detected`, `detected_with_concrete_input`, `replay` and the "our check" line of each meta.json."""
import json, os, re, subprocess, sys, time

VERIF = os.path.dirname(os.path.dirname(os.path.abspath(__file__)))


def sh(cmd, cwd=None, env=None, timeout=3600):
    e = dict(os.environ)
    if env:
        e.update(env)
    try:
        p = subprocess.run(cmd, shell=isinstance(cmd, str), cwd=cwd, capture_output=True, text=True, env=e, errors='replace', timeout=timeout)
        return p.returncode, p.stdout + p.stderr
    except subprocess.TimeoutExpired:
        return 124, 'timeout'


def main():
    wt = sys.argv[1]
    sub = sys.argv[sys.argv.index('--set') + 1]
    only = None
    if '--only' in sys.argv:
        only = [a for a in sys.argv[sys.argv.index('--only') + 1:] if not a.startswith('--')]
    outp = sys.argv[sys.argv.index('--out') + 1] if '--out' in sys.argv else os.path.join(VERIF, sub, 'own_check.json')
    res = json.load(open(outp)) if os.path.exists(outp) and not only else (json.load(open(outp)) if os.path.exists(outp) else {})
    names = sorted(d for d in os.listdir(os.path.join(VERIF, sub)) if os.path.exists(os.path.join(VERIF, sub, d, 'patch.diff')))
    for name in names:
        if only and name not in only:
            continue
        if name in res and not only:
            continue
        pid = name.split('-')[0]
        sh('git checkout -- .', cwd=wt)
        sh('git checkout -- lean/Librfn/Gen', cwd=VERIF)     # a unit the translator refuses keeps its file: start every change from the pinned one
        rc, out = sh(['git', 'apply', os.path.join(VERIF, sub, name, 'patch.diff')], cwd=wt)
        if rc != 0:
            res[name] = {'kind': 'does-not-apply', 'why': out[-200:]}
            json.dump(res, open(outp, 'w'), indent=1, sort_keys=True)
            print(name, 'does-not-apply', flush=True)
            continue
        t = time.time()
        rc, out = sh([os.path.join(VERIF, 'check'), pid, '--tier', 'quick'], cwd=VERIF, env={'LIBRFN_REPO': wt}, timeout=2400)
        vio = [l for l in out.split('\n') if l.startswith('VIOLATION')]
        kind = 'green' if rc == 0 and not vio else 'infra' if rc not in (0, 1) else \
            'no-input' if vio and all(l.rstrip().endswith('no-failing-input-found') for l in vio) else 'concrete'
        entry = {'kind': kind, 'rc': rc, 'secs': round(time.time() - t, 1), 'lines': vio[:3]}
        m = None
        for l in vio:
            if not l.rstrip().endswith('no-failing-input-found') or kind == 'no-input':
                m = re.search(r'replay=(\S+)', l)
                break
        if m and os.path.exists(m.group(1)):
            try:
                r = json.load(open(m.group(1)))
                entry['replay'] = {k: (v if len(str(v)) < 400 else str(v)[:400] + '…') for k, v in r.items() if k != 'notes'}
            except Exception:
                pass
        if kind == 'infra':
            entry['tail'] = out[-600:]
        sh('git checkout -- .', cwd=wt)
        res[name] = entry
        json.dump(res, open(outp, 'w'), indent=1, sort_keys=True)
        print(name, kind, entry['secs'], flush=True)
        if '--update-meta' in sys.argv:
            mp = os.path.join(VERIF, sub, name, 'meta.json')
            try:
                meta = json.load(open(mp))
            except OSError:
                meta = {'property': pid}
            meta['detected'] = kind in ('concrete', 'no-input')
            meta['detected_with_concrete_input'] = kind == 'concrete'
            if 'replay' in entry:
                meta['replay'] = entry['replay']
            meta.setdefault('what_was_run', {})['our check'] = f'./check {pid} --tier quick -> rc {rc} {vio[:2]}'
            json.dump(meta, open(mp, 'w'), indent=1)
    sh('git checkout -- .', cwd=wt)
    sh([sys.executable, os.path.join(VERIF, 'tools', 'regen_all.py')], cwd=VERIF)
    kinds = {}
    for n, e in res.items():
        kinds[e['kind']] = kinds.get(e['kind'], 0) + 1
    print('SUMMARY', kinds, flush=True)


if __name__ == '__main__':
    main()

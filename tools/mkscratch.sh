#!/bin/sh
# usage: tools/mkscratch.sh <dir> — scratch git worktree of /repo's HEAD with the (untracked) autotools build files,
# so `make check` works there.  Remove with: git -C /repo worktree remove --force <dir>
set -e
d="$1"
git -C /repo worktree add --detach "$d" HEAD -q
cd /repo
for f in Makefile Makefile.in aclocal.m4 ar-lib compile config.guess config.status config.sub configure depcomp install-sh missing test-driver; do
	[ -e "$f" ] && cp -p "$f" "$d/"
done
[ -d m4 ] && cp -rp m4 "$d/" 2>/dev/null || true
mkdir -p "$d/librfn/.deps" "$d/tests/.deps"
echo "$d"

#!/usr/bin/env python3
"""Tie S — extract the atomic-operation skeleton of librfn's lock-free sources from clang's AST and write it
as Lean data to lean/Librfn/Gen/Skeleton.lean (DESIGN.md §2 "Tie S").

What is extracted
-----------------
For every *unit* in UNITS (a C file of $LIBRFN_REPO plus a list of its functions; an inline function that a
header contributes to the translation unit, e.g. messageq_empty from messageq.h, is just named in the list):

  * per function, the ordered list of **shared-memory access sites**.  A site is
      - an atomic operation (clang `AtomicExpr`; which builtin it is — clang 14's JSON does not say — is read
        from the *preprocessed* source text at the node's offset: `__c11_atomic_load`, `__c11_atomic_fetch_sub`,
        …), with the memory-order argument(s) actually written in the source after macro expansion
        (`atomic_load(x)` expands to `__c11_atomic_load(x, __ATOMIC_SEQ_CST)`, so the C11 default shows up as
        seq_cst; an `_explicit` form shows what the author wrote);
      - a fence (`atomic_thread_fence` / `atomic_signal_fence`);
      - a plain read or write of a *shared lvalue*: an lvalue reached through a pointer (`rb->readi`,
        `rb->bufp[]`, `*queued_fibre`) or rooted at a variable that is not local to the function
        (`kernel.now`).  Function-local scalars are thread-private and are not sites.  A read is an
        lvalue-to-rvalue conversion, a write an assignment / compound assignment / ++ / --.  If the lvalue's
        type is `_Atomic` the site is `atomicRead` / `atomicWrite` (C11: such an access is a seq_cst atomic
        operation) instead of `plainRead` / `plainWrite`;
      - a call of another function (`call`, obj = callee name): the callee's own sites are listed under the callee.
    Sites are listed in evaluation order as far as C defines it and in source order otherwise (operands of
    `==`, arguments of a call); for an assignment: address computation of the left side, right side, then the
    write.  Each site carries its **branch context**, outermost first:
        if#K.cond  if#K.then  if#K.else      K-th `if` of the function (numbered in source order)
        loop#K.init loop#K.cond loop#K.body loop#K.inc     while / do / for
        cond#K.cond cond#K.then cond#K.else  the ?: operator
        sc#K.rhs                             right operand of && or || (evaluated conditionally)
        switch#K.cond switch#K.body
  * for every field of the unit's shared structures (STRUCTS): its declared C type as clang prints it and
    whether that type is `_Atomic`.

Extraction runs on `clang -E -P -DNDEBUG` output (so `assert` does not add libc-version-dependent calls; the
harness still compiles the assertions in) re-parsed with `clang -Xclang -ast-dump=json -fsyntax-only`.

Output format (lean/Librfn/Gen/Skeleton.lean, namespace Librfn.Gen.Skeleton; types in
lean/Librfn/Model/SkeletonTypes.lean):

    def <unit> : CUnit where
      funcs := [
        ⟨"<function>", [
          ⟨.<kind>, "<object path>", .<order>, .<failure order or na>, ["<ctx>", …]⟩,
          …]⟩,
        …]
      fields := [⟨"<struct>", "<field>", "<declared type>", <true|false>⟩, …]

kinds:  load store xchg casStrong casWeak fetchAdd fetchSub fetchOr fetchAnd fetchXor flagTestAndSet flagClear
        threadFence signalFence plainRead plainWrite atomicRead atomicWrite call
orders: relaxed consume acquire release acqRel seqCst na        (na: plain accesses and calls)
object path: parameter/variable names with `->`, `.`, `[]` (any index) and a leading `*` for a dereference;
        casts and parentheses are dropped;  "" for fences.

A model adds its own table as a `CUnit` written by hand (see `Model/RingConc.skeleton`) and states
`theorem skeleton_matches_<x> : Gen.Skeleton.<unit> = Model.<X>.skeleton := by decide` plus
`<unit>.allSeqCst = true`, `<unit>.onlyAtomicAccess [...] = true`, `<unit>.fieldAtomic "<struct>" "<field>" = true`
in its Props file.  Weakening a memory order, making an atomic field plain, replacing an atomic call by a plain
access, dropping a fence or moving the payload access across the publishing store all change the table.

The file is deterministic and rewritten only when its content changes.  `regen_skeleton()` returns a list of
(unit, error) for units that could not be extracted; such a unit is written as an empty table so that the
obligations about it fail rather than silently keep an old table.
"""
import json, os, re, subprocess, sys, tempfile
sys.path.insert(0, os.path.dirname(os.path.abspath(__file__)))
import vlib

# unit -> (source file relative to the repo, functions in the order they are listed, structures whose fields are listed)
UNITS = {
    'ringbuf': ('librfn/ringbuf.c', ['ringbuf_init', 'ringbuf_get', 'ringbuf_empty', 'ringbuf_put', 'ringbuf_putchar'], ['ringbuf_t']),
    'messageq': ('librfn/messageq.c', ['messageq_init', 'messageq_claim', 'messageq_send', 'messageq_receive', 'messageq_release',
                                       'messageq_empty'], ['messageq_t']),
    'fibre': ('librfn/fibre.c', ['add_taint', 'handle_atomic_runq', 'get_next_wakeup', 'fibre_run_atomic', 'fibre_eventq_claim', 'fibre_eventq_send', 'fibre_eventq_empty', 'fibre_eventq_receive', 'fibre_eventq_release'], ['kernel', 'messageq_t']),
}
DST = os.path.join(vlib.LEAN, 'Librfn', 'Gen', 'Skeleton.lean')

BUILTIN_KIND = {
    'load': 'load', 'store': 'store', 'init': 'store', 'exchange': 'xchg',
    'compare_exchange_strong': 'casStrong', 'compare_exchange_weak': 'casWeak', 'compare_exchange': 'casStrong', 'compare_exchange_n': 'casStrong',
    'fetch_add': 'fetchAdd', 'fetch_sub': 'fetchSub', 'fetch_or': 'fetchOr', 'fetch_and': 'fetchAnd', 'fetch_xor': 'fetchXor',
    'add_fetch': 'fetchAdd', 'sub_fetch': 'fetchSub', 'or_fetch': 'fetchOr', 'and_fetch': 'fetchAnd', 'xor_fetch': 'fetchXor',
    'load_n': 'load', 'store_n': 'store', 'exchange_n': 'xchg', 'test_and_set': 'flagTestAndSet', 'clear': 'flagClear',
}
ORDERS = ['relaxed', 'consume', 'acquire', 'release', 'acqRel', 'seqCst']
ORDER_BY_NAME = {'memory_order_relaxed': 'relaxed', 'memory_order_consume': 'consume', 'memory_order_acquire': 'acquire',
                 'memory_order_release': 'release', 'memory_order_acq_rel': 'acqRel', 'memory_order_seq_cst': 'seqCst'}
TRANSPARENT = ('ParenExpr', 'ImplicitCastExpr', 'CStyleCastExpr', 'ConstantExpr')


class SkeletonError(Exception):
    pass


def clang_ast(path, extra=()):
    """AST (JSON) of the preprocessed file and the preprocessed text"""
    inc = ['-I' + os.path.join(vlib.REPO, 'include'), '-DNDEBUG'] + list(extra)
    with tempfile.TemporaryDirectory(prefix='librfn-skel-') as tmp:
        pre = os.path.join(tmp, 'unit.c')
        rc, out, err = vlib.sh(['clang', '-E', '-P'] + inc + [path, '-o', pre], timeout=120)
        if rc != 0:
            raise SkeletonError('clang -E failed: ' + err.strip()[-400:])
        text = open(pre, 'rb').read()
        rc, out, err = vlib.sh(['clang', '-Xclang', '-ast-dump=json', '-fsyntax-only', pre], timeout=300)
        if rc != 0:
            raise SkeletonError('clang does not accept the unit: ' + ' | '.join(l for l in err.split('\n') if 'error' in l)[:600])
        return json.loads(out), text


def strip(n):
    while n.get('kind') in TRANSPARENT and n.get('inner'):
        n = n['inner'][0]
    return n


def is_atomic_type(t):
    return '_Atomic' in t.get('qualType', '') or '_Atomic' in t.get('desugaredQualType', '')


# calls that stay call sites (the hand-written model tables name them); any OTHER function that is defined in the unit's
# translation unit (a helper a refactoring extracted) is inlined at its call sites: its access sites appear in the caller,
# in the caller's branch context, with the helper's parameter names replaced by the argument paths
KEEP_CALLS = {
    'ringbuf': {'ringbuf_put'},
    'messageq': set(),
    'fibre': {'add_taint', 'fibre_run_atomic', 'list_empty', 'list_peek', 'make_runnable', 'messageq_claim', 'messageq_empty',
              'messageq_receive', 'messageq_release', 'messageq_send', 'handle_atomic_runq', 'get_next_wakeup', 'update_current_state',
              'handle_timerq', 'get_next_task', 'list_insert', 'list_remove', 'list_extract', 'list_insert_sorted', 'list_contains',
              'fibre_run', 'fibre_kill', 'fibre_timeout', 'duetime_cmp'},
}


class FnWalker:
    def __init__(self, fn, text, global_atomic_typedefs, helpers=None, depth=0, subst=None, counters=None):
        self.helpers = helpers or {}
        self.depth = depth
        self.subst = subst or {}
        self.text = text
        self.sites = []
        self.counters = counters if counters is not None else {}
        self.locals = set()
        self.atomic_typedefs = global_atomic_typedefs
        for c in fn.get('inner', []):
            if c.get('kind') == 'ParmVarDecl':
                self.locals.add(c['id'])
        self.collect_locals(fn)

    def collect_locals(self, n):
        if n.get('kind') == 'VarDecl' and n.get('storageClass') not in ('static', 'extern'):
            self.locals.add(n['id'])
        for c in n.get('inner', []):
            self.collect_locals(c)

    def fresh(self, what):
        self.counters[what] = self.counters.get(what, 0) + 1
        return '%s#%d' % (what, self.counters[what])

    def emit(self, kind, obj, ord1='na', ord2='na', ctx=()):
        self.sites.append((kind, obj, ord1, ord2, tuple(ctx)))

    # ---- lvalues -------------------------------------------------------------------------------
    def path(self, n):
        """(text of the access path, shared?)"""
        n = strip(n)
        k = n.get('kind')
        if k == 'DeclRefExpr':
            d = n.get('referencedDecl', {})
            if d.get('id') in self.subst:              # a parameter of an inlined helper: the caller's argument path
                return self.subst[d['id']]
            return d.get('name', '?'), d.get('id') not in self.locals
        if k == 'MemberExpr':
            p, sh = self.path(n['inner'][0])
            return p + ('->' if n.get('isArrow') else '.') + n.get('name', '?'), sh or bool(n.get('isArrow'))
        if k == 'ArraySubscriptExpr':
            b = n['inner'][0]
            while b.get('kind') in ('ParenExpr', 'CStyleCastExpr') and b.get('inner'):
                b = b['inner'][0]
            p, sh = self.path(b)
            decay = b.get('kind') == 'ImplicitCastExpr' and b.get('castKind') == 'ArrayToPointerDecay'
            return p + '[]', sh if decay else True     # element of a (local or shared) array / reached through a pointer value
        if k == 'UnaryOperator' and n.get('opcode') == '*':
            p, _ = self.path(n['inner'][0])
            return '*' + p, True
        if k == 'UnaryOperator' and n.get('opcode') == '&':
            return self.path(n['inner'][0])
        return '?(%s)' % k, True

    def atomic_lvalue(self, n):
        return is_atomic_type(strip(n).get('type', {}))

    def walk_address(self, n, ctx):
        """evaluate what is needed to *designate* lvalue n (no access to n itself)"""
        n = strip(n)
        k = n.get('kind')
        if k == 'MemberExpr':
            b = n['inner'][0]
            if n.get('isArrow'):
                self.walk(b, ctx)              # the pointer is read
            else:
                self.walk_address(b, ctx)
        elif k == 'ArraySubscriptExpr':
            self.walk(n['inner'][0], ctx)
            self.walk(n['inner'][1], ctx)
        elif k == 'UnaryOperator' and n.get('opcode') == '*':
            self.walk(n['inner'][0], ctx)
        elif k == 'DeclRefExpr':
            pass
        else:
            self.walk(n, ctx)

    def access(self, n, write, ctx):
        p, shared = self.path(n)
        if not shared:
            return
        if self.atomic_lvalue(n):
            self.emit('atomicWrite' if write else 'atomicRead', p, 'seqCst', 'na', ctx)
        else:
            self.emit('plainWrite' if write else 'plainRead', p, 'na', 'na', ctx)

    # ---- orders --------------------------------------------------------------------------------
    def order(self, n):
        n = strip(n)
        if n.get('kind') == 'IntegerLiteral':
            v = int(n['value'])
            if 0 <= v < 6:
                return ORDERS[v]
        if n.get('kind') == 'DeclRefExpr':
            nm = n.get('referencedDecl', {}).get('name', '')
            if nm in ORDER_BY_NAME:
                return ORDER_BY_NAME[nm]
        raise SkeletonError('memory order is not a constant: ' + json.dumps(n)[:200])

    def builtin_at(self, n):
        off = n.get('range', {}).get('begin', {}).get('offset')
        if off is None:
            raise SkeletonError('atomic expression without source offset')
        m = re.match(rb'[A-Za-z_][A-Za-z_0-9]*', self.text[off:off + 80])
        if not m:
            raise SkeletonError('no identifier at the offset of an atomic expression')
        name = m.group(0).decode()
        base = re.sub(r'^(__c11_atomic_|__atomic_|__opencl_atomic_)', '', name)
        if base not in BUILTIN_KIND:
            raise SkeletonError('unknown atomic builtin ' + name)
        return name, BUILTIN_KIND[base]

    # ---- expressions and statements ------------------------------------------------------------
    def walk(self, n, ctx):
        if not n:
            return
        k = n.get('kind')
        inner = n.get('inner', [])
        if k == 'AtomicExpr':
            name, kind = self.builtin_at(n)
            ptr = inner[0]
            self.walk_address(strip(ptr)['inner'][0], ctx) if strip(ptr).get('kind') == 'UnaryOperator' and strip(ptr).get('opcode') == '&' else self.walk(ptr, ctx)
            obj = self.path(ptr)[0] if strip(ptr).get('kind') == 'UnaryOperator' and strip(ptr).get('opcode') == '&' else '*' + self.path(ptr)[0]
            o1 = self.order(inner[1])
            o2 = 'na'
            rest = inner[2:]
            if kind in ('casStrong', 'casWeak'):
                # clang stores: ptr, order, expected, failure order, desired [, weak]
                o2 = self.order(inner[3])
                rest = [inner[2]] + inner[4:]
                if name.endswith('compare_exchange_n') or name.endswith('__atomic_compare_exchange'):
                    w = strip(inner[5]) if len(inner) > 5 else {}
                    kind = 'casWeak' if w.get('kind') == 'IntegerLiteral' and w.get('value') != '0' else 'casStrong'
            for c in rest:
                self.walk(c, ctx)
            self.emit(kind, obj, o1, o2, ctx)
            return
        if k == 'CallExpr':
            callee = strip(inner[0])
            nm = callee.get('referencedDecl', {}).get('name', '') if callee.get('kind') == 'DeclRefExpr' else '?indirect'
            for a in inner[1:]:
                self.walk(a, ctx)
            if nm.endswith('atomic_signal_fence') or nm.endswith('atomic_thread_fence'):
                self.emit('signalFence' if 'signal' in nm else 'threadFence', '', self.order(inner[1]), 'na', ctx)
            elif nm in self.helpers and self.depth < 6:
                decl, body = self.helpers[nm]
                params = [c for c in decl.get('inner', []) if c.get('kind') == 'ParmVarDecl']
                subst = {}
                for p_, a in zip(params, inner[1:]):
                    pa, sh = self.path(a)
                    if not pa.startswith('?('):
                        subst[p_['id']] = (pa, False)      # the parameter itself is a private copy of the (already evaluated) argument; only what is reached THROUGH it (`p->field`) is shared
                w = FnWalker(decl, self.text, set(), self.helpers, self.depth + 1, subst, self.counters)
                w.walk(body, ctx)
                self.sites += w.sites
            else:
                if nm == '?indirect':
                    self.walk(inner[0], ctx)
                self.emit('call', nm, 'na', 'na', ctx)
            return
        if k == 'UnaryExprOrTypeTraitExpr':
            return                                   # sizeof / alignof: unevaluated
        if k == 'ImplicitCastExpr' and n.get('castKind') == 'LValueToRValue':
            self.walk_address(inner[0], ctx)
            self.access(inner[0], False, ctx)
            return
        if k == 'BinaryOperator' and n.get('opcode') == '=':
            self.walk_address(inner[0], ctx)
            self.walk(inner[1], ctx)
            self.access(inner[0], True, ctx)
            return
        if k == 'CompoundAssignOperator':
            self.walk_address(inner[0], ctx)
            self.walk(inner[1], ctx)
            self.access(inner[0], False, ctx)
            self.access(inner[0], True, ctx)
            return
        if k == 'UnaryOperator' and n.get('opcode') in ('++', '--'):
            self.walk_address(inner[0], ctx)
            self.access(inner[0], False, ctx)
            self.access(inner[0], True, ctx)
            return
        if k == 'UnaryOperator' and n.get('opcode') == '&':
            self.walk_address(inner[0], ctx)
            return
        if k in ('MemberExpr', 'ArraySubscriptExpr') or (k == 'UnaryOperator' and n.get('opcode') == '*'):
            self.walk_address(n, ctx)                # an lvalue that is not converted (e.g. array decay): no access
            return
        if k == 'BinaryOperator' and n.get('opcode') in ('&&', '||'):
            tag = self.fresh('sc')
            self.walk(inner[0], ctx)
            self.walk(inner[1], ctx + [tag + '.rhs'])
            return
        if k == 'ConditionalOperator':
            tag = self.fresh('cond')
            self.walk(inner[0], ctx + [tag + '.cond'])
            self.walk(inner[1], ctx + [tag + '.then'])
            self.walk(inner[2], ctx + [tag + '.else'])
            return
        if k == 'IfStmt':
            tag = self.fresh('if')
            parts = [c for c in inner]
            self.walk(parts[0], ctx + [tag + '.cond'])
            if len(parts) > 1:
                self.walk(parts[1], ctx + [tag + '.then'])
            if len(parts) > 2:
                self.walk(parts[2], ctx + [tag + '.else'])
            return
        if k == 'WhileStmt':
            tag = self.fresh('loop')
            self.walk(inner[0], ctx + [tag + '.cond'])
            self.walk(inner[1], ctx + [tag + '.body'])
            return
        if k == 'DoStmt':
            tag = self.fresh('loop')
            self.walk(inner[0], ctx + [tag + '.body'])
            self.walk(inner[1], ctx + [tag + '.cond'])
            return
        if k == 'ForStmt':
            tag = self.fresh('loop')
            init, _condvar, cond, inc, body = (inner + [{}] * 5)[:5]
            self.walk(init, ctx + [tag + '.init'])
            self.walk(cond, ctx + [tag + '.cond'])
            self.walk(body, ctx + [tag + '.body'])
            self.walk(inc, ctx + [tag + '.inc'])
            return
        if k == 'SwitchStmt':
            tag = self.fresh('switch')
            self.walk(inner[0], ctx + [tag + '.cond'])
            for c in inner[1:]:
                self.walk(c, ctx + [tag + '.body'])
            return
        for c in inner:
            self.walk(c, ctx)


def find_functions(ast, names):
    found = {}
    for c in ast.get('inner', []):
        if c.get('kind') == 'FunctionDecl' and c.get('name') in names:
            body = [x for x in c.get('inner', []) if x.get('kind') == 'CompoundStmt']
            if body:
                found[c['name']] = (c, body[0])
    return found


def find_fields(ast, structs):
    """fields of the typedef'd (or variable-defining) structures named in `structs`"""
    records = {}
    for c in ast.get('inner', []):
        if c.get('kind') == 'RecordDecl' and c.get('completeDefinition'):
            records[c['id']] = c
    out = []
    top = ast.get('inner', [])
    for name in structs:
        rec = None
        for i, c in enumerate(top):
            if c.get('kind') in ('TypedefDecl', 'VarDecl') and c.get('name') == name:
                # the anonymous struct definition immediately precedes its typedef / variable
                owned = json.dumps(c.get('inner', []))
                for rid, r in records.items():
                    if rid in owned:
                        rec = r
                if rec is None:
                    j = i - 1
                    while j >= 0 and top[j].get('kind') != 'RecordDecl':
                        j -= 1
                    if j >= 0 and top[j].get('completeDefinition'):
                        rec = top[j]
                break
            if c.get('kind') == 'RecordDecl' and c.get('name') == name and c.get('completeDefinition'):
                rec = c
                break
        if rec is None:
            raise SkeletonError('structure %s not found' % name)
        for f in rec.get('inner', []):
            if f.get('kind') == 'FieldDecl':
                out.append((name, f['name'], f['type'].get('qualType', '?'), is_atomic_type(f['type'])))
    return out


def extract(unit):
    rel, fns, structs = UNITS[unit]
    ast, text = clang_ast(os.path.join(vlib.REPO, rel))
    found = find_functions(ast, set(fns))
    helpers = {}
    for c in ast.get('inner', []):
        if c.get('kind') == 'FunctionDecl' and c.get('name') not in fns and c.get('name') not in KEEP_CALLS.get(unit, set()):
            body = [x for x in c.get('inner', []) if x.get('kind') == 'CompoundStmt']
            if body and not c.get('variadic'):
                helpers[c['name']] = (c, body[0])
    funcs = []
    for fn in fns:
        if fn not in found:
            raise SkeletonError('function %s not found in %s' % (fn, rel))
        decl, body = found[fn]
        w = FnWalker(decl, text, set(), helpers)
        w.walk(body, [])
        funcs.append((fn, w.sites))
    return funcs, find_fields(ast, structs)


def lean_str(s):
    return '"' + s.replace('\\', '\\\\').replace('"', '\\"') + '"'


def render_unit(unit, funcs, fields, error=None):
    out = []
    if error:
        out.append('/-- EXTRACTION FAILED: %s -/' % error.replace('-/', '- /'))
    out.append('def %s : CUnit where' % unit)
    out.append('  funcs := [')
    fl = []
    for fn, sites in funcs:
        sl = ['      ⟨.%s, %s, .%s, .%s, [%s]⟩' % (k, lean_str(o), o1, o2, ', '.join(lean_str(c) for c in ctx)) for (k, o, o1, o2, ctx) in sites]
        fl.append('    ⟨%s, [\n%s]⟩' % (lean_str(fn), ',\n'.join(sl)) if sl else '    ⟨%s, []⟩' % lean_str(fn))
    out.append(',\n'.join(fl) + ']')
    out.append('  fields := [')
    out.append(',\n'.join('    ⟨%s, %s, %s, %s⟩' % (lean_str(s), lean_str(f), lean_str(t), 'true' if a else 'false') for (s, f, t, a) in fields) + ']')
    return '\n'.join(out) + '\n'


def generate(units=None):
    errors, parts = [], []
    for u in (units or list(UNITS)):
        try:
            funcs, fields = extract(u)
            parts.append(render_unit(u, funcs, fields))
        except (SkeletonError, KeyError, IndexError, ValueError) as e:
            errors.append((u, '%s: %s' % (type(e).__name__, e)))
            parts.append(render_unit(u, [], [], error=str(e)[:300]))
    head = ('import Librfn.Model.SkeletonTypes\n'
            '/-! GENERATED by tools/skeleton.py from the lock-free sources of the library (tie S) — do not edit.\n'
            'Format: see the header of tools/skeleton.py and Librfn/Model/SkeletonTypes.lean. -/\n'
            'namespace Librfn.Gen.Skeleton\nopen Librfn.Skeleton\n\n')
    return head + '\n'.join(parts) + '\nend Librfn.Gen.Skeleton\n', errors


def regen_skeleton(units=None):
    """Rewrite Gen/Skeleton.lean (all units, only when changed) from the current sources.
    Returns [(unit, error)] for the units asked about (default: all) that could not be extracted."""
    text, errors = generate()
    vlib.write_if_changed(DST, text)
    return [e for e in errors if units is None or e[0] in units]


if __name__ == '__main__':
    errs = regen_skeleton()
    for e in errs:
        print('ERROR', e)
    sys.exit(1 if errs else 0)

#!/usr/bin/env python3
"""tools/try_seeded.py <scratch-worktree> <change-dir-name> <PROPERTY> [--tier quick|thorough] [--keep]

Confirms a seeded property-breaking change produced by an independent sub-agent, and runs our check on it:
  1. scratch worktree pristine -> apply seeded/<name>/patch.diff -> `make check` must still pass 17/17
  2. demo.c (build+run command from its header comment) must FAIL with the change
  3. LIBRFN_REPO=<scratch> ./check <PROPERTY>   (what our machinery says)
  4. git checkout -- . ; rebuild ; demo must PASS on the pristine code
Writes /verif/seeded/<PROPERTY>-<name>/{patch.diff,demo.c,notes.txt,meta.json} when 1, 2 and 4 hold.
"""
import json, os, re, shutil, subprocess, sys, time

VERIF = os.path.dirname(os.path.dirname(os.path.abspath(__file__)))


def sh(cmd, cwd=None, timeout=3600, env=None):
    e = dict(os.environ)
    if env:
        e.update(env)
    p = subprocess.run(cmd, shell=isinstance(cmd, str), cwd=cwd, capture_output=True, text=True, timeout=timeout, env=e, errors='replace')
    return p.returncode, p.stdout + p.stderr


def demo_cmd(path):
    lines = open(path, errors='replace').read().split('\n')[:80]
    cmd, on, cont = [], False, False
    for l in lines:
        t = re.sub(r'^\s*(/\*+|\*+/?|//)\s?', '', l).rstrip()
        piece = t.strip()
        if piece.startswith('$ '):
            piece = piece[2:]
        if not on:
            if re.match(r'((\w+=\S+;?\s+)*)(gcc|cc|clang)\b', piece):
                on = True
            else:
                continue
        elif not (cont or piece.startswith('&&') or piece.startswith('||')):
            break                      # the command ended on the previous line
        if not piece:
            break
        cont = piece.endswith('\\') or piece.endswith('&&')
        cmd.append(piece.rstrip('\\').strip())
    return ' '.join(cmd)


def main():
    wt, name, pid = sys.argv[1], sys.argv[2], sys.argv[3]
    tier = sys.argv[sys.argv.index('--tier') + 1] if '--tier' in sys.argv else 'quick'
    sub = sys.argv[sys.argv.index('--dir') + 1] if '--dir' in sys.argv else 'seeded'
    d = os.path.join(wt, sub, name)
    patch = os.path.join(d, 'patch.diff')
    res = {'property': pid, 'name': name, 'scratch': wt}
    sh('git checkout -- . ', cwd=wt)
    evid = os.path.join(VERIF, 'evidence', pid + '.json')
    saved_evidence = open(evid).read() if os.path.exists(evid) else None     # the mutated run must not replace the clean-tree evidence
    rc, out = sh(['git', 'apply', patch], cwd=wt)
    if rc != 0:
        print('patch does not apply:', out); return 2
    try:
        rc, out = sh('make check 2>&1 | grep -E "^# (TOTAL|PASS|FAIL|ERROR)"', cwd=wt)
        m = re.search(r'# PASS:\s+(\d+)', out); f = re.search(r'# FAIL:\s+(\d+)', out)
        res['tests_pass_with_change'] = int(m.group(1)) if m else -1
        res['tests_fail_with_change'] = int(f.group(1)) if f else -1
        cmd = demo_cmd(os.path.join(d, 'demo.c'))
        res['demo_cmd'] = cmd
        dcwd = wt if (sub + '/' + name + '/demo.c') in cmd and ('/' + sub + '/' + name + '/demo.c') not in cmd.replace(' ' + sub + '/', ' /X/') else d   # command written relative to the worktree root
        res['demo_cwd'] = dcwd
        rc, out = sh(cmd, cwd=dcwd, timeout=1200)
        res['demo_rc_with_change'] = rc
        res['demo_out_with_change'] = out[-600:]
        t0 = time.time()
        rc, out = sh(['./check', pid, '--tier', tier], cwd=VERIF, env={'LIBRFN_REPO': wt}, timeout=7200)
        res['check_rc'] = rc
        res['check_wall_s'] = round(time.time() - t0, 1)
        res['check_lines'] = [l for l in out.split('\n') if l.startswith(('VIOLATION', 'KNOWN-FINDING', 'INFRA'))][:5]
        if rc not in (0, 1):
            res['check_tail'] = out[-1500:]
        for l in res['check_lines']:
            m = re.search(r'replay=(\S+)', l)
            if m and os.path.exists(m.group(1)):
                r = json.load(open(m.group(1)))
                res['replay'] = {k: (v if len(str(v)) < 400 else str(v)[:400] + '…') for k, v in r.items() if k not in ('notes',)}
                break
    finally:
        sh('git checkout -- .', cwd=wt)
    sh('make 2>&1 | tail -1', cwd=wt)
    # the check regenerated lean/Librfn/Gen from the mutated scratch tree: put the files for /repo back
    sh([sys.executable, os.path.join(VERIF, 'tools', 'regen_all.py')], cwd=VERIF)
    if saved_evidence is not None:
        open(evid, 'w').write(saved_evidence)
    rc, out = sh(res.get('demo_cmd', 'false'), cwd=res.get('demo_cwd', d), timeout=1200)
    res['demo_rc_pristine'] = rc
    ok = res.get('tests_pass_with_change') == 17 and res.get('tests_fail_with_change') == 0 and res.get('demo_rc_with_change', 0) != 0 and rc == 0
    res['confirmed'] = ok
    res['detected'] = res.get('check_rc') == 1
    res['detected_with_concrete_input'] = bool(res.get('check_lines')) and not any('no-failing-input-found' in l for l in res['check_lines'][:1]) and res.get('check_rc') == 1
    print(json.dumps(res, indent=1))
    if ok:
        dst = os.path.join(VERIF, 'seeded', f'{pid}-{name}')
        os.makedirs(dst, exist_ok=True)
        for fn in ('patch.diff', 'demo.c', 'notes.txt'):
            if os.path.exists(os.path.join(d, fn)):
                shutil.copy(os.path.join(d, fn), dst)
        notes = open(os.path.join(d, 'notes.txt'), errors='replace').read() if os.path.exists(os.path.join(d, 'notes.txt')) else ''
        meta = {'property': pid, 'breaks': notes[:1500], 'what_was_run': {
                    'make check with change': f"{res['tests_pass_with_change']}/17 pass",
                    'demo with change': f"exit {res['demo_rc_with_change']}", 'demo pristine': f"exit {res['demo_rc_pristine']}",
                    'our check': f"./check {pid} --tier {tier} -> rc {res.get('check_rc')} {res.get('check_lines')}"},
                'detected': res['detected'], 'detected_with_concrete_input': res['detected_with_concrete_input'], 'replay': res.get('replay')}
        json.dump(meta, open(os.path.join(dst, 'meta.json'), 'w'), indent=1)
    return 0


if __name__ == '__main__':
    sys.exit(main())

#!/usr/bin/env python3
"""Print the markdown table of seeded changes (/verif/seeded/*/meta.json) for DESIGN.md §11.6."""
import glob, json, os, re
rows = []
for d in sorted(glob.glob(os.path.join(os.path.dirname(os.path.dirname(os.path.abspath(__file__))), 'seeded', '*'))):
    try:
        m = json.load(open(os.path.join(d, 'meta.json')))
    except OSError:
        continue
    name = os.path.basename(d)
    notes = ' '.join((m.get('breaks') or '').split())
    notes = re.sub(r'\|', '/', notes)[:150]
    rp = m.get('replay') or {}
    wit = rp.get('call') or rp.get('failing_case') or rp.get('states') or rp.get('reason') or rp.get('first_access') or rp.get('monitor') or rp.get('ops') or rp.get('obligation') or ''
    wit = re.sub(r'\|', '/', ' '.join(str(wit).split()))[:90]
    res = 'concrete replay' if m.get('detected_with_concrete_input') else ('no-failing-input-found' if m.get('detected') else '**missed**')
    rows.append(f'| `{name}` | {notes} | {res} | {wit} |')
print('| seeded change | what it does (from the author\'s notes) | our check | witness (abridged) |')
print('|---|---|---|---|')
print('\n'.join(rows))
print(f'\n{len(rows)} changes: ' + ', '.join(f'{k} {sum(1 for r in rows if k in r)}' for k in ('concrete replay', 'no-failing-input-found', '**missed**')))

#!/usr/bin/env python3
"""Regenerate the seeded-changes table inside DESIGN.md (between the SEEDED-TABLE markers)."""
import os, re, subprocess, sys
HERE = os.path.dirname(os.path.dirname(os.path.abspath(__file__)))
tab = subprocess.run([sys.executable, os.path.join(HERE, 'tools', 'seeded_table.py')], capture_output=True, text=True).stdout
p = os.path.join(HERE, 'DESIGN.md')
s = open(p).read()
s = re.sub(r'<!-- SEEDED-TABLE-BEGIN -->.*<!-- SEEDED-TABLE-END -->', lambda m: '<!-- SEEDED-TABLE-BEGIN -->\n' + tab + '<!-- SEEDED-TABLE-END -->', s, flags=re.S)
open(p, 'w').write(s)

#!/usr/bin/env python3
"""Mutation run for the message-queue checks (C10, C04): applies single-line changes to a scratch worktree of the
repository (never to the repository itself) and reports whether `./check <ID>` prints a VIOLATION.

usage: tools/mq_mutants.py [C10|C04 ...] [--only name] [--tier quick]
"""
import os, subprocess, sys, tempfile, shutil

HERE = os.path.dirname(os.path.dirname(os.path.abspath(__file__)))
REPO = os.environ.get('LIBRFN_REPO', '/repo')
F = 'librfn/messageq.c'

# (name, file, old, new, which checks are expected to see it)
MUTANTS = [
    ('revert:6099fe4', None, None, None, ['C04']),          # D12: signed fetch_sub protocol, wraps with > 128 nested failing claims
    ('claim-num_free-cas-replaced-by-store', F, '	} while (!atomic_compare_exchange_weak(&mq->num_free, &num_free,\n					       num_free - 1));',
     '	} while (0);\n	atomic_store(&mq->num_free, num_free - 1);', ['C04']),
    ('claim-zero-check-after-decrement', F, '		if (0 == num_free)\n			return NULL;', '		if (1 == num_free)\n			return NULL;', ['C10', 'C04']),
    ('claim-no-zero-check-on-retry', F, '	unsigned char num_free = atomic_load(&mq->num_free);\n	do {\n		if (0 == num_free)\n			return NULL;\n	} while',
     '	unsigned char num_free = atomic_load(&mq->num_free);\n	if (0 == num_free)\n		return NULL;\n	do {\n	} while', ['C04']),
    ('claim-wrap-at-queue_len', F, 'newsendp = (sendp >= (mq->queue_len-1) ? 0 : sendp+1);',
     'newsendp = (sendp >= (mq->queue_len) ? 0 : sendp+1);', ['C10', 'C04']),
    ('receive-wrap-at-queue_len', F, '(receivep >= (unsigned int)(mq->queue_len - 1) ? 0 : receivep + 1);',
     '(receivep >= (unsigned int)(mq->queue_len) ? 0 : receivep + 1);', ['C10', 'C04']),
    ('send-wrong-bit', F, 'atomic_fetch_or(&mq->full_flags, (1 << sendp));', 'atomic_fetch_or(&mq->full_flags, (2 << sendp));', ['C10', 'C04']),
    ('send-bit-from-rounded-offset', F, 'unsigned int sendp = offset / mq->msg_len;', 'unsigned int sendp = (offset + 1) / mq->msg_len;', ['C10']),
    ('receive-does-not-advance', F, '	mq->receivep =\n	    (receivep >= (unsigned int)(mq->queue_len - 1) ? 0 : receivep + 1);', '	(void)0;', ['C10', 'C04']),
    ('release-does-not-increment', F, '	atomic_fetch_add(&mq->num_free, 1);\n}', '	(void)mq;\n}', ['C10', 'C04']),
    ('init-queue_len-includes-slack', F, '	mq->queue_len = base_len / msg_len;\n	atomic_store(&mq->num_free, base_len / msg_len);',
     '	mq->queue_len = (base_len + msg_len - 1) / msg_len;\n	atomic_store(&mq->num_free, (base_len + msg_len - 1) / msg_len);', ['C10']),
    ('init-num_free-one-short', F, 'atomic_store(&mq->num_free, base_len / msg_len);', 'atomic_store(&mq->num_free, base_len / msg_len - 1);', ['C10']),
    ('claim-cas-replaced-by-store', F, '	} while(!atomic_compare_exchange_weak(&mq->sendp, &sendp, newsendp));',
     '	} while(0);\n	atomic_store(&mq->sendp, newsendp);', ['C04']),
    ('receive-tests-without-clearing', F, 'unsigned int full_flags = atomic_fetch_and(\n			&mq->full_flags, ~(1 << receivep));',
     'unsigned int full_flags = atomic_fetch_and(\n			&mq->full_flags, ~0u);', ['C10', 'C04']),
    ('static-init-num_free-wrong', 'include/librfn/messageq.h', 'ATOMIC_VAR_INIT(((base_len) / (msg_len))), \\', 'ATOMIC_VAR_INIT(((base_len) / (msg_len)) - 1), \\', ['C10']),
    # tie S only: no schedule of a sequentially consistent machine shows these, the skeleton obligations must break (a break without input is expected)
    ('send-fetch-or-relaxed', F, 'atomic_fetch_or(&mq->full_flags, (1 << sendp));', 'atomic_fetch_or_explicit(&mq->full_flags, (1 << sendp), memory_order_relaxed);', ['C04:noinput']),
    ('claim-load-acquire', F, 'unsigned char sendp = atomic_load(&mq->sendp);', 'unsigned char sendp = atomic_load_explicit(&mq->sendp, memory_order_acquire);', ['C04:noinput']),
    ('sendp-field-not-atomic', 'include/librfn/messageq.h', '	atomic_uchar sendp;', '	unsigned char sendp;', ['C04:noinput']),
    ('receive-reads-receivep-twice', F, '	return mq->basep + (receivep * mq->msg_len);\n\n}', '	return mq->basep + ((mq->receivep ? mq->receivep - 1 : mq->queue_len - 1) * mq->msg_len);\n\n}', ['C04:noinput']),
    ('empty-tests-bit-zero', 'include/librfn/messageq.h', 'return 0 == (atomic_load(&mq->full_flags) & (1 << mq->receivep));',
     'return 0 == (atomic_load(&mq->full_flags) & 1);', ['C10']),
]


def sh(cmd, **kw):
    return subprocess.run(cmd, capture_output=True, text=True, **kw)


def main():
    args = sys.argv[1:]
    only = None
    tier = 'quick'
    if '--only' in args:
        i = args.index('--only'); only = args[i + 1]; del args[i:i + 2]
    if '--tier' in args:
        i = args.index('--tier'); tier = args[i + 1]; del args[i:i + 2]
    pids = args or ['C10', 'C04']
    wt = tempfile.mkdtemp(prefix='w-mq-mut-', dir='/tmp')
    os.rmdir(wt)
    r = sh(['git', '-C', REPO, 'worktree', 'add', '--detach', wt, 'HEAD'])
    if r.returncode:
        print(r.stderr); return 2
    missed = 0
    try:
        for (name, f, old, new, expect) in MUTANTS:
            if only and only != name:
                continue
            if name.startswith('revert:'):
                r = sh(['git', '-C', wt, 'revert', '--no-commit', name.split(':')[1]])
                if r.returncode:
                    print(f'{name:36s} REVERT FAILED {r.stderr[-200:]}'); missed += 1; continue
                p, src = None, None
            else:
                p = os.path.join(wt, f)
                src = open(p).read()
            if src is not None and src.count(old) != 1:
                print(f'{name:36s} PATTERN NOT FOUND ({src.count(old)} matches)'); missed += 1; continue
            if src is not None:
                open(p, 'w').write(src.replace(old, new))
            try:
                for pid in pids:
                    if not os.path.exists(os.path.join(HERE, 'props', pid + '.py')):
                        continue
                    env = dict(os.environ, LIBRFN_REPO=wt)
                    r = sh([os.path.join(HERE, 'check'), pid, '--tier', tier], env=env, cwd=HERE)
                    viol = [l for l in r.stdout.split('\n') if l.startswith('VIOLATION')]
                    concrete = [l for l in viol if 'no-failing-input-found' not in l]
                    verdict = 'CAUGHT' if concrete else ('caught (no input)' if viol else ('infra?' if r.returncode == 2 else 'missed'))
                    exp = 'expected' if pid in expect else 'not expected (outside this check\'s view)'
                    if pid + ':noinput' in expect:
                        exp = 'expected: obligation breaks (tie S), no input needed'
                        if not viol:
                            missed += 1
                    if pid in expect and not concrete:
                        missed += 1
                    detail = ''
                    if concrete:
                        import json
                        rp = concrete[0].split('replay=')[1].split()[0]
                        try:
                            j = json.load(open(rp))
                            detail = ' ' + (' '.join(j.get('ops', [])[:12]) or (('nest ' + j['nest']) if 'nest' in j else ('cfg ' + j.get('cfg', '') + ' | ' + ' '.join(j.get('schedule', [])))))[:110]
                        except Exception:
                            pass
                    print(f'{name:36s} {pid} rc={r.returncode} {verdict:18s} [{exp}]{detail}', flush=True)
                    if r.returncode == 2:
                        print(r.stderr[-600:])
            finally:
                if src is not None:
                    open(p, 'w').write(src)
                else:
                    sh(['git', '-C', wt, 'reset', '--hard', '-q'])
    finally:
        sh(['git', '-C', REPO, 'worktree', 'remove', '--force', wt])
        shutil.rmtree(wt, ignore_errors=True)
    print('missed (expected but not caught):', missed)
    return 1 if missed else 0


if __name__ == '__main__':
    sys.exit(main())

#!/usr/bin/env python3
"""tools/cross_matrix.py <scratch-repo-worktree> [--only NAME ...] [--out FILE]

False-alarm isolation matrix (DESIGN.md §11.10).  For every confirmed seeded change under seeded/<ID>-<name>/patch.diff:
apply it to the scratch worktree of /repo, run ALL twenty quick checks against that tree (LIBRFN_REPO), and record for
every property whether it stayed green, alarmed with a concrete replay, or alarmed with no-failing-input-found.  A change
seeded against property A that makes the check of an unrelated property B alarm *without a concrete failing input* is a
false alarm of B's check and is listed for triage; an alarm with a concrete replay is B's property genuinely broken by
the same change (most scheduler changes break several of C01/C02/C03/C06 at once).

Run this from a separate worktree of /verif (it rewrites evidence/ and lean/Librfn/Gen while it runs).
"""
import json, os, re, subprocess, sys, time
from concurrent.futures import ThreadPoolExecutor

VERIF = os.path.dirname(os.path.dirname(os.path.abspath(__file__)))
PIDS = ['C%02d' % i for i in range(1, 21)]


def sh(cmd, cwd=None, env=None, timeout=3600):
    e = dict(os.environ)
    if env:
        e.update(env)
    try:
        p = subprocess.run(cmd, shell=isinstance(cmd, str), cwd=cwd, capture_output=True, text=True, env=e, errors='replace', timeout=timeout)
        return p.returncode, p.stdout + p.stderr
    except subprocess.TimeoutExpired:
        return 124, 'timeout'


def run_check(pid, wt):
    t = time.time()
    rc, out = sh([os.path.join(VERIF, 'check'), pid], cwd=VERIF, env={'LIBRFN_REPO': wt}, timeout=2400)
    vio = [l for l in out.split('\n') if l.startswith('VIOLATION')]
    kind = 'green' if rc == 0 and not vio else 'infra' if rc not in (0, 1) else \
        'no-input' if vio and all(l.rstrip().endswith('no-failing-input-found') for l in vio) else 'concrete'
    why = ''
    if kind != 'green':
        m = re.search(r'replay=(\S+)', vio[0]) if vio else None
        if m and os.path.exists(os.path.join(VERIF, m.group(1))):
            try:
                r = json.load(open(os.path.join(VERIF, m.group(1))))
                why = json.dumps({k: r[k] for k in r if k in ('broken', 'reason', 'kind', 'what', 'theorem', 'obligation')})[:600]
            except Exception:
                pass
        if not why:
            why = out[-400:]
    return pid, {'kind': kind, 'rc': rc, 'secs': round(time.time() - t, 1), 'why': why}


def main():
    wt = sys.argv[1]
    only = sys.argv[sys.argv.index('--only') + 1:] if '--only' in sys.argv else None
    outp = sys.argv[sys.argv.index('--out') + 1] if '--out' in sys.argv else os.path.join(VERIF, 'seeded', 'cross_matrix.json')
    if only and '--out' in only:
        only = only[:only.index('--out')]
    if only and '--set' in only:
        only = only[:only.index('--set')]
    res = json.load(open(outp)) if os.path.exists(outp) else {}
    sub = sys.argv[sys.argv.index('--set') + 1] if '--set' in sys.argv else 'seeded'     # seeded | harmless
    if sub != 'seeded' and '--out' not in sys.argv:
        outp = os.path.join(VERIF, sub, 'cross_matrix.json'); res = json.load(open(outp)) if os.path.exists(outp) else {}
    names = sorted(d for d in os.listdir(os.path.join(VERIF, sub)) if os.path.exists(os.path.join(VERIF, sub, d, 'patch.diff')))
    for name in names:
        if only and name not in only:
            continue
        if name in res and not only:
            continue
        sh('git checkout -- .', cwd=wt)
        rc, out = sh(['git', 'apply', os.path.join(VERIF, sub, name, 'patch.diff')], cwd=wt)
        if rc != 0:
            res[name] = {'error': 'patch does not apply: ' + out[-200:]}
            continue
        if sub == 'harmless':          # a change offered as behaviour-preserving must at least keep the test suite green
            rc, out = sh('make check 2>&1 | grep -E "^# (PASS|FAIL|ERROR)"', cwd=wt, timeout=900)
            if '# PASS:  17' not in out:
                res[name] = {'error': 'test suite does not pass with this change: ' + out[-200:]}
                sh('git checkout -- .', cwd=wt)
                continue
        t = time.time()
        with ThreadPoolExecutor(max_workers=10) as ex:
            row = dict(ex.map(lambda p: run_check(p, wt), PIDS))
        sh('git checkout -- .', cwd=wt)
        res[name] = row
        json.dump(res, open(outp, 'w'), indent=1, sort_keys=True)
        own = name.split('-')[0]
        others = {p: r['kind'] for p, r in row.items() if r['kind'] != 'green' and p != own}
        print(f'{name}: own={row[own]["kind"]} others={others} ({time.time() - t:.0f}s)', flush=True)
    sh('git checkout -- .', cwd=wt)


if __name__ == '__main__':
    main()

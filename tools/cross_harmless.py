#!/usr/bin/env python3
"""tools/cross_harmless.py <scratch-repo-worktree> --checks C01,C02 [--touching path-fragment] [--out FILE]
For every harmless change whose patch touches <path-fragment>: apply it to the scratch worktree, run the listed quick checks against
it, record green / no-input / concrete per (change, check).  Run from a separate worktree of /verif."""
import json, os, subprocess, sys, time
VERIF = os.path.dirname(os.path.dirname(os.path.abspath(__file__)))


def sh(cmd, cwd=None, env=None, timeout=2400):
    e = dict(os.environ); e.update(env or {})
    try:
        p = subprocess.run(cmd, cwd=cwd, capture_output=True, text=True, env=e, errors='replace', timeout=timeout)
        return p.returncode, p.stdout + p.stderr
    except subprocess.TimeoutExpired:
        return 124, 'timeout'


def main():
    wt = sys.argv[1]
    checks = sys.argv[sys.argv.index('--checks') + 1].split(',')
    frag = sys.argv[sys.argv.index('--touching') + 1] if '--touching' in sys.argv else ''
    outp = sys.argv[sys.argv.index('--out') + 1] if '--out' in sys.argv else os.path.join(VERIF, 'harmless', 'cross_check.json')
    res = json.load(open(outp)) if os.path.exists(outp) else {}
    for name in sorted(os.listdir(os.path.join(VERIF, 'harmless'))):
        pf = os.path.join(VERIF, 'harmless', name, 'patch.diff')
        if not os.path.exists(pf) or frag not in open(pf).read():
            continue
        if '--skip' in sys.argv and name in sys.argv[sys.argv.index('--skip') + 1].split(','):
            continue
        sh(['git', 'checkout', '--', '.'], cwd=wt)
        rc, out = sh(['git', 'apply', pf], cwd=wt)
        if rc != 0:
            continue
        for c in checks:
            if c == name.split('-')[0] or f'{name}|{c}' in res:
                continue
            sh(['git', 'checkout', '--', 'lean/Librfn/Gen'], cwd=VERIF)
            t = time.time()
            rc, out = sh([os.path.join(VERIF, 'check'), c, '--tier', 'quick'], cwd=VERIF, env={'LIBRFN_REPO': wt})
            vio = [l for l in out.split('\n') if l.startswith('VIOLATION')]
            kind = 'green' if rc == 0 and not vio else 'infra' if rc not in (0, 1) else \
                'no-input' if vio and all(l.rstrip().endswith('no-failing-input-found') for l in vio) else 'concrete'
            res[f'{name}|{c}'] = {'kind': kind, 'secs': round(time.time() - t, 1)}
            json.dump(res, open(outp, 'w'), indent=1, sort_keys=True)
            print(name, c, kind, round(time.time() - t, 1), flush=True)
        sh(['git', 'checkout', '--', '.'], cwd=wt)
    sh(['git', 'checkout', '--', 'lean/Librfn/Gen'], cwd=VERIF)


if __name__ == '__main__':
    main()

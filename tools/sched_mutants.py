#!/usr/bin/env python3
"""Mutation run for the scheduler checks (C01-C03): each mutant is a one-line change of fibre.c applied to a scratch
COPY of the repository sources (never to /repo); `./check <ID>` must print VIOLATION with a concrete replay.

    python3 tools/sched_mutants.py [C01 C02 C03] [--seeds 1,2] [--only name-substring]
"""
import os, re, shutil, subprocess, sys, tempfile, json

HERE = os.path.dirname(os.path.dirname(os.path.abspath(__file__)))
REPO = os.environ.get('LIBRFN_REPO', '/repo')

# name -> (file, old text, new text)   (old text must occur exactly once)
MUTANTS = {
    'D1-revert (drain recurses through fibre_run)': ('librfn/fibre.c', '\t\tmake_runnable(*f);', '\t\tfibre_run(*f);'),
    'duetime_cmp non-cyclic': ('librfn/fibre.c', 'return f1->duetime - f2->duetime;',
                               'return f1->duetime < f2->duetime ? -1 : f1->duetime > f2->duetime;'),
    'fibre_timeout <= -> <': ('librfn/fibre.c', 'if (cyclecmp32(duetime, kernel.now) <= 0)', 'if (cyclecmp32(duetime, kernel.now) < 0)'),
    'make_runnable keeps the fibre on the timer queue': ('librfn/fibre.c', '\t\t(void) list_remove(&kernel.timerq, &f->link);\n', ''),
    'get_next_wakeup forgets the run queue': ('librfn/fibre.c', 'if (!messageq_empty(&kernel.atomic_runq) || !list_empty(&kernel.runq))',
                                              'if (!messageq_empty(&kernel.atomic_runq))'),
    'get_next_wakeup forgets the atomic queue': ('librfn/fibre.c', 'if (!messageq_empty(&kernel.atomic_runq) || !list_empty(&kernel.runq))',
                                                 'if (!list_empty(&kernel.runq))'),
    'fibre_kill forgets the timer queue': ('librfn/fibre.c', '\tres |= list_remove(&kernel.timerq, &f->link);\n', ''),
    'fibre_kill forgets to drain atomics': ('librfn/fibre.c', 'bool res = false;\n\n\thandle_atomic_runq();', 'bool res = false;\n'),
    'handle_timerq <= -> <': ('librfn/fibre.c', 'cyclecmp32(timeout_fibre->duetime, kernel.now) <= 0)', 'cyclecmp32(timeout_fibre->duetime, kernel.now) < 0)'),
    'no PT_INIT on exit': ('librfn/fibre.c', '\t\tPT_INIT(&kernel.current->priv);\n', ''),
    'fast path ignores the timer queue': ('librfn/fibre.c', '\t    !list_empty(&kernel.timerq) ||\n', ''),
    'fast path ignores the atomic queue': ('librfn/fibre.c', '\t    !list_empty(&kernel.timerq) ||\n\t    !messageq_empty(&kernel.atomic_runq)) {',
                                           '\t    !list_empty(&kernel.timerq)) {'),
    'yield early return dropped': ('librfn/fibre.c', '\t\tif (kernel.state == FIBRE_STATE_YIELDED)\n\t\t\treturn kernel.now;\n', ''),
    'make_runnable without coalescing guard': ('librfn/fibre.c', 'if (!list_contains(&kernel.runq, &f->link, NULL)) {\n\t\t(void) list_remove',
                                               'if (1) {\n\t\t(void) list_remove'),
    'fibre_timeout sorts by plain append': ('librfn/fibre.c', 'list_insert_sorted(&kernel.timerq, &kernel.current->link, duetime_cmp);',
                                            'list_insert(&kernel.timerq, &kernel.current->link);'),
    'timers admitted before the yielder': ('librfn/fibre.c', '\t\tif (kernel.current)\n\t\t\tupdate_current_state();\n\t\thandle_timerq();',
                                           '\t\thandle_timerq();\n\t\tif (kernel.current)\n\t\t\tupdate_current_state();'),
    'unbounded sleep off by one': ('librfn/fibre.c', 'return kernel.now + FIBRE_UNBOUNDED_SLEEP;', 'return kernel.now + FIBRE_UNBOUNDED_SLEEP + 1;'),
    'list_insert_sorted scan >= -> > (stability)': ('librfn/list.c', '\t     nodecmp(node, curr) >= 0;', '\t     nodecmp(node, curr) > 0;'),
    'list_insert_sorted tail fast path >= -> >': ('librfn/list.c', 'if (nodecmp(node, list->tail) >= 0) {', 'if (nodecmp(node, list->tail) > 0) {'),
    'cyclecmp32 unsigned compare': ('librfn/util.c', 'return (int32_t) (a - b);', 'return a < b ? -1 : a > b;'),
}


def main():
    args = [a for a in sys.argv[1:] if not a.startswith('--')]
    pids = args or ['C01', 'C02', 'C03']
    seeds = ['1']
    only = None
    for i, a in enumerate(sys.argv):
        if a == '--seeds':
            seeds = sys.argv[i + 1].split(',')
        if a == '--only':
            only = sys.argv[i + 1]
    pids = [p for p in pids if p not in seeds and p != only]
    results = {}
    for name, (rel, old, new) in MUTANTS.items():
        if only and only not in name:
            continue
        d = tempfile.mkdtemp(prefix='librfn-mutant-')
        try:
            for sub in ('librfn', 'include'):
                shutil.copytree(os.path.join(REPO, sub), os.path.join(d, sub))
            p = os.path.join(d, rel)
            src = open(p).read()
            if src.count(old) != 1:
                results[name] = {'error': f'anchor text occurs {src.count(old)} times'}
                print(name, '->', results[name]); continue
            open(p, 'w').write(src.replace(old, new))
            row = {}
            for pid in pids:
                for seed in seeds:
                    env = dict(os.environ, LIBRFN_REPO=d, VERIF_SEED=seed)
                    r = subprocess.run([os.path.join(HERE, 'check'), pid], capture_output=True, text=True, env=env, timeout=1200)
                    m = re.search(r'VIOLATION property=\S+ replay=(\S+)( no-failing-input-found)?', r.stdout)
                    if m and not m.group(2):
                        rep = json.load(open(m.group(1)))
                        row[f'{pid}/s{seed}'] = 'CAUGHT ' + ' ; '.join(rep.get('ops', [])[1:])
                    elif m:
                        row[f'{pid}/s{seed}'] = 'broken-obligation only (no input)'
                    else:
                        row[f'{pid}/s{seed}'] = f'MISSED (rc={r.returncode}) ' + (r.stderr.strip().split('\n')[-1][:200] if r.returncode == 2 else '')
            results[name] = row
            print(name)
            for k, v in row.items():
                print('   ', k, v)
            sys.stdout.flush()
        finally:
            shutil.rmtree(d, ignore_errors=True)
    caught = sum(1 for r in results.values() if any(str(v).startswith('CAUGHT') for v in r.values()))
    print(f'{caught}/{len(results)} mutants caught by at least one of the checks')


if __name__ == '__main__':
    main()

#!/usr/bin/env python3
"""Tie T, second generation (DESIGN.md §12): translate *sequential* C functions that use loops, atomics, pointers
and byte memory into Lean 4 definitions over BitVec, driven by clang's typed JSON AST of the preprocessed unit.

What is new compared with tools/c2lean.py (which stays as it is for the units it already serves):

  * pointers are 64-bit values (`BitVec 64`, the LP64 ABI of this sandbox); `p + i`, `p - q`, `p += n`, `p[i]`, `*p`
    scale by the size of the pointee; NULL is 0; pointer comparisons are unsigned comparisons;
  * memory is a byte map `Librfn.Gen.Mem = BitVec 64 → BitVec 8` threaded through every function that loads or stores
    through a computed pointer (`Mem.store`, little-endian multi-byte accesses, `Mem.fill` for memset, `Mem.copy` for memcpy);
  * scalar *and pointer* fields of the structure a parameter points to are parameters and results, as before;
    `memset(p, 0, sizeof(*p))` on such a parameter zeroes every field;
  * C11 atomic operations (clang `AtomicExpr`; which builtin is read from the preprocessed text) get their
    *sequential* meaning: load / store / exchange / fetch_op (returns the old value) / op_fetch (returns the new one) /
    compare_exchange (strong and weak alike: succeeds iff the object equals `*expected`, else writes the object's
    value to `*expected`).  Interleavings and spurious weak-CAS failures are the business of the concurrent models
    (tie S + Model/*Conc.lean), not of this translation;
  * `while` / `do` / `for` loops are unrolled `fuel` times; the definition returns `exh = true` if the loop would have
    gone round once more (the tie theorems prove `exh = false` on the inputs they cover);
  * `/`, `%` and shifts by a run-time amount are translated with an undefined-behaviour flag: the definition returns
    `ub = true` if a division by zero or a shift by an amount outside [0, width) was *executed*;
  * calls of functions translated earlier in the same unit are inlined as calls of the generated definitions
    (structure parameters passed through, memory / ub / exh threaded).

Every generated definition returns a structure `<fn>.Out` with the fields `ret` (if the function returns a value),
one field per structure field / `*p` parameter, `mem` (if memory is touched), `ub`, `exh`.

Anything outside the subset raises `Unsupported` (a broken tie, never a skipped function): `goto`, `continue`,
`switch` inside loops, floating point, unions, bit-fields, variadic calls, function pointers, address-of locals
other than as the `expected` argument of a compare-exchange, static locals, side effects under `&&`/`||`/`?:`,
reads of possibly uninitialised locals.  Trusted (DESIGN §4): signed overflow wraps (no obligation generated),
the LP64 data model, little-endian multi-byte accesses, clang's AST.
"""
import json, os, re, subprocess, sys, tempfile

sys.path.insert(0, os.path.dirname(os.path.abspath(__file__)))
from c2lean import INT_TYPES, Unsupported, lit, wrapint, UNINIT

PTR = 64


def has_side_effect(n):
    k = n.get('kind')
    if k == 'BinaryOperator' and n.get('opcode') == '=':
        return True
    if k in ('CompoundAssignOperator', 'CallExpr', 'AtomicExpr'):
        return True
    if k == 'UnaryOperator' and n.get('opcode') in ('++', '--'):
        return True
    return any(has_side_effect(c) for c in n.get('inner', []) if isinstance(c, dict))


class T:
    """value type: integer of width w (signed or not) or pointer with element size esz (None = incomplete/unknown)"""
    __slots__ = ('w', 's', 'ptr', 'esz')

    def __init__(self, w, s, ptr=False, esz=None):
        self.w, self.s, self.ptr, self.esz = w, s, ptr, esz

    def __eq__(self, o):
        return (self.w, self.s, self.ptr) == (o.w, o.s, o.ptr)

    def __repr__(self):
        return f'T({self.w},{self.s},{self.ptr},{self.esz})'


def clean(q):
    q = q.strip()
    for _ in range(4):
        m = re.fullmatch(r'_Atomic\((.*)\)', q)
        if m:
            q = m.group(1).strip()
        q = re.sub(r'\b(const|volatile|restrict|_Atomic|__restrict)\b', '', q).strip()
        q = re.sub(r'\s+', ' ', q)
    return q


class TU:
    def __init__(self):
        self.records, self.typedefs, self.fns, self.enums, self.text = {}, {}, {}, {}, b''
        self.tables = {}
        self.field_order = {}
        self.raw_records = {}      # record name -> [(field, qualType)] in declaration order (every field, also aggregates)
        self.globals = {}          # file-scope objects that are not constant tables: name -> qualType
        self.inmem = set()         # record names whose pointers are NOT flattened: members are read and written in memory

    def record_name(self, q):
        q = self.resolve(q)
        q = q[len('struct '):] if q.startswith('struct ') else q
        return q if q in self.raw_records else None

    def is_fnptr(self, q):
        q = clean(q)
        if '(*)' in q or re.search(r'\(\s*\*\s*\)\s*\(', q):
            return True
        if q.endswith('*'):
            pointee = clean(q[:-1])
            for _ in range(8):
                if pointee in self.typedefs:
                    pointee = clean(self.typedefs[pointee])
            return '(' in pointee and '*' not in pointee.split('(')[0][-2:]
        return False

    def alignof(self, q):
        q = self.resolve(q)
        m = re.fullmatch(r'(.*)\[(\d+)\]', q)
        if m:
            return self.alignof(m.group(1))
        rn = self.record_name(q)
        if rn is not None:
            return max([self.alignof(fq) for _, fq in self.raw_records[rn]] or [1])
        sz = self.sizeof(q)
        if sz is None:
            raise Unsupported('alignment of ' + q)
        return sz

    def layout(self, rn):
        """(size, {field: (offset, qualType)}) of a structure, x86-64 System V rules (natural alignment, no packing, no bit-fields)"""
        off, al, out = 0, 1, {}
        for f, fq in self.raw_records[rn]:
            a = self.alignof(fq)
            sz = self.sizeof(fq)
            if sz is None:
                raise Unsupported(f'layout of {rn}.{f}')
            off = (off + a - 1) // a * a
            out[f] = (off, fq)
            off += sz
            al = max(al, a)
        return ((off + al - 1) // al * al, out)

    def const_table(self, d):
        """(values, element type) of a `const` array whose initialiser is a list of integer constant expressions, else None"""
        import c2lean
        t = d.get('type', {})
        q = t.get('desugaredQualType', t.get('qualType', ''))
        m = re.fullmatch(r'(.*)\[(\d+)\]', q.strip())
        if not m or 'const' not in q:
            return None
        try:
            et = self.vtype_q(m.group(1))
        except Unsupported:
            return None
        lits = [c for c in d.get('inner', []) if c.get('kind') == 'StringLiteral']
        if lits and et.w == 8:
            # char t[N] = "...": the bytes of the literal, zero filled (clang prints the literal with its quotes and C escapes)
            try:
                import ast as _ast
                raw = _ast.literal_eval('b' + lits[0]['value'])
            except (ValueError, SyntaxError, KeyError):
                return None
            n = int(m.group(2))
            vals = list(raw)[:n] + [0] * max(0, n - len(raw))
            return (vals, et) if 0 < n <= 1024 else None
        init = [c for c in d.get('inner', []) if c.get('kind') == 'InitListExpr']
        if not init or et.ptr:
            return None
        vals = []
        try:
            for e in init[0].get('inner', []):
                if e.get('kind') == 'ImplicitValueInitExpr':
                    vals.append(0)
                else:
                    vals.append(c2lean.const_eval(e))
        except (Unsupported, KeyError, ValueError):
            return None
        n = int(m.group(2))
        filler = init[0].get('array_filler')
        vals += [0] * (n - len(vals))
        if len(vals) != n or n == 0 or n > 1024:
            return None
        return (vals, et)

    def resolve(self, q):
        q = clean(q)
        for _ in range(12):
            if q in INT_TYPES or q.endswith('*') or q not in self.typedefs:
                break
            q = clean(self.typedefs[q])
        return q

    def sizeof(self, q):
        q = self.resolve(q)
        if q.endswith('*'):
            return 8
        if q in INT_TYPES:
            return INT_TYPES[q][0] // 8
        if q == 'void':
            return 1                      # GNU C: arithmetic on void * counts bytes
        if q.startswith('enum '):
            return 4
        m = re.fullmatch(r'(.*)\[(\d+)\]', q)
        if m:
            e = self.sizeof(m.group(1))
            return None if e is None else e * int(m.group(2))
        rn = self.record_name(q)
        if rn is not None:
            try:
                return self.layout(rn)[0]
            except Unsupported:
                return None
        return None

    def vtype_q(self, q):
        if re.search(r'\(\s*\*\s*\)\s*\(', q):
            return T(PTR, False, True, None)           # `int (*)(…)`: a function pointer is an opaque 64-bit value
        q = self.resolve(q)
        if q.endswith('*'):
            pointee = q[:-1].strip()
            if '(' in pointee:
                return T(PTR, False, True, None)       # a function pointer: an opaque 64-bit value
            return T(PTR, False, True, self.sizeof(pointee))
        if q in INT_TYPES:
            return T(*INT_TYPES[q])
        if q.startswith('enum '):
            return T(32, True)
        raise Unsupported('type ' + repr(q))

    def vtype(self, node):
        t = node.get('type', {})
        return self.vtype_q(t.get('desugaredQualType', t.get('qualType', '')))

    def record_of(self, q):
        """fields of the record a pointer type q points to, or None"""
        q = self.resolve(q)
        if not q.endswith('*'):
            return None
        p = self.resolve(q[:-1].strip())
        p = p.replace('struct ', '')
        if p in self.inmem:
            return None
        return self.records.get(p)


def conv(e, src, dst):
    if src.w == dst.w:
        return e
    if dst.w < src.w:
        return f'(BitVec.setWidth {dst.w} {e})'
    return f'(BitVec.signExtend {dst.w} {e})' if src.s else f'(BitVec.setWidth {dst.w} {e})'


def strip(n):
    while n.get('kind') in ('ParenExpr', 'ImplicitCastExpr', 'CStyleCastExpr', 'ConstantExpr') and n.get('inner'):
        n = n['inner'][0]
    return n


ATOMIC_BASE = {
    'load': 'load', 'load_n': 'load', 'store': 'store', 'store_n': 'store', 'init': 'store',
    'exchange': 'xchg', 'exchange_n': 'xchg',
    'compare_exchange_strong': 'cas', 'compare_exchange_weak': 'cas', 'compare_exchange_n': 'cas',
    'fetch_add': ('fetch', '+'), 'fetch_sub': ('fetch', '-'), 'fetch_or': ('fetch', '|||'), 'fetch_and': ('fetch', '&&&'), 'fetch_xor': ('fetch', '^^^'),
    'add_fetch': ('opfetch', '+'), 'sub_fetch': ('opfetch', '-'), 'or_fetch': ('opfetch', '|||'), 'and_fetch': ('opfetch', '&&&'), 'xor_fetch': ('opfetch', '^^^'),
}


class Fn:
    def __init__(self, tu, decl, fuel=2, done=None, externs=()):
        self.tu, self.decl, self.fuel = tu, decl, fuel
        self.externs, self.nsite, self.extra_params, self.extra_outs = set(externs), {}, [], []
        self.tables = {}
        self.tags, self.allfields, self.local_records = {}, {}, {}
        self.aggtypes = {}
        self.fnptrs = set()
        self.fnalias_map = {}
        self.ktype = {}            # env key -> Lean type text (for the parameters of loop definitions)
        self.ret_types = []        # return type (T or None) of the function whose body is being translated (innermost inlined call last)
        self.aux_defs = []         # text of auxiliary definitions (loops as recursive functions)
        self.nloops = 0
        self.recursive_loops = False
        self.uses_fuel = False
        self.pure_calls = set()    # function-pointer parameters / external functions assumed pure: a call is an application of a function-valued parameter
        self.pure_params = {}      # name -> Lean type text of that parameter
        self.loop_mode = None      # while one iteration of a recursive loop is translated: {'idx', 'n': {fname: count}, 'rets': [(name, type)]}
        self.trace = []
        self.lets, self.n = [], 0
        self.uses_mem = False
        self.done_fns = done or {}       # name -> signature info of already translated functions

    def kt(self, key, t):
        """record the Lean type of an environment key (T or text)"""
        self.ktype[key] = t if isinstance(t, str) else f'BitVec {t.w}'

    def key_type(self, key):
        if key == '$mem':
            return 'Mem'
        if key in ('$ub', '$exh', '$done', '$exit', '$path'):
            return 'Bool'
        if key == '$trace':
            return 'List ExtCall'
        if key == '$iter':
            return 'Nat'
        if key == '$ret':
            t = self.ret_types[-1] if self.ret_types else None
            return None if t is None else f'BitVec {t.w}'
        if key in self.ktype:
            return self.ktype[key]
        if key in self.ftype:
            return f'BitVec {self.ftype[key].w}'
        if key.startswith('@&'):
            return f'BitVec {PTR}'
        return None

    def fresh(self, base):
        self.n += 1
        return f'{re.sub(r"[^A-Za-z0-9_]", "_", base)}_{self.n}'

    def bind(self, base, expr):
        name = self.fresh(base)
        self.lets.append((name, expr))
        return name

    # ---- control state ------------------------------------------------------------------------------------
    def dead(self, env):
        d, x = env['$done'], env['$exit']
        if d == 'false':
            return x
        if x == 'false':
            return d
        return f'({d} || {x})'

    def flag(self, env, key, cond):
        """set a sticky flag if `cond` holds on a live path"""
        dd = self.dead(env)
        live = cond if dd == 'false' else f'(!{dd} && {cond})'
        env[key] = live if env[key] == 'false' else self.bind(key[1:], f'({env[key]} || {live})')

    def assign(self, env, key, expr):
        dd = self.dead(env)
        if dd != 'false' and env.get(key) not in (UNINIT, None):
            expr = f'(if {dd} then {env[key]} else {expr})'
        env[key] = self.bind(key.replace('->', '_').replace('*', 'deref_').replace('$', ''), expr)

    # ---- lvalues ------------------------------------------------------------------------------------------
    def lvalue(self, n, env):
        """('var', key) for a local / parameter / flattened field, ('mem', addr_expr, T) for a memory cell"""
        k = n['kind']
        if k == 'ParenExpr':
            return self.lvalue(n['inner'][0], env)
        if k == 'DeclRefExpr':
            nm = n['referencedDecl']['name']
            if nm not in env:
                if '@' + nm in env:
                    return ('var', '@' + nm)                 # a file-scope integer / pointer object
                if '@&' + nm in env:
                    return ('agg', env['@&' + nm], self.aggtypes.get(nm) or self.tu.globals[nm])   # an aggregate kept in memory
                if nm in self.gstructs:
                    return ('gagg', nm, self.tu.globals[nm])  # a file-scope structure whose scalar members are variables
                raise Unsupported('variable outside the function: ' + nm)
            return ('var', nm)
        if k == 'MemberExpr':
            base = strip(n['inner'][0])
            if n.get('isArrow') and base['kind'] == 'DeclRefExpr':
                key = base['referencedDecl']['name'] + '->' + n['name']
                if key in env:
                    return ('var', key)
            if n.get('isArrow'):
                # a structure in memory reached through a pointer value
                bq = n['inner'][0]['type'].get('desugaredQualType', n['inner'][0]['type']['qualType'])
                rq = self.tu.resolve(bq)
                rn = self.tu.record_name(rq[:-1].strip()) if rq.endswith('*') else None
                if rn is None:
                    raise Unsupported('member access through a pointer to an unknown structure: ' + n.get('name', '?'))
                return self.member_at(self.ev(n['inner'][0], env), rn, n['name'])
            b0 = strip(n['inner'][0])
            if b0.get('kind') == 'DeclRefExpr' and b0['referencedDecl']['name'] in self.local_records and not n.get('isArrow'):
                # a member of an aggregate local: the local is a bundle of scalar variables (`tmp.fmt`, `tmp.arg[0]`, …)
                nm = b0['referencedDecl']['name']
                fq_ = n['type'].get('desugaredQualType', n['type']['qualType'])
                if self.is_aggregate(fq_):
                    return ('lagg', nm, n['name'], fq_)
                key = f'{nm}.{n["name"]}'
                env.setdefault(key, UNINIT)
                self.kt(key, self.tu.vtype(n))
                return ('var', key)
            blv = self.lvalue(n['inner'][0], env)
            if blv[0] == 'gagg':
                key = f'@{blv[1]}.{n["name"]}'
                if key in env:
                    return ('var', key)
                if '@&' + key[1:] in env:
                    rn = self.tu.record_name(blv[2])
                    return ('agg', env['@&' + key[1:]], self.tu.layout(rn)[1][n['name']][1])
                raise Unsupported('member of a file-scope structure outside the translated state: ' + key[1:])
            if blv[0] == 'agg':
                rn = self.tu.record_name(blv[2])
                if rn is None:
                    raise Unsupported('member of a non-structure')
                return self.member_at(blv[1], rn, n['name'])
            raise Unsupported('member access outside the flattened parameters: ' + n.get('name', '?'))
        if k == 'UnaryOperator' and n['opcode'] == '*':
            base = strip(n['inner'][0])
            if base['kind'] == 'DeclRefExpr' and ('*' + base['referencedDecl']['name']) in env:
                return ('var', '*' + base['referencedDecl']['name'])
            pt = self.tu.vtype(n['inner'][0])
            nq_ = n['type'].get('desugaredQualType', n['type']['qualType'])
            if self.is_aggregate(nq_):
                return ('agg', self.ev(n['inner'][0], env), nq_)
            return ('mem', self.ev(n['inner'][0], env), self.tu.vtype(n), pt)
        if k == 'ArraySubscriptExpr':
            b, i = n['inner']
            sb = strip(b)
            nm = sb.get('referencedDecl', {}).get('name') if sb.get('kind') == 'DeclRefExpr' else None
            if nm is not None and nm not in env and (nm in self.tables or nm in self.tu.tables):
                return ('table', nm, self.ev(i, env), self.tu.vtype(i))
            sb0 = strip(sb) if sb.get('kind') == 'MemberExpr' else sb
            if sb0.get('kind') == 'MemberExpr' and not sb0.get('isArrow'):
                bb = strip(sb0['inner'][0])
                if bb.get('kind') == 'DeclRefExpr' and bb['referencedDecl']['name'] in self.local_records:
                    si = strip(i)
                    if si.get('kind') != 'IntegerLiteral':
                        raise Unsupported('array member of an aggregate local indexed by a non-constant')
                    key = f'{bb["referencedDecl"]["name"]}.{sb0["name"]}[{int(si["value"])}]'
                    env.setdefault(key, UNINIT)
                    self.kt(key, self.tu.vtype(n))
                    return ('var', key)
            bt, it = self.tu.vtype(b), self.tu.vtype(i)
            if not bt.ptr:
                b, i, bt, it = i, b, it, bt
            addr = self.ptr_add(self.ev(b, env), bt, self.ev(i, env), it, '+')
            nq = n['type'].get('desugaredQualType', n['type']['qualType'])
            if self.is_aggregate(nq):
                return ('agg', addr, nq)
            return ('mem', addr, self.tu.vtype(n), bt)
        raise Unsupported('lvalue ' + k)

    def copy_local_record(self, nm, addr, env):
        """`*p = tmp` for an aggregate local `tmp` held as scalar variables: one store per scalar member / array element"""
        rn = self.tu.record_name(self.local_records[nm])
        if rn is None:
            raise Unsupported('structure assignment from a local of unknown layout')
        a0 = self.bind('addr', addr)
        for f, (off, fq) in self.tu.layout(rn)[1].items():
            q = self.tu.resolve(fq)
            m = re.fullmatch(r'(.*)\[(\d+)\]', q)
            items = [(f'{nm}.{f}[{j}]', off + j * self.tu.sizeof(m.group(1)), m.group(1)) for j in range(int(m.group(2)))] if m else [(f'{nm}.{f}', off, fq)]
            for key, o_, tq in items:
                if self.tu.record_name(tq) is not None:
                    raise Unsupported('nested structure in an aggregate local')
                if env.get(key) in (None, UNINIT):
                    raise Unsupported('structure assignment from a local with an unassigned member: ' + key)
                t = self.tu.vtype_q(tq)
                self.store(env, a0 if o_ == 0 else f'({a0} + {lit(o_, PTR)})', t, env[key])
        return '()'

    def is_aggregate(self, q):
        q = self.tu.resolve(q)
        return bool(re.fullmatch(r'.*\[\d+\]', q)) or self.tu.record_name(q) is not None

    def member_at(self, addr, rn, field):
        off, fq = self.tu.layout(rn)[1][field]
        a = addr if off == 0 else f'({addr} + {lit(off, PTR)})'
        if self.is_aggregate(fq):
            return ('agg', a, fq)
        return ('mem', a, self.tu.vtype_q(fq), T(PTR, False, True, self.tu.sizeof(fq)))

    def tag_of(self, n, env):
        """an array object used as a pointer (an array member of a structure parameter, a constant table, a string literal is NOT
        accepted): it has no numeric address in this translation, only an identity - a *tag* `<kind>*0x1000 + index` that the
        generated file names (`tag_<param>_<member>`, `tag_<table>`).  Tags may be passed to external functions and compared for
        equality with each other; arithmetic on them, loads and stores through them are outside the subset."""
        k = n.get('kind')
        if k == 'MemberExpr' and n.get('isArrow'):
            base = strip(n['inner'][0])
            if base.get('kind') == 'DeclRefExpr' and base['referencedDecl']['name'] in self.allfields:
                pn = base['referencedDecl']['name']
                names = self.allfields[pn]
                if n['name'] in names:
                    v = 0x1000 + names.index(n['name'])
                    self.tags[f'tag_{pn}_{n["name"]}'] = v
                    return lit(v, PTR)
        if k == 'DeclRefExpr':
            nm = n['referencedDecl']['name']
            if nm in self.tu.tables or nm in self.tables:
                v = 0x3000 + sorted(set(self.tu.tables) | set(self.tables)).index(nm)
                self.tags[f'tag_{nm}'] = v
                return lit(v, PTR)
        raise Unsupported('array object used as a pointer: ' + str(k))

    def load(self, env, addr, t):
        self.uses_mem = True
        m = env['$mem']
        if t.w == 8:
            return f'({m} {addr})'
        if t.w in (16, 32, 64):
            return f'(Mem.load{t.w} {m} {addr})'
        raise Unsupported('load width')

    def store(self, env, addr, t, v):
        self.uses_mem = True
        f = 'Mem.store' if t.w == 8 else f'Mem.store{t.w}'
        self.assign(env, '$mem', f'({f} {env["$mem"]} {addr} {v})')

    def read_lv(self, lv, env):
        if lv[0] == 'table':
            vals, et = self.tables.get(lv[1]) or self.tu.tables[lv[1]]
            idx, it = lv[2], lv[3]
            idx = self.bind('idx', idx)
            # an index outside the table is undefined behaviour
            self.flag(env, '$ub', f'(BitVec.ule {lit(len(vals), it.w)} {idx})' if not it.s else
                      f'(BitVec.slt {idx} {lit(0, it.w)} || BitVec.sle {lit(len(vals), it.w)} {idx})')
            e = lit(vals[-1], et.w)
            for j in range(len(vals) - 2, -1, -1):
                e = f'(if {idx} == {lit(j, it.w)} then {lit(vals[j], et.w)} else {e})'
            return self.bind('tbl', e)
        if lv[0] == 'var':
            v = env[lv[1]]
            if v == UNINIT:
                raise Unsupported('read of a possibly uninitialised local: ' + lv[1])
            return v
        return self.load(env, lv[1], lv[2])

    def write_lv(self, lv, env, v):
        if lv[0] == 'table':
            raise Unsupported('store into a constant table')
        if lv[0] == 'var':
            self.assign(env, lv[1], v)
            return env[lv[1]]
        a = self.bind('addr', lv[1])
        self.store(env, a, lv[2], v)
        return v

    # ---- pointer arithmetic -----------------------------------------------------------------------------
    def ptr_add(self, p, pt, i, it, op):
        if pt.esz is None:
            raise Unsupported('arithmetic on a pointer to an incomplete or unsized type')
        off = conv(i, it, T(PTR, it.s))
        if pt.esz != 1:
            off = f'({off} * {lit(pt.esz, PTR)})'
        return f'({p} {op} {off})'

    # ---- expressions -----------------------------------------------------------------------------------
    def ev(self, n, env):
        k = n['kind']
        tu = self.tu
        if k in ('ParenExpr', 'ConstantExpr'):
            return self.ev(n['inner'][0], env)
        if k in ('IntegerLiteral', 'CharacterLiteral'):
            return lit(n['value'], tu.vtype(n).w)
        if k in ('ImplicitCastExpr', 'CStyleCastExpr'):
            ck = n.get('castKind')
            inner = n['inner'][0]
            if ck == 'ArrayToPointerDecay':
                try:
                    return self.tag_of(strip(inner), env)
                except Unsupported:
                    lv = self.lvalue(inner, env)
                    if lv[0] != 'agg':
                        raise
                    return lv[1]
            if ck in ('LValueToRValue',):
                return self.read_lv(self.lvalue(inner, env), env)
            if ck in ('NoOp', 'BitCast', 'AtomicToNonAtomic', 'NonAtomicToAtomic'):
                return self.ev(inner, env)
            if ck in ('IntegralCast', 'PointerToIntegral', 'IntegralToPointer'):
                return conv(self.ev(inner, env), tu.vtype(inner), tu.vtype(n))
            if ck == 'NullToPointer':
                return lit(0, PTR)
            if ck == 'FunctionToPointerDecay':
                fn_ = strip(inner)
                nm_ = fn_.get('referencedDecl', {}).get('name') if fn_.get('kind') == 'DeclRefExpr' else None
                if nm_ is None:
                    raise Unsupported('function designator')
                # a function used as a value (handed to list_insert_sorted): an identity, like the tags of array objects
                v = 0x4000 + (sorted(self.tu.fns).index(nm_) if nm_ in self.tu.fns else 0xfff)
                self.tags[f'tag_fn_{nm_}'] = v
                return lit(v, PTR)
            if ck in ('IntegralToBoolean', 'PointerToBoolean'):
                it = tu.vtype(inner)
                return f'(if {self.ev(inner, env)} != {lit(0, it.w)} then {lit(1, tu.vtype(n).w)} else {lit(0, tu.vtype(n).w)})'
            if ck == 'ToVoid':
                if has_side_effect(inner):
                    self.ev(inner, env)
                return '()'
            raise Unsupported('cast ' + str(ck))
        if k == 'DeclRefExpr' and n.get('referencedDecl', {}).get('kind') == 'EnumConstantDecl':
            return lit(tu.enums[n['referencedDecl']['name']], tu.vtype(n).w)
        if k in ('DeclRefExpr', 'MemberExpr', 'ArraySubscriptExpr'):
            return self.read_lv(self.lvalue(n, env), env)
        if k == 'UnaryExprOrTypeTraitExpr':
            if n.get('name') != 'sizeof':
                raise Unsupported('type trait ' + str(n.get('name')))
            at = n.get('argType') or (n['inner'][0].get('type') if n.get('inner') else None)
            sz = tu.sizeof(at.get('desugaredQualType', at.get('qualType', ''))) if at else None
            if sz is None:
                raise Unsupported('sizeof of a type whose size the translator does not know')
            return lit(sz, tu.vtype(n).w)
        if k == 'UnaryOperator':
            op = n['opcode']
            a = n['inner'][0]
            t = tu.vtype(n) if op != '*' else None
            if op == '*':
                return self.read_lv(self.lvalue(n, env), env)
            if op == '~':
                return f'(~~~{self.ev(a, env)})'
            if op == '-':
                return f'(-{self.ev(a, env)})'
            if op == '+':
                return self.ev(a, env)
            if op == '!':
                at = tu.vtype(a)
                return f'(if {self.ev(a, env)} == {lit(0, at.w)} then {lit(1, t.w)} else {lit(0, t.w)})'
            if op == '&':
                a0 = strip(a)
                if a0.get('kind') == 'DeclRefExpr' and a0['referencedDecl']['name'] in self.local_records:
                    nm = a0['referencedDecl']['name']
                    v = 0x2000 + sorted(self.local_records).index(nm)
                    self.tags[f'tag_local_{nm}'] = v
                    return lit(v, PTR)
                try:
                    lv = self.lvalue(a, env)
                except Unsupported as e:
                    raise Unsupported('address-of outside the subset (' + str(e) + ')')
                if lv[0] in ('mem', 'agg'):
                    return lv[1]
                raise Unsupported('address-of outside the subset')
            if op in ('++', '--'):
                lv = self.lvalue(a, env)
                at = tu.vtype(a)
                old = self.read_lv(lv, env)
                if lv[0] == 'mem':
                    old = self.bind('old', old)
                sgn = '+' if op == '++' else '-'
                new = self.ptr_add(old, at, lit(1, 32), T(32, True), sgn) if at.ptr else f'({old} {sgn} {lit(1, at.w)})'
                newv = self.write_lv(lv, env, new)
                return old if n.get('isPostfix') else newv
            raise Unsupported('unary ' + op)
        if k == 'BinaryOperator':
            op = n['opcode']
            l, r = n['inner']
            if op in ('&&', '||') and has_side_effect(r) and not self.effect_free(r):
                if not self.effect_free(r, allow_externs=True) or self.loop_mode is not None:
                    raise Unsupported('side effect in the right operand of ' + op + ' (short-circuit evaluation)')
                # the right operand only calls the environment: evaluate it under the path condition C gives it, so that the
                # `called` flag of those calls is exact
                lt_, rt_, nt_ = tu.vtype(l), tu.vtype(r), tu.vtype(n)
                lb = self.bind('sc', f'(decide ({self.ev(l, env)} != {lit(0, lt_.w)}))')
                path = env.get('$path', 'true')
                cond = f'(!{lb})' if op == '||' else lb
                env['$path'] = cond if path == 'true' else f'({path} && {cond})'
                rb = self.bind('sc', f'(decide ({self.ev(r, env)} != {lit(0, rt_.w)}))')
                env['$path'] = path
                res = f'({lb} || {rb})' if op == '||' else f'({lb} && {rb})'
                return f'(if {res} then {lit(1, nt_.w)} else {lit(0, nt_.w)})'
            if op == ',':
                self.ev(l, env)
                return self.ev(r, env)
            if op == '=':
                rs_ = strip(r)
                if rs_.get('kind') == 'DeclRefExpr' and rs_['referencedDecl']['name'] in self.local_records:
                    lv = self.lvalue(l, env)
                    if lv[0] != 'agg':
                        raise Unsupported('structure assignment to something that is not in memory')
                    return self.copy_local_record(rs_['referencedDecl']['name'], lv[1], env)
                lv = self.lvalue(l, env)
                if lv[0] == 'mem':
                    lv = ('mem', self.bind('addr', lv[1]), lv[2], lv[3])
                v = self.ev(r, env)
                return self.write_lv(lv, env, v)
            return self.binop(env, op, self.ev(l, env), tu.vtype(l), self.ev(r, env), tu.vtype(r), tu.vtype(n))
        if k == 'CompoundAssignOperator':
            op = n['opcode'][:-1]
            l, r = n['inner']
            lt = tu.vtype(l)
            lv = self.lvalue(l, env)
            if lv[0] == 'mem':
                lv = ('mem', self.bind('addr', lv[1]), lv[2], lv[3])
            old = self.read_lv(lv, env)
            rv = self.ev(r, env)
            if lt.ptr:
                if op not in ('+', '-'):
                    raise Unsupported('compound pointer op')
                return self.write_lv(lv, env, self.ptr_add(old, lt, rv, tu.vtype(r), op))
            ct = tu.vtype_q(n['computeLHSType'].get('desugaredQualType', n['computeLHSType']['qualType']))
            rt = tu.vtype_q(n['computeResultType'].get('desugaredQualType', n['computeResultType']['qualType']))
            res = self.binop(env, op, conv(old, lt, ct), ct, rv, tu.vtype(r), rt)
            return self.write_lv(lv, env, conv(res, rt, lt))
        if k == 'ConditionalOperator':
            c, a, b = n['inner']
            if has_side_effect(a) or has_side_effect(b):
                raise Unsupported('side effect in an arm of ?: (would have to be conditional)')
            cw = tu.vtype(c).w
            return f'(if {self.ev(c, env)} != {lit(0, cw)} then {self.ev(a, env)} else {self.ev(b, env)})'
        if k == 'AtomicExpr':
            return self.atomic(n, env)
        if k == 'OffsetOfExpr':
            off = n.get('range', {}).get('begin', {}).get('offset')
            m = re.match(rb'__builtin_offsetof\s*\(\s*([A-Za-z_][A-Za-z_0-9 ]*?)\s*,\s*([A-Za-z_][A-Za-z_0-9]*)\s*\)', self.tu.text[off:off + 200]) if off is not None else None
            if not m:
                raise Unsupported('offsetof whose operands the translator cannot read')
            rn = tu.record_name(m.group(1).decode())
            if rn is None or m.group(2).decode() not in tu.layout(rn)[1]:
                raise Unsupported('offsetof of an unknown structure member')
            return lit(tu.layout(rn)[1][m.group(2).decode()][0], tu.vtype(n).w)
        if k == 'VAArgExpr':
            # the next variable argument is an input of the definition (`va_<k>`, numbered in execution order)
            self.nsite['va'] = self.nsite.get('va', 0) + 1
            t = tu.vtype(n)
            self.extra_params.append((f'va_{self.nsite["va"]}', t.w))
            return f'va_{self.nsite["va"]}'
        if k == 'CallExpr':
            return self.call(n, env)
        raise Unsupported('expr ' + k)

    def binop(self, env, op, a, ta, b, tb, tr):
        w = tr.w
        if op in ('+', '-') and (ta.ptr or tb.ptr):
            if ta.ptr and tb.ptr:
                if op != '-' or ta.esz is None:
                    raise Unsupported('pointer + pointer')
                d = f'({a} - {b})'
                if ta.esz != 1:
                    d = f'(BitVec.sdiv {d} {lit(ta.esz, PTR)})'
                return d
            if ta.ptr:
                return self.ptr_add(a, ta, b, tb, op)
            if op == '-':
                raise Unsupported('integer - pointer')
            return self.ptr_add(b, tb, a, ta, '+')
        if op in ('+', '-', '*', '&', '|', '^'):
            lop = {'&': '&&&', '|': '|||', '^': '^^^'}.get(op, op)
            return f'({a} {lop} {b})'
        if op in ('/', '%'):
            if ta != tb:
                raise Unsupported('division operand types differ')
            self.flag(env, '$ub', f'({b} == {lit(0, tb.w)})')
            if ta.s:
                self.flag(env, '$ub', f'({a} == {lit(1 << (ta.w - 1), ta.w)} && {b} == {lit(-1, tb.w)})')
                f = 'BitVec.sdiv' if op == '/' else 'BitVec.srem'
            else:
                f = 'BitVec.udiv' if op == '/' else 'BitVec.umod'
            return f'({f} {a} {b})'
        if op in ('<<', '>>'):
            m = re.fullmatch(r'(\d+)#\d+', b)
            if m:
                if int(m.group(1)) >= tr.w:
                    raise Unsupported('shift by a constant outside [0, width)')
                amt = f'{int(m.group(1))}'
            else:
                # run-time amount: undefined unless 0 <= b < width (b is unsigned after this test: a negative signed amount is >= width as unsigned)
                self.flag(env, '$ub', f'(BitVec.ule {lit(tr.w, tb.w)} {b})')
                if op == '<<':
                    return f'({a} <<< {b})'
                return f'(BitVec.sshiftRight\' {a} {b})' if ta.s else f'({a} >>> {b})'
            if op == '<<':
                return f'({a} <<< {amt})'
            return f'(BitVec.sshiftRight {a} {amt})' if ta.s else f'({a} >>> {amt})'
        if op in ('<', '>', '<=', '>=', '==', '!='):
            if ta != tb:
                raise Unsupported('comparison operand types differ')
            s = ta.s
            rel = {'<': ('BitVec.slt {a} {b}' if s else 'BitVec.ult {a} {b}'),
                   '>': ('BitVec.slt {b} {a}' if s else 'BitVec.ult {b} {a}'),
                   '<=': ('BitVec.sle {a} {b}' if s else 'BitVec.ule {a} {b}'),
                   '>=': ('BitVec.sle {b} {a}' if s else 'BitVec.ule {b} {a}'),
                   '==': '{a} == {b}', '!=': '{a} != {b}'}[op].format(a=a, b=b)
            return f'(if {rel} then {lit(1, w)} else {lit(0, w)})'
        if op in ('&&', '||'):
            za, zb = lit(0, ta.w), lit(0, tb.w)
            return f'(if ({a} != {za}) {op} ({b} != {zb}) then {lit(1, w)} else {lit(0, w)})'
        raise Unsupported('binop ' + op)

    # ---- atomics (sequential meaning) -----------------------------------------------------------------
    def builtin_at(self, n):
        off = n.get('range', {}).get('begin', {}).get('offset')
        if off is None:
            raise Unsupported('atomic expression without source offset')
        m = re.match(rb'[A-Za-z_][A-Za-z_0-9]*', self.tu.text[off:off + 80])
        if not m:
            raise Unsupported('no identifier at the offset of an atomic expression')
        name = m.group(0).decode()
        base = re.sub(r'^(__c11_atomic_|__atomic_|__opencl_atomic_)', '', name)
        if base not in ATOMIC_BASE:
            raise Unsupported('atomic builtin ' + name)
        return name, ATOMIC_BASE[base]

    def deref_arg(self, n, env):
        """lvalue designated by a pointer-valued argument (`&x`, `&p->f`, or a pointer expression)"""
        s = n
        while s.get('kind') in ('ParenExpr', 'ImplicitCastExpr', 'CStyleCastExpr') and s.get('castKind') not in ('LValueToRValue',) and s.get('inner'):
            s = s['inner'][0]
        if s.get('kind') == 'UnaryOperator' and s.get('opcode') == '&':
            return self.lvalue(s['inner'][0], env), self.tu.vtype(s['inner'][0])
        pt = self.tu.vtype(n)
        if not pt.ptr or pt.esz is None:
            raise Unsupported('atomic object argument')
        et = T(pt.esz * 8, False)
        return ('mem', self.bind('addr', self.ev(n, env)), et, pt), et

    def atomic(self, n, env):
        name, kind = self.builtin_at(n)
        inner = n['inner']
        obj, ot = self.deref_arg(inner[0], env)
        rt = self.tu.vtype(n) if n.get('type', {}).get('qualType') != 'void' else None
        if kind == 'load':
            return self.read_lv(obj, env)
        if kind == 'store':
            v = self.ev(inner[2], env)
            self.write_lv(obj, env, conv(v, self.tu.vtype(inner[2]), ot))
            return '()'
        if kind == 'xchg':
            old = self.bind('old', self.read_lv(obj, env))
            self.write_lv(obj, env, conv(self.ev(inner[2], env), self.tu.vtype(inner[2]), ot))
            return old
        if kind == 'cas':
            # clang: ptr, success order, expected, failure order, desired [, weak]
            exp, et = self.deref_arg(inner[2], env)
            des = self.bind('desired', conv(self.ev(inner[4], env), self.tu.vtype(inner[4]), ot))
            cur = self.bind('cur', self.read_lv(obj, env))
            e = self.bind('expected', self.read_lv(exp, env))
            ok = self.bind('cas_ok', f'({cur} == {e})')
            self.write_lv(obj, env, f'(if {ok} then {des} else {cur})')
            self.write_lv(exp, env, f'(if {ok} then {e} else {cur})')
            return f'(if {ok} then {lit(1, rt.w)} else {lit(0, rt.w)})'
        if isinstance(kind, tuple):
            which, lop = kind
            old = self.bind('old', self.read_lv(obj, env))
            v = conv(self.ev(inner[2], env), self.tu.vtype(inner[2]), ot)
            new = self.bind('new', f'({old} {lop} {v})')
            self.write_lv(obj, env, new)
            return old if which == 'fetch' else new
        raise Unsupported('atomic ' + name)

    # ---- calls ----------------------------------------------------------------------------------------
    def call(self, n, env):
        callee = strip(n['inner'][0])
        if callee.get('kind') != 'DeclRefExpr':
            if 'indirect_call' in self.externs and self.loop_mode is None:
                # a call through a function pointer read from memory (`kernel.current->fn(kernel.current)`): a call of the
                # environment named `indirect_call` whose first argument is the pointer called
                return self.extern_call('indirect_call', n, [n['inner'][0]] + n['inner'][1:], env)
            raise Unsupported('indirect call')
        fname = callee['referencedDecl']['name']
        args = n['inner'][1:]
        if callee['referencedDecl'].get('kind') == 'ParmVarDecl':
            real = self.fnalias_map.get(fname, fname)
            if real in self.fnptrs and real in self.pure_calls:
                return self.pure_call(real, n, args, env)
            if real in self.fnptrs:
                return self.extern_call(real, n, args, env)
            raise Unsupported('indirect call')
        if fname in ('atomic_signal_fence', 'atomic_thread_fence', '__atomic_signal_fence', '__atomic_thread_fence',
                     '__c11_atomic_signal_fence', '__c11_atomic_thread_fence'):
            return '()'                    # sequentially a fence does nothing
        if fname in self.externs:
            return self.extern_call(fname, n, args, env)
        if fname in ('memset', '__builtin_memset'):
            return self.memset(args, env)
        if fname in ('memcpy', '__builtin_memcpy'):
            self.uses_mem = True
            d, s, c = (self.ev(a, env) for a in args)
            cnt = conv(c, self.tu.vtype(args[2]), T(64, False))
            self.assign(env, '$mem', f'(Mem.copy {env["$mem"]} {d} {s} ({cnt}).toNat)')
            return d
        if fname in self.tu.fns:
            return self.inline_call(fname, self.tu.fns[fname], args, env)
        if fname not in self.done_fns:
            raise Unsupported('call to untranslated function ' + fname)
        sig = self.done_fns[fname]
        actual, outs = [], []
        for (pkind, pname, extra), a in zip(sig['params'], args):
            if pkind == 'scalar':
                actual.append(self.ev(a, env))
            elif pkind == 'record':
                s = strip(a)
                if s.get('kind') != 'DeclRefExpr' or not any(k.startswith(s['referencedDecl']['name'] + '->') for k in env):
                    raise Unsupported('structure argument that is not one of the caller\'s own structure parameters')
                cn = s['referencedDecl']['name']
                mine = [k for k in env if k.startswith(cn + '->')]
                if [k.split('->')[1] for k in mine] != extra:
                    raise Unsupported('structure argument of a different record type')
                actual += [env[k] for k in mine]
                outs += [(k, pname + '_' + k.split('->')[1]) for k in mine]
            else:
                raise Unsupported('argument kind ' + pkind)
        if sig['mem']:
            self.uses_mem = True
            actual.append(env['$mem'])
        r = self.bind('call_' + fname, f'({fname} ' + ' '.join(actual) + ')')
        for key, field in outs:
            self.assign(env, key, f'{r}.{field}')
        if sig['mem']:
            self.assign(env, '$mem', f'{r}.mem')
        self.flag(env, '$ub', f'{r}.ub')
        self.flag(env, '$exh', f'{r}.exh')
        return f'{r}.ret' if sig['ret'] else '()'

    def pure_call(self, fname, n, args, env):
        """a call of a function assumed pure (the comparator of list_insert_sorted): the function itself is a parameter
        `<name>_fn : BitVec .. → .. → BitVec ..` of the generated definition and the call is its application"""
        ats = [self.tu.vtype(a) for a in args]
        if n.get('type', {}).get('qualType') == 'void':
            raise Unsupported('pure call of a void function')
        rt = self.tu.vtype(n)
        ty = ' → '.join([f'BitVec {t.w}' for t in ats] + [f'BitVec {rt.w}'])
        pn = f'{fname}_fn'
        if self.pure_params.get(pn, ty) != ty:
            raise Unsupported('pure function called at two different types')
        self.pure_params[pn] = ty
        self.kt('%' + pn, ty)
        if '%' + pn not in env:
            if self.in_loop and self.recursive_loops:
                raise Unsupported('first call of a pure function inside a loop')     # (the loop definition would miss the parameter)
            env['%' + pn] = pn
        return self.bind(fname + '_val', f'({env["%" + pn]} ' + ' '.join(self.ev(a, env) for a in args) + ')')

    def extern_call(self, fname, n, args, env):
        """a call of a function outside the unit that the tie treats as the environment (clock, scheduler pass, sleep):
        the value it returns is an input of the generated definition (`<f>_ret_<k>`), the arguments it is given and whether
        the call is executed are results (`<f>_arg_<k>_<i>`, `<f>_called_<k>`); <k> numbers the call sites in execution order
        of the unrolled code"""
        if self.loop_mode is not None:
            return self.extern_call_in_loop(fname, n, args, env)
        self.nsite[fname] = self.nsite.get(fname, 0) + 1
        k = self.nsite[fname]
        widths = []
        for i, a in enumerate(args):
            t = self.tu.vtype(a)
            widths.append((t.w, t.s))
            self.extra_outs.append((f'{fname}_arg_{k}_{i}', f'BitVec {t.w}', self.bind(f'{fname}_arg', self.ev(a, env))))
        rq = n.get('type', {}).get('qualType')
        self.trace.append((fname, k, widths, None if rq == 'void' else (f'{fname}_ret_{k}', self.tu.vtype(n))))
        dd = self.dead(env)
        path = env.get('$path', 'true')
        live = path if dd == 'false' else (f'(!{dd})' if path == 'true' else f'({path} && !{dd})')
        self.extra_outs.append((f'{fname}_called_{k}', 'Bool', live if live == 'true' else self.bind(f'{fname}_called', live)))
        if n.get('type', {}).get('qualType') == 'void':
            return '()'
        rt = self.tu.vtype(n)
        self.extra_params.append((f'{fname}_ret_{k}', rt.w))
        return f'{fname}_ret_{k}'

    def extern_call_in_loop(self, fname, n, args, env):
        """a call of the environment inside a loop that is a recursive definition: the value returned is a function of the iteration
        number (`<f>_ret_L<loop>_<k> : Nat → BitVec w`, an input), the executed calls are appended, in order, to the list `loop_trace`
        the definition returns"""
        lm = self.loop_mode
        lm['n'][fname] = lm['n'].get(fname, 0) + 1
        k = lm['n'][fname]
        items = []
        for a in args:
            t = self.tu.vtype(a)
            v = self.bind(f'{fname}_arg', self.ev(a, env))
            items.append(f'(BitVec.signExtend 64 {v})' if t.s and t.w < 64 else f'(BitVec.setWidth 64 {v})')
        rq = n.get('type', {}).get('qualType')
        if rq == 'void':
            rv, ret = '0#64', '()'
        else:
            rt = self.tu.vtype(n)
            pn = f'{fname}_ret_L{lm["idx"]}_{k}'
            if (pn, f'Nat → BitVec {rt.w}') not in lm['rets']:
                lm['rets'].append((pn, f'Nat → BitVec {rt.w}'))
            ret = self.bind(f'{fname}_ret', f'({pn} {env["$iter"]})')
            rv = f'(BitVec.signExtend 64 {ret})' if rt.s and rt.w < 64 else f'(BitVec.setWidth 64 {ret})'
        dd = self.dead(env)
        path = env.get('$path', 'true')
        live = path if dd == 'false' else (f'(!{dd})' if path == 'true' else f'({path} && !{dd})')
        ev_ = f'({env["$trace"]} ++ [⟨"{fname}", [{", ".join(items)}], {rv}⟩])'
        env['$trace'] = self.bind('trace', ev_ if live == 'true' else f'(if {live} then {ev_} else {env["$trace"]})')
        return ret

    def effect_free(self, n, depth=0, allow_externs=False):
        """no store, no atomic operation, and every call is of a function assumed pure or of a unit function whose body is itself
        effect free (reads only): evaluating such an operand although C would have skipped it changes nothing"""
        if isinstance(n, list):
            return all(self.effect_free(v, depth, allow_externs) for v in n)
        if not isinstance(n, dict):
            return True
        k = n.get('kind')
        if k == 'BinaryOperator' and n.get('opcode') == '=':
            return False
        if k in ('CompoundAssignOperator', 'AtomicExpr', 'VAArgExpr'):
            return False
        if k == 'UnaryOperator' and n.get('opcode') in ('++', '--'):
            return False
        if k == 'CallExpr':
            c = strip(n['inner'][0])
            nm = c.get('referencedDecl', {}).get('name') if c.get('kind') == 'DeclRefExpr' else None
            real = self.fnalias_map.get(nm, nm)
            if real in self.pure_calls or (allow_externs and nm in self.externs):
                pass
            elif nm in self.tu.fns and depth < 4 and nm not in self.externs:
                body = [x for x in self.tu.fns[nm]['inner'] if x['kind'] == 'CompoundStmt']
                if not body or not self.effect_free(body[0], depth + 1, allow_externs):
                    return False
            else:
                return False
            return all(self.effect_free(a, depth, allow_externs) for a in n['inner'][1:])
        return all(self.effect_free(v, depth, allow_externs) for v in n.get('inner', []) if isinstance(v, (dict, list)))

    def body_calls_extern(self, n, seen=None):
        seen = seen if seen is not None else set()
        if isinstance(n, dict):
            if n.get('kind') == 'CallExpr':
                c = strip(n['inner'][0])
                nm = c.get('referencedDecl', {}).get('name') if c.get('kind') == 'DeclRefExpr' else None
                if nm in self.externs:
                    return True
                if nm in self.tu.fns and nm not in seen:
                    seen.add(nm)
                    if self.body_calls_extern(self.tu.fns[nm], seen):
                        return True
            return any(self.body_calls_extern(v, seen) for v in n.values())
        if isinstance(n, list):
            return any(self.body_calls_extern(v, seen) for v in n)
        return False

    def inline_call(self, fname, fdecl, args, env):
        """a call of a function defined in the unit: its body is translated in place (same let chain, same flags)"""
        self.depth = getattr(self, 'depth', 0) + 1
        if self.depth > 6 or fname in getattr(self, 'stack', ()):
            raise Unsupported('recursive or too deeply nested call of ' + fname)
        if fdecl.get('variadic'):
            raise Unsupported('variadic function ' + fname)
        params = [c for c in fdecl['inner'] if c['kind'] == 'ParmVarDecl']
        if len(params) != len(args):
            raise Unsupported('argument count of ' + fname)
        binds, back, records, outs_alias, fnalias = [], [], [], [], []
        for p, a in zip(params, args):
            q = p['type'].get('desugaredQualType', p['type']['qualType'])
            rec = self.tu.record_of(q)
            if '__va_list_tag' in q:
                continue                   # the variable-argument cursor: `va_arg` reads the next input whatever it is called
            if rec is not None:
                sa = strip(a)
                cn = sa.get('referencedDecl', {}).get('name') if sa.get('kind') == 'DeclRefExpr' else None
                mine = [k for k in env if cn and k.startswith(cn + '->')]
                if not mine or [k.split('->')[1] for k in mine] != [f for f, _ in rec[0]]:
                    raise Unsupported('structure argument of ' + fname + ' that is not one of the caller\'s own structure parameters of that type')
                records.append((p, q, rec, cn))
            else:
                sa = a
                while sa.get('kind') in ('ParenExpr', 'ImplicitCastExpr', 'CStyleCastExpr') and sa.get('inner'):
                    sa = sa['inner'][0]
                tgt = strip(sa['inner'][0]) if sa.get('kind') == 'UnaryOperator' and sa.get('opcode') == '&' and sa.get('inner') else None
                if tgt is not None and tgt.get('kind') == 'DeclRefExpr' and tgt['referencedDecl']['name'] in env \
                        and tgt['referencedDecl']['name'] not in self.local_records:
                    # `&x` of a caller's scalar / pointer variable handed to an out-parameter: the callee's `*param` IS that variable
                    outs_alias.append((p['name'], tgt['referencedDecl']['name']))
                elif self.tu.is_fnptr(q):
                    sa2 = strip(a)
                    nm2 = sa2.get('referencedDecl', {}).get('name')
                    if sa2.get('kind') != 'DeclRefExpr' or nm2 not in self.fnptrs:
                        raise Unsupported('function pointer argument of ' + fname + ' that is not a function pointer parameter of the caller')
                    fnalias.append((p['name'], nm2))
                else:
                    binds.append((p, self.bind(p['name'], conv(self.ev(a, env), self.tu.vtype(a), self.tu.vtype(p)))))
        dd = self.dead(env)
        cenv = {'$done': dd if dd in ('false', 'true') else self.bind('skip', dd), '$ret': None, '$exit': 'false',
                '$ub': env['$ub'], '$exh': env['$exh'], '$mem': env['$mem'], '$path': env.get('$path', 'true')}
        for gk in [k_ for k_ in env if k_.startswith('@') or k_.startswith('%')]:
            cenv[gk] = env[gk]
        saved = (self.ftype, self.ptype, self.partial, self.in_loop, getattr(self, 'stack', ()))
        saved_ktype = self.ktype
        self.ktype = dict(self.ktype)
        rq_ = fdecl['type']['qualType'].split('(')[0].strip()
        self.ret_types.append(None if self.tu.resolve(rq_) == 'void' else self.tu.vtype_q(rq_))
        self.ftype, self.ptype, self.partial, self.in_loop = dict(self.ftype), dict(self.ptype), dict(self.partial), 0
        self.stack = saved[4] + (fname,)
        saved_alias = dict(self.fnalias_map)
        for pn_, nm_ in fnalias:
            self.fnalias_map[pn_] = saved_alias.get(nm_, nm_)
        for p, v in binds:
            cenv[p['name']] = v
            self.ptype[p['name']] = p['type'].get('desugaredQualType', p['type']['qualType'])
            try:
                self.kt(p['name'], self.tu.vtype(p))
            except Unsupported:
                pass
        for pn, cv in outs_alias:
            cenv['*' + pn] = env[cv]
            if saved_ktype.get(cv):
                self.ktype['*' + pn] = saved_ktype[cv]
            back.append((cv, '*' + pn))
        for p, q, rec, cn in records:
            self.ptype[p['name']] = q
            self.partial[p['name']] = rec[1]
            for f, ft in rec[0]:
                cenv[f'{p["name"]}->{f}'] = env[f'{cn}->{f}']
                self.ftype[f'{p["name"]}->{f}'] = ft
                back.append((f'{cn}->{f}', f'{p["name"]}->{f}'))
        body = [c for c in fdecl['inner'] if c['kind'] == 'CompoundStmt'][0]
        self.ex(body, cenv)
        self.ftype, self.ptype, self.partial, self.in_loop, self.stack = saved
        self.ktype = saved_ktype
        self.ret_types.pop()
        self.fnalias_map = saved_alias
        self.depth -= 1
        for ck, pk in back:
            env[ck] = cenv[pk]
        for gk in [k_ for k_ in cenv if k_.startswith('@') or k_.startswith('%')]:
            env[gk] = cenv[gk]
        env['$mem'], env['$ub'], env['$exh'] = cenv['$mem'], cenv['$ub'], cenv['$exh']
        return cenv['$ret'] if cenv['$ret'] is not None else '()'

    def memset(self, args, env):
        d, v, c = args
        ds, cs = strip(d), strip(c)
        if ds.get('kind') == 'DeclRefExpr' and any(k.startswith(ds['referencedDecl']['name'] + '->') for k in env):
            nm = ds['referencedDecl']['name']
            ok = False
            if cs.get('kind') == 'UnaryExprOrTypeTraitExpr' and cs.get('name') == 'sizeof':
                at = cs.get('argType')
                if at:
                    q = at.get('desugaredQualType', at.get('qualType', ''))
                    ok = self.tu.record_of(self.ptype[nm]) is not None and self.tu.record_of(q + ' *') is self.tu.record_of(self.ptype[nm])
                else:
                    a = strip(cs['inner'][0])
                    ok = a.get('kind') == 'UnaryOperator' and a.get('opcode') == '*' and strip(a['inner'][0]).get('referencedDecl', {}).get('name') == nm
            vs = strip(v)
            if not ok or vs.get('kind') != 'IntegerLiteral' or int(vs['value']) != 0:
                raise Unsupported('memset of a structure parameter that is not memset(p, 0, sizeof(*p))')
            if self.partial[nm]:
                if not all(m_ in self.allfields.get(nm, []) for m_ in self.partial[nm]):
                    raise Unsupported('memset of a structure with members outside the translated state: ' + ', '.join(self.partial[nm]))
                # array members: their zeroing is recorded as an event (`zeroed_<param>_<k>`) for the tie to use
                self.nsite['zeroed_' + nm] = self.nsite.get('zeroed_' + nm, 0) + 1
                dd = self.dead(env); path = env.get('$path', 'true')
                live = path if dd == 'false' else (f'(!{dd})' if path == 'true' else f'({path} && !{dd})')
                self.extra_outs.append((f'zeroed_{nm}_called_{self.nsite["zeroed_" + nm]}', 'Bool', live if live == 'true' else self.bind('zeroed', live)))
                self.trace.append((f'zeroed_{nm}', self.nsite['zeroed_' + nm], [], None))
            for key in [k for k in env if k.startswith(nm + '->')]:
                self.assign(env, key, lit(0, self.ftype[key].w))
            return env.get(nm, '()')
        self.uses_mem = True
        dv = self.ev(d, env)
        byte = conv(self.ev(v, env), self.tu.vtype(v), T(8, False))
        cnt = conv(self.ev(c, env), self.tu.vtype(c), T(64, False))
        self.assign(env, '$mem', f'(Mem.fill {env["$mem"]} {dv} {byte} ({cnt}).toNat)')
        return dv

    # ---- statements -----------------------------------------------------------------------------------
    def merge(self, env, cond, et, ee):
        for key in list(env):
            if key in ('$ret',):
                continue
            a, b = et.get(key), ee.get(key)
            if UNINIT in (a, b):
                env[key] = UNINIT if a != b or a == UNINIT else a
                continue
            if a != b:
                env[key] = self.bind(key.replace('->', '_').replace('*', 'deref_').replace('$', ''), f'(if {cond} then {a} else {b})')
            else:
                env[key] = a
        a, b = et['$ret'], ee['$ret']
        if a is None or b is None:
            env['$ret'] = a if b is None else b
        elif a != b:
            env['$ret'] = self.bind('ret', f'(if {cond} then {a} else {b})')
        else:
            env['$ret'] = a

    def cond_bool(self, c, env):
        return f'(decide ({self.ev(c, env)} != {lit(0, self.tu.vtype(c).w)}))'

    def loop(self, n, env):
        if self.recursive_loops:
            snap = (list(self.lets), self.n, dict(self.nsite), list(self.extra_params), list(self.extra_outs), list(self.trace),
                    dict(self.tags), self.uses_mem, dict(env), self.in_loop, list(self.aux_defs), self.nloops, dict(self.ktype))
            try:
                return self.loop_rec(n, env)
            except Unsupported as e:
                # not expressible as a recursive definition (calls of the environment inside the loop, untyped state): unroll it
                (self.lets, self.n, self.nsite, self.extra_params, self.extra_outs, self.trace, self.tags, self.uses_mem, env0,
                 self.in_loop, self.aux_defs, self.nloops, self.ktype) = snap
                env.clear(); env.update(env0)
        return self.loop_unrolled(n, env)

    @staticmethod
    def san(key):
        return re.sub(r'[^A-Za-z0-9_]', '_', key.replace('->', '_').replace('@&', 'addr_').replace('@', 'g_').replace('*', 'deref_').replace('$', '').replace('%', 'fn_'))

    def loop_rec(self, n, env):
        """a loop as a recursive definition `<fn>.loop<k>` with a fuel argument: its parameters are the values of the variables the loop
        reads (read-only) and of those it assigns (state); one unfolding is one evaluation of the condition, the body and the increment"""
        k = n['kind']
        inner = n['inner']
        if k == 'ForStmt':
            init, _, cond, inc, body = inner
            if init and init.get('kind'):
                self.ex(init, env)
        elif k == 'WhileStmt':
            cond, body, inc = inner[0], inner[1], None
        else:
            raise Unsupported('do-while as a recursive loop')
        fname = self.decl['name']
        sites0 = (dict(self.nsite), len(self.extra_params), len(self.extra_outs), len(self.trace))
        with_env_calls = self.body_calls_extern([cond, body, inc])
        if with_env_calls:
            if self.loop_mode is not None:
                raise Unsupported('calls of the environment in nested recursive loops')
            if self.trace:
                raise Unsupported('calls of the environment both before and inside a recursive loop')
            env.setdefault('$trace', '[]')
            env['$iter'] = '0'

        def one_iteration(e):
            if cond and cond.get('kind'):
                c = self.cond_bool(cond, e)
                e['$exit'] = self.bind('exit', f'(!{c})')
            self.in_loop += 1
            self.ex(body, e)
            if inc and inc.get('kind'):
                self.ev(inc, e)
            self.in_loop -= 1
            if with_env_calls:
                e['$iter'] = f'({e["$iter"]} + 1)'

        # pass 1: which variables does one iteration assign?
        keys = [k_ for k_ in env if env[k_] not in (UNINIT, None) or k_ == '$ret']
        snap = (list(self.lets), self.n, dict(self.ktype), list(self.aux_defs), self.nloops)
        e1 = dict(env); e1['$exit'] = 'false'; e1['$done'] = 'false' if env['$done'] == 'false' else env['$done']
        if with_env_calls:
            self.loop_mode = {'idx': self.nloops + 1, 'n': {}, 'rets': []}
        try:
            one_iteration(e1)
        finally:
            self.loop_mode = None
        if (dict(self.nsite), len(self.extra_params), len(self.extra_outs), len(self.trace)) != sites0:
            raise Unsupported('va_arg inside a loop')
        # `$ub` is always part of the loop state: whether an iteration can raise it depends on incidental details (`% 256` vs `& 255`),
        # and the interface of the loop definition should not
        state = [k_ for k_ in keys if k_ not in ('$exit', '$path') and (e1.get(k_) != env.get(k_) or k_ == '$ub')]
        self.lets, self.n, self.ktype, self.aux_defs, self.nloops = snap
        # pass 2: the iteration over parameter names
        self.nloops += 1
        lname = f'{fname}.loop{self.nloops}'
        pname = {k_: ('s_' if k_ in state else 'r_') + self.san(k_) for k_ in keys}
        e2 = dict(env)
        for k_ in keys:
            if k_ in ('$exit', '$path', '$done'):
                continue
            if k_ == '$ret' and env['$ret'] is None and '$ret' not in state:
                continue
            e2[k_] = pname[k_]
        e2['$exit'] = 'false'; e2['$done'] = 'false'; e2['$path'] = 'true'
        outer_lets, outer_n = self.lets, self.n
        self.lets, self.n = [], 0            # names inside the loop definition are local to it
        lm = {'idx': self.nloops, 'n': {}, 'rets': []} if with_env_calls else None
        self.loop_mode = lm
        try:
            one_iteration(e2)
        finally:
            self.loop_mode = None
        body_lets = self.lets
        self.lets, self.n = outer_lets, outer_n
        ret_fns = lm['rets'] if lm else []
        text = ' '.join(e for _, e in body_lets) + ' ' + ' '.join(str(e2[k_]) for k_ in state) + f' {e2["$done"]} {e2["$exit"]}'
        toks = set(re.findall(r"[A-Za-z_][A-Za-z0-9_']*", text))
        ro = [k_ for k_ in keys if k_ not in state and k_ not in ('$exit', '$path', '$done') and pname[k_] in toks]
        types = {}
        for k_ in ro + state:
            t = self.key_type(k_)
            if t is None:
                raise Unsupported('loop state of unknown type: ' + k_)
            types[k_] = t
        if '$done' in state:
            pass
        flds = [(self.san(k_), types[k_]) for k_ in state]
        out = [f'/-- state after the loop {self.nloops} of `{fname}` -/', f'structure {lname}.St where']
        out += [f'  {f} : {t}' for f, t in flds] + ['  exh : Bool', '']
        ropar = ' '.join([f'({n_} : {t_})' for n_, t_ in ret_fns] + [f'({pname[k_]} : {types[k_]})' for k_ in ro])
        stpar = ' '.join(f'({pname[k_]} : {types[k_]})' for k_ in state)
        allpar_names = [n_ for n_, _ in ret_fns] + [pname[k_] for k_ in ro]
        stop = self.dead(e2)
        res = '{ ' + ', '.join([f'{self.san(k_)} := {e2[k_]}' for k_ in state] + ['exh := false']) + ' }'
        out += [f'/-- one iteration of loop {self.nloops} of `{fname}` (condition, body, increment): the state after it and whether the loop ends -/',
                f'def {lname}.step {ropar} {stpar} : {lname}.St × Bool :=']
        for n_, e in body_lets:
            out.append(f'  let {n_} := {e}')
        out.append(f'  ({res}, {stop})')
        out.append('')
        out += [f'/-- loop {self.nloops} of `{fname}`: `fuel` bounds the number of iterations (`exh` when it runs out) -/',
                f'def {lname} {ropar} (fuel : Nat) {stpar} : {lname}.St :=', '  match fuel with',
                '  | 0 => { ' + ', '.join([f'{self.san(k_)} := {pname[k_]}' for k_ in state] + ['exh := true']) + ' }',
                '  | fuel + 1 =>',
                f'    let r := {lname}.step ' + ' '.join(allpar_names + [pname[k_] for k_ in state]),
                f'    if r.2 then r.1 else {lname} ' + ' '.join(allpar_names) + ' fuel ' + ' '.join(f'r.1.{self.san(k_)}' for k_ in state)]
        out.append('')
        # the same loop inlined into another function of the unit (list_remove inlines list_contains) reuses the first definition
        body_key = '\n'.join(l_ for l_ in out if not l_.startswith('/--')).replace(lname, '<L>')
        cache = self.tu.__dict__.setdefault('loop_cache', {})
        if body_key in cache:
            lname = cache[body_key]
            self.nloops -= 1
        else:
            cache[body_key] = lname
            self.aux_defs.append('\n'.join(out))
        # the call
        self.uses_fuel = True
        init_ret = env['$ret'] if env['$ret'] is not None else (lit(0, self.ret_types[-1].w) if self.ret_types and self.ret_types[-1] is not None else None)
        args = [n_ for n_, _ in ret_fns]
        for n_, t_ in ret_fns:
            if (n_, t_) not in self.extra_params:
                self.extra_params.append((n_, t_))
        for k_ in ro:
            args.append(str(env[k_]))
        sargs = []
        for k_ in state:
            sargs.append(str(init_ret) if k_ == '$ret' else str(env[k_]))
        r = self.bind('loop', f'({lname} ' + ' '.join(args + ['fuel'] + sargs) + ')')
        dd = self.dead(env)
        for k_ in state:
            v = f'{r}.{self.san(k_)}'
            if dd != 'false' and env.get(k_) not in (UNINIT, None):
                v = f'(if {dd} then {env[k_]} else {v})'
            env[k_] = v if k_ not in ('$mem',) else self.bind('mem', v)
        if '$mem' in state:
            self.uses_mem = True
        env.pop('$iter', None)
        self.flag(env, '$exh', f'{r}.exh')

    def loop_unrolled(self, n, env):
        k = n['kind']
        inner = n['inner']
        if k == 'ForStmt':
            init, _, cond, inc, body = inner          # clang: init, condition variable, cond, inc, body
            if init and init.get('kind'):
                self.ex(init, env)
        elif k == 'WhileStmt':
            cond, body, inc = inner[0], inner[1], None
        else:
            body, cond, inc = inner[0], inner[1], None
        outer = env['$exit']
        self.in_loop += 1
        for _ in range(self.fuel):
            if k != 'DoStmt' and cond and cond.get('kind'):
                c = self.cond_bool(cond, env)
                env['$exit'] = self.bind('exit', f'(!{c})' if env['$exit'] == 'false' else f'({env["$exit"]} || !{c})')
            self.ex(body, env)
            if inc and inc.get('kind'):
                self.ev(inc, env)
            if k == 'DoStmt':
                c = self.cond_bool(cond, env)
                env['$exit'] = self.bind('exit', f'(!{c})' if env['$exit'] == 'false' else f'({env["$exit"]} || !{c})')
        # would the loop go round again?
        if k != 'DoStmt' and cond and cond.get('kind'):
            e2 = dict(env)
            c = self.cond_bool(cond, e2)     # side effects of this extra evaluation are discarded (exh is set whenever they would matter)
            self.flag(env, '$exh', c)
        else:
            self.flag(env, '$exh', 'true')
        self.in_loop -= 1
        env['$exit'] = outer

    def switch(self, n, env):
        """`switch` whose `break`s are top-level statements of the body (fall-through allowed), as in c2lean.py"""
        import c2lean
        d, body = n['inner'][0], n['inner'][-1]
        dv = self.bind('sw', self.ev(d, env))
        dw = self.tu.vtype(d).w
        segs = []
        def add(stmt, labels):
            if stmt['kind'] == 'CaseStmt':
                add(stmt['inner'][-1], labels + [lit(c2lean.const_eval(stmt['inner'][0]), dw)])
            elif stmt['kind'] == 'DefaultStmt':
                add(stmt['inner'][-1], labels + ['default'])
            else:
                if labels or not segs:
                    segs.append((labels, []))
                segs[-1][1].append(stmt)
        for st in body.get('inner', []):
            add(st, [])
        paths = []
        for i, (labels, _) in enumerate(segs):
            if not labels:
                continue
            stmts = []
            for _, ss in segs[i:]:
                brk = False
                for st in ss:
                    if st['kind'] == 'BreakStmt':
                        brk = True
                        break
                    stmts.append(st)
                if brk:
                    break
            paths.append((labels, stmts))
        saved_loop = self.in_loop
        self.in_loop = 0                     # a `break` nested deeper inside the switch body is outside the subset
        path = env.get('$path', 'true')
        # evaluate the paths in source order so that the call-site numbering of external calls is deterministic
        done = []
        for labels, stmts in paths:
            e2 = dict(env)
            if 'default' in labels:
                others = [l for (ls, _) in paths for l in ls if l != 'default']
                cond = self.bind('c', '(' + ' && '.join(f'{dv} != {l}' for l in others) + ')') if others else 'true'
            else:
                cond = self.bind('c', '(' + ' || '.join(f'{dv} == {l}' for l in labels) + ')')
            e2['$path'] = cond if path == 'true' else f'({path} && {cond})'
            for st in stmts:
                self.ex(st, e2)
            e2['$path'] = path
            done.append((cond, e2))
        self.in_loop = saved_loop
        result = dict(env)                   # no label matched and no default
        for cond, e2 in reversed(done):
            merged = dict(env)
            self.merge(merged, cond, e2, result)
            result = merged
        for key in list(result):
            env[key] = result[key]

    def ex(self, n, env):
        k = n['kind']
        if k == 'CompoundStmt':
            for c in n.get('inner', []):
                self.ex(c, env)
        elif k == 'DeclStmt':
            for d in n['inner']:
                if d.get('kind') != 'VarDecl':
                    raise Unsupported('declaration ' + str(d.get('kind')))
                tbl = self.tu.const_table(d)
                if tbl is not None:
                    self.tables[d['name']] = tbl
                    continue
                if d.get('storageClass') in ('static', 'extern'):
                    raise Unsupported('static/extern local ' + d['name'] + ' (state that persists between calls)')
                if d['name'] in env and self.in_loop == 0:
                    raise Unsupported('declaration of ' + d['name'] + ' shadows another variable')
                dq = d['type'].get('desugaredQualType', d['type'].get('qualType', ''))
                if self.tu.record_of(dq + ' *') is not None:
                    # an aggregate local: only its address may be used (handed to external functions)
                    self.local_records[d['name']] = dq
                    continue
                if self.tu.record_name(dq) is not None and self.tu.record_name(dq) in self.tu.inmem:
                    # an aggregate local of a structure kept in memory: its (stack) address is an input of the definition
                    if [c for c in d.get('inner', []) if not c['kind'].endswith('Comment')]:
                        raise Unsupported('initialised aggregate local ' + d['name'])
                    key = '@&' + d['name']
                    if key not in env:
                        pn = f'{d["name"]}_addr'
                        k_ = 1
                        while any(pn == x for x, _ in self.extra_params):
                            k_ += 1
                            pn = f'{d["name"]}_addr{k_}'
                        self.extra_params.append((pn, PTR))
                        env[key] = pn
                        self.aggtypes[d['name']] = dq
                    continue
                self.kt(d['name'], self.tu.vtype(d))
                init = [c for c in d.get('inner', []) if not c['kind'].endswith('Comment')]
                if init:
                    env[d['name']] = UNINIT
                    v = self.ev(init[0], env)           # a self-reference in the initialiser reads UNINIT and raises
                    env[d['name']] = self.bind(d['name'], v)
                else:
                    env[d['name']] = UNINIT
        elif k == 'IfStmt':
            parts = n['inner']
            cond = self.bind('c', self.cond_bool(parts[0], env))
            et, ee = dict(env), dict(env)
            path = env.get('$path', 'true')
            et['$path'] = cond if path == 'true' else f'({path} && {cond})'
            ee['$path'] = f'(!{cond})' if path == 'true' else f'({path} && !{cond})'
            self.ex(parts[1], et)
            if len(parts) > 2:
                self.ex(parts[2], ee)
            et['$path'] = ee['$path'] = path
            self.merge(env, cond, et, ee)
        elif k == 'ReturnStmt':
            inner = n.get('inner', [])
            dd = self.dead(env)
            if inner:
                v = self.ev(inner[0], env)
                dd = self.dead(env)
                if dd != 'false' and env['$ret'] is not None:
                    v = f'(if {dd} then {env["$ret"]} else {v})'
                env['$ret'] = self.bind('ret', v)
            if env['$exit'] == 'false':
                env['$done'] = 'true'
            else:
                env['$done'] = self.bind('done', f'({env["$done"]} || !{env["$exit"]})')
        elif k in ('WhileStmt', 'DoStmt', 'ForStmt'):
            self.loop(n, env)
        elif k == 'BreakStmt':
            if self.in_loop == 0:
                raise Unsupported('break outside a loop')
            env['$exit'] = 'true'
        elif k == 'NullStmt':
            pass
        elif k == 'SwitchStmt':
            self.switch(n, env)
        elif k in ('GotoStmt', 'ContinueStmt', 'LabelStmt'):
            raise Unsupported('statement ' + k)
        else:
            self.ev(n, env)

    def referenced_globals(self, d):
        """file-scope objects named in the body of `d` or of a unit function it calls (transitively), in order of first mention"""
        seen, order, fns = set(), [], set()
        def walk(n):
            if isinstance(n, dict):
                if n.get('kind') == 'DeclRefExpr':
                    rd = n.get('referencedDecl', {})
                    nm = rd.get('name')
                    if rd.get('kind') == 'VarDecl' and nm in self.tu.globals and nm not in seen and nm not in self.tu.tables:
                        if not self.is_local_name(nm, d):
                            seen.add(nm); order.append(nm)
                    if rd.get('kind') == 'FunctionDecl' and nm in self.tu.fns and nm not in fns and nm not in self.externs:
                        fns.add(nm)
                        walk(self.tu.fns[nm])
                for v in n.values():
                    walk(v)
            elif isinstance(n, list):
                for v in n:
                    walk(v)
        walk(d)
        return order

    def is_local_name(self, nm, d):
        return False

    def translate(self):
        d = self.decl
        tu = self.tu
        name = d['name']
        params, env, outs = [], {'$done': 'false', '$ret': None, '$exit': 'false', '$ub': 'false', '$exh': 'false', '$mem': 'mem', '$path': 'true'}, []
        self.ftype, self.ptype, self.partial, self.in_loop = {}, {}, {}, 0
        sig = {'params': [], 'mem': False, 'ret': False}
        if d.get('variadic'):
            raise Unsupported('variadic function')
        self.gstructs = set()
        for g in self.referenced_globals(d):
            gq = tu.globals[g]
            rn = tu.record_name(gq)
            if rn is not None and rn not in tu.inmem:
                # file-scope structure: integer / pointer members are variables (in and out), aggregate members live in memory at an
                # address that is a parameter
                self.gstructs.add(g)
                for f, (off, fq) in tu.layout(rn)[1].items():
                    if self.is_aggregate(fq):
                        params.append((f'{g}_{f}', PTR))
                        env[f'@&{g}.{f}'] = f'{g}_{f}'
                    else:
                        ft = tu.vtype_q(fq)
                        params.append((f'{g}_{f}', ft.w))
                        env[f'@{g}.{f}'] = f'{g}_{f}'
                        self.kt(f'@{g}.{f}', ft)
                        outs.append((f'@{g}.{f}', f'{g}_{f}', ft.w))
            elif self.is_aggregate(gq):
                params.append((g, PTR))
                env['@&' + g] = g
            else:
                gt = tu.vtype_q(gq)
                params.append((g, gt.w))
                env['@' + g] = g
                self.kt('@' + g, gt)
                outs.append(('@' + g, g, gt.w))
        for p in [c for c in d['inner'] if c['kind'] == 'ParmVarDecl']:
            q = p['type'].get('desugaredQualType', p['type']['qualType'])
            if '__va_list_tag' in q:
                continue
            self.ptype[p['name']] = q
            if tu.is_fnptr(q):
                # a function pointer: an opaque 64-bit value; a call through it is a call of the environment named after the parameter
                params.append((p['name'], PTR))
                env[p['name']] = p['name']
                self.kt(p['name'], f'BitVec {PTR}')
                self.fnptrs.add(p['name'])
                sig['params'].append(('scalar', p['name'], None))
                continue
            rec = tu.record_of(q)
            pt = tu.vtype(p)
            if rec is not None:
                fields, missing = rec
                self.partial[p['name']] = missing
                self.allfields[p['name']] = self.tu.field_order.get(id(rec), [f for f, _ in fields])
                for f, ft in fields:
                    params.append((f'{p["name"]}_{f}', ft.w))
                    env[f'{p["name"]}->{f}'] = f'{p["name"]}_{f}'
                    self.ftype[f'{p["name"]}->{f}'] = ft
                    outs.append((f'{p["name"]}->{f}', f'{p["name"]}_{f}', ft.w))
                # the pointer itself may be passed on or compared; it has no numeric value here
                sig['params'].append(('record', p['name'], [f for f, _ in fields]))
            elif pt.ptr and pt.esz in (2, 4, 8) and not tu.resolve(q[:-1].strip() if q.strip().endswith('*') else q).endswith('*') \
                    and tu.resolve(q.strip()[:-1].strip()) in INT_TYPES:
                # pointer to one integer object (`uint32_t *seedp`): the object is a parameter and a result (`deref_<p>`), as in c2lean.py
                w = pt.esz * 8
                params.append((f'{p["name"]}_in', w))
                env['*' + p['name']] = f'{p["name"]}_in'
                self.kt('*' + p['name'], f'BitVec {w}')
                outs.append(('*' + p['name'], f'deref_{p["name"]}', w))
                sig['params'].append(('scalar', p['name'], None))
            else:
                params.append((p['name'], pt.w))
                env[p['name']] = p['name']
                self.kt(p['name'], pt)
                sig['params'].append(('scalar', p['name'], None))
        body = [c for c in d['inner'] if c['kind'] == 'CompoundStmt'][0]
        rq = d['type']['qualType'].split('(')[0].strip()
        rett = None if tu.resolve(rq) == 'void' else tu.vtype_q(rq)
        self.ret_types.append(rett)
        self.ex(body, env)
        sig['mem'], sig['ret'] = self.uses_mem, rett is not None
        fields = []
        if rett is not None:
            if env['$ret'] is None:
                raise Unsupported('non-void function without a return value')
            fields.append(('ret', f'BitVec {rett.w}', env['$ret']))
        for key, fname, w in outs:
            fields.append((fname, f'BitVec {w}', env[key]))
        fields += self.extra_outs
        if env.get('$trace') is not None:
            fields.append(('loop_trace', 'List ExtCall', env['$trace']))
        params += self.extra_params
        if self.uses_mem:
            fields.append(('mem', 'Mem', env['$mem']))
        fields.append(('ub', 'Bool', env['$ub']))
        fields.append(('exh', 'Bool', env['$exh']))
        out = []
        for tn, tv in sorted(self.tags.items(), key=lambda kv: kv[1]):
            out.append(f'/-- identity of an array object / aggregate local used as a pointer in `{name}` -/\ndef {name}.{tn} : BitVec 64 := {lit(tv, PTR)}')
        out += [f'/-- result of the generated `{name}` -/', f'structure {name}.Out where']
        out += [f'  {f} : {t}' for f, t, _ in fields]
        out.append('')
        sigtxt = ('(fuel : Nat) ' if self.uses_fuel else '') + ''.join(f'({n_} : {t_}) ' for n_, t_ in sorted(self.pure_params.items())) \
            + ' '.join((f'({n_} : {w})' if isinstance(w, str) else f'({n_} : BitVec {w})') for n_, w in params) + (' (mem : Mem)' if self.uses_mem else '')
        out = self.aux_defs + out
        out += [f'/-- generated from `{name}` (sequential meaning; loops ' + ('are recursive definitions with a fuel argument' if self.uses_fuel else f'unrolled {self.fuel}×') + ') -/', f'def {name} {sigtxt} : {name}.Out :=']
        for n_, e in self.lets:
            out.append(f'  let {n_} := {e}')
        out.append('  { ' + ', '.join(f'{f} := {v}' for f, _, v in fields) + ' }')
        if self.trace:
            out.append('')
            out.append(f'/-- the external calls `{name}` executes, in order, with their arguments and the value each returned (zero- or sign-extended to 64 bits; 0 for a `void` call) -/')
            rparams = ' '.join((f'({n_} : {w})' if isinstance(w, str) else f'({n_} : BitVec {w})') for n_, w in self.extra_params)
            out.append(f'def {name}.trace (o : {name}.Out) {rparams} : List ExtCall :=')
            parts = []
            for fn_, k_, widths, ret_ in self.trace:
                args = ', '.join((f'(BitVec.signExtend 64 o.{fn_}_arg_{k_}_{i})' if sg and w < 64 else f'(BitVec.setWidth 64 o.{fn_}_arg_{k_}_{i})') for i, (w, sg) in enumerate(widths))
                rv = '0#64' if ret_ is None else (f'(BitVec.signExtend 64 {ret_[0]})' if ret_[1].s and ret_[1].w < 64 else f'(BitVec.setWidth 64 {ret_[0]})')
                parts.append(f'  (if o.{fn_}_called_{k_} then [⟨"{fn_}", [{args}], {rv}⟩] else [])')
            out.append(' ++\n'.join(parts))
        return '\n'.join(out), sig


def load(path, extra):
    tu = TU()
    with tempfile.TemporaryDirectory(prefix='librfn-c2l-') as tmp:
        pre = os.path.join(tmp, 'unit.c')
        p = subprocess.run(['clang', '-E', '-P'] + list(extra) + [path, '-o', pre], capture_output=True, text=True)
        if p.returncode != 0:
            raise Unsupported('clang -E failed: ' + p.stderr[-500:])
        tu.text = open(pre, 'rb').read()
        p = subprocess.run(['clang', '-Xclang', '-ast-dump=json', '-fsyntax-only', pre], capture_output=True, text=True)
        if p.returncode != 0:
            raise Unsupported('clang failed: ' + p.stderr[-500:])
    ast = json.loads(p.stdout)
    import c2lean
    for c in ast['inner']:
        if c.get('kind') == 'TypedefDecl':
            t = c['type']
            v = t.get('desugaredQualType', t['qualType'])
            if v == c['name']:
                v = t['qualType']
            tu.typedefs[c['name']] = v
            c2lean.TYPEDEFS[c['name']] = v
    def walk_enums(node):
        if node.get('kind') == 'EnumDecl':
            nxt = 0
            for e in node.get('inner', []):
                if e.get('kind') != 'EnumConstantDecl':
                    continue
                init = [x for x in e.get('inner', []) if not x['kind'].endswith('Comment')]
                if init:
                    try:
                        nxt = c2lean.const_eval(init[0])
                    except (Unsupported, KeyError):
                        ref = strip(init[0])
                        nm_ = ref.get('referencedDecl', {}).get('name') if ref.get('kind') == 'DeclRefExpr' else None
                        nxt = tu.enums.get(nm_)        # `FIBRE_STATE_YIELDED = PT_YIELDED`
                if nxt is not None:
                    tu.enums[e['name']] = nxt
                    nxt += 1
        for ch in node.get('inner', []) if node.get('kind') in ('TranslationUnitDecl', 'TypedefDecl', 'ElaboratedType') else []:
            walk_enums(ch)
    walk_enums(ast)
    pending = {}
    for c in ast['inner']:
        try:
            if c['kind'] == 'RecordDecl' and 'inner' in c:
                fields, missing = [], []
                if c.get('tagUsed') == 'union':
                    continue
                for f in c['inner']:
                    if f['kind'] != 'FieldDecl':
                        if f['kind'] in ('RecordDecl',):
                            missing.append('<nested>')
                        continue
                    if f.get('isBitfield') or 'name' not in f:
                        missing.append(f.get('name', '<anonymous>'))
                        continue
                    try:
                        fields.append((f['name'], tu.vtype(f)))
                    except Unsupported:
                        missing.append(f['name'])
                rec_ = (fields, missing)
                if not any(f.get('isBitfield') for f in c['inner'] if f['kind'] == 'FieldDecl'):
                    tu.raw_records[c.get('name', '') or ('<anon@%s>' % c['id'])] = [
                        (f['name'], f['type'].get('desugaredQualType', f['type']['qualType'])) for f in c['inner'] if f['kind'] == 'FieldDecl' and 'name' in f]
                if not c.get('name'):
                    pending['$last_anon'] = '<anon@%s>' % c['id']
                tu.field_order[id(rec_)] = [f['name'] for f in c['inner'] if f.get('kind') == 'FieldDecl' and 'name' in f]
                tu.records[c.get('name', '') or ('<anon@%s>' % c['id'])] = rec_
                pending[c['id']] = rec_
            if c['kind'] == 'TypedefDecl':
                # typedef struct {...} name;  -> the anonymous record gets the typedef's name
                for ch in c.get('inner', []):
                    od = ch.get('ownedTagDecl') or (ch.get('inner', [{}])[0].get('decl') if ch.get('inner') else None)
                    if od and od.get('id') in pending:
                        tu.records[c['name']] = pending[od['id']]
                        anon = '<anon@%s>' % od['id']
                        if anon in tu.raw_records:
                            tu.raw_records[c['name']] = tu.raw_records[anon]
            if c['kind'] == 'FunctionDecl' and any(x['kind'] == 'CompoundStmt' for x in c.get('inner', [])):
                tu.fns[c['name']] = c
            if c['kind'] == 'VarDecl':
                tb = tu.const_table(c)
                if tb is not None:
                    tu.tables[c['name']] = tb
                else:
                    gq = c['type'].get('desugaredQualType', c['type']['qualType'])
                    if 'unnamed' in gq and pending.get('$last_anon') in tu.raw_records:
                        # `static struct { ... } kernel;`: the object's type is the anonymous record declared just before it
                        tu.raw_records[clean(gq).replace('struct ', '', 1)] = tu.raw_records[pending['$last_anon']]
                    tu.globals[c['name']] = gq
        except (KeyError, TypeError, IndexError):
            continue
    for k, v in list(tu.typedefs.items()):
        vv = clean(v)
        if vv.startswith('struct ') and vv[len('struct '):] in tu.records:
            tu.records.setdefault(k, tu.records[vv[len('struct '):]])
    return tu


def generate(path, fns, namespace, extra=(), fuel=2, fuels=None, externs=(), inmem=(), recursive_loops=False, optional=(), pure_calls=()):
    """Lean source text for the listed functions of one C file, in the order given (callees first)."""
    tu = load(path, list(extra))
    tu.inmem = set(inmem)
    out = ['-- GENERATED by tools/c2lean2.py from ' + '/'.join(path.split('/')[-2:]) + ' -- do not edit; rewritten on every check run',
           'import Librfn.Gen.Mem', 'set_option linter.unusedVariables false', f'namespace {namespace}', 'open Librfn.Gen', '']
    done = {}
    for fn in fns:
        if fn not in tu.fns:
            raise Unsupported(f'function {fn} not found in {path}')
        f_ = Fn(tu, tu.fns[fn], (fuels or {}).get(fn, fuel), done, externs)
        f_.recursive_loops = recursive_loops
        f_.pure_calls = set(pure_calls)
        try:
            text, sig = f_.translate()
        except Unsupported as e:
            if fn not in optional:
                raise
            # a function no tie theorem is stated about: its translation is informative only, a refusal does not break the unit
            out.append(f'-- `{fn}` is outside the translated subset as written now: {e}')
            out.append('')
            continue
        done[fn] = sig
        out.append(text)
        out.append('')
    out.append(f'end {namespace}')
    return '\n'.join(out) + '\n'


if __name__ == '__main__':
    args = sys.argv[1:]
    extra = args[args.index('--') + 1:] if '--' in args else []
    print(generate(args[0], args[1].split(','), 'Librfn.Gen.X', extra))

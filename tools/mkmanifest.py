#!/usr/bin/env python3
"""Write MANIFEST.json from the META of every props/Cxx.py; properties without a plugin are listed not_applicable."""
import importlib, json, os, sys
HERE = os.path.dirname(os.path.dirname(os.path.abspath(__file__)))
sys.path.insert(0, os.path.join(HERE, 'tools')); sys.path.insert(0, HERE)
ids = [json.loads(l)['id'] for l in open(os.path.join(HERE, 'properties.jsonl')) if l.strip()]
checks, na = [], []
NA_REASON = {}
try:
    NA_REASON = json.load(open(os.path.join(HERE, 'tools', 'not_applicable.json')))
except OSError:
    pass
for pid in ids:
    if not os.path.exists(os.path.join(HERE, 'props', pid + '.py')):
        na.append({'property_id': pid, 'reason': NA_REASON.get(pid, 'check not built yet in this round (planned: DESIGN.md §6); nothing is claimed')})
        continue
    m = importlib.import_module('props.' + pid).META
    checks.append({
        'property_id': pid,
        'quick_cmd': f'./check {pid} --tier quick',
        'thorough_cmd': f'./check {pid} --tier thorough',
        'evidence_file': f'/verif/evidence/{pid}.json',
        'replay_cmd_template': f'./check {pid} --replay {{path}}',
        'engine': m['engine'],
        'level_claimed': {'category': m.get('category', 'proof'), 'text': m['level_text'], 'design_ref': m['design_ref']},
        'level_note': m['level_note'],
        'technique': m['technique'],
    })
man = {
    'version': 1,
    'setup_cmd': 'cd lean && lake build',
    'hooks': {'guard': 'LIBRFN_VERIF', 'enable': 'harnesses are compiled with -DLIBRFN_VERIF; no hook exists in /repo (file-static state is reached by #include of the .c file, interleavings by an include-path stdatomic.h shim)',
              'baseline_off_cmd': 'make -C /repo check', 'source_commits': [], 'add_only': True},
    'engines': [
        {'name': 'lean-T', 'path': 'tools/c2lean.py + tools/c2lean2.py + lean/Librfn/Gen + lean/Librfn/Props', 'kind_free_text': 'Lean 4 theorems about BitVec definitions regenerated from the C source (clang typed AST) on every run; the second-generation translator (pointers, byte memory, sequential atomics, unrolled loops, external calls) additionally ties the models of C03 C04 C05 C10 C12 to messageq.c, ringbuf.c, pack.c and fibre_posix.c function by function (Props/C*Tie.lean)'},
        {'name': 'lean-S', 'path': 'tools/skeleton.py + lean/Librfn/Model/*Conc.lean', 'kind_free_text': 'Lean 4 inductive invariants over interleaving models whose atomic-operation skeleton is extracted from the C source on every run'},
        {'name': 'lean-D', 'path': 'lean/Librfn/Model + harness/', 'kind_free_text': 'Lean 4 theorems about hand-written executable models tied to the C code by a differential correspondence run on every check'},
    ],
    'checks': checks,
    'not_applicable': na,
    'notes': 'See DESIGN.md. Every check rebuilds its harness from /repo, re-checks its Lean theorems, audits axioms, and runs the model/implementation correspondence.',
}
for e in man['engines']:
    e['serves_properties'] = [c['property_id'] for c in checks if c['engine'] == e['name']]
json.dump(man, open(os.path.join(HERE, 'MANIFEST.json'), 'w'), indent=1)
print(len(checks), 'checks,', len(na), 'not applicable')

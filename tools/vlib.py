"""Common machinery for the librfn checks (see DESIGN.md §3).

One check run = regenerate (tie T / tie S) -> lake build of the property's theorems ->
axiom audit -> correspondence run (harness built from /repo's working tree vs. the Lean
executable model) -> on any break, search for a concrete failing input -> evidence.
"""
import fcntl, hashlib, json, os, re, shutil, subprocess, sys, tempfile, time

VERIF = os.path.dirname(os.path.dirname(os.path.abspath(__file__)))
REPO = os.environ.get('LIBRFN_REPO', '/repo')
LEAN = os.path.join(VERIF, 'lean')
GUARD = 'LIBRFN_VERIF'
STD_AXIOMS = {'propext', 'Classical.choice', 'Quot.sound'}
FORBIDDEN = re.compile(r'\bsorry\b|\badmit\b|^\s*axiom\s|\bnative_decide\b|\bimplemented_by\b|\bunsafe\s|maxHeartbeats\s+0\b|\bextern\s*"', re.M)


class Infra(Exception):
    """Infrastructure trouble (toolchain, disk): exit 2, never a VIOLATION line."""


class Unbuildable(Exception):
    """A harness no longer compiles against the library sources of the tree under check (the data representation or an
    interface the correspondence run needs has changed).  That is not infrastructure trouble: the tie between model and
    code cannot be re-established on this tree, so the property is no longer shown to hold -> `check` records a broken
    correspondence and reports VIOLATION ... no-failing-input-found (unless a public-interface build found an input)."""


def sh(cmd, timeout=None, input=None, cwd=None, env=None):
    e = dict(os.environ)
    if env:
        e.update(env)
    try:
        p = subprocess.run(cmd, input=input, capture_output=True, text=True, timeout=timeout, cwd=cwd, env=e,
                           errors='replace')
        return p.returncode, p.stdout, p.stderr
    except subprocess.TimeoutExpired as ex:
        out = ex.stdout.decode(errors='replace') if isinstance(ex.stdout, bytes) else (ex.stdout or '')
        return -9, out, 'TIMEOUT'


def strip_lean_comments(src):
    out, i, depth, n = [], 0, 0, len(src)
    while i < n:
        if src.startswith('/-', i):
            depth += 1; i += 2; continue
        if depth and src.startswith('-/', i):
            depth -= 1; i += 2; continue
        if depth:
            if src[i] == '\n':
                out.append('\n')
            i += 1; continue
        if src.startswith('--', i):
            while i < n and src[i] != '\n':
                i += 1
            continue
        if src[i] == '"':
            j = i + 1
            while j < n and src[j] != '"':
                j += 2 if src[j] == '\\' else 1
            out.append('""'); i = j + 1; continue
        out.append(src[i]); i += 1
    return ''.join(out)


class Lock:
    def __init__(self, path):
        self.path = path
    def __enter__(self):
        self.f = open(self.path, 'w')
        fcntl.flock(self.f, fcntl.LOCK_EX)
    def __exit__(self, *a):
        fcntl.flock(self.f, fcntl.LOCK_UN); self.f.close()


def lake_lock():
    return Lock(os.path.join(LEAN, '.lake.lock'))


def write_if_changed(path, text):
    try:
        if open(path).read() == text:
            return False
    except OSError:
        pass
    os.makedirs(os.path.dirname(path), exist_ok=True)
    with open(path, 'w') as f:
        f.write(text)
    return True


class Ctx:
    def __init__(self, pid, tier, seed):
        self.pid, self.tier, self.seed = pid, tier, seed
        self.t0 = time.time()
        self.tmp = tempfile.mkdtemp(prefix=f'librfn-verif-{pid}-')
        self.violations = []      # (replay_path, no_input_found)
        self.known = []           # text of KNOWN-FINDING lines
        self.blackbox = False     # harness rebuilt against the public interface only (cc_harness)
        self.broken = []          # names of obligations/correspondences that no longer check
        self.cov = {'evaluations': 0, 'distinct_nontrivial': 0, 'rule': '', 'samples': [],
                    'obligations': 0, 'discharged': 0, 'checker_cmd': '', 'trusted_base': []}
        self.assumptions = []
        self.notes = []
        self.theorem_axioms = {}
        self.replay_n = 0
        self._distinct = set()

    # ---------------------------------------------------------------- lean
    def lake_build(self, targets, timeout=3000):
        with lake_lock():
            rc, out, err = sh(['lake', 'build'] + targets, cwd=LEAN, timeout=timeout)
        log = out + err
        if rc == 0:
            return True, log, []
        errs = []
        for m in re.finditer(r'error: ([^\s:]+\.lean):(\d+):(\d+): (.*)', log):
            errs.append((m.group(1), int(m.group(2)), m.group(4)))
        if not errs and rc != 0:
            if re.search(r'No space left|cannot allocate|Killed|could not (obtain|acquire)', log):
                raise Infra('lake build: ' + log[-2000:])
        return False, log, errs

    def enclosing_decl(self, relpath, line):
        try:
            lines = open(os.path.join(LEAN, relpath)).read().split('\n')
        except OSError:
            return f'{relpath}:{line}'
        for i in range(min(line, len(lines)) - 1, -1, -1):
            m = re.match(r'\s*(?:private\s+|protected\s+)?(?:@\[[^\]]*\]\s*)?(theorem|lemma|def|example|instance|abbrev)\s+([^\s:({\[]+)?', lines[i])
            if m:
                return f'{m.group(1)} {m.group(2) or ""} ({relpath}:{line})'.replace('  ', ' ')
        return f'{relpath}:{line}'

    def prop_theorems(self, modfile):
        """names of the theorems stated in a Props file (qualified by its namespace)"""
        src = strip_lean_comments(open(os.path.join(LEAN, modfile)).read())
        ns, names = [], []
        for ln in src.split('\n'):
            m = re.match(r'\s*namespace\s+(\S+)', ln)
            if m:
                ns.append(m.group(1)); continue
            m = re.match(r'\s*end\s+(\S+)', ln)
            if m and ns and ns[-1] == m.group(1):
                ns.pop(); continue
            m = re.match(r'\s*(?:@\[[^\]]*\]\s*)?(?:private\s+|protected\s+)?theorem\s+([^\s:({\[]+)', ln)
            if m:
                names.append('.'.join(ns + [m.group(1)]))
        return names

    def forbidden_scan(self):
        hits = []
        for root, _, files in os.walk(LEAN):
            if '.lake' in root:
                continue
            for fn in files:
                if fn.endswith('.lean'):
                    p = os.path.join(root, fn)
                    src = strip_lean_comments(open(p).read())
                    for m in FORBIDDEN.finditer(src):
                        hits.append((os.path.relpath(p, LEAN), m.group(0).strip()))
        return hits

    def prove(self, modules, required=(), allow_extra_axioms=lambda thm, ax: False):
        """Build the property's theorem modules and audit their axioms.
        Returns True iff every obligation is discharged.  Fills coverage."""
        files = [m.replace('.', '/') + '.lean' for m in modules]
        ok, log, errs = self.lake_build(modules)
        thms = []
        for f in files:
            thms += self.prop_theorems(f)
        missing = [r for r in required if r not in thms]
        self.cov['obligations'] = len(thms) + len(missing)
        self.cov['checker_cmd'] = 'cd lean && lake build ' + ' '.join(modules) + ' && lake env lean <generated #print axioms audit>'
        if not ok:
            names = []
            for (f, ln, msg) in errs:
                d = self.enclosing_decl(f, ln)
                if d not in names:
                    names.append(d)
            if not names:
                names = ['lake build failed: ' + log.strip().split('\n')[-1][:300]]
            self.broken += names
            self.notes.append('lean build log tail: ' + log[-1500:])
            # bv_decide reports a falsifying assignment when a bit-vector obligation (tie T, second generation) is false:
            # that assignment is an input on which the generated code and its reference differ
            for m in re.finditer(r'error: (\S+?):(\d+):\d+: The prover found a (?:potentially spurious )?counterexample.*?\n((?:[\w.\' ()+#]+ = [^\n]*\n)+)', log, re.S):
                self.notes.append(f'SAT counterexample for the obligation at {m.group(1)}:{m.group(2)} ({self.enclosing_decl(m.group(1), int(m.group(2)))}): '
                                  + ' '.join(x.strip() for x in m.group(3).strip().split('\n'))[:1500])
            self.cov['discharged'] = 0
            return False
        for r in missing:
            self.broken.append(f'required theorem {r} is absent from {files}')
        hits = self.forbidden_scan()
        if hits:
            self.broken.append('forbidden construct in lean sources: ' + repr(hits[:5]))
        audit = os.path.join(self.tmp, 'Audit.lean')
        with open(audit, 'w') as f:
            for m in modules:
                f.write(f'import {m}\n')
            for t in thms:
                f.write(f'#print axioms {t}\n')
        with lake_lock():
            rc, out, err = sh(['lake', 'env', 'lean', audit], cwd=LEAN, timeout=600)
        if rc != 0:
            self.broken.append('axiom audit failed: ' + (out + err)[-500:])
            return False
        text = re.sub(r'\s+', ' ', out)
        done, extra = 0, set()
        for t in thms:
            m = re.search(r"'" + re.escape(t) + r"' (does not depend on any axioms|depends on axioms: \[([^\]]*)\])", text)
            if not m:
                self.broken.append(f'audit: no axiom report for {t}')
                continue
            ax = set(a.strip() for a in (m.group(2) or '').split(',') if a.strip())
            self.theorem_axioms[t] = sorted(ax)
            bad = [a for a in ax - STD_AXIOMS if not allow_extra_axioms(t, a)]
            if bad:
                self.broken.append(f'theorem {t} depends on disallowed axioms {bad}')
            else:
                done += 1
                extra |= ax - STD_AXIOMS
        self.cov['discharged'] = done
        if self.tier == 'thorough':
            # independent re-check of the compiled modules by the toolchain's kernel replayer
            replayed = []
            for m in modules:
                if m.startswith('LibrfnMath'):
                    continue      # would replay all of Mathlib's dependencies: out of budget
                with lake_lock():
                    rc, out, err = sh(['lake', 'env', 'leanchecker', m], cwd=LEAN, timeout=1800)
                if rc != 0:
                    self.broken.append(f'leanchecker rejects {m}: ' + (out + err)[-400:])
                else:
                    replayed.append(m)
            self.cov['leanchecker_replayed'] = replayed
        tb = ['Lean 4.33.0 kernel', 'axioms: ' + ', '.join(sorted(set(a for v in self.theorem_axioms.values() for a in v) & STD_AXIOMS)) or 'none']
        if extra:
            tb.append('bv_decide certificates (ofReduceBool-style axioms): ' + ', '.join(sorted(extra)))
        self.cov['trusted_base'] = tb
        self.cov['theorems'] = self.theorem_axioms
        return done == self.cov['obligations'] and not self.broken

    # ---------------------------------------------------------------- C side
    def cc(self, out, sources, flags=(), san=True, timeout=300, cc='gcc'):
        cmd = [cc, '-g', os.environ.get('VERIF_OPT', '-O0'), '-D' + GUARD,   # -O0: the repository builds its library without -O
               '-I' + os.path.join(REPO, 'include'), '-I' + os.path.join(VERIF, 'harness')]
        if san:
            cmd += ['-fsanitize=address,bounds', '-fno-sanitize-recover=all', '-fno-omit-frame-pointer']
        cmd += list(flags) + os.environ.get('VERIF_CFG', '').split() + ['-o', os.path.join(self.tmp, out)] + list(sources)    # VERIF_CFG: a build configuration of the library (check: -D__STDC_NO_ATOMICS__)
        rc, o, e = sh(cmd, timeout=timeout)
        if rc != 0:
            return None, o + e
        return os.path.join(self.tmp, out), o + e

    FORKMAIN = ['-Dmain=harness_main', os.path.join(VERIF, 'harness', 'forkmain.c')]   # one fresh process image per history (harness/forkmain.c)

    def cc_harness(self, out, sources, flags=(), what='harness', loses=None, **kw):
        """Build a harness that also observes library internals.  If it does not compile (representation changed) rebuild
        it with -DVERIF_BLACKBOX (public interface only; the harness prints `?` for what it cannot see) and record the
        plugin then compares observable results only (`self.blackbox`).  `loses`: what the public-interface build cannot
        exercise that the property needs (then the correspondence counts as broken); None when every operation and every
        observable result of the property is still driven and compared - the tie is then the behavioural correspondence
        alone, which is what the technique requires, and the change of representation is only noted in the evidence."""
        self.blackbox = False
        exe, log = self.cc(out, sources, flags, **kw)
        if exe:
            return exe
        err = [l for l in log.split('\n') if 'error' in l][:2]
        exe, log2 = self.cc(out, sources, list(flags) + ['-DVERIF_BLACKBOX'], **kw)
        if exe:
            self.blackbox = True
            msg = (f'{what} no longer compiles against the library\'s data representation ({"; ".join(e.strip()[-160:] for e in err)}); '
                   f'rebuilt against the public interface only')
            self.cov['harness_public_interface_only'] = msg
            if loses:
                self.broken.append('correspondence: ' + msg + '; not exercised any more: ' + loses)
            else:
                self.notes.append(msg + '; field-by-field comparison of the structure skipped, observable results compared as before')
            return exe
        raise Unbuildable(f'{what} does not compile against the tree under check: ' + log[-1200:])

    # One executable per model engine (lean/Exe<Engine>.lean): a source change that breaks the translation / model of
    # one unit must not take the model executables of unrelated properties down with it.
    ENGINES_OF = {'C01': ['sched'], 'C02': ['sched'], 'C03': ['sched', 'isr'], 'C04': ['messageq-conc'], 'C05': ['ring'], 'C06': ['isr'],
                  'C07': ['hb'], 'C08': ['pt'], 'C09': ['list'], 'C10': ['messageq'], 'C11': ['bintree'], 'C12': ['pack'], 'C13': ['wav'],
                  'C14': ['wav'], 'C15': ['console'], 'C16': ['pure-bits'], 'C17': ['pure-rand'], 'C18': ['hex'], 'C19': ['pure-rotenc'], 'C20': ['mlog']}

    @staticmethod
    def exe_target(engine):
        return 'librfn_model_' + engine.replace('-', '_')

    def model_exe(self, engine):
        return os.path.join(LEAN, '.lake', 'build', 'bin', self.exe_target(engine))

    def build_model(self, engines=None):
        engines = engines or self.ENGINES_OF.get(self.pid, [])
        ok, log, errs = self.lake_build([self.exe_target(e) for e in engines])
        if not ok:
            names = [self.enclosing_decl(f, ln) for (f, ln, _) in errs] or ['model executable build failed']
            self.broken += ['model driver does not build: ' + n for n in names[:3]]
            self.notes.append(log[-1500:])
        return ok

    def run_model(self, args, text, timeout=600):
        args = list(args)
        exe = self.model_exe(args[0])
        if not os.path.exists(exe) and not self.build_model([args[0]]):
            raise Infra(f'model executable for engine {args[0]} is not built')
        rc, out, err = sh([exe] + args[1:], input=text, timeout=timeout)
        if rc != 0:
            raise Infra(f'{self.exe_target(args[0])} {args[1:]} rc={rc}: {err[-800:]}')
        return out

    # ---------------------------------------------------------------- reporting
    def count(self, key, nontrivial=True):
        self.cov['evaluations'] += 1
        if nontrivial:
            h = hashlib.sha1(repr(key).encode()).digest()[:8]
            if h not in self._distinct:
                self._distinct.add(h)
                self.cov['distinct_nontrivial'] = len(self._distinct)

    def sample(self, s, cap=6):
        if len(self.cov['samples']) < cap:
            self.cov['samples'].append(s)

    def known_findings(self):
        out = []
        try:
            for ln in open(os.path.join(VERIF, 'known_findings.txt')):
                m = re.match(r'finding:\s+property=(\S+)\s+key=(\S+)\s+(.*)', ln)
                if m and m.group(1) == self.pid:
                    out.append((m.group(2), m.group(3).strip()))
        except OSError:
            pass
        return out

    def violation(self, replay, key=None, no_input=False):
        """Record a violation.  `replay` is a JSON-able dict; `key` a stable identity of the failing
        input/history used to match known findings."""
        replay = dict(replay)
        replay.setdefault('property', self.pid)
        replay.setdefault('seed', self.seed)
        replay.setdefault('tier', self.tier)
        replay['kind'] = 'broken-obligation' if no_input else replay.get('kind', 'counterexample')
        if key is not None:
            replay['key'] = key
            for k, text in self.known_findings():
                if k == key:
                    msg = f'KNOWN-FINDING: property={self.pid} {text}'
                    if msg not in self.known:
                        self.known.append(msg); print(msg, flush=True)
                    return None
        os.makedirs(os.path.join(VERIF, 'replays'), exist_ok=True)
        self.replay_n += 1
        path = os.path.join(VERIF, 'replays', f'{self.pid}-{self.tier}-{self.replay_n}.json')
        with open(path, 'w') as f:
            json.dump(replay, f, indent=1, default=str)
        self.violations.append((path, no_input))
        print(f'VIOLATION property={self.pid} replay={path}' + (' no-failing-input-found' if no_input else ''), flush=True)
        return path

    def finish(self, level='proof'):
        """If obligations broke and no concrete counterexample was reported, report no-failing-input-found."""
        if self.broken and not any(not ni for (_, ni) in self.violations) and not self.known:
            self.violation({'obligation': self.broken, 'notes': self.notes,
                            'explanation': 'a proof obligation or the model/implementation correspondence no longer checks; '
                                           'the search found no concrete input on which the property fails'}, no_input=True)
        elif self.broken and not self.violations and self.known:
            # broken obligations fully explained by known findings only if the plugin says so; be conservative
            self.violation({'obligation': self.broken, 'notes': self.notes}, no_input=True)
        cov = self.cov
        cov['broken_obligations'] = self.broken
        if self.notes:
            cov['notes'] = [n[-600:] for n in self.notes[:8]]
        if cov['evaluations'] == 0:
            cov.pop('evaluations'); cov.pop('distinct_nontrivial')
        ev = {'property_id': self.pid, 'tier': self.tier, 'seed': self.seed, 'level': level, 'coverage': cov,
              'assumptions': self.assumptions, 'wall_s': round(time.time() - self.t0, 2),
              'violations': len(self.violations), 'known_findings_reported': self.known}
        os.makedirs(os.path.join(VERIF, 'evidence'), exist_ok=True)
        with open(os.path.join(VERIF, 'evidence', f'{self.pid}.json'), 'w') as f:
            json.dump(ev, f, indent=1, default=str)
        shutil.rmtree(self.tmp, ignore_errors=True)
        return 1 if self.violations else 0


class Rng:
    """xorshift64* — every random choice of a check derives from VERIF_SEED through one of these."""
    def __init__(self, seed):
        self.s = (seed * 0x9E3779B97F4A7C15 + 0x1234567) & 0xFFFFFFFFFFFFFFFF or 1
        for _ in range(4):
            self.next()
    def next(self):
        s = self.s
        s ^= (s >> 12); s ^= (s << 25) & 0xFFFFFFFFFFFFFFFF; s ^= (s >> 27)
        self.s = s
        return (s * 0x2545F4914F6CDD1D) & 0xFFFFFFFFFFFFFFFF
    def below(self, n):
        return self.next() % n if n > 0 else 0
    def range(self, a, b):
        return a + self.below(b - a + 1)
    def choice(self, xs):
        return xs[self.below(len(xs))]
    def chance(self, num, den):
        return self.below(den) < num
    def shuffle(self, xs):
        for i in range(len(xs) - 1, 0, -1):
            j = self.below(i + 1)
            xs[i], xs[j] = xs[j], xs[i]
        return xs


def diff_streams(a, b):
    """first index at which two line lists differ, or None"""
    for i, (x, y) in enumerate(zip(a, b)):
        if x != y:
            return i
    if len(a) != len(b):
        return min(len(a), len(b))
    return None


# --------------------------------------------------------------------------- tie D helpers
def ddmin(items, fails, max_tests=400):
    """delta debugging: a (locally) minimal sub-list of `items` on which `fails` is still true"""
    n, tests = 2, 0
    items = list(items)
    while len(items) >= 2 and tests < max_tests:
        chunk = max(1, len(items) // n)
        reduced = False
        for i in range(0, len(items), chunk):
            cand = items[:i] + items[i + chunk:]
            tests += 1
            if cand and fails(cand):
                items, n, reduced = cand, max(n - 1, 2), True
                break
            if tests >= max_tests:
                break
        if not reduced:
            if chunk == 1:
                break
            n = min(len(items), n * 2)
    return items


def run_exe(cmd, text, timeout=300):
    """run a harness on a line-protocol input; a crash / sanitizer abort / timeout is a result, appended
    as a final line so it shows up in the diff"""
    rc, out, err = sh(cmd, input=text, timeout=timeout)
    lines = out.split('\n')
    if lines and lines[-1] == '':
        lines.pop()
    if rc != 0:
        tag = 'TIMEOUT' if rc == -9 else f'CRASH rc={rc}'
        m = re.search(r'(ERROR: AddressSanitizer: [\w-]+|runtime error: [^\n]{0,120}|Assertion [^\n]{0,160})', err)
        lines.append(f'!! {tag} {m.group(1) if m else err.strip()[-160:]}')
    return lines


def split_histories(lines, sep='--'):
    """outputs of several histories separated by a line `--`"""
    out, cur = [], []
    for l in lines:
        if l == sep:
            out.append(cur); cur = []
        else:
            cur.append(l)
    if cur or not out:
        out.append(cur)
    return out


def correspond(ctx, engine, harness_cmd, histories, spec=None, prefix=('reset',), timeout=600, label=None,
               shrink=True, key_of=None, sep='--', valid=None, norm=None):
    """Tie D: run the same histories (lists of op lines) through the harness built from /repo and through the
    Lean executable model (`librfn_model <engine>`), compare per history.
      impl != spec (or impl != model when the model is the proven-equal stand-in for the spec)  -> violation
      impl == spec but impl != model                                                         -> broken correspondence
    `spec(history) -> expected output lines` is an optional independent oracle.
    Returns number of histories on which everything agreed."""
    if not ctx.build_model():
        return 0
    def run_both(hs):
        text = ''.join('\n'.join(list(prefix) + h) + '\n' + sep + '\n' for h in hs)
        impl = split_histories(run_exe(harness_cmd, text, timeout), sep)
        mo_ = ctx.run_model([engine] if isinstance(engine, str) else list(engine), text, timeout).split('\n')
        if mo_ and mo_[-1] == '':
            mo_.pop()
        model = split_histories(mo_, sep)
        if norm:                       # e.g. a public-interface-only harness build: lines about internals are masked on both sides
            impl = [[norm(l) for l in x] for x in impl]; model = [[norm(l) for l in x] for x in model]
        return impl, model
    impl, model = run_both(histories)
    if norm and spec:
        spec0 = spec
        spec = lambda h: [norm(l) for l in spec0(h)]
    npre = len(prefix)
    agreed = 0
    for i, h in enumerate(histories):
        io = impl[i][npre:] if i < len(impl) else ['!! missing (harness died earlier)']
        mo = model[i][npre:] if i < len(model) else ['!! missing']
        so = spec(h) if spec else None
        bad_spec = so is not None and io != so
        bad_model = io != mo
        if not bad_spec and not bad_model:
            agreed += 1
            continue
        if i >= len(impl):   # harness died in an earlier history: rerun this one alone
            impl1, model1 = run_both([h]); io, mo = impl1[0][npre:], model1[0][npre:]
            bad_spec = so is not None and io != so; bad_model = io != mo
            if not bad_spec and not bad_model:
                agreed += 1; continue
        if so is not None and not bad_spec:
            ctx.broken.append(f'correspondence {label or engine}: model differs from implementation (implementation agrees with the spec) on history {h[:12]}...: model={mo[:6]} impl={io[:6]}')
            break
        # violation: shrink
        def fails(cand):
            if valid and not valid(cand):
                return False       # a shrunk replay must stay inside the property's scope
            im, mm = run_both([cand])
            a, b = im[0][npre:], mm[0][npre:]
            if spec:
                return a != spec(cand)
            return a != b
        hh = ddmin(h, fails) if shrink and len(h) > 1 else h
        im, mm = run_both([hh])
        a, b = im[0][npre:], mm[0][npre:]
        exp = spec(hh) if spec else b
        k = diff_streams(a, exp)
        ctx.violation({'obligation': f'{label or engine}: implementation vs ' + ('specification' if spec else 'proved model'),
                       'ops': list(prefix) + hh, 'first_difference_at_output': k,
                       'expected': exp[max(0, (k or 0) - 2):(k or 0) + 3], 'observed': a[max(0, (k or 0) - 2):(k or 0) + 3],
                       'model': b[max(0, (k or 0) - 2):(k or 0) + 3], 'engine': engine,
                       'how_to_rerun': f'./check {ctx.pid} --replay <this file>'},
                      key=(key_of(hh) if key_of else 'ops:' + hashlib.sha1('\n'.join(hh).encode()).hexdigest()[:16]))
        break
    return agreed


def replay_ops(ctx, path, engine, harness_cmd, spec=None, sep='--', norm=None):
    r = json.load(open(path))
    if 'ops' not in r:
        print('replay names a broken obligation, not an input:', r.get('obligation'))
        return 1
    if not ctx.build_model():
        return 2
    text = '\n'.join(r['ops']) + '\n' + sep + '\n'
    impl = split_histories(run_exe(harness_cmd, text), sep)[0]
    model = split_histories(ctx.run_model([engine], text).rstrip('\n').split('\n'), sep)[0]
    npre = 0
    while npre < len(r['ops']) and r['ops'][npre] == 'reset':
        npre += 1
    exp = (['ok'] * 0 + impl[:npre] + spec(r['ops'][npre:])) if spec else model
    if norm:
        impl = [norm(l) for l in impl]; exp = [norm(l) for l in exp]
    k = diff_streams(impl, exp)
    print('implementation:', impl[:40]); print('expected      :', exp[:40])
    print('SAME' if k is None else f'DIFFER at output {k}')
    return 0 if k is None else 1

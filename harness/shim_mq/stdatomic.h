/* Include-path shim (C04): placed before the system directories so that the UNMODIFIED librfn sources pick it up
 * through <librfn/atomic.h>.  It includes the real <stdatomic.h> and then redefines the generic functions the
 * library uses as statement expressions that call a scheduling hook before the operation (the calling logical thread
 * yields there) and a logging hook after it (op, object, memory order, value before/after).
 * The operation itself is the compiler's __atomic builtin with the order the library asked for (seq_cst). */
#ifndef VERIF_SHIM_MQ_STDATOMIC_H
#define VERIF_SHIM_MQ_STDATOMIC_H
#include_next <stdatomic.h>

void verif_pre(const char *op, const volatile void *addr, int order, const char *file, int line);
void verif_post(const char *op, const volatile void *addr, int order, unsigned long long before, unsigned long long after);

#undef atomic_load
#undef atomic_store
#undef atomic_fetch_add
#undef atomic_fetch_sub
#undef atomic_fetch_or
#undef atomic_fetch_and
#undef atomic_compare_exchange_weak
#undef atomic_compare_exchange_strong

#define atomic_load(p) __extension__({ \
	verif_pre("load", (p), __ATOMIC_SEQ_CST, __FILE__, __LINE__); \
	__auto_type v_ = __atomic_load_n((p), __ATOMIC_SEQ_CST); \
	verif_post("load", (p), __ATOMIC_SEQ_CST, v_, v_); v_; })
/* operands are evaluated BEFORE the scheduling hook of the operation, as in C (an operand may itself contain an atomic
 * operation, e.g. atomic_store(x, atomic_load(x) + 1): the yield point of the store must lie between the load and the store) */
#define atomic_store(p, v) __extension__({ \
	__auto_type sv_ = (v); \
	verif_pre("store", (p), __ATOMIC_SEQ_CST, __FILE__, __LINE__); \
	__auto_type b_ = __atomic_load_n((p), __ATOMIC_RELAXED); \
	__atomic_store_n((p), sv_, __ATOMIC_SEQ_CST); \
	verif_post("store", (p), __ATOMIC_SEQ_CST, b_, __atomic_load_n((p), __ATOMIC_RELAXED)); })
#define VERIF_RMW(name, builtin, p, v) __extension__({ \
	__auto_type rv_ = (v); \
	verif_pre(name, (p), __ATOMIC_SEQ_CST, __FILE__, __LINE__); \
	__auto_type o_ = builtin((p), rv_, __ATOMIC_SEQ_CST); \
	verif_post(name, (p), __ATOMIC_SEQ_CST, o_, __atomic_load_n((p), __ATOMIC_RELAXED)); o_; })
#define atomic_fetch_add(p, v) VERIF_RMW("fetch_add", __atomic_fetch_add, p, v)
#define atomic_fetch_sub(p, v) VERIF_RMW("fetch_sub", __atomic_fetch_sub, p, v)
#define atomic_fetch_or(p, v)  VERIF_RMW("fetch_or", __atomic_fetch_or, p, v)
#define atomic_fetch_and(p, v) VERIF_RMW("fetch_and", __atomic_fetch_and, p, v)
/* the weak form is executed as a strong CAS: under the baton no other thread runs, so a failure is a real one
 * (spurious failures are covered by the Lean model's `spurious` flag, not by the replay) */
#define VERIF_CAS(p, e, d) __extension__({ \
	__auto_type cd_ = (d); \
	verif_pre("cas", (p), __ATOMIC_SEQ_CST, __FILE__, __LINE__); \
	__auto_type ex_ = *(e); \
	_Bool ok_ = __atomic_compare_exchange_n((p), (e), cd_, 0, __ATOMIC_SEQ_CST, __ATOMIC_SEQ_CST); \
	verif_post(ok_ ? "cas_ok" : "cas_fail", (p), __ATOMIC_SEQ_CST, ex_, __atomic_load_n((p), __ATOMIC_RELAXED)); ok_; })
#define atomic_compare_exchange_weak(p, e, d) VERIF_CAS(p, e, d)
#define atomic_compare_exchange_strong(p, e, d) VERIF_CAS(p, e, d)
#endif

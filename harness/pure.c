/* Harness for the pure integer helpers (C16, C17, C19, cyclecmp32 of C02): tie-T differential and
 * exhaustive search.  Built from /repo's working tree on every run:  -I/repo/librfn -I/repo/include.
 *   pure lines                 : one call per stdin line, result per stdout line
 *   pure sweep <what> <nthr>   : exhaustive comparison with an independent reference; prints
 *                                "FAIL <what> <input...> got=<..> want=<..>" (first per thread) or "OK <count>"
 */
#include <stdint.h>
#include <stdio.h>
#include <stdlib.h>
#include <string.h>
#include <pthread.h>
#include <stdbool.h>

#include "bitops.c"
#include "rand.c"
#include "rotenc.c"
#include <librfn/constexpr.h>
#include <librfn/util.h>
int32_t cyclecmp32(uint32_t a, uint32_t b);

static int rt_const_pop(uint64_t c) { return const_pop(c); }
static int rt_const_lssb(uint64_t c) { return const_lssb(c); }

/* independent references */
static int ref_pop64(uint64_t x) { return __builtin_popcountll(x); }
static int ref_clz(uint32_t x) { return x ? __builtin_clz(x) : 32; }
static int ref_ctz(uint32_t x) { return x ? __builtin_ctz(x) : 32; }
static int ref_lssb(uint64_t x) { return x ? __builtin_ctzll(x) : -1; }
static int ref_delta(unsigned f, unsigned t)
{
	/* Gray sequence 0 -> 1 -> 3 -> 2 -> 0 is clockwise */
	static const int pos[4] = { 0, 1, 3, 2 };
	int d = (pos[t & 3] - pos[f & 3] + 4) & 3;
	return d == 1 ? 1 : d == 3 ? -1 : 0;
}

struct job { const char *what; uint64_t lo, hi; char fail[200]; uint64_t n; };

static void *sweep_thread(void *arg)
{
	struct job *j = arg;
	const char *w = j->what;
	for (uint64_t v = j->lo; v < j->hi && !j->fail[0]; v++) {
		j->n++;
		if (!strcmp(w, "bitops")) {
			uint32_t x = (uint32_t)v;
			int g, r;
			if ((g = bitcnt(x)) != (r = __builtin_popcount(x)))
				snprintf(j->fail, sizeof j->fail, "bitcnt %u got=%d want=%d", x, g, r);
			else if ((g = clz(x)) != (r = ref_clz(x)))
				snprintf(j->fail, sizeof j->fail, "clz %u got=%d want=%d", x, g, r);
			else if ((g = ctz(x)) != (r = ref_ctz(x)))
				snprintf(j->fail, sizeof j->fail, "ctz %u got=%d want=%d", x, g, r);
			else if (x && (g = ilog2(x)) != (r = 31 - ref_clz(x)))
				snprintf(j->fail, sizeof j->fail, "ilog2 %u got=%d want=%d", x, g, r);
		} else if (!strcmp(w, "rand31")) {
			if (v < 1 || v > 2147483646u) continue;
			uint32_t s = (uint32_t)v, r = rand31_r(&s);
			uint32_t want = (uint32_t)((16807ull * v) % 2147483647ull);
			if (r != want || s != want)
				snprintf(j->fail, sizeof j->fail, "rand31 %llu got=%u/%u want=%u", (unsigned long long)v, r, s, want);
		} else if (!strcmp(w, "rotenc")) {
			/* v = ls(2) | next(2) | count(8) | ic(16) */
			unsigned ls = v & 3, nx = (v >> 2) & 3, cnt = (v >> 4) & 0xff, ic = (v >> 12) & 0xffff;
			rotenc_t r; memset(&r, 0, sizeof r);
			r.last_state = ls; r.count = cnt; r.internal_count = ic;
			rotenc_decode(&r, nx);
			unsigned wic = (ic + ref_delta(ls, nx)) & 0xffff;
			unsigned wcnt = nx == 0 ? ((wic >> 2) & 0xff) : cnt;
			if (r.internal_count != wic || (r.count & 0xff) != wcnt || r.last_state != nx || rotenc_count(&r) != wcnt)
				snprintf(j->fail, sizeof j->fail, "rotenc %u %u %u %u got=%u/%u/%u want=%u/%u/%u", ls, cnt, ic, nx,
					 r.last_state, r.count & 0xff, r.internal_count, nx, wcnt, wic);
		}
	}
	return NULL;
}

static int sweep(const char *what, int nthr)
{
	uint64_t total = !strcmp(what, "bitops") ? (1ull << 32) : !strcmp(what, "rand31") ? (1ull << 31) : (1ull << 28);
	struct job *jobs = calloc(nthr, sizeof *jobs);
	pthread_t *th = calloc(nthr, sizeof *th);
	for (int i = 0; i < nthr; i++) {
		jobs[i].what = what; jobs[i].lo = total / nthr * i; jobs[i].hi = i == nthr - 1 ? total : total / nthr * (i + 1);
		pthread_create(&th[i], NULL, sweep_thread, &jobs[i]);
	}
	uint64_t n = 0; int bad = 0;
	for (int i = 0; i < nthr; i++) {
		pthread_join(th[i], NULL);
		n += jobs[i].n;
		if (jobs[i].fail[0]) { printf("FAIL %s\n", jobs[i].fail); bad = 1; }
	}
	if (!bad) printf("OK %llu\n", (unsigned long long)n);
	return 0;
}

static uint64_t xs64(uint64_t *s) { uint64_t x = *s; x ^= x >> 12; x ^= x << 25; x ^= x >> 27; *s = x; return x * 0x2545F4914F6CDD1Dull; }

/* 64-bit macros: all one- and two-bit patterns, all contiguous masks, n random values */
static int sweep_macros(uint64_t seed, uint64_t nrand)
{
	uint64_t n = 0, st = seed * 0x9E3779B97F4A7C15ull + 1;
#define CHK(x) do { uint64_t v_ = (x); n++; \
		if (rt_const_pop(v_) != ref_pop64(v_)) { printf("FAIL const_pop %llu got=%d want=%d\n", (unsigned long long)v_, rt_const_pop(v_), ref_pop64(v_)); return 0; } \
		if (rt_const_lssb(v_) != ref_lssb(v_)) { printf("FAIL const_lssb %llu got=%d want=%d\n", (unsigned long long)v_, rt_const_lssb(v_), ref_lssb(v_)); return 0; } } while (0)
	CHK(0); CHK(~0ull);
	for (int i = 0; i < 64; i++) {
		CHK(1ull << i); CHK(~(1ull << i));
		for (int k = i + 1; k < 64; k++) CHK((1ull << i) | (1ull << k));
		for (int len = 1; i + len <= 64; len++) CHK((len == 64 ? ~0ull : ((1ull << len) - 1)) << i);
	}
	for (uint64_t i = 0; i < nrand; i++) { uint64_t r = xs64(&st); CHK(r); CHK(r & xs64(&st)); CHK(r << (xs64(&st) & 63)); }
	printf("OK %llu\n", (unsigned long long)n);
	return 0;
}

int main(int argc, char **argv)
{
	if (argc >= 4 && !strcmp(argv[1], "macros"))
		return sweep_macros(strtoull(argv[2], 0, 10), strtoull(argv[3], 0, 10));
	if (argc >= 3 && !strcmp(argv[1], "sweep"))
		return sweep(argv[2], argc > 3 ? atoi(argv[3]) : 16);
	char line[256], op[32];
	while (fgets(line, sizeof line, stdin)) {
		unsigned long long a = 0, b = 0, c = 0, d = 0;
		int n = sscanf(line, "%31s %llu %llu %llu %llu", op, &a, &b, &c, &d);
		if (n < 2) { puts("bad-op"); continue; }
		if (!strcmp(op, "bitcnt")) printf("%d\n", bitcnt((uint32_t)a));
		else if (!strcmp(op, "clz")) printf("%d\n", clz((uint32_t)a));
		else if (!strcmp(op, "ctz")) printf("%d\n", ctz((uint32_t)a));
		else if (!strcmp(op, "ilog2")) printf("%d\n", a ? ilog2((uint32_t)a) : 31 - clz(0));
		else if (!strcmp(op, "const_pop")) printf("%d\n", rt_const_pop(a));
		else if (!strcmp(op, "const_lssb")) printf("%d\n", rt_const_lssb(a));
		else if (!strcmp(op, "rand31")) { uint32_t s = (uint32_t)a; uint32_t r = rand31_r(&s); printf("%u %u\n", r, s); }
		else if (!strcmp(op, "rotenc")) {
			rotenc_t r; memset(&r, 0, sizeof r);
			r.last_state = a; r.count = b; r.internal_count = c;
			rotenc_decode(&r, (uint8_t)d);
			printf("%u %u %u %u\n", r.last_state, (unsigned)r.count, r.internal_count, rotenc_count14(&r));
		}
		else if (!strcmp(op, "cyclecmp32")) printf("%d\n", cyclecmp32((uint32_t)a, (uint32_t)b));
		else puts("bad-op");
	}
	return 0;
}

/* Harness for the pure integer helpers (C16, C17, C19, cyclecmp32 of C02): tie-T differential and
 * exhaustive search.  Built from /repo's working tree on every run:  -I/repo/librfn -I/repo/include.
 *   pure lines                 : one call per stdin line, result per stdout line
 *   pure sweep <what> <nthr>   : exhaustive comparison with an independent reference; prints
 *                                "FAIL <what> <input...> got=<..> want=<..>" (first per thread) or "OK <count>"
 */
#include <stdint.h>
#include <stdio.h>
#include <stdlib.h>
#include <string.h>
#include <pthread.h>
#include <stdbool.h>

/* built once per property with exactly one of -DPURE_BITS (C16) / -DPURE_RAND (C17) / -DPURE_ROTENC (C19): only that unit's
 * library sources are compiled in, so a change that stops one unit from compiling cannot silence the other checks */
#if !defined(PURE_BITS) && !defined(PURE_RAND) && !defined(PURE_ROTENC)
#define PURE_BITS
#define PURE_RAND
#define PURE_ROTENC
#endif
#ifdef PURE_BITS
#include "bitops.c"
#include "regdump.c"
#endif
#ifdef PURE_RAND
#include "rand.c"
#endif
#ifdef PURE_ROTENC
#include "rotenc.c"
#endif
#ifdef PURE_BITS
#include <librfn/constexpr.h>
static int rt_const_pop(uint64_t c) { return const_pop(c); }
static int rt_const_lssb(uint64_t c) { return const_lssb(c); }
#endif

/* independent references */
static int ref_pop64(uint64_t x) { return __builtin_popcountll(x); }
static int ref_clz(uint32_t x) { return x ? __builtin_clz(x) : 32; }
static int ref_ctz(uint32_t x) { return x ? __builtin_ctz(x) : 32; }
static int ref_lssb(uint64_t x) { return x ? __builtin_ctzll(x) : -1; }
static int ref_delta(unsigned f, unsigned t)
{
	/* Gray sequence 0 -> 1 -> 3 -> 2 -> 0 is clockwise */
	static const int pos[4] = { 0, 1, 3, 2 };
	int d = (pos[t & 3] - pos[f & 3] + 4) & 3;
	return d == 1 ? 1 : d == 3 ? -1 : 0;
}

struct job { const char *what; uint64_t lo, hi; char fail[200]; uint64_t n; };

static void *sweep_thread(void *arg)
{
	struct job *j = arg;
	const char *w = j->what;
	for (uint64_t v = j->lo; v < j->hi && !j->fail[0]; v++) {
		j->n++;
		if (0) {
#ifdef PURE_BITS
		} else if (!strcmp(w, "bitops")) {
			uint32_t x = (uint32_t)v;
			int g, r;
			if ((g = bitcnt(x)) != (r = __builtin_popcount(x)))
				snprintf(j->fail, sizeof j->fail, "bitcnt %u got=%d want=%d", x, g, r);
			else if ((g = clz(x)) != (r = ref_clz(x)))
				snprintf(j->fail, sizeof j->fail, "clz %u got=%d want=%d", x, g, r);
			else if ((g = ctz(x)) != (r = ref_ctz(x)))
				snprintf(j->fail, sizeof j->fail, "ctz %u got=%d want=%d", x, g, r);
			else if (x && (g = ilog2(x)) != (r = 31 - ref_clz(x)))
				snprintf(j->fail, sizeof j->fail, "ilog2 %u got=%d want=%d", x, g, r);
#endif
#ifdef PURE_RAND
		} else if (!strcmp(w, "rand31")) {
			if (v < 1 || v > 2147483646u) continue;
			uint32_t s = (uint32_t)v, r = rand31_r(&s);
			uint32_t want = (uint32_t)((16807ull * v) % 2147483647ull);
			if (r != want || s != want)
				snprintf(j->fail, sizeof j->fail, "rand31 %llu got=%u/%u want=%u", (unsigned long long)v, r, s, want);
#endif
#ifdef PURE_ROTENC
#ifndef VERIF_BLACKBOX
		} else if (!strcmp(w, "rotenc")) {
			/* v = ls(2) | next(2) | count(8) | ic(16) */
			unsigned ls = v & 3, nx = (v >> 2) & 3, ic = (v >> 12) & 0xffff;
			rotenc_t r; memset(&r, 0, sizeof r);
			r.count = ~0; unsigned cmask = r.count;          /* whatever width the latch has */
			unsigned cnt = ((((v >> 4) & 0xff) * 0x0101u) ^ ((ic * 7u) & 0xff00u)) & cmask;
			r.last_state = ls; r.count = cnt; r.internal_count = ic;
			rotenc_decode(&r, nx);
			unsigned wic = (ic + ref_delta(ls, nx)) & 0xffff;
			unsigned wcnt = nx == 0 ? ((wic >> 2) & cmask) : cnt;
			if (r.internal_count != wic || r.count != wcnt || r.last_state != nx || rotenc_count(&r) != (wcnt & 0xff)
			    || (cmask >= 0x3fff && rotenc_count14(&r) != (wcnt & 0x3fff)))
				snprintf(j->fail, sizeof j->fail, "rotenc %u %u %u %u got=%u/%u/%u want=%u/%u/%u", ls, cnt, ic, nx,
					 r.last_state, (unsigned)r.count, r.internal_count, nx, wcnt, wic);
#endif
#endif
		}
	}
	return NULL;
}

static int sweep(const char *what, int nthr)
{
	uint64_t total = !strcmp(what, "bitops") ? (1ull << 32) : !strcmp(what, "rand31") ? (1ull << 31) : (1ull << 28);
	struct job *jobs = calloc(nthr, sizeof *jobs);
	pthread_t *th = calloc(nthr, sizeof *th);
	for (int i = 0; i < nthr; i++) {
		jobs[i].what = what; jobs[i].lo = total / nthr * i; jobs[i].hi = i == nthr - 1 ? total : total / nthr * (i + 1);
		pthread_create(&th[i], NULL, sweep_thread, &jobs[i]);
	}
	uint64_t n = 0; int bad = 0;
	for (int i = 0; i < nthr; i++) {
		pthread_join(th[i], NULL);
		n += jobs[i].n;
		if (jobs[i].fail[0]) { printf("FAIL %s\n", jobs[i].fail); bad = 1; }
	}
	if (!bad) printf("OK %llu\n", (unsigned long long)n);
	return 0;
}

static uint64_t xs64(uint64_t *s) { uint64_t x = *s; x ^= x >> 12; x ^= x << 25; x ^= x >> 27; *s = x; return x * 0x2545F4914F6CDD1Dull; }

#ifdef PURE_BITS
/* 64-bit macros: all one- and two-bit patterns, all contiguous masks, n random values */
static int sweep_macros(uint64_t seed, uint64_t nrand)
{
	uint64_t n = 0, st = seed * 0x9E3779B97F4A7C15ull + 1;
#define CHK(x) do { uint64_t v_ = (x); n++; \
		if (rt_const_pop(v_) != ref_pop64(v_)) { printf("FAIL const_pop %llu got=%d want=%d\n", (unsigned long long)v_, rt_const_pop(v_), ref_pop64(v_)); return 0; } \
		if (rt_const_lssb(v_) != ref_lssb(v_)) { printf("FAIL const_lssb %llu got=%d want=%d\n", (unsigned long long)v_, rt_const_lssb(v_), ref_lssb(v_)); return 0; } } while (0)
	CHK(0); CHK(~0ull);
	for (int i = 0; i < 64; i++) {
		CHK(1ull << i); CHK(~(1ull << i));
		for (int k = i + 1; k < 64; k++) CHK((1ull << i) | (1ull << k));
		for (int len = 1; i + len <= 64; len++) CHK((len == 64 ? ~0ull : ((1ull << len) - 1)) << i);
	}
	for (uint64_t i = 0; i < nrand; i++) { uint64_t r = xs64(&st); CHK(r); CHK(r & xs64(&st)); CHK(r << (xs64(&st) & 63)); }
	printf("OK %llu\n", (unsigned long long)n);
	return 0;
}
#endif

#ifdef PURE_ROTENC
/* C19 random walks against the true (unbounded) position.  Walks head for the 8-, 14- and 16-bit wrap
 * points of the click / quarter-step counters in both directions and dither across them, with contact
 * bounce, repeated states and invalid two-bit jumps mixed in.  Prints the shortest failing prefix. */
static int64_t fdiv4(int64_t p) { return p >= 0 ? p / 4 : -((-p + 3) / 4); }
static int walk(uint64_t seed, long nwalks, long steps)
{
	static const uint8_t cw[4] = { 1, 3, 0, 2 }, ccw[4] = { 2, 0, 3, 1 }; /* next state by current state */
	static const int64_t targets[] = { 0, 1024, -1024, 2048, 65536, -65536, 32768, -32768, 131072, 4096, -4096, 512, -512 };
	uint64_t st = seed * 0x9E3779B97F4A7C15ull + 7;
	long total = 0;
	for (long w = 0; w < nwalks; w++) {
		rotenc_t r = ROTENC_VAR_INIT;
		int64_t P = 0, L = 0;
		uint8_t cur = 0;
		int64_t tgt = targets[xs64(&st) % (sizeof targets / sizeof *targets)] + (int64_t)(xs64(&st) % 9) - 4;
		static uint8_t hist[1 << 20];
		for (long i = 0; i < steps && i < (1 << 20); i++) {
			unsigned k = xs64(&st) % 100;
			uint8_t nx;
			if (P == tgt || k < 3) { /* arrived (or bored): dither a little, then choose a new target */
				if (xs64(&st) % 6 == 0)
					tgt = targets[xs64(&st) % (sizeof targets / sizeof *targets)] + (int64_t)(xs64(&st) % 9) - 4;
				nx = (xs64(&st) & 1) ? cw[cur] : ccw[cur];
			} else if (k < 8) nx = cur;                 /* repeated state */
			else if (k < 12) nx = cur ^ 3;              /* invalid two-bit jump */
			else if (k < 24) nx = (P < tgt) ? ccw[cur] : cw[cur]; /* bounce back */
			else nx = (P < tgt) ? cw[cur] : ccw[cur];  /* head for the target */
			hist[i] = nx;
			P += ref_delta(cur, nx);
			cur = nx;
			if (nx == 0) L = P;
			rotenc_decode(&r, nx);
			total++;
			unsigned c8 = rotenc_count(&r), c14 = rotenc_count14(&r);
			const char *bad = NULL;
#ifndef VERIF_BLACKBOX
			if (r.internal_count != (uint16_t)P) bad = "position";
			else
#endif
			if (c8 != (uint8_t)fdiv4(L)) bad = "count";
			else if (c14 != (uint16_t)(fdiv4(L) & 0x3fff)) bad = "count14";
			else if ((c14 & 0xff) != c8) bad = "low8";
			if (bad) {
				printf("FAIL walk %s seed=%llu walk=%ld step=%ld P=%lld latched=%lld count=%u count14=%u internal=%u want_count=%u want_count14=%u states=",
				       bad, (unsigned long long)seed, w, i, (long long)P, (long long)L, c8, c14,
#ifndef VERIF_BLACKBOX
				       r.internal_count,
#else
				       0u,
#endif
				       (unsigned)(uint8_t)fdiv4(L), (unsigned)(fdiv4(L) & 0x3fff));
				/* compress the history as run-length of quarter steps for readability */
				for (long j = 0; j <= i; j++) putchar('0' + hist[j]);
				putchar('\n');
				return 0;
			}
		}
	}
	printf("OK %ld\n", total);
	return 0;
}

/* replay an explicit state string ("013201...") and print the readings after every step */
static int walk_replay(const char *states)
{
	rotenc_t r = ROTENC_VAR_INIT; int64_t P = 0, L = 0; uint8_t cur = 0; int bad = 0;
	for (const char *p = states; *p; p++) {
		uint8_t nx = (*p - '0') & 3;
		P += ref_delta(cur, nx); cur = nx; if (!nx) L = P;
		rotenc_decode(&r, nx);
		if (
#ifndef VERIF_BLACKBOX
		    r.internal_count != (uint16_t)P ||
#endif
		    rotenc_count(&r) != (uint8_t)fdiv4(L) || rotenc_count14(&r) != (uint16_t)(fdiv4(L) & 0x3fff)) bad = 1;
	}
	printf("%s P=%lld latched=%lld count=%u count14=%u want_count14=%u\n", bad ? "FAIL" : "OK", (long long)P, (long long)L,
	       rotenc_count(&r), rotenc_count14(&r), (unsigned)(fdiv4(L) & 0x3fff));
	return 0;
}
#endif

int main(int argc, char **argv)
{
#ifdef PURE_ROTENC
	if (argc >= 5 && !strcmp(argv[1], "walk"))
		return walk(strtoull(argv[2], 0, 10), atol(argv[3]), atol(argv[4]));
	if (argc >= 3 && !strcmp(argv[1], "walkreplay"))
		return walk_replay(argv[2]);
#endif
#ifdef PURE_BITS
	if (argc >= 4 && !strcmp(argv[1], "macros"))
		return sweep_macros(strtoull(argv[2], 0, 10), strtoull(argv[3], 0, 10));
#endif
	if (argc >= 3 && !strcmp(argv[1], "sweep"))
		return sweep(argv[2], argc > 3 ? atoi(argv[3]) : 16);
	char line[256], op[32];
	setvbuf(stdout, NULL, _IOLBF, 0); /* keep output up to a crash */
	while (fgets(line, sizeof line, stdin)) {
		unsigned long long a = 0, b = 0, c = 0, d = 0;
		int n = sscanf(line, "%31s %llu %llu %llu %llu", op, &a, &b, &c, &d);
		if (n < 2) { puts("bad-op"); continue; }
		if (0) ;
#ifdef PURE_BITS
		else if (!strcmp(op, "bitcnt")) printf("%d\n", bitcnt((uint32_t)a));
		else if (!strcmp(op, "clz")) printf("%d\n", clz((uint32_t)a));
		else if (!strcmp(op, "ctz")) printf("%d\n", ctz((uint32_t)a));
		else if (!strcmp(op, "ilog2")) printf("%d\n", a ? ilog2((uint32_t)a) : 31 - clz(0));
		else if (!strcmp(op, "const_pop")) printf("%d\n", rt_const_pop(a));
		else if (!strcmp(op, "const_lssb")) printf("%d\n", rt_const_lssb(a));
		/* the macro's value in its OWN expression type (no conversion to int): sign test and halving */
		else if (!strcmp(op, "const_lssb_sign")) { uint64_t v_ = a; printf("%d %lld\n", const_lssb(v_) < 0 ? 1 : 0, (long long)(const_lssb(v_) / 2)); }
		else if (!strcmp(op, "regdump")) {   /* the real fregdump on a one-field description: prints the field value it printed */
			regdump_desc_t desc[3] = { { "REG", 0 }, { "FIELD", (uintreg_t)b }, { NULL, 0 } };
			char *buf = NULL; size_t sz = 0; FILE *f = open_memstream(&buf, &sz);
			fregdump(f, (uintreg_t)a, desc); fclose(f);
			char *p = buf ? strstr(buf, ": 0x") : NULL;
			if (p) { char *nl = strchr(p, '\n'); if (nl) *nl = 0; }
			printf("%s\n", p ? p + 4 : "none"); free(buf);
		}
#endif
#ifdef PURE_RAND
		else if (!strcmp(op, "rand31")) { uint32_t s = (uint32_t)a; uint32_t r = rand31_r(&s); printf("%u %u\n", r, s); }
#endif
#ifdef PURE_ROTENC
#ifndef VERIF_BLACKBOX
		else if (!strcmp(op, "rotenc")) {
			rotenc_t r; memset(&r, 0, sizeof r);
			r.last_state = a; r.count = b; r.internal_count = c;
			rotenc_decode(&r, (uint8_t)d);
			printf("%u %u %u %u %u\n", r.last_state, (unsigned)r.count, r.internal_count, rotenc_count14(&r), rotenc_count(&r));
		}
#endif
#endif
		else puts("bad-op");
	}
	return 0;
}

/* C05 harness: the UNMODIFIED $REPO/librfn/ringbuf.c (compiled as its own translation unit with
 * harness/shim first on the include path) driven by one producer and one consumer logical thread whose
 * interleaving is exactly the schedule read from stdin (harness/baton.h).
 *
 * ops (one per line):
 *   reset                          -> ok
 *   ring <len> <start> <fill>      storage of <len> bytes filled with <fill>, 8 guard bytes (0xEE) on either
 *                                  side, ringbuf_init, then readi = writei = <start> set through the struct -> ok
 *   prod <op>...                   producer script: put:<byte> | putchar:<byte>                              -> ok
 *   cons <op>...                   consumer script: get | empty                                            -> ok
 *   run <tok>...                   schedule: "0"/"1" = one segment of producer/consumer; "0c"/"1c" = run that
 *                                  thread until its current (or next) call has returned (interrupt-style
 *                                  run-to-completion).  When the schedule is used up the threads alternate
 *                                  0,1,0,1… until both scripts are finished.  Prints one line per segment
 *                                  (see baton.h), "stuck" if a budget of segments is exceeded (a spinning
 *                                  ringbuf_putchar nobody will ever free), then "end".
 *   drain                          sequential ringbuf_get until -1 from the main thread -> "drain v v … | empty=<0|1> r= w="
 *   --                             -> --
 */
#include "baton.h"
#include <stdio.h>
#include <stdlib.h>
#include <string.h>
#include <librfn/ringbuf.h>

#define GUARD 8
#define MAXOPS 256
#define CALL_BUDGET 400          /* segments one "<t>c" token may take */
#define TAIL_BUDGET 600          /* segments the final alternation may take */

static ringbuf_t rb;
static uint8_t *block;           /* GUARD + len + GUARD bytes */
static unsigned len;
static struct { int kind; int byte; } pops[MAXOPS];   /* kind 0 put, 1 putchar */
static int cops[MAXOPS];                              /* 0 get, 1 empty */
static int npops, ncops;
static volatile int completed[2];

static int guards_ok(void)
{
	if (!block)
		return 1;
	for (int i = 0; i < GUARD; i++)
		if (block[i] != 0xEE || block[GUARD + len + i] != 0xEE)
			return 0;
	return 1;
}

static void suffix(char *dst, size_t n)
{
	size_t k = snprintf(dst, n, " | r=%u w=%u buf=", (unsigned)__atomic_load_n(&rb.readi, __ATOMIC_SEQ_CST),
			    (unsigned)__atomic_load_n(&rb.writei, __ATOMIC_SEQ_CST));
	for (unsigned i = 0; i < len && k + 3 < n; i++)
		k += snprintf(dst + k, n - k, "%02x", block[GUARD + i]);
	snprintf(dst + k, n - k, " g=%s", guards_ok() ? "ok" : "BAD");
}

static void producer(void *arg)
{
	char ev[96];
	(void)arg;
	for (int i = 0; i < npops; i++) {
		if (pops[i].kind == 0) {
			snprintf(ev, sizeof ev, "call put %d", pops[i].byte);
			baton_set_pending(ev);
			bool ok = ringbuf_put(&rb, (uint8_t)pops[i].byte);
			snprintf(ev, sizeof ev, "ret put %d", ok ? 1 : 0);
		} else {
			snprintf(ev, sizeof ev, "call putchar %d", pops[i].byte);
			baton_set_pending(ev);
			ringbuf_putchar(&rb, (char)pops[i].byte);
			snprintf(ev, sizeof ev, "ret putchar");
		}
		completed[0]++;
		if (i + 1 < npops)
			baton_yield(ev);
		else
			baton_finish(ev);
	}
}

static void consumer(void *arg)
{
	char ev[96];
	(void)arg;
	for (int i = 0; i < ncops; i++) {
		if (cops[i] == 0) {
			baton_set_pending("call get");
			int d = ringbuf_get(&rb);
			snprintf(ev, sizeof ev, "ret get %d", d);
		} else {
			baton_set_pending("call empty");
			bool e = ringbuf_empty(&rb);
			snprintf(ev, sizeof ev, "ret empty %d", e ? 1 : 0);
		}
		completed[1]++;
		if (i + 1 < ncops)
			baton_yield(ev);
		else
			baton_finish(ev);
	}
}

static void idle_line(int t)
{
	char suf[256];
	suffix(suf, sizeof suf);
	printf("T%d idle%s\n", t, suf);
}

/* returns 0 if the budget ran out */
static int run_token(int t, int to_completion)
{
	if (baton_done[t] || t >= baton_n) {
		idle_line(t);
		return 1;
	}
	if (!to_completion) {
		baton_step(t);
		return 1;
	}
	int c0 = completed[t];
	for (int k = 0; k < CALL_BUDGET; k++) {
		baton_step(t);
		if (completed[t] != c0 || baton_done[t])
			return 1;
	}
	return 0;
}

static void do_run(char *toks)
{
	int stuck = 0;
	baton_init();
	completed[0] = completed[1] = 0;
	/* a thread with an empty script never exists: its schedule entries print "idle" */
	int has0 = npops > 0, has1 = ncops > 0;
	if (has0) baton_spawn(producer, NULL); else { baton_n = 1; baton_done[0] = 1; baton_live[0] = 0; }
	if (has1) baton_spawn(consumer, NULL); else { baton_n = 2; baton_done[1] = 1; baton_live[1] = 0; }
	for (char *tok = strtok(toks, " \t\r\n"); tok && !stuck; tok = strtok(NULL, " \t\r\n")) {
		int t = tok[0] - '0';
		if ((t != 0 && t != 1) || (tok[1] && strcmp(tok + 1, "c"))) {
			puts("bad-token");
			continue;
		}
		if (!run_token(t, tok[1] == 'c'))
			stuck = 1;
	}
	for (int k = 0, t = 0; !stuck && !(baton_done[0] && baton_done[1]); t ^= 1) {
		if (baton_done[t])
			continue;
		if (k++ >= TAIL_BUDGET) {
			stuck = 1;
			break;
		}
		baton_step(t);
	}
	if (stuck)
		puts("stuck");
	baton_join_all();
	npops = ncops = 0;               /* a script runs once */
	puts("end");
}

static void free_ring(void)
{
	free(block);
	block = NULL;
	len = 0;
	npops = ncops = 0;
	baton_forget_names();
}

int main(void)
{
	static char line[8192];
	setvbuf(stdout, NULL, _IOLBF, 0);
	baton_suffix = suffix;
	baton_pin();
	while (fgets(line, sizeof line, stdin)) {
		char op[32];
		int off = 0;
		if (sscanf(line, "%31s%n", op, &off) < 1)
			continue;
		char *rest = line + off;
		if (!strcmp(op, "--")) {
			puts("--");
		} else if (!strcmp(op, "reset")) {
			free_ring();
			puts("ok");
		} else if (!strcmp(op, "ring")) {
			unsigned l, s, f;
			if (sscanf(rest, "%u %u %u", &l, &s, &f) != 3 || l < 1 || l > 64 || s >= l) {
				puts("bad-op");
				continue;
			}
			free_ring();
			len = l;
			block = malloc(len + 2 * GUARD);       /* exactly sized: ASan sees anything beyond the guards */
			memset(block, 0xEE, len + 2 * GUARD);
			memset(block + GUARD, (int)f, len);
			ringbuf_init(&rb, block + GUARD, len);
			__atomic_store_n(&rb.readi, s, __ATOMIC_SEQ_CST);
			__atomic_store_n(&rb.writei, s, __ATOMIC_SEQ_CST);
			baton_name(&rb.readi, sizeof rb.readi, "readi");
			baton_name(&rb.writei, sizeof rb.writei, "writei");
			puts("ok");
		} else if (!strcmp(op, "prod") || !strcmp(op, "cons")) {
			int isp = op[0] == 'p', bad = 0, n = 0;
			for (char *tok = strtok(rest, " \t\r\n"); tok; tok = strtok(NULL, " \t\r\n")) {
				int b;
				if (n >= MAXOPS) { bad = 1; break; }
				if (isp && sscanf(tok, "put:%d", &b) == 1) { pops[n].kind = 0; pops[n++].byte = b & 255; }
				else if (isp && sscanf(tok, "putchar:%d", &b) == 1) { pops[n].kind = 1; pops[n++].byte = b & 255; }
				else if (!isp && !strcmp(tok, "get")) cops[n++] = 0;
				else if (!isp && !strcmp(tok, "empty")) cops[n++] = 1;
				else { bad = 1; break; }
			}
			if (bad) { puts("bad-op"); continue; }
			if (isp) npops = n; else ncops = n;
			puts("ok");
		} else if (!strcmp(op, "run")) {
			if (!block) { puts("bad-op"); continue; }
			do_run(rest);
		} else if (!strcmp(op, "drain")) {
			if (!block) { puts("bad-op"); continue; }
			printf("drain");
			for (unsigned i = 0; i < len + 2; i++) {
				int d = ringbuf_get(&rb);
				if (d == -1)
					break;
				printf(" %d", d);
			}
			printf(" | empty=%d r=%u w=%u g=%s\n", ringbuf_empty(&rb) ? 1 : 0,
			       (unsigned)__atomic_load_n(&rb.readi, __ATOMIC_SEQ_CST),
			       (unsigned)__atomic_load_n(&rb.writei, __ATOMIC_SEQ_CST), guards_ok() ? "ok" : "BAD");
		} else {
			puts("bad-op");
		}
	}
	return 0;
}

/* One fresh process image per history.
 *
 * Harnesses that #include a library source with file-static state (console.c: command table; fibre.c: kernel; mlog.c:
 * log) used to put that state back themselves between histories - which silently misses any static object a later
 * version of the library adds (a cached length, a memo, a flag): the second history then starts from the first one's
 * leftovers and the check reports a difference that is the harness's own doing.
 *
 * Built with -Dmain=harness_main and linked with this file, the harness's own main loop runs in a child that is
 * forked from the pristine image for every history (= the input lines up to and including the separator "--"), so
 * every static object starts as its static initialiser says.  The parent never touches stdio on fd 0 (raw reads), so
 * the child's stdin FILE is empty when it is pointed at the history's pipe.
 *
 * A child that does not exit normally is a result of that history: the parent prints the same line the Python driver
 * prints for a dead harness, `!! CRASH rc=<n> <what>`, then the separator, and carries on with the next history. */
#define _GNU_SOURCE
#undef main           /* the harness is compiled with -Dmain=harness_main in the same command */
#include <errno.h>
#include <stdio.h>
#include <stdlib.h>
#include <string.h>
#include <unistd.h>
#include <sys/mman.h>
#include <sys/wait.h>
#include <signal.h>

int harness_main();

static void put(const char *s) { size_t n = strlen(s); while (n) { ssize_t k = write(1, s, n); if (k <= 0) break; s += k; n -= (size_t)k; } }

static void crash_line(int status, int errfd)
{
	static char err[1 << 16];
	char msg[400], out[600];
	ssize_t n = pread(errfd, err, sizeof err - 1, 0);
	if (n < 0) n = 0;
	err[n] = 0;
	const char *p;
	msg[0] = 0;
	if ((p = strstr(err, "ERROR: AddressSanitizer: "))) {
		size_t k = strlen("ERROR: AddressSanitizer: ");
		while (p[k] && (p[k] == '-' || p[k] == '_' || (p[k] >= 'a' && p[k] <= 'z') || (p[k] >= 'A' && p[k] <= 'Z') || (p[k] >= '0' && p[k] <= '9'))) k++;
		snprintf(msg, sizeof msg, "%.*s", (int)k, p);
	} else if ((p = strstr(err, "runtime error: "))) {
		size_t k = strcspn(p, "\n"); if (k > 135) k = 135;
		snprintf(msg, sizeof msg, "%.*s", (int)k, p);
	} else if ((p = strstr(err, "Assertion "))) {
		size_t k = strcspn(p, "\n"); if (k > 170) k = 170;
		snprintf(msg, sizeof msg, "%.*s", (int)k, p);
	} else {
		size_t len = strlen(err), from = len > 160 ? len - 160 : 0;
		snprintf(msg, sizeof msg, "%s", err + from);
		for (char *q = msg; *q; q++) if (*q == '\n' || *q == '\r') *q = ' ';
	}
	int rc = WIFSIGNALED(status) ? -WTERMSIG(status) : WEXITSTATUS(status);
	snprintf(out, sizeof out, "!! CRASH rc=%d %s\n", rc, msg);
	put(out);
}

int main(int argc, char **argv)
{
	if (argc > 1)			/* argument modes (sweeps etc.) are single runs */
		return harness_main(argc, argv);
	signal(SIGPIPE, SIG_IGN);	/* a child that died before reading its whole history */
	size_t cap = 1 << 20, len = 0, scan = 0;
	char *buf = malloc(cap);
	int eof = 0;
	for (;;) {
		/* find the end of the next history in what has been read so far */
		size_t end = 0;
		for (;;) {
			char *nl;
			while (scan < len && (nl = memchr(buf + scan, '\n', len - scan))) {
				size_t ls = scan, le = (size_t)(nl - buf);
				scan = le + 1;
				if (le - ls == 2 && buf[ls] == '-' && buf[ls + 1] == '-') { end = scan; break; }
			}
			if (end || eof) break;
			if (len == cap) { cap *= 2; buf = realloc(buf, cap); }
			ssize_t k = read(0, buf + len, cap - len);
			if (k < 0 && errno == EINTR) continue;
			if (k <= 0) { eof = 1; break; }
			len += (size_t)k;
		}
		if (!end) end = len;		/* last history without a separator */
		if (!end) break;
		int sep = end >= 3 && !memcmp(buf + end - 3, "--\n", 3);
		int p[2];
		if (pipe(p)) return 2;
		int errfd = memfd_create("harness-stderr", 0);
		pid_t pid = fork();
		if (pid < 0) return 2;
		if (!pid) {
			close(p[1]);
			dup2(p[0], 0); close(p[0]);
			if (errfd >= 0) { dup2(errfd, 2); close(errfd); }
			free(buf);
			signal(SIGPIPE, SIG_DFL);
			int rc = harness_main(argc, argv);
			fflush(NULL);
			_exit(rc);	/* not exit(): the sanitizer's end-of-process leak scan costs milliseconds per history */
		}
		close(p[0]);
		for (size_t off = 0; off < end; ) {
			ssize_t k = write(p[1], buf + off, end - off);
			if (k < 0 && errno == EINTR) continue;
			if (k <= 0) break;		/* the child died: EPIPE is ignored below */
			off += (size_t)k;
		}
		close(p[1]);
		int status = 0;
		while (waitpid(pid, &status, 0) < 0 && errno == EINTR) ;
		if (!(WIFEXITED(status) && WEXITSTATUS(status) == 0)) {
			crash_line(status, errfd);
			if (sep) put("--\n");
		}
		if (errfd >= 0) close(errfd);
		memmove(buf, buf + end, len - end);
		len -= end; scan = 0;
		if (eof && !len) break;
	}
	free(buf);
	return 0;
}

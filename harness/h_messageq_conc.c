/* C04 harness: controlled interleavings of the UNMODIFIED librfn/messageq.c (compiled with harness/shim_mq/stdatomic.h
 * first on the include path).  Logical threads are pthreads passing a baton: a thread runs only between a `sem_post` by
 * the scheduler and its next yield, and it yields immediately before every atomic operation of the library and before every
 * plain payload access of the test program.  One schedule token therefore executes exactly one such operation plus the
 * thread-local code that follows it.
 *
 * input lines:
 *   reset                                        -> ok
 *   cfg <depth> <msglen> <rtries> <poll> <prog>...   sender programs: s<k> = k x (claim, write, send); h = claim once and keep it
 *                                                    the receiver (thread id = number of senders) does <rtries> x
 *                                                    ([empty] receive [read release]); poll=1 calls messageq_empty first
 *   run <tok>...                                 tokens: <tid> one operation of that thread; <tid>! until the thread finishes
 *                                                its current claim/send (resp. receive/release) iteration; tokens naming a
 *                                                finished thread are skipped; afterwards the unfinished threads are run to
 *                                                completion in thread order
 *   nest <depth> <msglen> <held> <levels> <where>   deep synchronous nesting on ONE OS thread (interrupt style, any number of
 *                                                logical contexts — the baton has only 8 threads): contexts 0..held-1 claim a
 *                                                buffer and keep it; then <levels> further contexts each run claim [write send];
 *                                                immediately before the (<where>+1)-th atomic operation of a context's claim the
 *                                                next context runs its whole iteration nested inside (re-entry from the shim
 *                                                hook); contexts that were never reached run afterwards
 *   --                                           -> --
 * output: one line per operation  `T<tid> <op> <field> <order> <before> <after>`, `T<tid> write|read slot<i> plain <v>`,
 *   `T<tid> ret <call> <result>`, then `end ...` (shared state), `final ...` (main thread drains and counts free buffers).
 * An independent ownership monitor (it knows nothing about counters, indices or flags) prints `MONITOR: ...` lines. */
#include <stdio.h>
#include <stdlib.h>
#include <string.h>
#include <unistd.h>
#include <pthread.h>
#include <semaphore.h>
#include <librfn/messageq.h>

#define MAXT 8
#define MAXCTX 1024
#define MAXTICK 4096
#define STEP_LIMIT 20000

static sem_t sem[MAXT], sched_sem;
static volatile int done[MAXT], boundary[MAXT];
static __thread int me = -1;
static int nthreads, nsend;
static int depth, msglen, rtries, poll_empty;
static int prog_count[MAXT], prog_hold[MAXT];
static messageq_t q;
static unsigned char *store;
static long steps;

/* ------------------------------------------------------------------ monitor (specification side) */
enum { FREE = 0, CLAIMED, SENT, HELD };
static int own_state[64], own_tid[64], own_ticket[64];
static int tick_slot[MAXTICK], tick_stamp[MAXTICK], tick_state[MAXTICK];
static int nclaimed, nreceived, outstanding;
static int in_claim[MAXCTX], saw_full[MAXCTX], nin_claim;
static int violations;
#define V(...) do { violations++; printf("MONITOR: " __VA_ARGS__); printf("\n"); } while (0)

static void mon_reset(void)
{
	memset(own_state, 0, sizeof own_state);
	memset(in_claim, 0, sizeof in_claim);
	memset(saw_full, 0, sizeof saw_full);
	nclaimed = nreceived = outstanding = nin_claim = violations = 0;
}

/* called at every instant at which shared state is about to change */
static void mon_tick(void)
{
	for (int t = 0; t < nthreads; t++)
		if (in_claim[t] && outstanding + (nin_claim - 1) >= depth)
			saw_full[t] = 1;
}

static int slot_of(const unsigned char *p)
{
	long off = p - store;
	if (off < 0 || off % msglen || off / msglen >= depth)
		return -1;
	return (int)(off / msglen);
}

static void mon_claim_begin(int t)
{
	in_claim[t] = 1; saw_full[t] = 0; nin_claim++;
	mon_tick();
}

static int mon_claim_end(int t, unsigned char *p)
{
	int slot = -1;
	in_claim[t] = 0; nin_claim--;
	if (!p) {
		if (!saw_full[t])
			V("claim by T%d failed although a buffer was free during the whole call (held %d of %d, other claims in progress %d)",
			  t, outstanding, depth, nin_claim);
		return -1;
	}
	slot = slot_of(p);
	if (slot < 0) {
		V("claim by T%d returned a pointer outside the storage or not at a multiple of the message size (offset %ld)", t, (long)(p - store));
		return -1;
	}
	if (own_state[slot] != FREE)
		V("slot %d handed out to T%d while %s T%d (ticket %d)", slot, t,
		  own_state[slot] == CLAIMED ? "claimed by" : own_state[slot] == SENT ? "in flight from" : "held by the receiver, sent by",
		  own_tid[slot], own_ticket[slot]);
	if (nclaimed < MAXTICK) {
		tick_slot[nclaimed] = slot; tick_state[nclaimed] = CLAIMED; tick_stamp[nclaimed] = -1;
	}
	own_state[slot] = CLAIMED; own_tid[slot] = t; own_ticket[slot] = nclaimed;
	nclaimed++; outstanding++;
	if (outstanding > depth)
		V("%d buffers handed out and not released, the queue holds %d", outstanding, depth);
	return slot;
}

static void mon_written(int t, int slot, int stamp)
{
	if (own_state[slot] != CLAIMED || own_tid[slot] != t)
		V("T%d writes slot %d which it does not own", t, slot);
	else if (own_ticket[slot] < MAXTICK)
		tick_stamp[own_ticket[slot]] = stamp;
}

static void mon_send_end(int t, int slot)
{
	if (own_state[slot] != CLAIMED || own_tid[slot] != t) {
		V("T%d sent slot %d which it does not own", t, slot);
		return;
	}
	own_state[slot] = SENT;
	if (own_ticket[slot] < MAXTICK)
		tick_state[own_ticket[slot]] = SENT;
}

static int mon_receive_end(unsigned char *p)
{
	if (!p)
		return -1;
	int slot = slot_of(p);
	if (slot < 0) {
		V("receive returned a pointer outside the storage (offset %ld)", (long)(p - store));
		return -1;
	}
	if (nreceived >= nclaimed) {
		V("receive returned slot %d but only %d messages were ever claimed", slot, nclaimed);
		return -1;
	}
	int k = nreceived;
	if (k < MAXTICK && tick_slot[k] != slot)
		V("receive #%d returned slot %d, expected slot %d (claim order)", k, slot, tick_slot[k]);
	if (own_state[slot] != SENT)
		V("receive #%d returned slot %d which is %s", k, slot,
		  own_state[slot] == FREE ? "free" : own_state[slot] == CLAIMED ? "claimed and not yet sent" : "already held by the receiver");
	own_state[slot] = HELD;
	if (k < MAXTICK)
		tick_state[k] = HELD;
	nreceived++;
	return slot;
}

static void mon_read(int slot, int v)
{
	int k = own_ticket[slot];
	if (own_state[slot] == HELD && k < MAXTICK && tick_stamp[k] != v)
		V("message %d in slot %d reads %d, its claimer wrote %d before sending", k, slot, v, tick_stamp[k]);
}

static void mon_release_end(int slot)
{
	if (own_state[slot] != HELD) {
		V("release of slot %d which the receiver does not hold", slot);
		return;
	}
	own_state[slot] = FREE;
	outstanding--;
}

/* ------------------------------------------------------------------ baton + shim hooks */
static void yield_point(void)
{
	sem_post(&sched_sem);
	sem_wait(&sem[me]);
	mon_tick();
}

static const char *field(const volatile void *a)
{
	if (a == (void *)&q.num_free) return "num_free";
	if (a == (void *)&q.sendp) return "sendp";
	if (a == (void *)&q.full_flags) return "full_flags";
	return "unknown-object";
}

static const char *ordname(int o)
{
	switch (o) {
	case __ATOMIC_RELAXED: return "relaxed";
	case __ATOMIC_CONSUME: return "consume";
	case __ATOMIC_ACQUIRE: return "acquire";
	case __ATOMIC_RELEASE: return "release";
	case __ATOMIC_ACQ_REL: return "acq_rel";
	case __ATOMIC_SEQ_CST: return "seq_cst";
	}
	return "?";
}

/* deep synchronous nesting (one OS thread): see `nest` in the header comment */
static int nest_mode, nest_where, nest_next, nest_end;
static int ctx_ops[MAXCTX], ctx_in_claim[MAXCTX];
static void nest_context(int id);

void verif_pre(const char *op, const volatile void *addr, int order, const char *file, int line)
{
	(void)op; (void)addr; (void)order; (void)file; (void)line;
	if (me < 0)
		return;
	if (nest_mode) {
		if (ctx_in_claim[me] && ctx_ops[me] == nest_where && nest_next < nest_end) {
			int saved = me;
			nest_context(nest_next++);     /* an "interrupt" between two atomic operations of this claim */
			me = saved;
		}
		mon_tick();
		return;
	}
	yield_point();
}

void verif_post(const char *op, const volatile void *addr, int order, unsigned long long before, unsigned long long after)
{
	if (me < 0)
		return;
	printf("T%d %s %s %s %llu %llu\n", me, op, field(addr), ordname(order), before, after);
	if (nest_mode && ctx_in_claim[me])
		ctx_ops[me]++;
}

/* ------------------------------------------------------------------ the logical threads */
static void *sender(void *arg)
{
	me = (int)(long)arg;
	sem_wait(&sem[me]);
	int n = prog_hold[me] ? 1 : prog_count[me];
	for (int j = 0; j < n; j++) {
		mon_claim_begin(me);
		unsigned char *p = messageq_claim(&q);
		int slot = mon_claim_end(me, p);
		if (!p) {
			printf("T%d ret claim NULL\n", me);
			boundary[me] = 1;
			continue;
		}
		if (slot < 0) {
			printf("T%d ret claim off%ld\n", me, (long)(p - store));
			boundary[me] = 1;
			continue;
		}
		printf("T%d ret claim %d\n", me, slot);
		if (prog_hold[me])
			break;
		int stamp = (me + 1) * 1000 + j;
		yield_point();                      /* plain payload write */
		memcpy(p, &stamp, sizeof stamp);
		printf("T%d write slot%d plain %d\n", me, slot, stamp);
		mon_written(me, slot, stamp);
		messageq_send(&q, p);
		mon_send_end(me, slot);
		printf("T%d ret send\n", me);
		boundary[me] = 1;
	}
	done[me] = 1;
	sem_post(&sched_sem);
	return NULL;
}

static void *receiver(void *arg)
{
	me = (int)(long)arg;
	sem_wait(&sem[me]);
	for (int j = 0; j < rtries; j++) {
		int nonempty = 0;
		if (poll_empty) {
			int e = messageq_empty(&q);
			printf("T%d ret empty %d\n", me, e ? 1 : 0);
			nonempty = !e;
		}
		unsigned char *p = messageq_receive(&q);
		int slot = mon_receive_end(p);
		if (!p) {
			printf("T%d ret receive NULL\n", me);
			if (nonempty)
				V("receive returned NULL after messageq_empty reported a message");
			boundary[me] = 1;
			continue;
		}
		if (slot < 0) {
			printf("T%d ret receive off%ld\n", me, (long)(p - store));
			boundary[me] = 1;
			continue;
		}
		printf("T%d ret receive %d\n", me, slot);
		int v;
		yield_point();                      /* plain payload read */
		memcpy(&v, p, sizeof v);
		printf("T%d read slot%d plain %d\n", me, slot, v);
		mon_read(slot, v);
		messageq_release(&q, p);
		mon_release_end(slot);
		printf("T%d ret release\n", me);
		boundary[me] = 1;
	}
	done[me] = 1;
	sem_post(&sched_sem);
	return NULL;
}

static void run_one(int t)
{
	if (++steps > STEP_LIMIT) {
		printf("!! STEP-LIMIT thread T%d never completes its operation\n", t);
		fflush(stdout);
		_exit(3);
	}
	sem_post(&sem[t]);
	sem_wait(&sched_sem);
}

static void run_iteration(int t)
{
	if (done[t])
		return;
	do {
		boundary[t] = 0;
		run_one(t);
	} while (!done[t] && !boundary[t]);
}

static void finish_scenario(void);

static void scenario(char *toks)
{
	pthread_t th[MAXT];
	store = malloc((size_t)depth * msglen);         /* exactly sized: ASan sees any access beyond it */
	memset(store, 0xEE, (size_t)depth * msglen);
	if (msglen & 4) {
		messageq_init(&q, store, (size_t)depth * msglen, msglen);
	} else {	/* the other way to make a queue: the static initialiser macro, given expressions as callers give it */
		size_t len_a = (size_t)depth * msglen / 2, len_b = (size_t)depth * msglen - len_a, ml_a = msglen / 2, ml_b = msglen - ml_a;
		messageq_t qs = MESSAGEQ_VAR_INIT(store, len_a + len_b, ml_a + ml_b);
		memcpy(&q, &qs, sizeof q);
	}
	mon_reset();
	steps = 0;
	sem_init(&sched_sem, 0, 0);
	for (long i = 0; i < nthreads; i++) {
		done[i] = 0; boundary[i] = 0;
		sem_init(&sem[i], 0, 0);
		pthread_create(&th[i], NULL, i < nsend ? sender : receiver, (void *)i);
	}
	for (int i = 0; i < nthreads; i++)
		run_one(i);                                  /* park every thread in front of its first operation */
	for (char *t = strtok(toks, " \n"); t; t = strtok(NULL, " \n")) {
		char *e;
		long tid = strtol(t, &e, 10);
		if (e == t || tid < 0 || tid >= nthreads) {
			printf("bad-token %s\n", t);
			continue;
		}
		if (*e == '!')
			run_iteration((int)tid);
		else if (!done[tid])
			run_one((int)tid);
	}
	for (int i = 0; i < nthreads; i++)
		while (!done[i])
			run_iteration(i);
	for (int i = 0; i < nthreads; i++)
		pthread_join(th[i], NULL);
	finish_scenario();
	for (int i = 0; i < nthreads; i++)
		sem_destroy(&sem[i]);
	sem_destroy(&sched_sem);
}

/* all logical threads / contexts have completed: state line, quiescence checks by the main thread */
static void finish_scenario(void)
{
	me = -1;
	printf("end num_free=%u sendp=%u flags=%u receivep=%u\n", (unsigned)atomic_load(&q.num_free),
	       (unsigned)atomic_load(&q.sendp), (unsigned)atomic_load(&q.full_flags), (unsigned)q.receivep);
	/* quiescent (no call in progress): the counter in the real structure must be capacity minus messages still held */
	if ((int)(unsigned)atomic_load(&q.num_free) != depth - outstanding)
		V("after all operations completed num_free is %u, capacity minus messages still held is %d",
		  (unsigned)atomic_load(&q.num_free), depth - outstanding);
	/* the main thread drains what was sent and counts the buffers that can still be claimed */
	int drained = 0, extra = 0, extra_bad = 0;
	for (;;) {
		unsigned char *p = messageq_receive(&q);
		int slot = mon_receive_end(p);
		if (!p || slot < 0)
			break;
		int v;
		memcpy(&v, p, sizeof v);
		mon_read(slot, v);
		messageq_release(&q, p);
		mon_release_end(slot);
		drained++;
	}
	if (nreceived < nclaimed && nreceived < MAXTICK && tick_state[nreceived] == SENT)
		V("message %d (slot %d) was sent but is never received", nreceived, tick_slot[nreceived]);
	int expect = depth - outstanding;
	for (int i = 0; i < 40; i++) {
		unsigned char *p = messageq_claim(&q);
		if (!p)
			break;
		int slot = slot_of(p);
		if (slot < 0)
			V("quiescent claim returned a pointer outside the storage");
		else if (own_state[slot] != FREE) {
			if (!extra_bad++)
				V("quiescent claim handed out slot %d which is still owned", slot);
		} else
			own_state[slot] = CLAIMED, own_tid[slot] = -1;
		extra++;
	}
	if (extra != expect)
		V("after all operations completed %d more buffers could be claimed, capacity minus messages still held is %d", extra, expect);
	printf("final drained=%d extra_claims=%d\n", drained, extra);
	free(store);
	store = NULL;
}

static void nest_context(int id)
{
	int hold = id < nsend;                 /* here nsend = number of contexts that only claim and keep their buffer */
	me = id;
	ctx_ops[id] = 0;
	ctx_in_claim[id] = !hold;              /* the holders fill the queue one after the other, nothing nests inside them */
	mon_claim_begin(id);
	unsigned char *p = messageq_claim(&q);
	ctx_in_claim[id] = 0;
	int slot = mon_claim_end(id, p);
	if (!p) {
		printf("T%d ret claim NULL\n", id);
		return;
	}
	if (slot < 0) {
		printf("T%d ret claim off%ld\n", id, (long)(p - store));
		return;
	}
	printf("T%d ret claim %d\n", id, slot);
	if (hold)
		return;
	int stamp = (id + 1) * 1000;
	mon_tick();
	memcpy(p, &stamp, sizeof stamp);
	printf("T%d write slot%d plain %d\n", id, slot, stamp);
	mon_written(id, slot, stamp);
	messageq_send(&q, p);
	mon_send_end(id, slot);
	printf("T%d ret send\n", id);
}

static void nest_scenario(int held, int levels, int where)
{
	store = malloc((size_t)depth * msglen);
	memset(store, 0xEE, (size_t)depth * msglen);
	if (msglen & 4) {
		messageq_init(&q, store, (size_t)depth * msglen, msglen);
	} else {	/* the other way to make a queue: the static initialiser macro, given expressions as callers give it */
		size_t len_a = (size_t)depth * msglen / 2, len_b = (size_t)depth * msglen - len_a, ml_a = msglen / 2, ml_b = msglen - ml_a;
		messageq_t qs = MESSAGEQ_VAR_INIT(store, len_a + len_b, ml_a + ml_b);
		memcpy(&q, &qs, sizeof q);
	}
	mon_reset();
	nsend = held;
	nthreads = held + levels;
	nest_mode = 1; nest_where = where; nest_next = 0; nest_end = held + levels;
	while (nest_next < nest_end)
		nest_context(nest_next++);
	nest_mode = 0;
	finish_scenario();
}

int main(void)
{
	static char line[1 << 18];
	int have_cfg = 0;
	setvbuf(stdout, NULL, _IOLBF, 0);
	while (fgets(line, sizeof line, stdin)) {
		if (!strncmp(line, "--", 2)) {
			puts("--");
		} else if (!strncmp(line, "reset", 5)) {
			have_cfg = 0;
			puts("ok");
		} else if (!strncmp(line, "cfg ", 4)) {
			char *t = strtok(line + 4, " \n");
			int k = 0, bad = 0;
			nsend = 0;
			for (; t; t = strtok(NULL, " \n"), k++) {
				if (k == 0) depth = atoi(t);
				else if (k == 1) msglen = atoi(t);
				else if (k == 2) rtries = atoi(t);
				else if (k == 3) poll_empty = atoi(t);
				else if (nsend < MAXT - 1 && t[0] == 's') { prog_hold[nsend] = 0; prog_count[nsend] = atoi(t + 1); nsend++; }
				else if (nsend < MAXT - 1 && t[0] == 'h') { prog_hold[nsend] = 1; prog_count[nsend] = 1; nsend++; }
				else bad = 1;
			}
			if (bad || k < 4 || depth < 1 || depth > 32 || msglen < (int)sizeof(int) || msglen > 4096 || rtries < 0) {
				puts("bad-cfg");
				have_cfg = 0;
			} else {
				nthreads = nsend + 1;
				have_cfg = 1;
				puts("ok");
			}
		} else if (!strncmp(line, "nest ", 5)) {
			int held = 0, levels = 0, where = 1;
			if (sscanf(line + 5, "%d %d %d %d %d", &depth, &msglen, &held, &levels, &where) != 5 || depth < 1 || depth > 32 ||
			    msglen < (int)sizeof(int) || msglen > 4096 || held < 0 || held > depth || levels < 1 || held + levels > MAXCTX || where < 1) {
				puts("bad-nest");
			} else {
				puts("ok");
				have_cfg = 0;
				nest_scenario(held, levels, where);
			}
		} else if (!strncmp(line, "run", 3)) {
			if (!have_cfg)
				puts("no-cfg");
			else
				scenario(line + 3);
		} else if (line[0] != '\n') {
			puts("bad-op");
		}
	}
	return 0;
}

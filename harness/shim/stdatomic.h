/* Include-path shim for <stdatomic.h> (tie D for the lock-free sources; DESIGN.md §2).
 *
 * Put `-I<verif>/harness/shim` FIRST on the include path when compiling the UNMODIFIED library sources.
 * The real header is pulled in with #include_next; afterwards the generic atomic operations are redefined
 * as statement expressions that call a hook before and after the real __atomic builtin:
 *
 *   verif_pre (op, addr, order, file, line)            before the operation (a scheduling point)
 *   verif_post(op, addr, order, before, after)         after it (log + second scheduling point)
 *
 * `order` is the memory-order argument actually passed (the non-_explicit forms pass seq_cst, as C11 says);
 * for a compare-exchange `order` = success*8 + failure.  `before`/`after`: load: both the value read;
 * store: after = value written; RMW: old and new value; compare-exchange: the expected value and the value
 * of the object afterwards (op name "cas_ok"/"cas_fail" in the post hook).
 * The hooks are implemented by harness/baton.h.  Nothing here changes what the operation does.
 */
#ifndef LIBRFN_VERIF_SHIM_STDATOMIC_H
#define LIBRFN_VERIF_SHIM_STDATOMIC_H
#include_next <stdatomic.h>

#ifdef __cplusplus
extern "C" {
#endif
void verif_pre(const char *op, const volatile void *addr, int order, const char *file, int line);
void verif_post(const char *op, const volatile void *addr, int order, unsigned long long before,
		unsigned long long after);
#ifdef __cplusplus
}
#endif

#undef atomic_load
#undef atomic_load_explicit
#undef atomic_store
#undef atomic_store_explicit
#undef atomic_exchange
#undef atomic_exchange_explicit
#undef atomic_fetch_add
#undef atomic_fetch_add_explicit
#undef atomic_fetch_sub
#undef atomic_fetch_sub_explicit
#undef atomic_fetch_or
#undef atomic_fetch_or_explicit
#undef atomic_fetch_xor
#undef atomic_fetch_xor_explicit
#undef atomic_fetch_and
#undef atomic_fetch_and_explicit
#undef atomic_compare_exchange_strong
#undef atomic_compare_exchange_strong_explicit
#undef atomic_compare_exchange_weak
#undef atomic_compare_exchange_weak_explicit

#define VERIF_U64(x) ((unsigned long long)(x))

#define atomic_load_explicit(p, mo)                                                          \
	({                                                                                   \
		__auto_type verif_p_ = (p);                                                  \
		int verif_mo_ = (mo);                                                        \
		verif_pre("load", verif_p_, verif_mo_, __FILE__, __LINE__);                  \
		__auto_type verif_v_ = __atomic_load_n(verif_p_, verif_mo_);                 \
		verif_post("load", verif_p_, verif_mo_, VERIF_U64(verif_v_), VERIF_U64(verif_v_)); \
		verif_v_;                                                                    \
	})
#define atomic_load(p) atomic_load_explicit(p, __ATOMIC_SEQ_CST)

#define atomic_store_explicit(p, v, mo)                                                      \
	({                                                                                   \
		__auto_type verif_p_ = (p);                                                  \
		int verif_mo_ = (mo);                                                        \
		__typeof__(__atomic_load_n(verif_p_, __ATOMIC_RELAXED)) verif_n_ = (v);      \
		verif_pre("store", verif_p_, verif_mo_, __FILE__, __LINE__);                 \
		__atomic_store_n(verif_p_, verif_n_, verif_mo_);                             \
		verif_post("store", verif_p_, verif_mo_, 0, VERIF_U64(verif_n_));            \
	})
#define atomic_store(p, v) atomic_store_explicit(p, v, __ATOMIC_SEQ_CST)

#define VERIF_RMW(name, builtin, p, v, mo)                                                   \
	({                                                                                   \
		__auto_type verif_p_ = (p);                                                  \
		int verif_mo_ = (mo);                                                        \
		__typeof__(__atomic_load_n(verif_p_, __ATOMIC_RELAXED)) verif_a_ = (v);      \
		verif_pre(name, verif_p_, verif_mo_, __FILE__, __LINE__);                    \
		__auto_type verif_o_ = builtin(verif_p_, verif_a_, verif_mo_);               \
		verif_post(name, verif_p_, verif_mo_, VERIF_U64(verif_o_),                   \
			   VERIF_U64(__atomic_load_n(verif_p_, __ATOMIC_RELAXED)));          \
		verif_o_;                                                                    \
	})
#define atomic_exchange_explicit(p, v, mo) VERIF_RMW("exchange", __atomic_exchange_n, p, v, mo)
#define atomic_exchange(p, v) atomic_exchange_explicit(p, v, __ATOMIC_SEQ_CST)
#define atomic_fetch_add_explicit(p, v, mo) VERIF_RMW("fetch_add", __atomic_fetch_add, p, v, mo)
#define atomic_fetch_add(p, v) atomic_fetch_add_explicit(p, v, __ATOMIC_SEQ_CST)
#define atomic_fetch_sub_explicit(p, v, mo) VERIF_RMW("fetch_sub", __atomic_fetch_sub, p, v, mo)
#define atomic_fetch_sub(p, v) atomic_fetch_sub_explicit(p, v, __ATOMIC_SEQ_CST)
#define atomic_fetch_or_explicit(p, v, mo) VERIF_RMW("fetch_or", __atomic_fetch_or, p, v, mo)
#define atomic_fetch_or(p, v) atomic_fetch_or_explicit(p, v, __ATOMIC_SEQ_CST)
#define atomic_fetch_xor_explicit(p, v, mo) VERIF_RMW("fetch_xor", __atomic_fetch_xor, p, v, mo)
#define atomic_fetch_xor(p, v) atomic_fetch_xor_explicit(p, v, __ATOMIC_SEQ_CST)
#define atomic_fetch_and_explicit(p, v, mo) VERIF_RMW("fetch_and", __atomic_fetch_and, p, v, mo)
#define atomic_fetch_and(p, v) atomic_fetch_and_explicit(p, v, __ATOMIC_SEQ_CST)

#define VERIF_CAS(weak, p, e, d, smo, fmo)                                                   \
	({                                                                                   \
		__auto_type verif_p_ = (p);                                                  \
		__auto_type verif_e_ = (e);                                                  \
		int verif_s_ = (smo), verif_f_ = (fmo);                                      \
		__typeof__(__atomic_load_n(verif_p_, __ATOMIC_RELAXED)) verif_d_ = (d);      \
		__auto_type verif_x_ = *verif_e_;                                            \
		verif_pre("cas", verif_p_, verif_s_ * 8 + verif_f_, __FILE__, __LINE__);     \
		_Bool verif_ok_ = __atomic_compare_exchange_n(verif_p_, verif_e_, verif_d_, weak, verif_s_, verif_f_); \
		verif_post(verif_ok_ ? "cas_ok" : "cas_fail", verif_p_, verif_s_ * 8 + verif_f_, VERIF_U64(verif_x_), \
			   VERIF_U64(__atomic_load_n(verif_p_, __ATOMIC_RELAXED)));          \
		verif_ok_;                                                                   \
	})
#define atomic_compare_exchange_strong_explicit(p, e, d, s, f) VERIF_CAS(0, p, e, d, s, f)
#define atomic_compare_exchange_strong(p, e, d) VERIF_CAS(0, p, e, d, __ATOMIC_SEQ_CST, __ATOMIC_SEQ_CST)
/* the weak form is run as the strong one: no spurious failure is injected (a spurious failure only adds a retry) */
#define atomic_compare_exchange_weak_explicit(p, e, d, s, f) VERIF_CAS(0, p, e, d, s, f)
#define atomic_compare_exchange_weak(p, e, d) VERIF_CAS(0, p, e, d, __ATOMIC_SEQ_CST, __ATOMIC_SEQ_CST)

#endif

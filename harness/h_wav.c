/* C13/C14 harness: the real wavheader.c (+ pack.c) driven by the line protocol of lean/Librfn/Driver/Wav.lean.
 * Input and output buffers are exactly-sized heap blocks (ASan sees a one-byte over-read/over-write);
 * SIGFPE / SIGSEGV (also from stack exhaustion: alternate signal stack) raised by a library call and calls that do not
 * return within 2 s (`!! HANG`) are caught and reported as the output of that op.
 * ops: prior <160 hex> | init sf nch fmt | frames n | show | validate | getfmt | tostring | enc sz
 *      | dec sz <hex|-> | decbuf k | reset ; "--" echoes "--" */
#include <stdio.h>
#include <stdlib.h>
#include <string.h>
#include <signal.h>
#include <setjmp.h>
#include <unistd.h>
#include <librfn.h>

static rf_wavheader_t wh;
static uint8_t *kept; static size_t keptn;
static sigjmp_buf jb; static volatile int armed;

static void on_sig(int s)
{
	if (armed) siglongjmp(jb, s);
	signal(s, SIG_DFL); raise(s);
}

static int hexv(int c) { return (c >= '0' && c <= '9') ? c - '0' : (c >= 'a' && c <= 'f') ? c - 'a' + 10 : -1; }
static long parse_hex(const char *s, uint8_t **out)
{
	size_t n = strlen(s);
	if (!strcmp(s, "-")) { *out = malloc(0); return 0; }
	if (n % 2) return -1;
	uint8_t *p = malloc(n / 2);
	for (size_t i = 0; i < n / 2; i++) {
		int a = hexv(s[2 * i]), b = hexv(s[2 * i + 1]);
		if (a < 0 || b < 0) { free(p); return -1; }
		p[i] = (uint8_t)(a * 16 + b);
	}
	*out = p;
	return (long)(n / 2);
}
static void put_hex(const uint8_t *p, size_t n)
{
	if (!n) { fputs("-", stdout); return; }
	for (size_t i = 0; i < n; i++) printf("%02x", p[i]);
}
static void cls(int r, unsigned int sz)
{
	if (r < 0) fputs("neg", stdout);
	else if ((unsigned int)r > sz) fputs("gt", stdout);
	else printf("%d", r);
}
static void show(void)
{
	printf("wh cid="); put_hex(wh.chunk_id, 4); printf(" cs=%u fmt=", wh.chunk_size); put_hex(wh.format, 4);
	printf(" fid="); put_hex(wh.fmt_chunk_id, 4);
	printf(" fcs=%u af=%u nc=%u sr=%u br=%u ba=%u bps=%u cb=%u vb=%u cm=%u sub=", wh.fmt_chunk_size, wh.audio_format,
	       wh.num_channels, wh.sample_rate, wh.byte_rate, wh.block_align, wh.bits_per_sample, wh.cb_size,
	       wh.valid_bits_per_sample, wh.channel_mask);
	put_hex(wh.sub_format, 16); printf(" fa="); put_hex(wh.fact_chunk_id, 4);
	printf(" fas=%u sl=%u did=", wh.fact_chunk_size, wh.sample_length); put_hex(wh.data_chunk_id, 4);
	printf(" ds=%u\n", wh.data_chunk_size);
}
static void do_dec(const uint8_t *src, unsigned int sz)
{
	uint8_t *b = malloc(sz);
	memcpy(b, src, sz);
	int r = rf_wavheader_decode(b, sz, &wh);
	free(b);
	fputs("dec ret=", stdout); cls(r, sz); putchar('\n');
}

int main(void)
{
	static char line[1 << 16], op[32], a1[1 << 16], a2[1 << 16], a3[64];
	setvbuf(stdout, NULL, _IOLBF, 0); /* keep output up to a crash */
	/* the handlers run on their own stack, so that exhausting the stack (unbounded recursion) is reported as an
	 * output of the op like any other fault; every op runs under a 2 s alarm, so that a call that does not return is
	 * reported as `!! HANG` and the run goes on */
	static char altstack[1 << 16];
	stack_t ss; memset(&ss, 0, sizeof ss); ss.ss_sp = altstack; ss.ss_size = sizeof altstack; sigaltstack(&ss, NULL);
	struct sigaction sa; memset(&sa, 0, sizeof sa); sa.sa_handler = on_sig; sa.sa_flags = SA_NODEFER | SA_ONSTACK;
	sigaction(SIGFPE, &sa, NULL); sigaction(SIGSEGV, &sa, NULL); sigaction(SIGBUS, &sa, NULL); sigaction(SIGALRM, &sa, NULL);
	while (fgets(line, sizeof line, stdin)) {
		a1[0] = a2[0] = a3[0] = 0;
		int n = sscanf(line, "%31s %65000s %65000s %63s", op, a1, a2, a3);
		if (n < 1) continue;
		if (!strcmp(op, "--")) { puts("--"); continue; }
		int sig = sigsetjmp(jb, 1);
		if (sig) {
			armed = 0; alarm(0);
			printf("!! %s\n", sig == SIGFPE ? "SIGFPE" : sig == SIGSEGV ? "SIGSEGV" : sig == SIGALRM ? "HANG" : "SIGBUS");
			/* after a wild access, an exhausted stack or an abandoned call the process state is not to be trusted
			 * (and further hangs would cost 2 s each): the fault line is the last output of this process */
			if (sig != SIGFPE) { fflush(stdout); _exit(3); }
			continue;
		}
		armed = 1; alarm(2);
		if (!strcmp(op, "reset")) { memset(&wh, 0, sizeof wh); free(kept); kept = NULL; keptn = 0; puts("ok"); }
		else if (!strcmp(op, "prior") && n == 2) {
			uint8_t *p; long len = parse_hex(a1, &p);
			if (len != (long)sizeof wh) { puts("bad-op"); if (len >= 0) free(p); }
			else { memcpy(&wh, p, sizeof wh); free(p); puts("ok"); }
		}
		else if (!strcmp(op, "init") && n == 4) {
			rf_wavheader_init(&wh, (int)strtol(a1, NULL, 10), (int)strtol(a2, NULL, 10), (rf_wavheader_format_t)strtol(a3, NULL, 10));
			puts("ok");
		}
		else if (!strcmp(op, "frames") && n == 2) { rf_wavheader_set_num_frames(&wh, (unsigned int)strtoul(a1, NULL, 10)); puts("ok"); }
		else if (!strcmp(op, "show")) show();
		else if (!strcmp(op, "validate")) printf("validate=%d\n", rf_wavheader_validate(&wh));
		else if (!strcmp(op, "getfmt")) printf("getfmt=%d\n", (int)rf_wavheader_get_format(&wh));
		else if (!strcmp(op, "tostring")) {
			char *s = rf_wavheader_tostring(&wh); int a, c, d; char name[32];
			if (s && sscanf(s, "WAVE file: %d samples in %31s %dch %dHz", &a, name, &c, &d) == 4) printf("ts %d %s %d %d\n", a, name, c, d);
			else printf("ts-unparsed %s\n", s ? s : "(null)");
			free(s);
		}
		else if (!strcmp(op, "enc") && n == 2) {
			unsigned int sz = (unsigned int)strtoul(a1, NULL, 10);
			free(kept); kept = malloc(sz); keptn = sz; memset(kept, 0xee, sz);
			int r = rf_wavheader_encode(&wh, kept, sz);
			fputs("enc ret=", stdout); cls(r, sz); fputs(" buf=", stdout); put_hex(kept, sz); putchar('\n');
		}
		else if (!strcmp(op, "dec") && n == 3) {
			unsigned long sz = strtoul(a1, NULL, 10); uint8_t *p; long len = parse_hex(a2, &p);
			if (len < 0) puts("bad-op");
			else if ((unsigned long)len != sz) { puts("bad-op"); free(p); }
			else { do_dec(p, (unsigned int)sz); free(p); }
		}
		else if (!strcmp(op, "decbuf") && n == 2) {
			unsigned long k = strtoul(a1, NULL, 10);
			if (k > keptn) puts("bad-op"); else do_dec(kept, (unsigned int)k);
		}
		else puts("bad-op");
		armed = 0; alarm(0);
	}
	return 0;
}

/* C07 harness: execution tracer for the happens-before race detector.
 *
 * The UNMODIFIED library sources (ringbuf.c, messageq.c, fibre.c, list.c) are compiled as their own translation
 * units with `-fsanitize=thread` — but the program is NOT linked against the ThreadSanitizer run-time.  Instead this
 * file (compiled without the sanitizer) provides the `__tsan_*` entry points the compiler's instrumentation calls:
 *   __tsan_atomic<N>_<op>(addr, …, memory_order)   for EVERY atomic access however it is spelled in the source
 *                                                  (atomic_load, atomic_*_explicit, an _Atomic lvalue, __atomic_*),
 *   __tsan_read<N> / __tsan_write<N>(addr)         for every plain load / store that may touch shared memory.
 * So the trace contains exactly the accesses the compiler was told to make, with the memory order each atomic
 * operation was actually given.  Logical threads are pthreads passing a baton (harness/baton.h): the interleaving
 * is exactly the schedule on stdin; a thread yields before and after every atomic operation and between calls.
 *
 * ops:  reset | -- |
 *   ring <len> <start>            | prod <n puts> | cons <n gets>                          (threads 0, 1)
 *   mq <depth> <msglen> <nsenders> <msgs per sender> <receiver attempts>                   (threads 0..n-1 senders, n receiver)
 *   fibre <nisr> <calls per isr> <passes>     main context (thread 0) runs scheduler passes over 3 fibres, interrupt
 *                                             contexts (threads 1..nisr) call fibre_run_atomic
 *   evq <nisr> <events per isr> <passes>      like `fibre`, but the interrupt contexts post EVENTS (fibre_eventq_claim, plain write
 *                                             of the payload, fibre_eventq_send) to a handler fibre that receives, reads and releases them
 *   run <tid>...                  schedule, one segment per token; afterwards round robin until all threads are done
 * output per executed access:   E <tid> <aload|astore|armw> <object+offset> <order>     (atomic)
 *                               P <tid> <r|w> <object+offset> <size>                    (plain, shared objects only)
 * plus "T.." segment lines from baton.h (ignored by the plugin), "stuck" on budget exhaustion, "end".
 */
#include "baton.h"
#include <stdint.h>
#include <stdbool.h>
#include <librfn/ringbuf.h>
#include <librfn/messageq.h>
#include <librfn/fibre.h>

/* ------------------------------------------------------------------ the tracing run-time */
static void trace_atomic(const char *kind, const volatile void *addr, int mo)
{
	char tmp[64];
	if (baton_me < 0)
		return;
	printf("E %d %s %s %s\n", baton_me, kind, baton_lookup(addr, tmp, sizeof tmp), baton_order_name(mo));
}
static void trace_plain(const char *rw, const volatile void *addr, int size)
{
	char tmp[64];
	const char *nm;
	if (baton_me < 0)
		return;
	nm = baton_lookup(addr, tmp, sizeof tmp);
	if (!strcmp(nm, "addr?"))
		return;                       /* not one of the shared objects (stack, harness-private data) */
	printf("P %d %s %s %d\n", baton_me, rw, nm, size);
}
static void pre(void) { if (baton_me >= 0) baton_yield("local"); }
static void post(void) { if (baton_me >= 0) baton_yield("op"); }

#define TSAN_PLAIN(n) \
	void __tsan_read##n(void *a) { trace_plain("r", a, n); } \
	void __tsan_write##n(void *a) { trace_plain("w", a, n); } \
	void __tsan_unaligned_read##n(void *a) { trace_plain("r", a, n); } \
	void __tsan_unaligned_write##n(void *a) { trace_plain("w", a, n); }
TSAN_PLAIN(1) TSAN_PLAIN(2) TSAN_PLAIN(4) TSAN_PLAIN(8) TSAN_PLAIN(16)
void __tsan_read_range(void *a, long n) { trace_plain("r", a, (int)n); }
void __tsan_write_range(void *a, long n) { trace_plain("w", a, (int)n); }
void __tsan_func_entry(void *pc) { (void)pc; }
void __tsan_func_exit(void) {}
void __tsan_init(void) {}
void __tsan_vptr_update(void **a, void *b) { (void)a; (void)b; }
void __tsan_vptr_read(void **a) { (void)a; }

#define TSAN_ATOMIC(bits, T) \
	T __tsan_atomic##bits##_load(const volatile T *a, int mo) { pre(); T v = __atomic_load_n(a, mo); trace_atomic("aload", a, mo); post(); return v; } \
	void __tsan_atomic##bits##_store(volatile T *a, T v, int mo) { pre(); __atomic_store_n(a, v, mo); trace_atomic("astore", a, mo); post(); } \
	T __tsan_atomic##bits##_exchange(volatile T *a, T v, int mo) { pre(); T o = __atomic_exchange_n(a, v, mo); trace_atomic("armw", a, mo); post(); return o; } \
	T __tsan_atomic##bits##_fetch_add(volatile T *a, T v, int mo) { pre(); T o = __atomic_fetch_add(a, v, mo); trace_atomic("armw", a, mo); post(); return o; } \
	T __tsan_atomic##bits##_fetch_sub(volatile T *a, T v, int mo) { pre(); T o = __atomic_fetch_sub(a, v, mo); trace_atomic("armw", a, mo); post(); return o; } \
	T __tsan_atomic##bits##_fetch_and(volatile T *a, T v, int mo) { pre(); T o = __atomic_fetch_and(a, v, mo); trace_atomic("armw", a, mo); post(); return o; } \
	T __tsan_atomic##bits##_fetch_or(volatile T *a, T v, int mo) { pre(); T o = __atomic_fetch_or(a, v, mo); trace_atomic("armw", a, mo); post(); return o; } \
	T __tsan_atomic##bits##_fetch_xor(volatile T *a, T v, int mo) { pre(); T o = __atomic_fetch_xor(a, v, mo); trace_atomic("armw", a, mo); post(); return o; } \
	T __tsan_atomic##bits##_fetch_nand(volatile T *a, T v, int mo) { pre(); T o = __atomic_fetch_nand(a, v, mo); trace_atomic("armw", a, mo); post(); return o; } \
	int __tsan_atomic##bits##_compare_exchange_strong(volatile T *a, T *e, T d, int mo, int fmo) { pre(); \
		int ok = __atomic_compare_exchange_n(a, e, d, 0, mo, fmo); trace_atomic(ok ? "armw" : "aload", a, ok ? mo : fmo); post(); return ok; } \
	int __tsan_atomic##bits##_compare_exchange_weak(volatile T *a, T *e, T d, int mo, int fmo) { pre(); \
		int ok = __atomic_compare_exchange_n(a, e, d, 0, mo, fmo); trace_atomic(ok ? "armw" : "aload", a, ok ? mo : fmo); post(); return ok; } \
	T __tsan_atomic##bits##_compare_exchange_val(volatile T *a, T e, T d, int mo, int fmo) { pre(); \
		int ok = __atomic_compare_exchange_n(a, &e, d, 0, mo, fmo); trace_atomic(ok ? "armw" : "aload", a, ok ? mo : fmo); post(); return e; }
TSAN_ATOMIC(8, unsigned char) TSAN_ATOMIC(16, unsigned short) TSAN_ATOMIC(32, unsigned int) TSAN_ATOMIC(64, unsigned long)
void __tsan_atomic_thread_fence(int mo) { __atomic_thread_fence(mo); }
void __tsan_atomic_signal_fence(int mo) { __atomic_signal_fence(mo); }

/* ------------------------------------------------------------------ scenarios */
#define SEG_BUDGET 20000
static int nthreads;

/* ring */
static ringbuf_t rb;
static uint8_t *ringmem;
static unsigned ringlen;
static int nputs, ngets;
static void ring_prod(void *arg) { (void)arg; for (int i = 0; i < nputs; i++) { ringbuf_put(&rb, (uint8_t)(i + 1)); if (i + 1 < nputs) baton_yield("ret"); } baton_finish("ret"); }
static void ring_cons(void *arg) { (void)arg; for (int i = 0; i < ngets; i++) { if (i & 3) ringbuf_get(&rb); else { ringbuf_empty(&rb); ringbuf_get(&rb); } if (i + 1 < ngets) baton_yield("ret"); } baton_finish("ret"); }

/* message queue */
static messageq_t mq;
static char *mqmem;
static int mq_msgs, mq_tries, mq_msglen;
static void mq_sender(void *arg)
{
	long id = (long)arg;
	for (int i = 0; i < mq_msgs; i++) {
		unsigned char *m = messageq_claim(&mq);
		if (m) {
			for (int k = 0; k < mq_msglen; k++) {      /* payload written by the claimer: plain stores, traced here */
				trace_plain("w", m + k, 1);
				m[k] = (unsigned char)(id * 16 + i);
			}
			messageq_send(&mq, m);
		}
		baton_yield("ret");
	}
	baton_finish("ret");
}
static void mq_receiver(void *arg)
{
	(void)arg;
	for (int i = 0; i < mq_tries; i++) {
		unsigned char *m = (i & 1) && messageq_empty(&mq) ? NULL : messageq_receive(&mq);
		if (m) {
			volatile unsigned sum = 0;
			for (int k = 0; k < mq_msglen; k++) {      /* payload read by the receiver */
				trace_plain("r", m + k, 1);
				sum += m[k];
			}
			messageq_release(&mq, m);
		}
		baton_yield("ret");
	}
	baton_finish("ret");
}

/* fibre wake-up path */
#define NF 3
static fibre_t F[NF];
static int isr_calls, passes;
static int fib_body(fibre_t *f) { (void)f; return PT_WAITING; }
static void fib_main(void *arg)
{
	(void)arg;
	uint32_t t = 1000;
	for (int i = 0; i < passes; i++) {
		fibre_scheduler_next(t++);
		baton_yield("ret");
	}
	baton_finish("ret");
}
static void fib_isr(void *arg)
{
	long id = (long)arg;
	for (int i = 0; i < isr_calls; i++) {
		fibre_run_atomic(&F[(id + i) % NF]);
		baton_yield("ret");
	}
	baton_finish("ret");
}

/* event queue: handler fibre drains its queue, interrupt contexts post events */
#define EVSZ 8
#define EVN 4
static fibre_eventq_t evq;
static unsigned char evmem[EVN * EVSZ];
static int evq_handler(fibre_t *f)
{
	(void)f;
	for (;;) {
		unsigned char *e = fibre_eventq_receive(&evq);
		volatile unsigned sum = 0;
		if (!e)
			return PT_WAITING;
		for (int k = 0; k < EVSZ; k++) { trace_plain("r", e + k, 1); sum += e[k]; }
		fibre_eventq_release(&evq, e);
	}
}
static void evq_isr(void *arg)
{
	long id = (long)arg;
	for (int i = 0; i < isr_calls; i++) {
		unsigned char *e = fibre_eventq_claim(&evq);
		if (e) {
			for (int k = 0; k < EVSZ; k++) { trace_plain("w", e + k, 1); e[k] = (unsigned char)(id * 32 + i); }
			fibre_eventq_send(&evq, e);
		}
		baton_yield("ret");
	}
	baton_finish("ret");
}

static void do_run(char *toks)
{
	int stuck = 0, budget = SEG_BUDGET;
	for (char *tok = strtok(toks, " \t\r\n"); tok && !stuck; tok = strtok(NULL, " \t\r\n")) {
		int t = atoi(tok);
		if (t < 0 || t >= nthreads)
			continue;
		baton_step(t);
		if (--budget <= 0) stuck = 1;
	}
	for (int alive = 1; alive && !stuck;) {
		alive = 0;
		for (int t = 0; t < nthreads; t++)
			if (!baton_done[t]) {
				alive = 1;
				baton_step(t);
				if (--budget <= 0) { stuck = 1; break; }
			}
	}
	if (stuck)
		puts("stuck");
	baton_join_all();
	nthreads = 0;
	puts("end");
}

int main(void)
{
	static char line[65536];
	setvbuf(stdout, NULL, _IOLBF, 0);
	baton_pin();
	while (fgets(line, sizeof line, stdin)) {
		char op[32];
		int off = 0;
		if (sscanf(line, "%31s%n", op, &off) < 1)
			continue;
		char *rest = line + off;
		if (!strcmp(op, "--")) {
			puts("--");
		} else if (!strcmp(op, "reset")) {
			baton_forget_names();
			free(ringmem); ringmem = NULL;
			free(mqmem); mqmem = NULL;
			puts("ok");
		} else if (!strcmp(op, "ring")) {
			unsigned l, s;
			if (sscanf(rest, "%u %u %d %d", &l, &s, &nputs, &ngets) != 4 || l < 2 || l > 4096 || s >= l) { puts("bad-op"); continue; }
			ringlen = l;
			ringmem = malloc(l);
			memset(ringmem, 0xEE, l);
			ringbuf_init(&rb, ringmem, l);
			__atomic_store_n(&rb.readi, s, __ATOMIC_SEQ_CST);
			__atomic_store_n(&rb.writei, s, __ATOMIC_SEQ_CST);
			baton_forget_names();
#ifndef VERIF_BLACKBOX   /* field names are cosmetic: without them a location prints as <object>+<offset> */
			baton_name(&rb.readi, sizeof rb.readi, "rb.readi");
			baton_name(&rb.writei, sizeof rb.writei, "rb.writei");
#endif
			baton_name(&rb, sizeof rb, "rb");
			baton_name(ringmem, l, "buf");
			baton_init();
			baton_spawn(ring_prod, NULL);
			baton_spawn(ring_cons, NULL);
			nthreads = 2;
			puts("ok");
		} else if (!strcmp(op, "mq")) {
			int depth, ns;
			if (sscanf(rest, "%d %d %d %d %d", &depth, &mq_msglen, &ns, &mq_msgs, &mq_tries) != 5 || depth < 1 || depth > 32 ||
			    mq_msglen < 1 || mq_msglen > 64 || ns < 1 || ns + 1 > BATON_MAXT) { puts("bad-op"); continue; }
			mqmem = malloc((size_t)depth * mq_msglen);
			memset(mqmem, 0, (size_t)depth * mq_msglen);
			messageq_init(&mq, mqmem, (size_t)depth * mq_msglen, mq_msglen);
			baton_forget_names();
#ifndef VERIF_BLACKBOX   /* field names are cosmetic: without them a location prints as <object>+<offset> */
			baton_name(&mq.num_free, sizeof mq.num_free, "mq.num_free");
			baton_name(&mq.sendp, sizeof mq.sendp, "mq.sendp");
			baton_name(&mq.full_flags, sizeof mq.full_flags, "mq.full_flags");
			baton_name(&mq.receivep, sizeof mq.receivep, "mq.receivep");
#endif
			baton_name(&mq, sizeof mq, "mq");
			baton_name(mqmem, (size_t)depth * mq_msglen, "slots");
			baton_init();
			for (long i = 0; i < ns; i++)
				baton_spawn(mq_sender, (void *)i);
			baton_spawn(mq_receiver, NULL);
			nthreads = ns + 1;
			puts("ok");
		} else if (!strcmp(op, "fibre")) {
			int nisr;
			if (sscanf(rest, "%d %d %d", &nisr, &isr_calls, &passes) != 3 || nisr < 1 || nisr + 1 > BATON_MAXT) { puts("bad-op"); continue; }
			extern void h_race_fibre_reset(void);   /* in h_race_fibre.c, which includes fibre.c */
			extern void h_race_fibre_names(void (*name)(const volatile void *, size_t, const char *));
			h_race_fibre_reset();
			for (int i = 0; i < NF; i++)
				fibre_init(&F[i], fib_body);
			baton_forget_names();
			h_race_fibre_names(baton_name);
			baton_name(F, sizeof F, "fibres");
			baton_init();
			baton_spawn(fib_main, NULL);
			for (long i = 0; i < nisr; i++)
				baton_spawn(fib_isr, (void *)(i + 1));
			nthreads = nisr + 1;
			puts("ok");
		} else if (!strcmp(op, "evq")) {
			int nisr;
			if (sscanf(rest, "%d %d %d", &nisr, &isr_calls, &passes) != 3 || nisr < 1 || nisr + 1 > BATON_MAXT) { puts("bad-op"); continue; }
			extern void h_race_fibre_reset(void);
			extern void h_race_fibre_names(void (*name)(const volatile void *, size_t, const char *));
			h_race_fibre_reset();
			memset(evmem, 0, sizeof evmem);
			fibre_eventq_init(&evq, evq_handler, evmem, sizeof evmem, EVSZ);
			baton_forget_names();
#ifndef VERIF_BLACKBOX   /* field names are cosmetic: without them a location prints as <object>+<offset> */
			baton_name(&evq.eventq.num_free, sizeof evq.eventq.num_free, "evq.num_free");
			baton_name(&evq.eventq.sendp, sizeof evq.eventq.sendp, "evq.sendp");
			baton_name(&evq.eventq.full_flags, sizeof evq.eventq.full_flags, "evq.full_flags");
			baton_name(&evq.eventq.receivep, sizeof evq.eventq.receivep, "evq.receivep");
#endif
			baton_name(&evq, sizeof evq, "evq");
			baton_name(evmem, sizeof evmem, "events");
			h_race_fibre_names(baton_name);
			baton_init();
			baton_spawn(fib_main, NULL);
			for (long i = 0; i < nisr; i++)
				baton_spawn(evq_isr, (void *)(i + 1));
			nthreads = nisr + 1;
			puts("ok");
		} else if (!strcmp(op, "run")) {
			if (!nthreads) { puts("bad-op"); continue; }
			do_run(rest);
		} else {
			puts("bad-op");
		}
	}
	return 0;
}

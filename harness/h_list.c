/* C09 harness: the real list.c driven by a line protocol (one op per line), same canonical output as
 * `librfn_model list` (lean/Librfn/Driver/List.lean).
 *
 * pool: nodes 0..7 (integer keys, default i/2), lists 0..2, iterators 0..3
 * ops : reset | setkey n v | insert l n | push l n | sorted l n | extract l | peek l | empty l |
 *       iterate k l | next k | iinsert k n | iremove k | cur k | contains l n | find k l n | remove l n
 * out : "<ret> L0:a,b, L1: L2: free:c,d!,"  — return value (ok / node id or -1 / 0|1), the full
 *       traversal of every list, the nodes reached by no traversal ('!' = its next is not NULL).
 *       A traversal that does not end within NN+1 nodes prints "loop" instead of hanging.
 * "--" echoes "--".  A library loop that never ends is cut by alarm() (reported as a crash by the check).
 */
#include <stdio.h>
#include <stdlib.h>
#include <string.h>
#include <unistd.h>
#include <librfn/list.h>
#include <librfn/util.h>

#define NN 8
#define NL 3
#define NK 4

typedef struct { list_node_t n; int key; } N;

/* exactly-sized heap blocks so that ASan sees any access outside a node / list / iterator */
static N *nodes[NN];
static list_t *L[NL];
static list_iterator_t *it[NK];

static int cmp(list_node_t *a, list_node_t *b)
{
	return containerof(a, N, n)->key - containerof(b, N, n)->key;
}

static int id(list_node_t *p)
{
	if (!p)
		return -1;
	for (int i = 0; i < NN; i++)
		if (p == &nodes[i]->n)
			return i;
	return 99; /* not a node (e.g. a list_t mis-typed as a node) */
}

static void dump(void)
{
	int member[NN] = { 0 };
	for (int l = 0; l < NL; l++) {
		char buf[256]; size_t o = 0; int cnt = 0;
		list_node_t *p;
		for (p = L[l]->head; p && cnt <= NN; p = p->next, cnt++) {
			int i = id(p);
			o += (size_t)snprintf(buf + o, sizeof buf - o, "%d,", i);
			if (i >= 0 && i < NN)
				member[i] = 1;
			else
				break; /* walked out of the pool */
		}
		if (p && cnt > NN)
			printf(" L%d:loop", l);
		else {
			buf[o] = 0;
			printf(" L%d:%s", l, buf);
		}
	}
	printf(" free:");
	for (int i = 0; i < NN; i++)
		if (!member[i])
			printf("%d%s,", i, nodes[i]->n.next ? "!" : "");
	printf("\n");
}

static void reset(void)
{
	for (int i = 0; i < NN; i++) {
		free(nodes[i]);
		nodes[i] = calloc(1, sizeof(N));
		nodes[i]->key = i / 2;
	}
	for (int l = 0; l < NL; l++) { free(L[l]); L[l] = calloc(1, sizeof(list_t)); }
	for (int k = 0; k < NK; k++) { free(it[k]); it[k] = calloc(1, sizeof(list_iterator_t)); }
	alarm(20);
}

int main(void)
{
	char line[128], op[32];
	setvbuf(stdout, NULL, _IOLBF, 0); /* keep output up to a crash */
	reset();
	while (fgets(line, sizeof line, stdin)) {
		int a = -1, b = -1, c = -1;
		int n = sscanf(line, "%31s %d %d %d", op, &a, &b, &c);
		if (n < 1)
			continue;
#define ARGS(cnt, c1, c2, c3) (n == (cnt) + 1 && (c1) && (c2) && (c3))
#define isL(x) ((x) >= 0 && (x) < NL)
#define isN(x) ((x) >= 0 && (x) < NN)
#define isK(x) ((x) >= 0 && (x) < NK)
		if (!strcmp(op, "--")) { puts("--"); continue; }
		else if (!strcmp(op, "reset") && n == 1) { reset(); printf("ok"); }
		else if (!strcmp(op, "setkey") && ARGS(2, isN(a), 1, 1)) { nodes[a]->key = b; printf("ok"); }
		else if (!strcmp(op, "insert") && ARGS(2, isL(a), isN(b), 1)) { list_insert(L[a], &nodes[b]->n); printf("ok"); }
		else if (!strcmp(op, "push") && ARGS(2, isL(a), isN(b), 1)) { list_push(L[a], &nodes[b]->n); printf("ok"); }
		else if (!strcmp(op, "sorted") && ARGS(2, isL(a), isN(b), 1)) { list_insert_sorted(L[a], &nodes[b]->n, cmp); printf("ok"); }
		else if (!strcmp(op, "extract") && ARGS(1, isL(a), 1, 1)) { printf("%d", id(list_extract(L[a]))); }
		else if (!strcmp(op, "peek") && ARGS(1, isL(a), 1, 1)) { printf("%d", id(list_peek(L[a]))); }
		else if (!strcmp(op, "empty") && ARGS(1, isL(a), 1, 1)) { printf("%d", list_empty(L[a]) ? 1 : 0); }
		else if (!strcmp(op, "iterate") && ARGS(2, isK(a), isL(b), 1)) { printf("%d", id(list_iterate(L[b], it[a]))); }
		else if (!strcmp(op, "next") && ARGS(1, isK(a), 1, 1)) { printf("%d", id(list_iterator_next(it[a]))); }
		else if (!strcmp(op, "iinsert") && ARGS(2, isK(a), isN(b), 1)) { list_iterator_insert(it[a], &nodes[b]->n); printf("ok"); }
		else if (!strcmp(op, "iremove") && ARGS(1, isK(a), 1, 1)) { printf("%d", id(list_iterator_remove(it[a]))); }
		else if (!strcmp(op, "cur") && ARGS(1, isK(a), 1, 1)) { printf("%d", id(*(it[a]->prevnext))); }
		else if (!strcmp(op, "contains") && ARGS(2, isL(a), isN(b), 1)) { printf("%d", list_contains(L[a], &nodes[b]->n, NULL) ? 1 : 0); }
		else if (!strcmp(op, "find") && ARGS(3, isK(a), isL(b), isN(c))) { printf("%d", list_contains(L[b], &nodes[c]->n, it[a]) ? 1 : 0); }
		else if (!strcmp(op, "remove") && ARGS(2, isL(a), isN(b), 1)) { printf("%d", list_remove(L[a], &nodes[b]->n) ? 1 : 0); }
		else { puts("bad-op"); continue; }
		dump();
	}
	return 0;
}

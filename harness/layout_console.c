/* C15: prints the layout constants of console_t / cmd_table that the Lean model uses
 * (lean/Librfn/Gen/Layout.lean is regenerated from this output on every run). */
#include <stddef.h>
#include <stdio.h>
#include "console.c"
void console_hwinit(console_t *c) { (void)c; }
int main(void)
{
	console_t *c = NULL;
	unsigned builtin = 0;
	for (unsigned i = 0; i < lengthof(cmd_table); i++)
		if (cmd_table[i]) builtin++;
	printf("consoleSize %zu\n", sizeof(console_t));
	printf("scratchOff %zu\n", offsetof(console_t, scratch));
	printf("scratchSize %zu\n", sizeof(c->scratch));
	printf("bufSize %zu\n", sizeof(c->scratch.buf));
	printf("bufpOff %zu\n", offsetof(console_t, bufp));
	printf("ringLen %zu\n", sizeof(c->ringbuf));
	printf("argvLen %zu\n", lengthof(c->argv));
	printf("tableCap %zu\n", lengthof(cmd_table));
	printf("builtinCount %u\n", builtin);
	printf("ptrSize %zu\n", sizeof(void *));
	return 0;
}

/* C06 harness: the real fibre.c (included, so that the file-static `kernel` is reachable), messageq.c and list.c with
 * EVERY atomic operation hooked through the include-path shim harness/shim/stdatomic.h (no hook in /repo: the sources
 * are unmodified, `-I harness/shim` is first on the include path).  Single-threaded and deterministic:
 *
 *   verif_pre / verif_post are called by the shim immediately before / after each atomic operation.  They count the
 *   atomic operations of the call that is currently executing (its "frame") and, at the gaps named by the script —
 *   <k>a = before atomic operation k of the call, <k>b = after it — run the scripted calls synchronously, in place.
 *   That IS an interrupt on one core: the interrupted call is suspended between two of its instructions and the
 *   handler runs to completion on top of it.  A nested handler fires from the hook while a handler executes.
 *   For `thread`, the roles are swapped: the sender is the suspended call and the main context executes whole
 *   calls at its gaps (a sender running on another core that is slow between two of its atomic operations).
 *
 * ops (same protocol as `librfn_model isr`, see lean/Librfn/Driver/Isr.lean):
 *   reset | cfg <event queue depth> <kind>* | next <T> <body> <script> | run <f> <script> | kill <f> <script>
 *   isr <call> <nested script> | thread <call> (%<gap> next:<T>|run:<f>|kill:<f> <script>)* | quiesce | --
 * output: one line per op, tokens in execution order:
 *   N pass begins   L main context read kernel.atomic_runq.full_flags   d<f> entry point of f invoked   p<stamp> handler
 *   processed an event   t<0|1> fibre_timeout result   r<y|w> entry point returned   +<f> fetch_or publishing a run request
 *   C<stamp> compare-exchange handing out the event buffer that will carry <stamp>   <lvl><A<f>|E<stamp>>=<result>/<atomic ops>   (E: c = claim failed)
 *   R<g> / K<g>=<0|1> fibre_run(g) / fibre_kill(g) called by the running (scripted) fibre
 *   next(<T>):self=<fibre_self>:wake=<returned>:n=<atomic ops> | run(<f>):n=.. | kill(<f>)=<0|1>:n=..
 *   unfired=<scripted calls whose gap never came up>      quiesce: … Q:<idle|busy>:taint=<kernel.taint_flags>
 * A hang (corrupted list) is cut by SIGALRM: "!! HANG", exit 3. */
#include <stdio.h>
#include <stdlib.h>
#include <string.h>
#include <stdint.h>
#include <signal.h>
#include <unistd.h>
#include "fibre.c"

#define NF 8
#define MAXCALLS 256
#define MAXCH 64
#define MAXDEPTH 8
#define MAXBODY 16

/* ------------------------------------------------------------------ scenario state */
static fibre_eventq_t evq;              /* fibre 0 = &evq.fibre */
static fibre_t plainf[NF];              /* fibres 1.. */
static uint32_t *evbuf;                 /* exactly depth * 4 bytes */
static unsigned evdepth = 4;
static char kind[NF];                   /* 'h' 'y' 's' 'w' */
static unsigned budget[NF];
static uint32_t period[NF], sdue[NF];
static unsigned char kernel0[sizeof kernel];
static int dispatched_now;

static fibre_t *fp(int id) { return id == 0 ? &evq.fibre : &plainf[id]; }
static int idof(fibre_t *f) { return f == &evq.fibre ? 0 : (int)(f - plainf); }

/* ------------------------------------------------------------------ output */
static char line[1 << 16];
static size_t linelen;
static void out(const char *fmt, ...) __attribute__((format(printf, 1, 2)));
#include <stdarg.h>
static void out(const char *fmt, ...)
{
	va_list ap;
	if (linelen && linelen < sizeof line - 1)
		line[linelen++] = ' ';
	va_start(ap, fmt);
	int n = vsnprintf(line + linelen, sizeof line - linelen, fmt, ap);
	va_end(ap);
	if (n > 0)
		linelen += (size_t)n < sizeof line - linelen ? (size_t)n : sizeof line - linelen - 1;
}
static void endline(void)
{
	line[linelen] = 0;
	puts(line);
	linelen = 0;
}
static void flush_partial(void)
{
	if (linelen) {
		line[linelen] = 0;
		fputs(line, stdout);
		fputs(" ...\n", stdout);
		linelen = 0;
	}
	fflush(stdout);
}
void __asan_on_error(void) { flush_partial(); }
static void on_abort(int sig) { (void)sig; flush_partial(); _exit(5); }
static void on_alarm(int sig)
{
	(void)sig;
	flush_partial();
	fputs("!! HANG\n", stdout);
	fflush(stdout);
	_exit(3);
}

/* ------------------------------------------------------------------ scripted calls */
typedef struct {
	char type;            /* 'A' fibre_run_atomic, 'E' event send, 'N' next, 'R' run, 'K' kill */
	long long arg;
	int k, post;          /* the gap of the parent at which this call runs */
	int lvl;              /* senders: 0 interrupt, 1 nested interrupt, 2 thread */
	int nchild, child[MAXCH];
	/* 'N' only: what the dispatched fibre does if it is a scripted one ('c'): calls, then its return code */
	int nbody, bodypos; char bkind[MAXBODY]; int barg[MAXBODY]; char bret;
} call_t;
static call_t calls[MAXCALLS];
static int ncalls, nfired;

typedef struct { call_t *c; int ops; } frame_t;
static frame_t stack[MAXDEPTH];
static int depth;

static void exec_call(call_t *c);

static void fire(int post)
{
	frame_t *fr = &stack[depth - 1];
	call_t *c = fr->c;
	int k = fr->ops;
	for (int i = 0; i < c->nchild; i++) {
		call_t *ch = &calls[c->child[i]];
		if (ch->k == k && ch->post == post)
			exec_call(ch);
	}
}

void verif_pre(const char *op, const volatile void *addr, int order, const char *file, int ln)
{
	(void)op; (void)addr; (void)order; (void)file; (void)ln;
	if (depth)
		fire(0);
}

void verif_post(const char *op, const volatile void *addr, int order, unsigned long long before, unsigned long long after)
{
	(void)order; (void)before; (void)after;
	if (!depth)
		return;
	frame_t *fr = &stack[depth - 1];
	if (addr == (const volatile void *)&evq.eventq.sendp && !strcmp(op, "cas_ok") && fr->c->type == 'E')
		out("C%u", (unsigned)fr->c->arg);                 /* the compare-exchange that hands out the event buffer */
	if (addr == (const volatile void *)&kernel.atomic_runq.full_flags) {
		if (!strcmp(op, "fetch_or"))                      /* messageq_send on the atomic run queue: the request is published */
			out("+%d", fr->c->type == 'A' ? (int)fr->c->arg : 0);
		else if (!strcmp(op, "load"))                     /* messageq_empty(&kernel.atomic_runq) */
			out("L");
	}
	fire(1);
	fr->ops++;
}

/* gap x (C03 probe, implementation side only): the harness is linked with -Wl,--wrap=list_extract; immediately after
 * fibre_scheduler_next() has taken its pick from the run queue - the moment it knows whether it will dispatch - the
 * interrupt calls scripted for gap x run.  Not an atomic operation of the library, so the Lean model has no such gap:
 * histories using it are judged by the property text alone (the request completed before the pass's final check, so the
 * pass must return the time it was given). */
list_node_t *__real_list_extract(list_t *list);
list_node_t *__wrap_list_extract(list_t *list)
{
	list_node_t *r = __real_list_extract(list);
	if (depth && list == &kernel.runq && stack[depth - 1].c->type == 'N') {
		call_t *c = stack[depth - 1].c;
		for (int i = 0; i < c->nchild; i++) {
			call_t *ch = &calls[c->child[i]];
			if (ch->k == -1 && ch->post == 2) {
				out("X");
				exec_call(ch);
			}
		}
	}
	return r;
}

static void exec_call(call_t *c)
{
	if (depth >= MAXDEPTH) { out("!!too-deep"); return; }
	nfired++;
	stack[depth].c = c;
	stack[depth].ops = 0;
	depth++;
	switch (c->type) {
	case 'A': {
		bool r = fibre_run_atomic(fp((int)c->arg));
		out("%dA%d=%d/%d", c->lvl, (int)c->arg, r ? 1 : 0, stack[depth - 1].ops);
		break;
	}
	case 'E': {
		uint32_t *p = fibre_eventq_claim(&evq);
		if (!p) {
			out("%dE%u=c/%d", c->lvl, (unsigned)c->arg, stack[depth - 1].ops);
		} else {
			*p = (uint32_t)c->arg;
			bool r = fibre_eventq_send(&evq, p);
			out("%dE%u=%d/%d", c->lvl, (unsigned)c->arg, r ? 1 : 0, stack[depth - 1].ops);
		}
		break;
	}
	case 'N': {
		dispatched_now = 0;
		out("N");
		uint32_t w = fibre_scheduler_next((uint32_t)c->arg);
		fibre_t *s = fibre_self();
		out("next(%u):self=%d:wake=%u:n=%d", (unsigned)(uint32_t)c->arg, s ? idof(s) : -1, (unsigned)w, stack[depth - 1].ops);
		break;
	}
	case 'R':
		fibre_run(fp((int)c->arg));
		out("run(%d):n=%d", (int)c->arg, stack[depth - 1].ops);
		break;
	case 'K': {
		bool r = fibre_kill(fp((int)c->arg));
		out("kill(%d)=%d:n=%d", (int)c->arg, r ? 1 : 0, stack[depth - 1].ops);
		break;
	}
	}
	depth--;
}

/* ------------------------------------------------------------------ the scenario fibres */
static int handler_pt(fibre_t *f)
{
	static uint32_t *e;
	PT_BEGIN_FIBRE(f);
	for (;;) {
		PT_WAIT_UNTIL(NULL != (e = fibre_eventq_receive(&evq)));
		out("p%u", (unsigned)*e);                 /* process(e) */
		fibre_eventq_release(&evq, e);
	}
	PT_END();
}

static int entry(fibre_t *f)
{
	int id = idof(f), r = PT_WAITING;
	dispatched_now = 1;
	out("d%d", id);
	switch (kind[id]) {
	case 'h':
		r = handler_pt(f);
		break;
	case 'y':
		if (budget[id] > 0) { budget[id]--; r = PT_YIELDED; }
		break;
	case 'c': {
		/* scripted body (like C01's): fibre_run / fibre_kill calls made by the running fibre, then the scripted return code.
		 * The calls execute inside the frame of the enclosing fibre_scheduler_next: their atomic operations continue its numbering. */
		call_t *pass = depth ? stack[depth - 1].c : NULL;
		if (pass && pass->type == 'N') {
			while (pass->bodypos < pass->nbody) {
				int i = pass->bodypos++;
				if (pass->bkind[i] == 'r') { fibre_run(fp(pass->barg[i])); out("R%d", pass->barg[i]); }
				else out("K%d=%d", pass->barg[i], fibre_kill(fp(pass->barg[i])) ? 1 : 0);
			}
			r = pass->bret == 'y' ? PT_YIELDED : pass->bret == 'e' ? PT_EXITED : pass->bret == 'f' ? PT_FAILED : PT_WAITING;
		}
		break;
	}
	case 's':
		if (fibre_timeout(sdue[id])) {
			out("t1");
			sdue[id] = kernel.now + period[id];
			out("t%d", fibre_timeout(sdue[id]) ? 1 : 0);
		} else {
			out("t0");
		}
		break;
	default:
		break;
	}
	out("r%c", r == PT_YIELDED ? 'y' : r == PT_WAITING ? 'w' : r == PT_EXITED ? 'e' : 'f');
	return r;
}

static void do_reset(void)
{
	memcpy(&kernel, kernel0, sizeof kernel);       /* exactly the state the static initialisers describe */
	memset(atomic_runq_buf, 0, sizeof atomic_runq_buf);
	free(evbuf);
	evbuf = malloc(evdepth * sizeof(uint32_t));
	memset(evbuf, 0xEE, evdepth * sizeof(uint32_t));
	fibre_eventq_init(&evq, entry, evbuf, evdepth * sizeof(uint32_t), sizeof(uint32_t));
	for (int i = 1; i < NF; i++) {
		fibre_t init = FIBRE_VAR_INIT(entry);
		plainf[i] = init;
	}
	memset(sdue, 0, sizeof sdue);
	depth = 0;
	alarm(3);
}

static void default_cfg(void)
{
	evdepth = 4;
	memset(kind, 'w', sizeof kind);
	kind[0] = 'h';
	memset(budget, 0, sizeof budget);
	memset(period, 0, sizeof period);
}

/* ------------------------------------------------------------------ large-geometry event queue (bigq) */
static fibre_eventq_t bq;
static unsigned bq_msg, bq_next, bq_bad;
static char bq_why[160];
static int bigq_handler(fibre_t *f)
{
	static unsigned char *e;
	PT_BEGIN_FIBRE(f);
	for (;;) {
		PT_WAIT_UNTIL(NULL != (e = fibre_eventq_receive(&bq)));
		uint32_t a, z;
		memcpy(&a, e, 4); memcpy(&z, e + bq_msg - 4, 4);
		if ((a != bq_next || z != ~bq_next) && !bq_bad) {
			bq_bad = 1;
			snprintf(bq_why, sizeof bq_why, "event #%u arrived as first=%u last=~%u", bq_next, (unsigned)a, (unsigned)~z);
		}
		bq_next++;
		fibre_eventq_release(&bq, e);
	}
	PT_END();
}
static const char *bigq(unsigned d, unsigned m, unsigned n, unsigned burst)
{
	static char res[256];
	unsigned char *buf = malloc((size_t)d * m);
	uint32_t now = 1000;
	unsigned sent = 0;
	memcpy(&kernel, kernel0, sizeof kernel);
	memset(atomic_runq_buf, 0, sizeof atomic_runq_buf);
	memset(buf, 0xEE, (size_t)d * m);
	fibre_eventq_init(&bq, bigq_handler, buf, (size_t)d * m, m);
	bq_msg = m; bq_next = 0; bq_bad = 0; bq_why[0] = 0;
	alarm(20);
	while (sent < n && !bq_bad) {
		unsigned k = 1 + (sent * 7u + 3u) % burst;
		for (unsigned i = 0; i < k && sent < n; i++) {
			unsigned char *e = fibre_eventq_claim(&bq);
			if (!e)
				break;             /* full: let the handler run */
			uint32_t a = sent, z = ~sent;
			memset(e, 0x5A, m);
			memcpy(e, &a, 4); memcpy(e + m - 4, &z, 4);
			if (!fibre_eventq_send(&bq, e) && !bq_bad) { bq_bad = 1; snprintf(bq_why, sizeof bq_why, "send of event #%u refused", sent); }
			sent++;
		}
		for (int pass = 0; pass < 80; pass++) {
			unsigned before = bq_next;
			fibre_scheduler_next(now++);
			if (bq_next == before && fibre_eventq_empty(&bq) && pass > 1)
				break;
		}
		if (bq_next != sent && !bq_bad) {
			bq_bad = 1;
			snprintf(bq_why, sizeof bq_why, "%u events sent, %u received after the scheduler went idle", sent, bq_next);
		}
	}
	alarm(3);
	if (bq_bad)
		snprintf(res, sizeof res, "bigq FAIL depth=%u size=%u: %s", d, m, bq_why);
	else
		snprintf(res, sizeof res, "bigq ok %u", sent);
	free(buf);
	return res;
}

/* ------------------------------------------------------------------ parsing */
static int parse_gap(const char *s, int *k, int *post)
{
	char *end;
	if (s[0] == 'x' && !s[1]) {          /* gap x: right after the scheduler took its pick from the run queue (list_extract) */
		*k = -1; *post = 2;
		return 1;
	}
	long v = strtol(s, &end, 10);
	if (end == s || v < 0 || (end[0] != 'a' && end[0] != 'b') || end[1])
		return 0;
	*k = (int)v; *post = end[0] == 'b';
	return 1;
}
static int parse_num(const char *s, long long lo, long long hi, long long *out_)
{
	char *end;
	if (!*s) return 0;
	long long v = strtoll(s, &end, 10);
	if (*end || v < lo || v > hi) return 0;
	*out_ = v;
	return 1;
}
static call_t *new_call(char type, long long arg, int k, int post, int lvl, call_t *parent)
{
	if (ncalls >= MAXCALLS || (parent && parent->nchild >= MAXCH))
		return NULL;
	call_t *c = &calls[ncalls];
	memset(c, 0, sizeof *c);
	c->type = type; c->arg = arg; c->k = k; c->post = post; c->lvl = lvl; c->bret = 'w';
	if (parent)
		parent->child[parent->nchild++] = ncalls;
	ncalls++;
	return c;
}
static int parse_sender(const char *t, int upper, char *type, long long *arg)
{
	char a = upper ? 'A' : 'a', e = upper ? 'E' : 'e';
	if (t[0] == a) { *type = 'A'; return parse_num(t + 1, 0, NF - 1, arg); }
	if (t[0] == e) { *type = 'E'; return parse_num(t + 1, 0, 4294967295LL, arg); }
	return 0;
}
static int parse_main(const char *name, const char *arg, char *type, long long *v)
{
	if (!strcmp(name, "next")) { *type = 'N'; return parse_num(arg, -9223372036854775807LL, 9223372036854775807LL, v); }
	if (!strcmp(name, "run")) { *type = 'R'; return parse_num(arg, 0, NF - 1, v); }
	if (!strcmp(name, "kill")) { *type = 'K'; return parse_num(arg, 0, NF - 1, v); }
	return 0;
}

/* script tokens attached to `owner` (a main call, or NULL when `isr0` is the top-level interrupt).  Returns the token at
 * which it stopped (not a script token) or NULL at the end of the line; *ok = 0 on a malformed token. */
static char *parse_script(call_t *owner, call_t **isr0, int have_pt, int *ok)
{
	int k = 0, post = 0, nk = 0, npost = 0, have_npt = 0;
	call_t *last = isr0 ? *isr0 : NULL;
	char *t;
	while ((t = strtok(NULL, " \n"))) {
		char type; long long arg;
		if (t[0] == 'b' && (t[1] == ':' || t[1] == '=')) {
			/* body tokens: only directly after the call, before any script token */
			long long g;
			if (!owner || have_pt || last) { *ok = 0; return NULL; }
			if (t[1] == '=') { if (!strchr("ywef", t[2]) || !t[2] || t[3]) { *ok = 0; return NULL; } owner->bret = t[2]; }
			else if ((t[2] == 'r' || t[2] == 'k') && parse_num(t + 3, 0, NF - 1, &g) && owner->nbody < MAXBODY) {
				owner->bkind[owner->nbody] = t[2]; owner->barg[owner->nbody] = (int)g; owner->nbody++;
			} else { *ok = 0; return NULL; }
		}
		else if (t[0] == '@') { if (!parse_gap(t + 1, &k, &post)) { *ok = 0; return NULL; } have_pt = 1; have_npt = 0; }
		else if (t[0] == '^') { if (!parse_gap(t + 1, &nk, &npost)) { *ok = 0; return NULL; } have_npt = 1; }
		else if (t[0] == 'A' || t[0] == 'E') {
			if (!have_pt || !parse_sender(t, 1, &type, &arg)) { *ok = 0; return NULL; }
			if (!owner && last) { *ok = 0; return NULL; }               /* `isr`: exactly one interrupt */
			last = new_call(type, arg, k, post, 0, owner);
			if (!last) { *ok = 0; return NULL; }
			if (isr0) *isr0 = last;
			have_npt = 0;
		} else if (t[0] == 'a' || t[0] == 'e') {
			if (!have_npt || !last || !parse_sender(t, 0, &type, &arg) || !new_call(type, arg, nk, npost, 1, last)) { *ok = 0; return NULL; }
		} else
			return t;
	}
	return NULL;
}

static void run_item(call_t *root)
{
	nfired = 0;
	exec_call(root);
	out("unfired=%d", ncalls - nfired);
	endline();
}

int main(void)
{
	static char in[1 << 16];
	setvbuf(stdout, NULL, _IOLBF, 0); /* keep output up to a crash */
	memcpy(kernel0, &kernel, sizeof kernel);
	signal(SIGALRM, on_alarm);
	signal(SIGABRT, on_abort);
	default_cfg();
	do_reset();
	while (fgets(in, sizeof in, stdin)) {
		char *op = strtok(in, " \n");
		int ok = 1;
		if (!op) continue;
		ncalls = 0;
		if (!strcmp(op, "--")) { puts("--"); }
		else if (!strcmp(op, "reset")) { default_cfg(); do_reset(); puts("ok"); }
		else if (!strcmp(op, "bigq")) {
			/* bigq <depth> <event size> <events> <burst>: an event queue of any permitted geometry (up to 32 x 65535 bytes), implementation
			 * only.  Bursts of up to <burst> (<= 7) events are claimed, stamped in their first and last word, sent, then the scheduler runs
			 * until idle; the handler checks that events arrive exactly once, in send order and intact. */
			long long d = 0, m = 0, n = 0, b = 0;
			char *t1 = strtok(NULL, " \n"), *t2 = strtok(NULL, " \n"), *t3 = strtok(NULL, " \n"), *t4 = strtok(NULL, " \n");
			if (!t1 || !t2 || !t3 || !t4 || !parse_num(t1, 1, 32, &d) || !parse_num(t2, 8, 65535, &m) || !parse_num(t3, 1, 100000, &n) || !parse_num(t4, 1, 7, &b)) { puts("bad-op"); continue; }   /* at most 7 sends between passes: the 8-slot atomic run queue never refuses */
			puts(bigq((unsigned)d, (unsigned)m, (unsigned)n, (unsigned)b));
		}
		else if (!strcmp(op, "cfg")) {
			char *t = strtok(NULL, " \n");
			long long d, v;
			int n = 1;
			char nk[NF]; unsigned nb[NF]; uint32_t np[NF];
			memset(nk, 'w', sizeof nk); memset(nb, 0, sizeof nb); memset(np, 0, sizeof np);
			nk[0] = 'h';
			if (!t || !parse_num(t, 1, 32, &d)) ok = 0;
			while (ok && (t = strtok(NULL, " \n"))) {
				if (n >= NF) { ok = 0; break; }
				if (!strcmp(t, "w")) nk[n] = 'w';
				else if (!strcmp(t, "c")) nk[n] = 'c';
				else if (t[0] == 'y' && parse_num(t + 1, 0, 1000000, &v)) { nk[n] = 'y'; nb[n] = (unsigned)v; }
				else if (t[0] == 's' && parse_num(t + 1, 0, 4294967295LL, &v)) { nk[n] = 's'; np[n] = (uint32_t)v; }
				else ok = 0;
				n++;
			}
			if (!ok) { puts("bad-op"); continue; }
			evdepth = (unsigned)d;
			memcpy(kind, nk, sizeof kind); memcpy(budget, nb, sizeof budget); memcpy(period, np, sizeof period);
			do_reset();
			printf("ok nf=%d\n", n);
		} else if (!strcmp(op, "next") || !strcmp(op, "run") || !strcmp(op, "kill")) {
			char type; long long v;
			char *a = strtok(NULL, " \n");
			if (!a || !parse_main(op, a, &type, &v)) { puts("bad-op"); continue; }
			call_t *root = new_call(type, v, 0, 0, 0, NULL);
			if (parse_script(root, NULL, 0, &ok) || !ok) { puts("bad-op"); continue; }
			run_item(root);
		} else if (!strcmp(op, "isr")) {
			call_t *root = NULL;
			if (parse_script(NULL, &root, 1, &ok) || !ok || !root) { puts("bad-op"); continue; }
			run_item(root);
		} else if (!strcmp(op, "thread")) {
			char type; long long v;
			char *c = strtok(NULL, " \n");
			if (!c || !parse_sender(c, 1, &type, &v)) { puts("bad-op"); continue; }
			call_t *root = new_call(type, v, 0, 0, 2, NULL);
			char *t = strtok(NULL, " \n");
			while (ok && t) {
				int k, post;
				char *m, *colon;
				if (t[0] != '%' || !parse_gap(t + 1, &k, &post) || !(m = strtok(NULL, " \n")) || !(colon = strchr(m, ':'))) { ok = 0; break; }
				*colon = 0;
				if (!parse_main(m, colon + 1, &type, &v)) { ok = 0; break; }
				call_t *mc = new_call(type, v, k, post, 0, root);
				if (!mc) { ok = 0; break; }
				t = parse_script(mc, NULL, 0, &ok);
			}
			if (!ok) { puts("bad-op"); continue; }
			out("T[");
			run_item(root);
		} else if (!strcmp(op, "quiesce")) {
			if (strtok(NULL, " \n")) { puts("bad-op"); continue; }
			memset(budget, 0, sizeof budget);
			int busy = 1;
			for (int i = 0; i < 64; i++) {
				ncalls = 0;
				call_t *root = new_call('N', kernel.now, 0, 0, 0, NULL);
				exec_call(root);
				if (!dispatched_now) { busy = 0; break; }
			}
			out("Q:%s:taint=%u", busy ? "busy" : "idle", (unsigned)kernel.taint_flags);
			endline();
		} else puts("bad-op");
	}
	return 0;
}

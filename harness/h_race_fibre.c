/* C07 harness, scheduler part: the real fibre.c included (so the file-static `kernel` is reachable) and compiled
 * with -fsanitize=thread like the other library sources; see h_race.c. */
#include <string.h>
#include "fibre.c"

void h_race_fibre_reset(void)
{
	memset(&kernel, 0, sizeof kernel);
	memset(atomic_runq_buf, 0, sizeof atomic_runq_buf);
	list_t empty = LIST_VAR_INIT;
	kernel.runq = empty;
	kernel.timerq = empty;
	messageq_init(&kernel.atomic_runq, atomic_runq_buf, sizeof(atomic_runq_buf), sizeof(atomic_runq_buf[0]));
}

void h_race_fibre_names(void (*name)(const volatile void *, size_t, const char *))
{
#ifndef VERIF_BLACKBOX   /* field names are cosmetic: without them a location prints as kernel+<offset> */
	name(&kernel.atomic_runq.num_free, sizeof kernel.atomic_runq.num_free, "runq.num_free");
	name(&kernel.atomic_runq.sendp, sizeof kernel.atomic_runq.sendp, "runq.sendp");
	name(&kernel.atomic_runq.full_flags, sizeof kernel.atomic_runq.full_flags, "runq.full_flags");
	name(&kernel.atomic_runq.receivep, sizeof kernel.atomic_runq.receivep, "runq.receivep");
	name(&kernel.taint_flags, sizeof kernel.taint_flags, "kernel.taint_flags");
#endif
	name(&kernel, sizeof kernel, "kernel");
	name(atomic_runq_buf, sizeof atomic_runq_buf, "runqbuf");
}

/* C07 supporting evidence (thorough tier only): real threads under the real ThreadSanitizer run-time.
 * This is NOT the deciding method (that is the proof + the traced happens-before check); it addresses the
 * property's "long randomised real-thread runs under ThreadSanitizer" clause as a cross-check.
 * usage: h_tsan_soak <ring|mq|fibre> <iterations> ; prints "OK <n>" ; TSan reports go to stderr, exit code 66. */
#include <pthread.h>
#include <stdio.h>
#include <stdlib.h>
#include <string.h>
#include <stdint.h>
#include <stdbool.h>
#include <sched.h>
#include <librfn/ringbuf.h>
#include <librfn/messageq.h>
#include <librfn/fibre.h>

static long N;

/* ---- ring ---- */
static ringbuf_t rb; static uint8_t rbmem[13];
static void *ring_prod(void *a) { (void)a; for (long i = 0; i < N; i++) { while (!ringbuf_put(&rb, (uint8_t)(i * 7))) sched_yield(); } return NULL; }
static void *ring_cons(void *a) { (void)a; for (long i = 0; i < N; ) { int d = ringbuf_get(&rb); if (d < 0) { sched_yield(); continue; }
	if (d != (uint8_t)(i * 7)) { fprintf(stderr, "ring: byte %ld is %d\n", i, d); exit(3); } i++; } return NULL; }

/* ---- message queue ---- */
#define NS 3
static messageq_t mq; static uint32_t mqmem[5][2];
static void *mq_send(void *a) { long id = (long)a; for (long i = 0; i < N; i++) { uint32_t *m; while (!(m = messageq_claim(&mq))) sched_yield();
	m[0] = (uint32_t)id; m[1] = (uint32_t)i; messageq_send(&mq, m); } return NULL; }
static void *mq_recv(void *a) { (void)a; long next[NS] = { 0 }; for (long got = 0; got < NS * N; ) { uint32_t *m = messageq_receive(&mq); if (!m) { sched_yield(); continue; }
	if (m[0] >= NS || m[1] != (uint32_t)next[m[0]]++) { fprintf(stderr, "mq: sender %u message %u out of order\n", m[0], m[1]); exit(3); }
	messageq_release(&mq, m); got++; } return NULL; }

/* ---- fibre wake-ups and events ---- */
static fibre_t F[3]; static volatile long dispatched[3];
static int body(fibre_t *f) { dispatched[f - F]++; return PT_WAITING; }
static fibre_eventq_t evq; static uint32_t evmem[4]; static volatile long events_seen; static volatile int stop;
static int handler(fibre_t *f) { (void)f; uint32_t *e; while ((e = fibre_eventq_receive(&evq))) { events_seen += (*e != 0); fibre_eventq_release(&evq, e); } return PT_WAITING; }
static void *isr(void *a) { long id = (long)a; for (long i = 0; i < N; i++) {
	if (i & 1) { uint32_t *e = fibre_eventq_claim(&evq); if (e) { *e = (uint32_t)(i + 1); fibre_eventq_send(&evq, e); } }
	else fibre_run_atomic(&F[(id + i) % 3]);
	if ((i & 15) == 0) sched_yield(); } return NULL; }

int main(int argc, char **argv)
{
	if (argc < 3) return 2;
	N = atol(argv[2]);
	pthread_t t[8];
	if (!strcmp(argv[1], "ring")) {
		ringbuf_init(&rb, rbmem, sizeof rbmem);
		pthread_create(&t[0], 0, ring_prod, 0); pthread_create(&t[1], 0, ring_cons, 0);
		pthread_join(t[0], 0); pthread_join(t[1], 0);
	} else if (!strcmp(argv[1], "mq")) {
		messageq_init(&mq, mqmem, sizeof mqmem, sizeof mqmem[0]);
		for (long i = 0; i < NS; i++) pthread_create(&t[i], 0, mq_send, (void *)i);
		pthread_create(&t[NS], 0, mq_recv, 0);
		for (int i = 0; i <= NS; i++) pthread_join(t[i], 0);
	} else {
		for (int i = 0; i < 3; i++) fibre_init(&F[i], body);
		fibre_eventq_init(&evq, handler, evmem, sizeof evmem, sizeof evmem[0]);
		pthread_create(&t[0], 0, isr, (void *)1); pthread_create(&t[1], 0, isr, (void *)2);
		uint32_t now = 0;
		for (long k = 0; k < 40 * N; k++) fibre_scheduler_next(now++);      /* main context: scheduler passes while the senders run */
		pthread_join(t[0], 0); pthread_join(t[1], 0);
		for (int k = 0; k < 64; k++) fibre_scheduler_next(now++);
	}
	printf("OK %ld\n", N);
	return 0;
}

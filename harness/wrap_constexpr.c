/* tie T wrapper: the real macro text of include/librfn/constexpr.h is what clang parses */
#include <stdint.h>
#include <librfn/constexpr.h>
int w_const_pop(uint64_t c) { return const_pop(c); }
int w_const_lssb(uint64_t c) { return const_lssb(c); }

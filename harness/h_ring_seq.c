/* C05 deep search (no shim, -O2): sequential producer/consumer bursts on the real ringbuf.c against a FIFO
 * reference, for buffer lengths and operation counts that the interleaving harness cannot reach (rings larger
 * than 64 KiB, more than 2^32 bytes through one ring).  usage: h_ring_seq <len> <start> <nbytes> <seed>
 * prints "OK <bytes>" or "FAIL <what> len=.. start=.. after=<bytes moved> ..." */
#include <stdio.h>
#include <stdlib.h>
#include <string.h>
#include <stdint.h>
#include <librfn/ringbuf.h>

int main(int argc, char **argv)
{
	if (argc < 5) return 2;
	size_t len = strtoull(argv[1], 0, 10), start = strtoull(argv[2], 0, 10);
	unsigned long long total = strtoull(argv[3], 0, 10), moved = 0;
	uint64_t st = strtoull(argv[4], 0, 10) * 0x9E3779B97F4A7C15ull + 99;
	uint8_t *mem = malloc(len + 32);
	memset(mem, 0xEE, len + 32);
	ringbuf_t rb;
	ringbuf_init(&rb, mem + 16, len);
	rb.readi = start; rb.writei = start;
	uint8_t next_put = 1, next_get = 1;       /* bytes carry a running counter: the reference FIFO is implicit */
	size_t unread = 0;
	unsigned long long round = 0;
	while (moved < total) {
		st ^= st >> 12; st ^= st << 25; st ^= st >> 27;
		uint64_t r = st * 0x2545F4914F6CDD1Dull;
		/* every 64th round (and the first two) fills the ring completely: the capacity clause; otherwise a burst */
		int fill = (round < 2) || (round & 63) == 0;
		size_t burst = fill ? len + 1 : (size_t)((r >> 33) % len);
		if (!fill && burst > 4096) burst = 4096 + (burst & 1023);
		round++;
		for (size_t i = 0; i < burst; i++) {
			int ok = ringbuf_put(&rb, next_put);
			if (ok) {
				if (unread >= len - 1) { printf("FAIL put-accepted-on-full len=%zu start=%zu after=%llu unread=%zu\n", len, start, moved, unread); return 0; }
				next_put++; unread++;
			} else {
				if (unread != len - 1) { printf("FAIL put-refused len=%zu start=%zu after=%llu unread=%zu\n", len, start, moved, unread); return 0; }
				break;
			}
		}
		if ((unread == 0) != (ringbuf_empty(&rb) ? 1 : 0)) { printf("FAIL empty-wrong len=%zu start=%zu after=%llu unread=%zu\n", len, start, moved, unread); return 0; }
		/* drain policy: mostly leave the newest byte(s) unread so that the indices roll over with data in flight */
		size_t keep = ((r >> 11) & 3) == 0 ? 0 : 1 + ((r >> 13) % 3);
		size_t take = unread > keep ? unread - keep : (unread ? 1 : 0);
		for (size_t i = 0; i < take; i++) {
			int d = ringbuf_get(&rb);
			if (d != next_get) { printf("FAIL get-value len=%zu start=%zu after=%llu got=%d want=%u unread=%zu\n", len, start, moved, d, next_get, unread); return 0; }
			next_get++; unread--; moved++;
		}
		if (unread == 0 && ringbuf_get(&rb) != -1) { printf("FAIL get-on-empty len=%zu start=%zu after=%llu\n", len, start, moved); return 0; }
		if ((round & 255) == 0 || fill)
			for (int g = 0; g < 16; g++)
				if (mem[g] != 0xEE || mem[16 + len + g] != 0xEE) { printf("FAIL guard-bytes len=%zu start=%zu after=%llu\n", len, start, moved); return 0; }
	}
	printf("OK %llu\n", moved);
	return 0;
}

/* C05 deep search (no shim, -O2): sequential producer/consumer bursts on the real ringbuf.c against a FIFO
 * reference, for buffer lengths and operation counts that the interleaving harness cannot reach (rings larger
 * than 64 KiB, more than 2^32 bytes through one ring).  usage: h_ring_seq <len> <start> <nbytes> <seed>
 * prints "OK <bytes>" or "FAIL <what> len=.. start=.. after=<bytes moved> ..." */
#include <stdio.h>
#include <stdlib.h>
#include <string.h>
#include <stdint.h>
#include <sys/mman.h>
#include <librfn/ringbuf.h>

int main(int argc, char **argv)
{
	if (argc < 5) return 2;
	size_t len = strtoull(argv[1], 0, 10), start = strtoull(argv[2], 0, 10);
	unsigned long long total = strtoull(argv[3], 0, 10), moved = 0;
	uint64_t st = strtoull(argv[4], 0, 10) * 0x9E3779B97F4A7C15ull + 99;
	/* rings of a gigabyte and more (indices beyond 2^31): address space only, the pages that are touched get memory */
	int huge = len > ((size_t)1 << 30);
	uint8_t *mem = huge ? mmap(NULL, len + 32, PROT_READ | PROT_WRITE, MAP_PRIVATE | MAP_ANONYMOUS | MAP_NORESERVE, -1, 0) : malloc(len + 32);
	if (!mem || mem == MAP_FAILED) { printf("OK 0\n"); return 0; }     /* no address space: nothing explored (counted as 0 bytes) */
	if (huge) { memset(mem, 0xEE, 16); memset(mem + 16 + len, 0xEE, 16); }
	else memset(mem, 0xEE, len + 32);
	ringbuf_t rb;
	ringbuf_init(&rb, mem + 16, len);
	rb.readi = start; rb.writei = start;
	uint8_t next_put = 1, next_get = 1;       /* bytes carry a running counter: the reference FIFO is implicit */
	size_t unread = 0;
	unsigned long long round = 0;
	while (moved < total) {
		st ^= st >> 12; st ^= st << 25; st ^= st >> 27;
		uint64_t r = st * 0x2545F4914F6CDD1Dull;
		/* every 64th round (and the first two) fills the ring completely: the capacity clause; otherwise a burst */
		int fill = !huge && ((round < 2) || (round & 63) == 0);
		size_t burst = fill ? len + 1 : (size_t)((r >> 33) % len);
		if (!fill && burst > 4096) burst = 4096 + (burst & 1023);
		round++;
		for (size_t i = 0; i < burst; i++) {
			int ok = ringbuf_put(&rb, next_put);
			if (ok) {
				if (unread >= len - 1) { printf("FAIL put-accepted-on-full len=%zu start=%zu after=%llu unread=%zu\n", len, start, moved, unread); return 0; }
				next_put++; unread++;
			} else {
				if (unread != len - 1) { printf("FAIL put-refused len=%zu start=%zu after=%llu unread=%zu\n", len, start, moved, unread); return 0; }
				break;
			}
		}
		if ((unread == 0) != (ringbuf_empty(&rb) ? 1 : 0)) { printf("FAIL empty-wrong len=%zu start=%zu after=%llu unread=%zu\n", len, start, moved, unread); return 0; }
		/* drain policy: mostly leave the newest byte(s) unread so that the indices roll over with data in flight */
		size_t keep = ((r >> 11) & 3) == 0 ? 0 : 1 + ((r >> 13) % 3);
		size_t take = unread > keep ? unread - keep : (unread ? 1 : 0);
		for (size_t i = 0; i < take; i++) {
			int d = ringbuf_get(&rb);
			if (d != next_get) { printf("FAIL get-value len=%zu start=%zu after=%llu got=%d want=%u unread=%zu\n", len, start, moved, d, next_get, unread); return 0; }
			next_get++; unread--; moved++;
		}
		if (unread == 0 && ringbuf_get(&rb) != -1) { printf("FAIL get-on-empty len=%zu start=%zu after=%llu\n", len, start, moved); return 0; }
		if ((round & 255) == 0 || fill)
			for (int g = 0; g < 16; g++)
				if (mem[g] != 0xEE || mem[16 + len + g] != 0xEE) { printf("FAIL guard-bytes len=%zu start=%zu after=%llu\n", len, start, moved); return 0; }
	}
	/* re-initialisation of a used descriptor over the same memory with a shorter length: an empty ring of len2 bytes,
	 * whatever the indices were, and nothing written beyond the len2 bytes handed over */
	if (!huge && len >= 4) {
		size_t len2 = len / 2;
		memset(mem + 16 + len2, 0xEE, len - len2);
		ringbuf_init(&rb, mem + 16, len2);
		if (!ringbuf_empty(&rb) || ringbuf_get(&rb) != -1) { printf("FAIL reinit-not-empty len=%zu start=%zu after=%llu len2=%zu\n", len, start, moved, len2); return 0; }
		for (int lap = 0; lap < 3; lap++) {
			size_t n = 0;
			while (ringbuf_put(&rb, (uint8_t)(n * 7 + lap + 1))) {
				if (++n > len2) { printf("FAIL reinit-capacity len=%zu start=%zu after=%llu len2=%zu\n", len, start, moved, len2); return 0; }
			}
			if (n != len2 - 1) { printf("FAIL reinit-capacity len=%zu start=%zu after=%llu len2=%zu accepted=%zu\n", len, start, moved, len2, n); return 0; }
			for (size_t i = 0; i < n; i++) {
				int d = ringbuf_get(&rb);
				if (d != (uint8_t)(i * 7 + lap + 1)) { printf("FAIL reinit-get-value len=%zu start=%zu after=%llu len2=%zu got=%d\n", len, start, moved, len2, d); return 0; }
			}
			for (size_t g = len2; g < len; g++)
				if (mem[16 + g] != 0xEE) { printf("FAIL reinit-wrote-outside len=%zu start=%zu after=%llu len2=%zu at=%zu\n", len, start, moved, len2, g); return 0; }
		}
	}
	printf("OK %llu\n", moved);
	return 0;
}

/* tie T2 wrapper: one translation unit holding fibre.c and the util.c whose cyclecmp32 it may call, so that
 * tools/c2lean2.py can inline the comparison into duetime_cmp if a rewrite uses it.  Translated with -I<repository root>;
 * never compiled into a harness. */
#include "librfn/util.c"
#include "librfn/fibre.c"

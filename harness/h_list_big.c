/* C09 large-list harness (C side only; the oracle is the Python sequence in props/C09.py — these scenarios are
 * NOT pushed through the Lean model).  One list, a pool of POOL nodes allocated once (each its own exactly-sized
 * heap block), bulk operations so that a scenario that builds a list of 70 000 members is a dozen lines.
 *
 * ops : reset asc|eq            clear list and nodes; key mode: asc = key +id for insert/sorted/iinsert and -id-1 for push
 *                               (the list stays sorted ascending, sorted insert takes the O(1) append path), eq = all keys 0
 *       grow <pattern> <n>      add nodes next, next+1, ... until <n> additions were made in total by this line;
 *                               the k-th addition uses pattern[k % len]: i = list_insert, p = list_push, s = list_insert_sorted
 *       obs                     "empty=E peek=P n=N hash=H dirty=D": list_empty, list_peek, full traversal (count, bounded by
 *                               POOL+1 -> "loop"; order hash h = h*31 + id + 1 mod 2^64), number of nodes outside the
 *                               traversal whose next is not NULL
 *       contains <id>           list_contains(list, node, NULL)
 *       extract <count>         <count> times list_extract: "n=<non-NULL results> hash=<same hash over returned ids, NULL = -1>"
 *       iremove <pos>           list_iterate, <pos> times list_iterator_next, list_iterator_remove: id of the returned node
 *                               ("nocur" instead of calling it when there is no current node)
 *       iinsert <pos>           the same walk, then list_iterator_insert of the next free node: "ok"
 *       remove <id>             list_remove
 * "--" echoes "--".
 */
#include <stdio.h>
#include <stdlib.h>
#include <string.h>
#include <stdint.h>
#include <unistd.h>
#include <librfn/list.h>
#include <librfn/util.h>

#define POOL 70016

typedef struct { list_node_t n; int key; int id; } N;

static N **nodes;
static unsigned char *member;
static list_t *L;
static int next_id;
static int asc;

static int cmp(list_node_t *a, list_node_t *b)
{
	return containerof(a, N, n)->key - containerof(b, N, n)->key;
}

static int id(list_node_t *p)
{
	return p ? containerof(p, N, n)->id : -1;
}

static void reset(int mode_asc)
{
	for (int i = 0; i < POOL; i++) {
		nodes[i]->n.next = NULL;
		nodes[i]->key = 0;
	}
	free(L);
	L = calloc(1, sizeof(list_t));
	next_id = 0;
	asc = mode_asc;
	alarm(60);
}

static void add(char kind)
{
	N *x = nodes[next_id];
	if (kind == 'p') {
		x->key = asc ? -next_id - 1 : 0;
		list_push(L, &x->n);
	} else {
		x->key = asc ? next_id : 0;
		if (kind == 's')
			list_insert_sorted(L, &x->n, cmp);
		else
			list_insert(L, &x->n);
	}
	next_id++;
}

int main(void)
{
	char line[128], op[32], arg[64];
	setvbuf(stdout, NULL, _IOLBF, 0);
	nodes = calloc(POOL, sizeof *nodes);
	member = calloc(POOL, 1);
	for (int i = 0; i < POOL; i++) {
		nodes[i] = calloc(1, sizeof(N));
		nodes[i]->id = i;
	}
	reset(1);
	while (fgets(line, sizeof line, stdin)) {
		long a = -1;
		arg[0] = 0;
		int n = sscanf(line, "%31s %63s %ld", op, arg, &a);
		if (n < 1)
			continue;
		if (!strcmp(op, "--")) {
			puts("--");
		} else if (!strcmp(op, "reset") && n == 2) {
			reset(!strcmp(arg, "asc"));
			puts("ok");
		} else if (!strcmp(op, "grow") && n == 3 && a >= 0 && next_id + a <= POOL && strspn(arg, "ips") == strlen(arg) && arg[0]) {
			size_t len = strlen(arg);
			for (long k = 0; k < a; k++)
				add(arg[k % len]);
			puts("ok");
		} else if (!strcmp(op, "obs") && n == 1) {
			uint64_t h = 0; long cnt = 0; int dirty = 0;
			list_node_t *p;
			memset(member, 0, POOL);
			for (p = L->head; p && cnt <= POOL; p = p->next, cnt++) {
				h = h * 31 + (uint64_t)(id(p) + 1);
				member[id(p)] = 1;
			}
			for (int i = 0; i < POOL; i++)
				if (!member[i] && nodes[i]->n.next)
					dirty++;
			printf("empty=%d peek=%d ", list_empty(L) ? 1 : 0, id(list_peek(L)));
			if (p)
				printf("n=loop");
			else
				printf("n=%ld hash=%llu", cnt, (unsigned long long)h);
			printf(" dirty=%d\n", dirty);
		} else if (!strcmp(op, "contains") && n == 2 && atol(arg) >= 0 && atol(arg) < POOL) {
			printf("%d\n", list_contains(L, &nodes[atol(arg)]->n, NULL) ? 1 : 0);
		} else if (!strcmp(op, "remove") && n == 2 && atol(arg) >= 0 && atol(arg) < POOL) {
			printf("%d\n", list_remove(L, &nodes[atol(arg)]->n) ? 1 : 0);
		} else if (!strcmp(op, "extract") && n == 2 && atol(arg) >= 0) {
			uint64_t h = 0; long cnt = 0;
			for (long k = atol(arg); k > 0; k--) {
				list_node_t *p = list_extract(L);
				h = h * 31 + (uint64_t)(id(p) + 1);
				if (p)
					cnt++;
			}
			printf("n=%ld hash=%llu\n", cnt, (unsigned long long)h);
		} else if ((!strcmp(op, "iremove") || !strcmp(op, "iinsert")) && n == 2 && atol(arg) >= 0) {
			list_iterator_t it;
			list_iterate(L, &it);
			for (long k = atol(arg); k > 0; k--)
				list_iterator_next(&it);
			if (op[1] == 'r') {
				if (!*(it.prevnext))
					puts("nocur");
				else
					printf("%d\n", id(list_iterator_remove(&it)));
			} else if (next_id < POOL) {
				nodes[next_id]->key = asc ? next_id : 0;
				list_iterator_insert(&it, &nodes[next_id]->n);
				next_id++;
				puts("ok");
			} else {
				puts("bad-op");
			}
		} else {
			puts("bad-op");
		}
	}
	return 0;
}

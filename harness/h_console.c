/* C15 harness: the real console.c (included so that the file-static `cmd_table` can be restored between
 * histories and printed; no hook in /repo), linked with the real fibre.c/list.c/messageq.c/ringbuf.c/util.c.
 *
 * ops (one per line; byte strings are hex):
 *   reset                      new console (exactly-sized, canaries on both sides, ASan-poisoned), table restored
 *   silent                     console_silent()
 *   reg <name> <k> <f> <d>     console_register() of a new capturing script: yields k times, then exits (f=0) or
 *                              fails (f=1); d=1: scribbles 0xAA over the whole scratch union after capturing
 *   proc <bytes>               console_process() per byte
 *   put <bytes>                console_putchar() per byte (nothing is run)
 *   sched                      fibre_scheduler_next() until idle
 *   eval <bytes>               console_eval() driven as a protothread (scheduler run until idle between
 *                              resumptions) until it exits; bounded, so non-completion is reported
 *   --                         echoes --
 * Output per proc/sched/eval: one `cap …` line per started script, [`eval …`], `out=<hex of what was written to c->out>`,
 * `st …` (cursor, argc, argv as offsets, ring fill, scratch union with trailing zeros trimmed). */
#include <stdio.h>
#include <stdlib.h>
#include <string.h>
#include <signal.h>
#include <unistd.h>
#include <sanitizer/asan_interface.h>
#include "console.c"

/* every op must finish: a hang (or an output flood) of the code under test is a result, not a stuck check */
#define OP_SECONDS 5
#define OUT_LIMIT (1u << 20)
static void on_alarm(int sig)
{
	static const char msg[] = "\n!! HANG: the operation did not finish\n";
	(void)sig;
	if (write(1, msg, sizeof msg - 1)) {}
	_exit(4);
}

void console_hwinit(console_t *c) { (void)c; }

#define CANARY 32
static unsigned char *block;
static console_t *con;
static FILE *memf;
static char *membuf;
static size_t memsz, memlast;

typedef struct xcmd {
	console_cmd_t cmd;
	int id, k, fail, dirty;
	char *name;
	struct xcmd *next;
} xcmd_t;
static xcmd_t *xcmds;
static int next_id;

static void hexout(const unsigned char *p, size_t n)
{
	for (size_t i = 0; i < n; i++)
		printf("%02x", p[i]);
}

static size_t trimmed(const unsigned char *p, size_t n)
{
	while (n && p[n - 1] == 0)
		n--;
	return n;
}

static void print_argv(console_t *c)
{
	for (int i = 0; i < 4; i++)
		printf("%s%ld", i ? "," : "", c->argv[i] ? (long)(c->argv[i] - c->scratch.buf) : -1L);
}

static pt_state_t script_fn(console_t *c)
{
	xcmd_t *x = containerof(c->cmd, xcmd_t, cmd);
	if (c->pt == 0) {
		printf("cap id=%d argc=%d argv=", x->id, c->argc);
		print_argv(c);
		printf(" buf=");
		hexout((unsigned char *)c->scratch.buf, trimmed((unsigned char *)c->scratch.buf, sizeof(c->scratch.buf)));
		printf("\n");
		if (x->dirty)
			memset(&c->scratch, 0xAA, sizeof(c->scratch));
	}
	if (c->pt < x->k) {
		c->pt++;
		return PT_YIELDED;
	}
	return x->fail ? PT_FAILED : PT_EXITED;
}

static void check_canaries(void)
{
	int bad = 0;
	ASAN_UNPOISON_MEMORY_REGION(block, CANARY);
	ASAN_UNPOISON_MEMORY_REGION(block + CANARY + sizeof(console_t), CANARY);
	for (int i = 0; i < CANARY; i++)
		if (block[i] != 0xC5 || block[CANARY + sizeof(console_t) + i] != 0xC5)
			bad = 1;
	ASAN_POISON_MEMORY_REGION(block, CANARY);
	ASAN_POISON_MEMORY_REGION(block + CANARY + sizeof(console_t), CANARY);
	if (bad)
		printf("!! CANARY overwritten\n");
}

static void run_idle(void)
{
	int n;
	for (n = 0; n < 100000 && fibre_scheduler_next(0) == 0; n++)
		;
	if (n >= 100000)
		printf("!! scheduler never became idle\n");
}

static void teardown(void)
{
	if (con) {
		fibre_kill(&con->fibre);
		run_idle();	/* leaves kernel.current == NULL */
		check_canaries();
		ASAN_UNPOISON_MEMORY_REGION(block, CANARY);
		ASAN_UNPOISON_MEMORY_REGION(block + CANARY + sizeof(console_t), CANARY);
		free(block);
		con = NULL;
		fclose(memf);
		free(membuf);
	}
	while (xcmds) {
		xcmd_t *n = xcmds->next;
		free(xcmds->name);
		free(xcmds);
		xcmds = n;
	}
}

static void setup(void)
{
	teardown();
	memset(cmd_table, 0, sizeof(cmd_table));
	cmd_table[0] = &cmd_echo;
	cmd_table[1] = &cmd_help;
	cmd_table[2] = &cmd_unknown;
	next_id = 0;
	block = malloc(2 * CANARY + sizeof(console_t));
	memset(block, 0xC5, 2 * CANARY + sizeof(console_t));
	con = (console_t *)(block + CANARY);
	ASAN_POISON_MEMORY_REGION(block, CANARY);
	ASAN_POISON_MEMORY_REGION(block + CANARY + sizeof(console_t), CANARY);
	membuf = NULL;
	memsz = memlast = 0;
	memf = open_memstream(&membuf, &memsz);
	console_init(con, memf);
}

static void report(void)
{
	fflush(memf);
	if (memsz - memlast > OUT_LIMIT) {
		printf("!! FLOOD: more than %u bytes of console output in one operation\n", OUT_LIMIT);
		exit(5);
	}
	printf("out=");
	hexout((unsigned char *)membuf + memlast, memsz - memlast);
	memlast = memsz;
	printf("\nst bufp=%ld argc=%d argv=", con->bufp ? (long)(con->bufp - con->scratch.buf) : 0L, con->argc);
	print_argv(con);
	printf(" ring=%u mem=",
	       (unsigned)((con->ring.writei + sizeof(con->ringbuf) - con->ring.readi) % sizeof(con->ringbuf)));
	hexout((unsigned char *)&con->scratch, trimmed((unsigned char *)&con->scratch, sizeof(con->scratch)));
	printf("\n");
	check_canaries();
}

static size_t unhex(const char *s, unsigned char *out)
{
	size_t n = 0;
	while (s[0] && s[1] && s[0] != '\n') {
		unsigned x;
		sscanf(s, "%2x", &x);
		out[n++] = (unsigned char)x;
		s += 2;
	}
	return n;
}

static void names(void)
{
	for (size_t i = 0; i < lengthof(cmd_table); i++) {
		if (!cmd_table[i])
			continue;	/* a hole would shift the list: visible */
		if (i)
			printf(",");
		if (cmd_table[i]->name)
			hexout((const unsigned char *)cmd_table[i]->name, strlen(cmd_table[i]->name));
		else
			printf("-");
	}
}

int main(void)
{
	static char line[1 << 17], arg[1 << 17];
	static unsigned char bytes[1 << 16];
	char op[32];
	setvbuf(stdout, NULL, _IOLBF, 0);	/* keep output up to a crash */
	signal(SIGALRM, on_alarm);
	setup();
	while (fgets(line, sizeof line, stdin)) {
		int k = 0, f = 0, d = 0;
		alarm(OP_SECONDS);
		arg[0] = 0;
		int n = sscanf(line, "%31s %131000s %d %d %d", op, arg, &k, &f, &d);
		if (n < 1)
			continue;
		size_t nb = unhex(arg, bytes);
		if (!strcmp(op, "--")) {
			puts("--");
		} else if (!strcmp(op, "reset")) {
			setup();
			puts("ok");
		} else if (!strcmp(op, "silent")) {
			console_silent(con);
			puts("ok");
		} else if (!strcmp(op, "reg") && n == 5) {
			xcmd_t *x = calloc(1, sizeof *x);
			x->name = malloc(nb + 1);	/* exactly-sized: strcmp over-reads are seen */
			memcpy(x->name, bytes, nb);
			x->name[nb] = 0;
			x->cmd.name = x->name;
			x->cmd.fn = script_fn;
			x->id = next_id++;
			x->k = k; x->fail = f; x->dirty = d;
			x->next = xcmds; xcmds = x;
			int rc = console_register(&x->cmd);
			printf("reg %d ", rc);
			names();
			printf("\n");
		} else if (!strcmp(op, "proc")) {
			for (size_t i = 0; i < nb; i++)
				console_process(con, (char)bytes[i]);
			report();
		} else if (!strcmp(op, "put")) {
			for (size_t i = 0; i < nb; i++)
				console_putchar(con, (char)bytes[i]);
			printf("ring=%u\n", (unsigned)((con->ring.writei + sizeof(con->ringbuf) - con->ring.readi) % sizeof(con->ringbuf)));
		} else if (!strcmp(op, "sched")) {
			run_idle();
			report();
		} else if (!strcmp(op, "eval")) {
			char *s = malloc(nb + 1);	/* exactly-sized C string */
			memcpy(s, bytes, nb);
			s[nb] = 0;
			pt_t pt;
			PT_INIT(&pt);
			size_t iter = 0, bound = nb + 8;
			pt_state_t st;
			do {
				st = console_eval(&pt, con, s);
				run_idle();
				iter++;
			} while (st < PT_EXITED && iter < bound);
			if (st < PT_EXITED)
				printf("eval stuck\n");
			else
				printf("eval done %zu\n", iter);
			free(s);
			report();
		} else {
			puts("bad-op");
		}
	}
	teardown();
	return 0;
}

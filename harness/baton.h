/* Deterministic interleaving of logical threads over the unmodified lock-free sources (DESIGN.md §2, tie D).
 *
 * Include from exactly ONE translation unit of a harness that is compiled with harness/shim first on the
 * include path.  Logical threads are pthreads that pass a baton (semaphores): at any time exactly one of
 * {scheduler, thread 0, …} runs, so the interleaving is exactly the schedule the harness feeds to
 * baton_step().  A thread gives the baton back at every *yield point*:
 *     - before every atomic operation   (verif_pre  from the shim)
 *     - after  every atomic operation   (verif_post from the shim)
 *     - wherever the thread body calls baton_yield(event)  (e.g. between two library calls)
 * The stretch a thread runs between two yield points is a *segment*; one baton_step(t) = one segment of t.
 * At the end of each segment the thread prints one log line
 *     T<t> <event><suffix>
 * where <event> is  "<op> <object> <memory order> <values>"  after an atomic operation (object = the name
 * registered for the address with baton_name(), values as described in shim/stdatomic.h), the text given
 * to baton_yield(), or for a pre-operation yield the text set with baton_set_pending() ("call …") and
 * otherwise "local"; <suffix> comes from the harness's baton_suffix callback (shared state after the segment).
 *
 * Aborting: baton_abort_all() makes every parked thread leave through pthread_exit from inside its yield
 * point (used when a spin loop cannot finish); no library code is modified for that.
 */
#ifndef LIBRFN_VERIF_BATON_H
#define LIBRFN_VERIF_BATON_H
#ifndef _GNU_SOURCE
#define _GNU_SOURCE              /* sched_setaffinity; harnesses include baton.h before any libc header or pass -D_GNU_SOURCE */
#endif
#include <pthread.h>
#include <sched.h>
#include <semaphore.h>
#include <stdio.h>
#include <stdlib.h>
#include <string.h>

#define BATON_MAXT 8
#define BATON_MAXNAMES 64

static sem_t baton_sem[BATON_MAXT], baton_sched_sem;
static pthread_t baton_thr[BATON_MAXT];
static volatile int baton_done[BATON_MAXT], baton_live[BATON_MAXT], baton_abort;
static int baton_n;
static __thread int baton_me = -1;
static __thread char baton_pending[96];
static void (*baton_suffix)(char *dst, size_t n);          /* optional: shared-state suffix for log lines */
static unsigned long baton_ops_logged;                     /* atomic operations executed by logical threads */
static unsigned long baton_order_hist[6];                  /* dynamic histogram of memory orders (relaxed … seq_cst) */
static struct { const volatile void *addr; size_t size; const char *name; } baton_names[BATON_MAXNAMES];
static int baton_nnames;

static void baton_name(const volatile void *addr, size_t size, const char *name)
{
	if (baton_nnames < BATON_MAXNAMES) {
		baton_names[baton_nnames].addr = addr;
		baton_names[baton_nnames].size = size;
		baton_names[baton_nnames].name = name;
		baton_nnames++;
	}
}
static void baton_forget_names(void) { baton_nnames = 0; }

static const char *baton_lookup(const volatile void *addr, char *tmp, size_t n)
{
	for (int i = 0; i < baton_nnames; i++) {
		const volatile char *b = baton_names[i].addr;
		if ((const volatile char *)addr >= b && (const volatile char *)addr < b + baton_names[i].size) {
			if ((const volatile char *)addr == b)
				return baton_names[i].name;
			snprintf(tmp, n, "%s+%ld", baton_names[i].name, (long)((const volatile char *)addr - b));
			return tmp;
		}
	}
	return "addr?";
}

static const char *baton_order_name(int mo)
{
	static const char *nm[] = { "relaxed", "consume", "acquire", "release", "acq_rel", "seq_cst" };
	return (mo >= 0 && mo < 6) ? nm[mo] : "order?";
}

static void baton_set_pending(const char *text)
{
	snprintf(baton_pending, sizeof baton_pending, "%s", text);
}

/* end of a segment: print its log line, hand the baton to the scheduler, wait to be resumed */
static void baton_yield(const char *event)
{
	char suf[256] = "";
	if (baton_me < 0)
		return;
	if (baton_suffix)
		baton_suffix(suf, sizeof suf);
	printf("T%d %s%s\n", baton_me, event, suf);
	sem_post(&baton_sched_sem);
	sem_wait(&baton_sem[baton_me]);
	if (baton_abort) {
		baton_done[baton_me] = 1;
		sem_post(&baton_sched_sem);
		pthread_exit(NULL);
	}
}

/* a thread's last segment: print the line, mark done, give the baton back for good */
static void baton_finish(const char *event)
{
	char suf[256] = "";
	if (baton_suffix)
		baton_suffix(suf, sizeof suf);
	printf("T%d %s%s\n", baton_me, event, suf);
	baton_done[baton_me] = 1;
	sem_post(&baton_sched_sem);
}

void verif_pre(const char *op, const volatile void *addr, int order, const char *file, int line)
{
	(void)op; (void)addr; (void)order; (void)file; (void)line;
	if (baton_me < 0)
		return;
	if (baton_pending[0]) {
		char ev[96];
		snprintf(ev, sizeof ev, "%s", baton_pending);
		baton_pending[0] = 0;
		baton_yield(ev);
	} else {
		baton_yield("local");
	}
}

void verif_post(const char *op, const volatile void *addr, int order, unsigned long long before,
		unsigned long long after)
{
	char ev[192], tmp[64];
	if (baton_me < 0)
		return;
	baton_ops_logged++;
	if (!strncmp(op, "cas", 3)) {
		int s = order / 8, f = order % 8;
		if (s >= 0 && s < 6) baton_order_hist[s]++;
		snprintf(ev, sizeof ev, "%s %s %s/%s %llu %llu", op, baton_lookup(addr, tmp, sizeof tmp),
			 baton_order_name(s), baton_order_name(f), before, after);
	} else {
		if (order >= 0 && order < 6) baton_order_hist[order]++;
		if (!strcmp(op, "load") || !strcmp(op, "store"))
			snprintf(ev, sizeof ev, "%s %s %s %llu", op, baton_lookup(addr, tmp, sizeof tmp),
				 baton_order_name(order), after);
		else
			snprintf(ev, sizeof ev, "%s %s %s %llu %llu", op, baton_lookup(addr, tmp, sizeof tmp),
				 baton_order_name(order), before, after);
	}
	baton_yield(ev);
}

/* Keep all logical threads on one CPU (BATON_CPU, else the current one): the baton guarantees that only one of
 * them is runnable, and handing it over on the same CPU is several times faster than a cross-CPU wake-up. */
static void baton_pin(void)
{
	const char *e = getenv("BATON_CPU");
	int c = e ? atoi(e) : sched_getcpu();
	cpu_set_t set;
	if (c < 0)
		return;
	CPU_ZERO(&set);
	CPU_SET(c, &set);
	(void)sched_setaffinity(0, sizeof set, &set);    /* best effort */
}

struct baton_start { int id; void (*body)(void *); void *arg; };

static void *baton_trampoline(void *p)
{
	struct baton_start st = *(struct baton_start *)p;
	free(p);
	baton_me = st.id;
	baton_pending[0] = 0;
	sem_wait(&baton_sem[baton_me]);            /* parked until first scheduled */
	if (baton_abort) {
		baton_done[baton_me] = 1;
		sem_post(&baton_sched_sem);
		return NULL;
	}
	st.body(st.arg);                            /* must end with baton_finish() */
	return NULL;
}

static void baton_init(void)
{
	static int once;
	if (!once) {
		sem_init(&baton_sched_sem, 0, 0);
		for (int i = 0; i < BATON_MAXT; i++)
			sem_init(&baton_sem[i], 0, 0);
		once = 1;
	}
	baton_n = 0;
	baton_abort = 0;
}

static int baton_spawn(void (*body)(void *), void *arg)
{
	struct baton_start *st = malloc(sizeof *st);
	int id = baton_n++;
	st->id = id; st->body = body; st->arg = arg;
	baton_done[id] = 0; baton_live[id] = 1;
	if (pthread_create(&baton_thr[id], NULL, baton_trampoline, st)) {
		perror("pthread_create");
		exit(3);
	}
	return id;
}

/* run one segment of thread t; returns 0 when t had already finished (nothing ran) */
static int baton_step(int t)
{
	if (t < 0 || t >= baton_n || baton_done[t])
		return 0;
	sem_post(&baton_sem[t]);
	sem_wait(&baton_sched_sem);
	return 1;
}

/* make every unfinished thread leave from inside its yield point, then join all */
static void baton_join_all(void)
{
	baton_abort = 1;
	for (int t = 0; t < baton_n; t++) {
		if (!baton_done[t]) {
			sem_post(&baton_sem[t]);
			sem_wait(&baton_sched_sem);
		}
	}
	for (int t = 0; t < baton_n; t++) {
		if (baton_live[t]) {
			pthread_join(baton_thr[t], NULL);
			baton_live[t] = 0;
		}
	}
	baton_abort = 0;
	baton_n = 0;
}

#endif

#define _GNU_SOURCE
/* C18 harness: the real hex.c (included, so the static inline hexchar()/nibble() are reachable; no hook in /repo).
 * Byte strings travel as lower-case hex pairs, "-" = empty.  Every string handed to hex_get_byte lives in an
 * exactly-sized heap block (len + 1 bytes) so that ASan sees a one-byte over-read.
 * ops:  tables | dump <bytes> | parse <text> | reparse <text> | bdump | bparse | breparse | reset ; "--" echoes "--"
 *   b...     second placement mode: instead of a fresh block per string, the text (and the byte array of a dump) is copied
 *            RIGHT-ALIGNED into one persistent BLK-byte heap block allocated once per process (the NUL is the last byte of
 *            the block, so ASan still sees a one-byte over-read; the unused left part is refilled with 0xEE).  Texts of
 *            one history thus occupy the same addresses one after the other, like a refilled line buffer or a recycled
 *            chunk: state that hex.c might keep between calls, keyed on addresses, becomes visible.  Same output format.
 *   tables   isspace/isxdigit of libc as hex.c calls them ((int) of a char), nibble() and hexchar() for all 256 chars
 *   dump     "dump ret=<n> <text>" (hex_dump_to_file into a memstream), then the parse line of that text
 *   parse    "parse v@off ... -1 -1 -1": hex_get_byte(text,&p), then hex_get_byte(NULL,&p) until -1 (at most
 *            len+2 calls, else "!!no-end"), then two more calls; off = *p - text
 *   reparse  the same in the calling style of tests/hextest.c: hex_get_byte(p, &p) */
#include <stdio.h>
#include <stdlib.h>
#include <string.h>
#include <unistd.h>
#include "hex.c"

/* If a refactoring of hex.c removes one of the static helpers the harness is rebuilt with -DNO_HEXCHAR and/or
 * -DNO_NIBBLE: the corresponding table row is then produced by the reference below (and the plugin records the
 * helper tie as broken), so that the functional ops - which do not depend on the helpers - still decide. */
#ifdef NO_HEXCHAR
static char hexchar(char h) { return h < 10 ? '0' + h : 'a' - 10 + h; }
#endif
#ifdef NO_NIBBLE
static int nibble(char h) { return h <= '9' ? h - '0' : (h & ~('a' - 'A')) - 'A' + 10; }
#endif

static unsigned char *decode(const char *w, size_t *n)
{
	size_t len = strcmp(w, "-") ? strlen(w) / 2 : 0;
	unsigned char *b = malloc(len ? len : 1);
	for (size_t i = 0; i < len; i++) {
		unsigned x = 0;
		sscanf(w + 2 * i, "%2x", &x);
		b[i] = (unsigned char)x;
	}
	*n = len;
	return b;
}

static void encode(const unsigned char *b, size_t n)
{
	if (!n)
		printf("-");
	for (size_t i = 0; i < n; i++)
		printf("%02x", b[i]);
}

#define BLK 4096
static char *text_blk;            /* persistent block for texts */
static unsigned char *array_blk;  /* persistent block for the arrays handed to hex_dump_to_file */

/* the string of len bytes right-aligned in the persistent text block (NULL when it does not fit) */
static char *place_text(const void *src, size_t len)
{
	if (len + 1 > BLK)
		return NULL;
	if (!text_blk)
		text_blk = malloc(BLK);
	memset(text_blk, 0xEE, BLK - len - 1);
	memcpy(text_blk + BLK - len - 1, src, len);
	text_blk[BLK - 1] = 0;
	return text_blk + BLK - len - 1;
}

/* text: exactly len+1 bytes on the heap (or the tail of the persistent block), text[len] == 0 */
static void parse_line(const char *text, size_t len, int again)
{
	const char *p = (const char *)0x1; /* poison: the first call must set it */
	int b = hex_get_byte(text, &p);
	size_t calls = 1;

	printf("parse");
	while (b != -1) {
		printf(" %d@%ld", b, p ? (long)(p - text) : -1L);
		if (calls++ >= len + 2) {
			printf(" !!no-end\n");
			return;
		}
		b = again ? hex_get_byte(p, &p) : hex_get_byte(NULL, &p);
	}
	printf(" -1");
	for (int i = 0; i < 2; i++) {
		b = again ? hex_get_byte(p, &p) : hex_get_byte(NULL, &p);
		if (b == -1)
			printf(" -1");
		else
			printf(" %d@%ld", b, p ? (long)(p - text) : -1L);
	}
	printf("\n");
}

/* block-history mode dumps into a stream that was used before: every write succeeds, but an earlier, unrelated failed
 * read has left the stream's (sticky) error indicator set */
struct ubuf { char **p; size_t *n; };
static ssize_t ub_write(void *c, const char *b, size_t k)
{
	struct ubuf *u = c;
	*u->p = realloc(*u->p, *u->n + k + 1);
	memcpy(*u->p + *u->n, b, k); *u->n += k; (*u->p)[*u->n] = 0;
	return (ssize_t)k;
}
static ssize_t ub_read(void *c, char *b, size_t k) { (void)c; (void)b; (void)k; return -1; }
static int ub_close(void *c) { free(c); return 0; }
static FILE *used_stream(char **txt, size_t *tl)
{
	struct ubuf *u = malloc(sizeof *u);
	cookie_io_functions_t io = { ub_read, ub_write, NULL, ub_close };
	u->p = txt; u->n = tl; *txt = calloc(1, 1); *tl = 0;
	FILE *f = fopencookie(u, "w+", io);
	(void)fgetc(f);                 /* fails: error indicator set */
	return f;
}

int main(void)
{
	static char line[1 << 20], op[32], arg[1 << 20];
	setvbuf(stdout, NULL, _IOLBF, 0); /* keep output up to a crash */
	while (fgets(line, sizeof line, stdin)) {
		int n = sscanf(line, "%31s %s", op, arg);
		if (n < 1)
			continue;
		alarm(20); /* a call that never returns is a result, not a hang of the check */
		if (!strcmp(op, "--")) {
			puts("--");
		} else if (!strcmp(op, "reset")) {
			puts("ok");
		} else if (!strcmp(op, "tables") && n == 1) {
			printf("isspace ");
			for (int c = 0; c < 256; c++)
				putchar(isspace((int)(char)c) ? '1' : '0');
			printf("\nisxdigit ");
			for (int c = 0; c < 256; c++)
				putchar(isxdigit((int)(char)c) ? '1' : '0');
			printf("\nnibble ");
			for (int c = 0; c < 256; c++)
				printf("%s%d", c ? "," : "", nibble((char)c));
			printf("\nhexchar ");
			for (int c = 0; c < 256; c++)
				printf("%s%d", c ? "," : "", (int)(unsigned char)hexchar((char)c));
			printf("\n");
		} else if ((!strcmp(op, "dump") || !strcmp(op, "bdump")) && n == 2) {
			size_t len, tl = 0;
			int blk = op[0] == 'b';
			unsigned char *raw = decode(arg, &len);
			unsigned char *fresh = NULL, *bytes; /* exactly sized / right-aligned: an over-read of the array is seen */
			char *txt = NULL;
			FILE *f = blk ? used_stream(&txt, &tl) : open_memstream(&txt, &tl);
			if (blk && len <= BLK) {
				if (!array_blk)
					array_blk = malloc(BLK);
				memset(array_blk, 0xEE, BLK - len);
				bytes = array_blk + BLK - len;
			} else {
				fresh = malloc(len ? len : 1);
				bytes = len ? fresh : fresh + 1;
			}
			memcpy(bytes, raw, len);
			int ret = hex_dump_to_file(f, bytes, len);
			fclose(f);
			printf("dump ret=%d ", ret);
			encode((unsigned char *)txt, tl);
			printf("\n");
			char *exact = NULL, *text = blk ? place_text(txt, tl) : NULL;
			if (!text) {
				text = exact = malloc(tl + 1);
				memcpy(exact, txt, tl);
				exact[tl] = 0;
			}
			parse_line(text, tl, 0);
			free(exact); free(txt); free(fresh); free(raw);
		} else if ((!strcmp(op, "parse") || !strcmp(op, "reparse") || !strcmp(op, "bparse") || !strcmp(op, "breparse")) && n == 2) {
			size_t len;
			int blk = op[0] == 'b';
			unsigned char *raw = decode(arg, &len);
			char *exact = NULL, *text = blk ? place_text(raw, len) : NULL;
			if (!text) {
				text = exact = malloc(len + 1);
				memcpy(exact, raw, len);
				exact[len] = 0;
			}
			parse_line(text, len, op[blk] == 'r');
			free(exact); free(raw);
		} else {
			puts("bad-op");
		}
	}
	return 0;
}

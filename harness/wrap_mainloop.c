/* tie T2 wrapper: one translation unit holding the POSIX main loop and the cyclecmp32 it calls, so that
 * tools/c2lean2.py can inline the comparison; time_now(), fibre_scheduler_next() and usleep() stay external
 * (the tie treats them as the environment).  Translated with -I<repository root>; never compiled into a harness. */
#include "librfn/util.c"
#include "librfn/posix/fibre_posix.c"

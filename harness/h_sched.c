/* C01-C03 harness: the real fibre.c (included so that the file-static `kernel` is reachable; no hook in
 * /repo) linked with the real list.c, messageq.c, util.c.
 *
 * ops (one per line; same protocol as `librfn_model sched`):
 *   reset | run f | atomic f | kill f | next T ret item*        f < 8, T / due times: decimal integers (taken mod 2^32)
 *   loop T1 T2 ret item*    ONE iteration of the real fibre_scheduler_main_loop() (posix/fibre_posix.c, included
 *                           below) on a virtual clock: the 1st time_now() returns T1, the 2nd T2; usleep(d) records d
 *                           and leaves the infinite loop by longjmp; going round without sleeping (a 2nd call of
 *                           fibre_scheduler_next or a 3rd time_now()) records "none" and leaves the same way.
 *                           Output: the `next` line of that pass + " sleep=<d>" | " sleep=none".
 *   ret in y w e f (yielded waiting exited failed); item in r:g a:g k:g t:D p:L ; "--" echoes "--"
 * Every fibre's entry point is a script interpreter: it performs the items of the pass's script, logs
 * (fibre id, priv at entry, results), stores priv when told to, and returns `ret`.
 * A history that makes the scheduler loop for ever (corrupted list) is cut by SIGALRM: "!! HANG", exit 3. */
#include <stdio.h>
#include <stdlib.h>
#include <string.h>
#include <stdint.h>
#include <signal.h>
#include <unistd.h>
#include <setjmp.h>
#include "fibre.c"

/* ---- virtual clock + usleep for the POSIX main loop (time_posix.c is NOT linked: these are the only
 * time_now()/usleep() of the executable; util.c's ratelimit_check() would use them too) ---- */
static jmp_buf loop_exit;
static int in_loop, clock_calls, loop_passes;
static uint32_t clock_t1, clock_t2, loop_wake;
static long long loop_slept;		/* -1 = went round without sleeping */

uint32_t time_now(void)
{
	if (!in_loop) return 0;
	clock_calls++;
	if (clock_calls == 1) return clock_t1;
	if (clock_calls == 2) return clock_t2;
	loop_slept = -1;
	longjmp(loop_exit, 1);
}

int usleep(useconds_t d)
{
	if (!in_loop) return 0;
	loop_slept = (long long)d;
	longjmp(loop_exit, 1);
}

/* the main loop's call of fibre_scheduler_next goes through here so that the value it got is printed
 * (an include-side macro; nothing is added to /repo) and a second pass is not started */
static uint32_t loop_pass(uint32_t t)
{
	if (loop_passes++ > 0) { loop_slept = -1; longjmp(loop_exit, 1); }
	return loop_wake = fibre_scheduler_next(t);
}
#define fibre_scheduler_next loop_pass
#include "posix/fibre_posix.c"
#undef fibre_scheduler_next

#define NF 8
#define MAXSCRIPT 64

static fibre_t F[NF];
static unsigned char kernel0[sizeof kernel];	/* the static initialiser's image of `kernel` */

typedef struct { char k; long long v; } item_t;
static item_t script[MAXSCRIPT];
static int nscript, sret, dispatched;
static char outbuf[256 + 2 * MAXSCRIPT];

static int body(fibre_t *f)
{
	int id = (int)(f - F);
	char *o = outbuf;
	dispatched = id;
	o += sprintf(o, "disp=%d priv=%u res=", id, (unsigned)f->priv);
	for (int i = 0; i < nscript; i++) {
		item_t it = script[i];
		switch (it.k) {
		case 'r': fibre_run(&F[it.v]); *o++ = '.'; break;
		case 'a': *o++ = fibre_run_atomic(&F[it.v]) ? '1' : '0'; break;
		case 'k': *o++ = fibre_kill(&F[it.v]) ? '1' : '0'; break;
		case 't': *o++ = fibre_timeout((uint32_t)it.v) ? '1' : '0'; break;
		case 'p': f->priv = (uint16_t)it.v; *o++ = '.'; break;
		}
	}
	*o = 0;
	return sret;
}

static void do_reset(void)
{
	/* exactly the state the static initialisers describe */
	memcpy(&kernel, kernel0, sizeof kernel);
	memset(atomic_runq_buf, 0, sizeof atomic_runq_buf);
	for (int i = 0; i < NF; i++) {
		fibre_t init = FIBRE_VAR_INIT(body);
		F[i] = init;
	}
	alarm(20);
}

static void on_alarm(int sig)
{
	static const char msg[] = "!! HANG\n";
	(void)sig;
	if (write(1, msg, sizeof msg - 1) < 0) _exit(4);
	_exit(3);
}

static int parse_fid(const char *s, long long *out)
{
	char *end;
	if (!s || !*s) return 0;
	long long v = strtoll(s, &end, 10);
	if (*end || v < 0 || v >= NF) return 0;
	*out = v;
	return 1;
}

static int parse_ll(const char *s, long long *out)
{
	char *end;
	if (!s || !*s) return 0;
	*out = strtoll(s, &end, 10);
	return !*end;
}

int main(void)
{
	static char line[8192];
	setvbuf(stdout, NULL, _IOLBF, 0); /* keep output up to a crash */
	memcpy(kernel0, &kernel, sizeof kernel);
	signal(SIGALRM, on_alarm);
	do_reset();
	while (fgets(line, sizeof line, stdin)) {
		char *op = strtok(line, " \n");
		long long f;
		if (!op) continue;
		if (!strcmp(op, "--")) { puts("--"); }
		else if (!strcmp(op, "reset")) { do_reset(); puts("ok"); }
		else if (!strcmp(op, "run")) {
			if (parse_fid(strtok(NULL, " \n"), &f) && !strtok(NULL, " \n")) { fibre_run(&F[f]); puts("ok"); }
			else puts("bad-op");
		} else if (!strcmp(op, "atomic")) {
			if (parse_fid(strtok(NULL, " \n"), &f) && !strtok(NULL, " \n")) puts(fibre_run_atomic(&F[f]) ? "1" : "0");
			else puts("bad-op");
		} else if (!strcmp(op, "kill")) {
			if (parse_fid(strtok(NULL, " \n"), &f) && !strtok(NULL, " \n")) puts(fibre_kill(&F[f]) ? "1" : "0");
			else puts("bad-op");
		} else if (!strcmp(op, "next") || !strcmp(op, "loop")) {
			long long T, T2 = 0; int ok = 1, loop = op[0] == 'l'; char *t;
			if (!parse_ll(strtok(NULL, " \n"), &T)) ok = 0;
			if (loop && !parse_ll(strtok(NULL, " \n"), &T2)) ok = 0;
			t = strtok(NULL, " \n");
			if (!t || strlen(t) != 1 || !strchr("ywef", t[0])) ok = 0;
			else sret = t[0] == 'y' ? FIBRE_STATE_YIELDED : t[0] == 'w' ? FIBRE_STATE_WAITING
				  : t[0] == 'e' ? FIBRE_STATE_EXITED : FIBRE_STATE_FAILED;
			nscript = 0;
			while (ok && (t = strtok(NULL, " \n"))) {
				long long v;
				if (nscript >= MAXSCRIPT || !t[0] || t[1] != ':' || !strchr("raktp", t[0])) { ok = 0; break; }
				if (t[0] == 'r' || t[0] == 'a' || t[0] == 'k') { if (!parse_fid(t + 2, &v)) ok = 0; }
				else if (t[0] == 't') { if (!parse_ll(t + 2, &v)) ok = 0; }
				else { if (!parse_ll(t + 2, &v) || v < 0 || v >= 65536) ok = 0; }
				script[nscript].k = t[0]; script[nscript].v = v; nscript++;
			}
			if (!ok) { puts("bad-op"); continue; }
			dispatched = -1;
			uint32_t r;
			if (loop) {
				clock_t1 = (uint32_t)T; clock_t2 = (uint32_t)T2;
				clock_calls = loop_passes = 0; loop_slept = -1; loop_wake = 0;
				in_loop = 1;
				if (!setjmp(loop_exit)) fibre_scheduler_main_loop();	/* left by longjmp only */
				in_loop = 0;
				r = loop_wake;
			} else r = fibre_scheduler_next((uint32_t)T);
			fibre_t *s = fibre_self();
			int self = s ? (int)(s - F) : -1;
			if (dispatched < 0) printf("idle self=%d wake=%u", self, (unsigned)r);
			else printf("%s self=%d wake=%u", outbuf, self, (unsigned)r);
			if (!loop) puts("");
			else if (loop_slept < 0) puts(" sleep=none");
			else printf(" sleep=%lld\n", loop_slept);
		} else puts("bad-op");
	}
	return 0;
}

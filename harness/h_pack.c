/* C12 harness: the real pack.c driven by the line protocol of lean/Librfn/Driver/Pack.lean.
 * Every buffer (the packed buffer, the source of rf_pack_bytes, the destination of rf_unpack_bytes) is an
 * exactly-sized heap block, so that ASan reports a one-byte over-read or over-write.
 * ops: buf <n> <hex|-> | bufp <n> <seed> | init | pb <hex|-> | pn <n> | s16le v | u16be v | u16le v | s32le v | u32le v
 *      | ub <n> | us <n> | uc | us8 | uu8 | uu16 | uu32 | reset ; "--" echoes "--"
 * answer: <result> c=<consumed> r=<remaining> buf=<hex image, or #crc32 for more than 64 bytes> */
#include <stdio.h>
#include <stdlib.h>
#include <string.h>
#include <librfn.h>

static uint8_t *buf; static unsigned int bufn; static int have; static rf_pack_t pk;

static int hexv(int c) { return (c >= '0' && c <= '9') ? c - '0' : (c >= 'a' && c <= 'f') ? c - 'a' + 10 : -1; }

/* parse "<hex>" or "-" into an exactly-sized heap block; returns length or -1 */
static long parse_hex(const char *s, uint8_t **out)
{
	size_t n = strlen(s);
	if (!strcmp(s, "-")) { *out = malloc(0); return 0; }
	if (n % 2) return -1;
	uint8_t *p = malloc(n / 2);
	for (size_t i = 0; i < n / 2; i++) {
		int a = hexv(s[2 * i]), b = hexv(s[2 * i + 1]);
		if (a < 0 || b < 0) { free(p); return -1; }
		p[i] = (uint8_t)(a * 16 + b);
	}
	*out = p;
	return (long)(n / 2);
}

static void put_hex(const uint8_t *p, size_t n)
{
	if (!n) { fputs("-", stdout); return; }
	for (size_t i = 0; i < n; i++) printf("%02x", p[i]);
}

/* CRC-32 (IEEE, as zlib): printed instead of the image for buffers of more than 64 bytes */
static uint32_t crc32_of(const uint8_t *p, size_t n)
{
	uint32_t c = 0xffffffffu;
	for (size_t i = 0; i < n; i++) {
		c ^= p[i];
		for (int k = 0; k < 8; k++) c = (c & 1) ? (c >> 1) ^ 0xEDB88320u : c >> 1;
	}
	return c ^ 0xffffffffu;
}

static void tail(void)
{
	printf(" c=%d r=%d buf=", rf_pack_consumed(&pk), rf_pack_remaining(&pk));
	if (bufn <= 64) put_hex(buf, bufn); else printf("#%08x", crc32_of(buf, bufn));
	putchar('\n');
}

int main(void)
{
	static char line[1 << 16], op[32], arg[1 << 16];
	setvbuf(stdout, NULL, _IOLBF, 0); /* keep output up to a crash */
	while (fgets(line, sizeof line, stdin)) {
		unsigned long v = 0;
		arg[0] = 0;
		int n = sscanf(line, "%31s %65000s", op, arg);
		if (n < 1) continue;
		if (n >= 2) v = strtoul(arg, NULL, 10);
		if (!strcmp(op, "--")) { puts("--"); continue; }
		if (!strcmp(op, "reset")) { free(buf); buf = NULL; bufn = 0; have = 0; puts("ok"); continue; }
		if (!strcmp(op, "buf")) {
			static char h[1 << 16]; unsigned long sz; uint8_t *p;
			if (sscanf(line, "%*s %lu %65000s", &sz, h) != 2) { puts("bad-op"); continue; }
			long len = parse_hex(h, &p);
			if (len < 0) { puts("bad-op"); continue; }
			if ((unsigned long)len != sz) { free(p); puts("bad-op"); continue; }
			free(buf); buf = p; bufn = (unsigned int)sz; have = 1;
			rf_pack_init(&pk, buf, bufn);
			fputs("-", stdout); tail(); continue;
		}
		if (!strcmp(op, "bufp")) {	/* bufp <n> <seed>: exactly-sized block filled with a position dependent pattern */
			unsigned long sz, sd;
			if (sscanf(line, "%*s %lu %lu", &sz, &sd) != 2) { puts("bad-op"); continue; }
			free(buf); buf = malloc(sz); bufn = (unsigned int)sz; have = 1;
			for (unsigned long i = 0; i < sz; i++) buf[i] = (uint8_t)((i * 131 + (i / 256) * 17 + (i / 65536) * 29 + sd) % 256);
			rf_pack_init(&pk, buf, bufn);
			fputs("-", stdout); tail(); continue;
		}
		if (!have) { puts("bad-op"); continue; }
		if (!strcmp(op, "init")) { rf_pack_init(&pk, buf, bufn); fputs("-", stdout); }
		else if (!strcmp(op, "pb") && n == 2) {
			uint8_t *src; long len = parse_hex(arg, &src);
			if (len < 0) { puts("bad-op"); continue; }
			rf_pack_bytes(&pk, src, (unsigned int)len); free(src); fputs("-", stdout);
		}
		else if (!strcmp(op, "pn") && n == 2) { rf_pack_bytes(&pk, NULL, (unsigned int)v); fputs("-", stdout); }
		else if (!strcmp(op, "s16le") && n == 2) { rf_pack_s16le(&pk, (int16_t)(uint16_t)v); fputs("-", stdout); }
		else if (!strcmp(op, "u16be") && n == 2) { rf_pack_u16be(&pk, (uint16_t)v); fputs("-", stdout); }
		else if (!strcmp(op, "u16le") && n == 2) { rf_pack_u16le(&pk, (uint16_t)v); fputs("-", stdout); }
		else if (!strcmp(op, "s32le") && n == 2) { rf_pack_s32le(&pk, (int32_t)(uint32_t)v); fputs("-", stdout); }
		else if (!strcmp(op, "u32le") && n == 2) { rf_pack_u32le(&pk, (uint32_t)v); fputs("-", stdout); }
		else if (!strcmp(op, "ub") && n == 2) {
			uint8_t *dst = malloc(v); memset(dst, 0x77, v);
			rf_unpack_bytes(&pk, dst, (unsigned int)v);
			putchar('['); put_hex(dst, v); putchar(']'); free(dst);
		}
		else if (!strcmp(op, "us") && n == 2) { rf_unpack_bytes(&pk, NULL, (unsigned int)v); fputs("-", stdout); }
		else if (!strcmp(op, "uc")) printf("%d", (int)rf_unpack_char(&pk));
		else if (!strcmp(op, "us8")) printf("%d", (int)rf_unpack_s8(&pk));
		else if (!strcmp(op, "uu8")) printf("%u", (unsigned)rf_unpack_u8(&pk));
		else if (!strcmp(op, "uu16")) printf("%u", (unsigned)rf_unpack_u16le(&pk));
		else if (!strcmp(op, "uu32")) printf("%u", (unsigned)rf_unpack_u32le(&pk));
		else { puts("bad-op"); continue; }
		tail();
	}
	return 0;
}

/* C20 harness: the real mlog.c (included so that the file-static `log` is reachable; no hook in /repo).
 * ops: log i a b c | nice i a b c | clear | get k | dump | sethead H | reset ; "--" echoes "--" */
#include <stdio.h>
#include <stdlib.h>
#include <string.h>
#include <stdarg.h>
#include "mlog.c"

static const char *fmts[8] = { "F0 %lu %lu %lu", "F1 %lu %lu %lu", "F2 %lu %lu %lu", "F3 %lu %lu %lu",
			       "F4 %lu %lu %lu", "F5 %lu %lu %lu", "F6 %lu %lu %lu", "F7 %lu %lu %lu" };

int main(void)
{
	char line[256], op[32];
	setvbuf(stdout, NULL, _IOLBF, 0); /* keep output up to a crash */
	while (fgets(line, sizeof line, stdin)) {
		long a = 0; unsigned long b = 0, c = 0, d = 0;
		int n = sscanf(line, "%31s %ld %lu %lu %lu", op, &a, &b, &c, &d);
		if (n < 1) continue;
		if (!strcmp(op, "--")) { puts("--"); }
		else if (!strcmp(op, "log")) { mlog(fmts[a & 7], b, c, d); puts("ok"); }
		else if (!strcmp(op, "nice")) { mlog_nice(fmts[a & 7], b, c, d); puts("ok"); }
		else if (!strcmp(op, "clear")) { mlog_clear(); puts("ok"); }
		else if (!strcmp(op, "reset")) { memset(&log, 0, sizeof log); puts("ok"); }
		else if (!strcmp(op, "sethead")) { log.head = (unsigned int)a; puts("ok"); }
		else if (!strcmp(op, "get")) { char *s = mlog_get_line((int)a); puts(s ? s : "NULL"); free(s); }
		else if (!strcmp(op, "dump")) {
			char *buf = NULL; size_t sz = 0; FILE *f = open_memstream(&buf, &sz);
			/* records end without newline: separate them by re-dumping line by line is not possible
			 * through mlog_dump, so print the raw concatenation */
			mlog_dump(f); fclose(f); printf("dump:%s\n", buf); free(buf);
		}
		else puts("bad-op");
	}
	return 0;
}

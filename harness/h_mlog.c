/* C20 harness: the real mlog.c (included so that the file-static `log` is reachable; no hook in /repo).
 * ops: log i a b c | nice i a b c | clear | get k | dump | sethead H | reset ; "--" echoes "--" */
#include <stdio.h>
#include <stdlib.h>
#include <string.h>
#include <stdarg.h>
#ifdef VERIF_BLACKBOX
/* public interface only (the log's representation has changed): no `sethead`; `reset` can only clear */
#include <librfn/mlog.h>
#include <librfn/string.h>
#else
#include "mlog.c"
#endif

/* 16 format strings: plain, longer than any fixed line buffer, star width / precision, literal percent signs,
 * string arguments, no conversions at all.  The model/driver and the Python oracle render the same table. */
#define X50 "xxxxxxxxxxxxxxxxxxxxxxxxxxxxxxxxxxxxxxxxxxxxxxxxxx"
static const char *fmts[16] = { "F0 %lu %lu %lu", "F1 %lu %lu %lu", "F2 %lu %lu %lu", "F3 %lu %lu %lu",
			        "F4 %lu %lu %lu", "F5 %lu %lu %lu", "F6 %lu %lu %lu", "F7 %lu %lu %lu",
			        "L" X50 X50 X50 " %lu %lu %lu",          /*  8: > 150 characters                       */
			        "M" X50 X50 "xxxxxxxxxxxxxxxxxxxxx%lu",  /*  9: 122 + digits: straddles 127/128/129     */
			        "W[%*lu]%lu",                            /* 10: star width                              */
			        "P%%|%lu|%%%lu|%lu",                     /* 11: literal percent signs                   */
			        "S %s %lu %lu",                          /* 12: string argument                         */
			        "T%.*s|%lu",                             /* 13: star precision + string                 */
			        "",                                      /* 14: empty line                              */
			        "no conversions at all" };               /* 15                                          */
static const char *strs[4] = { "", "a", "hello", "percent%sign and spaces" };

/* arguments as the format needs them (all travel as uintptr_t through mlog's varargs, like any caller's) */
static void args_for(int i, unsigned long a[3])
{
	if (i == 10) a[0] %= 1100;                                 /* width 0..1099: line lengths across 64/128/256/512/1024 */
	if (i == 12) a[0] = (unsigned long)strs[a[0] & 3];
	if (i == 13) { a[0] %= 7; a[1] = (unsigned long)strs[a[1] & 3]; }
}

int main(void)
{
	char line[256], op[32];
	setvbuf(stdout, NULL, _IOLBF, 0); /* keep output up to a crash */
	while (fgets(line, sizeof line, stdin)) {
		long a = 0; unsigned long b = 0, c = 0, d = 0;
		int n = sscanf(line, "%31s %ld %lu %lu %lu", op, &a, &b, &c, &d);
		if (n < 1) continue;
		unsigned long av[3] = { b, c, d };
		if (!strcmp(op, "--")) { puts("--"); }
		else if (!strcmp(op, "log")) { args_for(a & 15, av); mlog(fmts[a & 15], av[0], av[1], av[2]); puts("ok"); }
		else if (!strcmp(op, "nice")) { args_for(a & 15, av); mlog_nice(fmts[a & 15], av[0], av[1], av[2]); puts("ok"); }
		else if (!strcmp(op, "clear")) { mlog_clear(); puts("ok"); }
#ifdef VERIF_BLACKBOX
		else if (!strcmp(op, "reset")) { mlog_clear(); puts("ok"); }
		else if (!strcmp(op, "sethead")) { puts("unsupported"); }
#else
		else if (!strcmp(op, "reset")) { memset(&log, 0, sizeof log); puts("ok"); }
		else if (!strcmp(op, "sethead")) { log.head = (unsigned int)a; puts("ok"); }
#endif
		else if (!strcmp(op, "get")) { char *s = mlog_get_line((int)a); puts(s ? s : "NULL"); free(s); }
		else if (!strcmp(op, "dump")) {
			char *buf = NULL; size_t sz = 0; FILE *f = open_memstream(&buf, &sz);
			/* records end without newline: separate them by re-dumping line by line is not possible
			 * through mlog_dump, so print the raw concatenation */
			mlog_dump(f); fclose(f); printf("dump:%s\n", buf); free(buf);
		}
		else puts("bad-op");
	}
	return 0;
}

/* C10 harness: sequential geometry runs of the real messageq.c.
 * ops: init <depth> <msglen> <slack> | claim | send <offset> | receive | release | empty | state | guard | reset ; "--" echoes "--"
 * Storage: one heap block  [GUARD bytes 0xEE][depth*msglen + slack bytes][GUARD bytes 0xEE], so ASan sees an access past
 * the block and the guard check sees one inside it.  Every claimed buffer is filled with a per-grant stamp (that is what a
 * caller does with it); receive checks the stamp; `guard` checks the guard zones, the slack bytes and every byte of
 * every slot against what the harness itself wrote. */
#include <stdio.h>
#include <stdlib.h>
#include <string.h>
#include <librfn/messageq.h>

#define GUARD 32
static unsigned char *block, *base;
static size_t len, msglen, depth, slack;
static messageq_t q;
static int have;
static unsigned char slotfill[256];     /* what the harness last wrote into slot i (0xEE = never written) */
static unsigned grants;
static unsigned char padmask[sizeof(messageq_t)];

#ifdef VERIF_BLACKBOX
/* public interface only (the structure's fields have changed): no field dump, no initialiser comparison */
static void mkmask(void) { }
static int masked_eq(const messageq_t *a, const messageq_t *b) { (void)a; (void)b; return 1; }
static void show(const char *pre, messageq_t *m) { (void)m; printf("%s?\n", pre); }
#else
static void mkmask(void)
{
	/* bytes of messageq_t that belong to a field (padding has no value to compare) */
	messageq_t m;
	memset(&m, 0, sizeof m);
	memset(&m.basep, 0xff, sizeof m.basep);
	memset(&m.msg_len, 0xff, sizeof m.msg_len);
	memset(&m.queue_len, 0xff, sizeof m.queue_len);
	memset((void *)&m.num_free, 0xff, sizeof m.num_free);
	memset((void *)&m.sendp, 0xff, sizeof m.sendp);
	memset((void *)&m.full_flags, 0xff, sizeof m.full_flags);
	memset(&m.receivep, 0xff, sizeof m.receivep);
	memcpy(padmask, &m, sizeof m);
}

static int masked_eq(const messageq_t *a, const messageq_t *b)
{
	const unsigned char *x = (const void *)a, *y = (const void *)b;
	for (size_t i = 0; i < sizeof *a; i++)
		if ((x[i] ^ y[i]) & padmask[i])
			return 0;
	return 1;
}

static void show(const char *pre, messageq_t *m)
{
	printf("%sqlen=%u msglen=%u free=%u sendp=%u flags=%u receivep=%u\n", pre, (unsigned)m->queue_len,
	       (unsigned)m->msg_len, (unsigned)atomic_load(&m->num_free), (unsigned)atomic_load(&m->sendp),
	       (unsigned)atomic_load(&m->full_flags), (unsigned)m->receivep);
}

#endif

static const char *guard(void)
{
	if (!have)
		return "guard ok";
	for (size_t i = 0; i < GUARD; i++)
		if (block[i] != 0xEE || base[len + i] != 0xEE)
			return "guard BAD (outside storage)";
	for (size_t i = depth * msglen; i < len; i++)
		if (base[i] != 0xEE)
			return "guard BAD (slack byte touched)";
	for (size_t s = 0; s < depth && s < 256; s++)
		for (size_t i = 0; i < msglen; i++)
			if (base[s * msglen + i] != slotfill[s])
				return "guard BAD (slot contents changed)";
	return "guard ok";
}

static void drop(void)
{
	free(block);
	block = base = NULL;
	have = 0;
}

int main(void)
{
	char line[256], op[32];
	setvbuf(stdout, NULL, _IOLBF, 0);
	mkmask();
	while (fgets(line, sizeof line, stdin)) {
		unsigned long a = 0, b = 0, c = 0;
		int n = sscanf(line, "%31s %lu %lu %lu", op, &a, &b, &c);
		if (n < 1)
			continue;
		if (!strcmp(op, "--")) {
			puts("--");
		} else if (!strcmp(op, "reset")) {
			drop();
			puts("ok");
		} else if (!strcmp(op, "init") && n == 4) {
			drop();
			if (b == 0) { puts("undefined"); continue; }
			depth = a; msglen = b; slack = c;
			len = depth * msglen + slack;
			block = malloc(GUARD + len + GUARD);
			memset(block, 0xEE, GUARD + len + GUARD);
			base = block + GUARD;
			memset(slotfill, 0xEE, sizeof slotfill);
			grants = 0;
			memset(&q, 0x5a, sizeof q);          /* init must not depend on previous contents */
			messageq_init(&q, base, len, msglen);
			/* the static initialiser is a macro: hand it expressions, not plain identifiers, as callers do
			 * (sizeof(hdr) + PAYLOAD, n * sizeof(msg) ...) */
			size_t len_a = len / 2, len_b = len - len_a, ml_a = msglen / 2, ml_b = msglen - ml_a;
			messageq_t q2 = MESSAGEQ_VAR_INIT(base, len_a + len_b, ml_a + ml_b);
#ifdef VERIF_BLACKBOX
			int eq = masked_eq(&q, &q2);
#else
			int eq = masked_eq(&q, &q2) && q.basep == (char *)base && q2.basep == (char *)base;
#endif
			have = 1;
			printf("init eq=%d ", eq);
			show("", &q);
		} else if (!have && strcmp(op, "guard")) {
			puts("no-queue");
		} else if (!strcmp(op, "claim")) {
			unsigned char *p = messageq_claim(&q);
			if (!p) { puts("NULL"); continue; }
			long off = p - base;
			printf("%ld\n", off);
			/* use the buffer as a caller would: fill all msg_len bytes */
			unsigned char st = (unsigned char)(1 + grants++ % 200);
			memset(p, st, msglen);
			if (off >= 0 && (size_t)off % msglen == 0 && (size_t)off / msglen < 256)
				slotfill[off / msglen] = st;
		} else if (!strcmp(op, "send") && n >= 2) {
			messageq_send(&q, base + a);
			puts("ok");
		} else if (!strcmp(op, "receive")) {
			unsigned char *p = messageq_receive(&q);
			if (!p) { puts("NULL"); continue; }
			long off = p - base;
			int bad = 0;
			if (off >= 0 && (size_t)off % msglen == 0 && (size_t)off / msglen < 256)
				for (size_t i = 0; i < msglen; i++)
					bad |= p[i] != slotfill[off / msglen];
			printf("%ld%s\n", off, bad ? " CORRUPT" : "");
		} else if (!strcmp(op, "release")) {
			messageq_release(&q, base);
			puts("ok");
		} else if (!strcmp(op, "empty")) {
			printf("%d\n", messageq_empty(&q) ? 1 : 0);
		} else if (!strcmp(op, "state")) {
			show("", &q);
		} else if (!strcmp(op, "guard")) {
			puts(guard());
		} else {
			puts("bad-op");
		}
	}
	drop();
	return 0;
}

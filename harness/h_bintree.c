/* C11 harness: the real bintree.c (not part of the library build; compiled from /repo's working tree here).
 * Every node is its own exactly-sized malloc block so ASan sees any access after the deallocator ran.
 *
 *   tree N ROOT l0 r0 l1 r1 … [align o0 o1 …]
 *                                build nodes 0…N-1 (`-` = NULL); node i lives `o(i mod #o)` bytes (even, < 16)
 *                                into its own block of exactly offset + sizeof(node) bytes, so node addresses
 *                                take every residue 0, 2, 4, 6 mod 8 the property allows      → ok
 *   lists i j …                  mark these nodes as list nodes             → ok
 *   iter in|pre|post|list [K]    iterate (to completion, or K ≥ 1 calls)    → seq …   (post: node/parent)
 *   riter in|pre|post|list [K]   the same, but the iterator object is NOT refilled with garbage first: it is re-used as
 *                                its previous use (any order, completed, cut short or completed early) left it
 *   resume                       finish an iteration cut short by K         → seq …
 *   trav in|pre|post|list        the recursive traversal                    → seq …
 *   owns i j [i j …]             node i owns the separate tree rooted at node j (a root of the forest the
 *                                `tree` line describes): the deallocator, handed node i, first frees that tree
 *                                with a nested bintree_free (same deallocator: nesting goes on), then node i → ok
 *   free | freel i | freer i     bintree_free(root) / _left(i) / _right(i)  → freed …  (ids in the order the
 *                                deallocator is entered)
 *   viz                          bintree_visualize(root) into a memory stream → viz <text, NL as |, TAB as >>
 *   dot ok | dot fail K          bintree_graphviz(root) into a healthy memory stream → dot <number of lines>;
 *                                or into an unbuffered stream whose write fails once K bytes went through → dot done
 *   leaf i                       bintree_is_leaf(node i)                    → leaf 0|1
 *   complete                     bintree_iterate_complete on an iteration cut short by K → done
 *                                (these only observe the tree: the link image afterwards must be the one before)
 *   image                        all links: `left,tag,right` per node, `x` for a deallocated node
 *   reset, "--" (echoed)
 * `h_bintree --stack K` runs the whole command loop in a thread with a K KiB stack: code whose stack use grows
 * with the depth of the tree overflows it on a deep chain (SIGSEGV on the guard page), constant-space code
 * does not.  The harness compares nothing itself.
 */
#define _GNU_SOURCE /* fopencookie */
#include <stdio.h>
#include <stdlib.h>
#include <string.h>
#include <stdint.h>
#include <sys/types.h>
#include <pthread.h>
#include "bintree.c"

/* packed + aligned(2): the harness's own accesses must not assume more than the 2-byte alignment the property grants */
struct hnode {
	bintree_node_t n; /* first member: a bintree_node_t * is a struct hnode * */
	int id;
	int is_list;
} __attribute__((packed, aligned(2)));

static struct hnode **nodes; /* id -> node (stale after free: only compared, never dereferenced) */
static unsigned char *offs;  /* id -> offset of the node inside its malloc block */
static int *owned;           /* id -> root id of the tree this node owns, or -1 */
static struct addr { uintptr_t a; int id; } *byaddr; /* the node addresses, sorted: pointer -> id without dereferencing */
static char *live;
static int nnodes;
static bintree_node_t *root;
static bintree_iterator_t it;
static int opened, post;

static void wipe(void)
{
	for (int i = 0; i < nnodes; i++)
		if (live[i])
			free((char *)nodes[i] - offs[i]);
	free(nodes);
	free(offs);
	free(owned);
	free(byaddr);
	free(live);
	nodes = NULL;
	offs = NULL;
	owned = NULL;
	byaddr = NULL;
	live = NULL;
	nnodes = 0;
	root = NULL;
	opened = post = 0;
	memset(&it, 0xa5, sizeof it); /* bintree_iterator_t on the stack is uninitialised in real callers */
}

static int cmp_addr(const void *x, const void *y)
{
	uintptr_t a = ((const struct addr *)x)->a, b = ((const struct addr *)y)->a;
	return a < b ? -1 : a > b;
}

/* id of a pointer value (tag bit already removed): binary search in the address table, never dereferences */
static int id_of(const void *p)
{
	int lo = 0, hi = nnodes - 1;
	while (lo <= hi) {
		int mid = lo + (hi - lo) / 2;
		if (byaddr[mid].a == (uintptr_t)p)
			return byaddr[mid].id;
		if (byaddr[mid].a < (uintptr_t)p)
			lo = mid + 1;
		else
			hi = mid - 1;
	}
	return -1;
}

static void put_ptr(const void *p)
{
	if (!p)
		printf("-");
	else {
		int id = id_of(p);
		if (id < 0)
			printf("?");
		else
			printf("%d", id);
	}
}

static bool is_list(bintree_node_t *n)
{
	return n && ((struct hnode *)n)->is_list;
}

static void dealloc(bintree_node_t *n)
{
	int id = id_of(n);
	printf(" ");
	put_ptr(n);
	fflush(stdout);
	if (id >= 0 && owned[id] >= 0 && live[owned[id]]) {
		/* the node owns another tree: free that first, re-entering bintree_free from inside the deallocator */
		int j = owned[id];
		owned[id] = -1;
		bintree_free((bintree_node_t *)nodes[j], dealloc);
	}
	if (id >= 0)
		live[id] = 0;
	free((char *)n - (id >= 0 ? offs[id] : 0)); /* really free the block the node lives in */
}

static void visit(void *ctx, bintree_node_t *n, bintree_node_t *parent, int depth)
{
	(void)ctx; (void)parent; (void)depth;
	if (n) {
		printf(" ");
		put_ptr(n);
	}
}

static void visit_list(void *ctx, bintree_node_t *n)
{
	(void)ctx;
	printf(" ");
	put_ptr(n);
}

static void show(bintree_node_t *n)
{
	printf(" ");
	put_ptr(n);
	if (post) {
		printf("/");
		put_ptr(it.parent);
	}
	fflush(stdout);
}

/* labels for visualize/graphviz: the id, odd ids with a quote so that graphviz's escape() allocates; NULL is "-" */
static char *labeller(bintree_node_t *n)
{
	char buf[32];
	if (!n)
		return strdup("-");
	int id = id_of(n);
	snprintf(buf, sizeof buf, (id & 1) ? "%d\"" : "%d", id);
	return strdup(buf);
}

/* a stream that takes `budget` bytes and then fails every write */
static ssize_t failing_write(void *cookie, const char *buf, size_t size)
{
	long *budget = cookie;
	(void)buf;
	if (*budget <= 0)
		return 0; /* error */
	if ((long)size > *budget)
		size = (size_t)*budget;
	*budget -= (long)size;
	return (ssize_t)size;
}

static bintree_node_t *parse_ptr(const char *w)
{
	if (!strcmp(w, "-"))
		return NULL;
	int i = atoi(w);
	return (i >= 0 && i < nnodes) ? (bintree_node_t *)nodes[i] : NULL;
}

static void *run(void *arg)
{
	char *line = NULL;
	size_t cap = 0;
	(void)arg;
	wipe();
	while (getline(&line, &cap, stdin) > 0) {
		char *save = NULL;
		char *op = strtok_r(line, " \t\r\n", &save);
		if (!op)
			continue;
		if (!strcmp(op, "--")) {
			puts("--");
		} else if (!strcmp(op, "reset")) {
			wipe();
			puts("ok");
		} else if (!strcmp(op, "tree")) {
			char *w = strtok_r(NULL, " \t\r\n", &save);
			char **tok = NULL;
			int ntok = 0, captok = 0, nalign = 0, at = -1;
			wipe();
			nnodes = w ? atoi(w) : 0;
			while ((w = strtok_r(NULL, " \t\r\n", &save))) {
				if (ntok == captok) {
					captok = captok ? 2 * captok : 64;
					tok = realloc(tok, captok * sizeof *tok);
				}
				tok[ntok++] = w;
			}
			for (int i = 0; i < ntok; i++)
				if (!strcmp(tok[i], "align")) {
					at = i;
					nalign = ntok - i - 1;
					break;
				}
			if (at < 0)
				at = ntok;
			nodes = calloc(nnodes ? nnodes : 1, sizeof *nodes);
			offs = calloc(nnodes ? nnodes : 1, 1);
			live = calloc(nnodes ? nnodes : 1, 1);
			owned = calloc(nnodes ? nnodes : 1, sizeof *owned);
			byaddr = calloc(nnodes ? nnodes : 1, sizeof *byaddr);
			for (int i = 0; i < nnodes; i++) {
				int o = nalign ? atoi(tok[at + 1 + i % nalign]) : 0;
				o = (o < 0 || o > 14) ? 0 : (o & ~1);
				offs[i] = (unsigned char)o;
				nodes[i] = (struct hnode *)((char *)malloc(o + sizeof(struct hnode)) + o);
				nodes[i]->id = i;
				nodes[i]->is_list = 0;
				live[i] = 1;
				owned[i] = -1;
				byaddr[i].a = (uintptr_t)nodes[i];
				byaddr[i].id = i;
			}
			qsort(byaddr, nnodes, sizeof *byaddr, cmp_addr);
			root = at > 0 ? parse_ptr(tok[0]) : NULL;
			for (int i = 0; i < nnodes; i++) {
				char *l = 1 + 2 * i < at ? tok[1 + 2 * i] : NULL;
				char *r = 2 + 2 * i < at ? tok[2 + 2 * i] : NULL;
				nodes[i]->n.left = l ? parse_ptr(l) : NULL;
				nodes[i]->n.right = r ? parse_ptr(r) : NULL;
			}
			free(tok);
			puts("ok");
		} else if (!strcmp(op, "owns")) {
			char *a, *b;
			while ((a = strtok_r(NULL, " \t\r\n", &save)) && (b = strtok_r(NULL, " \t\r\n", &save))) {
				int i = atoi(a), j = atoi(b);
				if (i >= 0 && i < nnodes && j >= 0 && j < nnodes)
					owned[i] = j;
			}
			puts("ok");
		} else if (!strcmp(op, "lists")) {
			char *w;
			for (int i = 0; i < nnodes; i++)
				if (live[i])
					nodes[i]->is_list = 0;
			while ((w = strtok_r(NULL, " \t\r\n", &save))) {
				int i = atoi(w);
				if (i >= 0 && i < nnodes && live[i])
					nodes[i]->is_list = 1;
			}
			puts("ok");
		} else if (!strcmp(op, "image")) {
			printf("img");
			for (int i = 0; i < nnodes; i++) {
				printf(" ");
				if (!live[i]) {
					printf("x");
					continue;
				}
				uintptr_t l = (uintptr_t)nodes[i]->n.left;
				put_ptr((void *)(l & ~(uintptr_t)1));
				printf(",%d,", (int)(l & 1));
				put_ptr(nodes[i]->n.right);
			}
			printf("\n");
		} else if (!strcmp(op, "iter") || !strcmp(op, "riter")) {     /* riter: the iterator object as its previous use left it */
			char *o = strtok_r(NULL, " \t\r\n", &save);
			char *k = strtok_r(NULL, " \t\r\n", &save);
			long calls = k ? atol(k) : -1; /* -1: to completion */
			bintree_node_t *n;
			if (!o) {
				puts("bad-op");
				continue;
			}
			if (op[0] != 'r')
				memset(&it, 0xa5, sizeof it);
			post = !strcmp(o, "post");
			printf("seq");
			fflush(stdout);
			if (!strcmp(o, "in"))
				n = bintree_iterate_in_order(&it, root);
			else if (!strcmp(o, "pre"))
				n = bintree_iterate_pre_order(&it, root);
			else if (post)
				n = bintree_iterate_post_order(&it, root);
			else
				n = bintree_iterate_list(&it, root, is_list);
			opened = 0;
			for (long c = 1; n; c++) {
				if (c > 4L * nnodes + 16) { /* this loop is the harness's own: do not print for ever */
					printf(" !!runaway");
					break;
				}
				show(n);
				if (calls >= 0 && c >= calls) {
					opened = 1;
					break;
				}
				n = bintree_next(&it);
			}
			printf("\n");
		} else if (!strcmp(op, "resume")) {
			printf("seq");
			if (opened) {
				long c = 0;
				for (bintree_node_t *n = bintree_next(&it); n; n = bintree_next(&it)) {
					if (++c > 4L * nnodes + 16) {
						printf(" !!runaway");
						break;
					}
					show(n);
				}
				opened = 0;
			}
			printf("\n");
		} else if (!strcmp(op, "complete")) {
			if (opened) {
				bintree_iterate_complete(&it);
				opened = 0;
			}
			puts("done");
		} else if (!strcmp(op, "leaf")) {
			char *w = strtok_r(NULL, " \t\r\n", &save);
			int i = w ? atoi(w) : -1;
			if (i < 0 || i >= nnodes || !live[i]) {
				puts("bad-op");
				continue;
			}
			printf("leaf %d\n", (int)bintree_is_leaf((bintree_node_t *)nodes[i]));
		} else if (!strcmp(op, "viz")) {
			char *buf = NULL;
			size_t sz = 0;
			FILE *f = open_memstream(&buf, &sz);
			bintree_visualize(root, f, labeller);
			fclose(f);
			for (size_t k = 0; k < sz; k++)
				buf[k] = buf[k] == '\n' ? '|' : buf[k] == '\t' ? '>' : buf[k];
			printf("viz %s\n", buf);
			free(buf);
		} else if (!strcmp(op, "dot")) {
			char *mode = strtok_r(NULL, " \t\r\n", &save);
			char *k = strtok_r(NULL, " \t\r\n", &save);
			if (mode && !strcmp(mode, "ok")) {
				char *buf = NULL;
				size_t sz = 0, lines = 0;
				FILE *f = open_memstream(&buf, &sz);
				bintree_graphviz(root, f, labeller);
				fclose(f);
				for (size_t j = 0; j < sz; j++)
					lines += buf[j] == '\n';
				printf("dot %zu\n", lines);
				free(buf);
			} else {
				long budget = k ? atol(k) : 0;
				cookie_io_functions_t io = { .write = failing_write };
				FILE *f = fopencookie(&budget, "w", io);
				setvbuf(f, NULL, _IONBF, 0); /* every fprintf reaches the failing write at once */
				bintree_graphviz(root, f, labeller);
				fclose(f);
				puts("dot done");
			}
		} else if (!strcmp(op, "trav")) {
			char *o = strtok_r(NULL, " \t\r\n", &save);
			if (!o) {
				puts("bad-op");
				continue;
			}
			printf("seq");
			if (!strcmp(o, "in"))
				bintree_traverse_in_order(root, visit, NULL);
			else if (!strcmp(o, "pre"))
				bintree_traverse_pre_order(root, visit, NULL);
			else if (!strcmp(o, "post"))
				bintree_traverse_post_order(root, visit, NULL);
			else
				bintree_traverse_list(root, is_list, visit_list, NULL);
			printf("\n");
		} else if (!strcmp(op, "free")) {
			printf("freed");
			bintree_free(root, dealloc);
			root = NULL;
			printf("\n");
		} else if (!strcmp(op, "freel") || !strcmp(op, "freer")) {
			char *w = strtok_r(NULL, " \t\r\n", &save);
			int i = w ? atoi(w) : -1;
			if (i < 0 || i >= nnodes || !live[i]) {
				puts("bad-op");
				continue;
			}
			printf("freed");
			if (op[4] == 'l')
				bintree_free_left((bintree_node_t *)nodes[i], dealloc);
			else
				bintree_free_right((bintree_node_t *)nodes[i], dealloc);
			printf("\n");
		} else {
			puts("bad-op");
		}
	}
	wipe();
	free(line);
	return NULL;
}

int main(int argc, char **argv)
{
	setvbuf(stdout, NULL, _IOLBF, 0); /* keep output up to a crash */
	if (argc == 3 && !strcmp(argv[1], "--stack")) {
		pthread_attr_t at;
		pthread_t th;
		pthread_attr_init(&at);
		if (pthread_attr_setstacksize(&at, (size_t)atol(argv[2]) * 1024) || pthread_create(&th, &at, run, NULL)) {
			fprintf(stderr, "cannot create the small-stack thread\n");
			return 3;
		}
		pthread_join(th, NULL);
	} else {
		run(NULL);
	}
	return 0;
}

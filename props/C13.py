"""C13 — WAV headers round-trip and describe their file (tie D; Lean proofs for all formats/channels/rates/frames/prior contents)."""
import os
import vlib
from props import packwav_common as pw

META = {
    'engine': 'lean-D',
    'technique': 'Lean 4 theorems about a hand model of wavheader.c built on the pack model (init as a function of the previous structure, set_num_frames, encode, decode, validate with 32-bit wrap-around '
                 'arithmetic); model tied to the C by differential runs (structured init/set_num_frames/encode/decode histories over random prior contents, and a decode-first stream of mutated headers)',
    'level_text': 'Proved for every prior content of the structure, every format, and all channel counts / rates / frame counts whose block alignment fits 16 bits and whose byte rate, data size and RIFF size fit '
                  '32 bits: init does not depend on the prior contents (in the model this is immediate - init starts with the memset of the fixed code and the model function ignores its prior argument; that the C really ignores prior contents is what the differential run with injected prior contents checks); the header validates; encode then decode returns the identical structure and the same length (44 or 58); chunk_size = length - 8 + data size; '
                  'data size = frames x block alignment; block alignment = channels x width, byte rate = rate x block alignment, bits = 8 x width. Proved for every memory and every declared size: whenever decode '
                  'succeeds with length L <= sz, encoding the decoded structure returns L and writes the same L bytes except that a skipped format-chunk extension is written as zeros '
                  '(PCM, float+fact, extensible with and without the 22-byte extension are cases of one proof).',
    'level_note': 'Tie T2 (DESIGN 12.7): wavheader.c is regenerated each run as a control skeleton with data (pack functions, memcmp, memcpy external; array members and tables as identities) and rf_wavheader_init / set_num_frames / validate / encode / decode are proved equal to Model.Wav on every input (Props/C13TieSeq.lean; bv_decide certificates for its *_generated theorems only; the order of decode\'s reads is pinned by decode_generated, their positions follow by inspection of decHead/decExt/decTail). Trusted: Lean kernel (standard axioms; byte-order lemmas via bv_decide certificates as listed in trusted_base); the hand model of wavheader.c/pack.c, validated on every run against the real code; '
                  'int arithmetic of rf_wavheader_init is modelled as wrapping (gcc); the proved scope (Scope in Props/C13.lean) is: format in {S16LE,S32LE,FLOAT}, rate < 2^31, channels*width < 2^16, rate*width*channels < 2^32 '
                  '(and rate*width < 2^32, which only binds for 0 channels), header length - 8 + frames*block alignment < 2^32, frames*channels < 2^32; products between 2^31 and 2^32 rely on gcc\'s wrapping of the int multiplication; '
                  'memcmp/memcpy/memset are libc and modelled as list operations; '
                  'struct layout (80 bytes, no padding, x86-64) is used only by the harness to inject prior contents.',
    'design_ref': '§6 C13',
}
REQUIRED = ['Librfn.C13.' + n for n in ('init_independent_of_prior', 'init_validates', 'encode_decode_id', 'encode_decode_canon', 'describes_file',
                                        'set_num_frames_idempotent_in_frames', 'canon_made', 'decode_encode_id', 'encBytes_decoded',
                                        'normalised_plain', 'normalised_skip', 'riff_size_consistent', 'data_size', 'block_align', 'byte_rate', 'bits',
                                        'd10_old_setNumFrames_breaks_roundtrip',
                                        'd4_old_init_depends_on_prior', 'd3_old_init_chunk_size')]
# byte-order lemmas proved by bv_decide (axioms `<lemma>._native.bv_decide.ax_*`) and the C13 theorems that rest on them
BV_LEMMAS = {'Librfn.C12.dec16_encU16le', 'Librfn.C12.dec32_encU32le', 'Librfn.Lemmas.WavCodec.enc_dec32', 'Librfn.Lemmas.WavCodec.enc_dec16'}
BV_OK = {'Librfn.C13.' + n for n in ('decode_pcm_list', 'decode_float_list', 'encode_decode_canon', 'encode_decode_id', 'decode_encode_id',
                                     'encBytes_decoded', 'riff_size_consistent')}

HLEN = {0: 44, 1: 44, 2: 58}
ID = {'cid': pw.RIFF.hex(), 'fmt': pw.WAVE.hex(), 'fid': pw.FMT_.hex(), 'did': pw.DATA.hex()}


def in_scope(f, nch, rate, frames):
    if f not in (0, 1, 2) or nch < 0 or rate < 0 or frames < 0:
        return False
    ba = nch * pw.WIDTH[f]
    return nch < 65536 and ba < 65536 and rate * ba < 1 << 32 and frames * ba + HLEN[f] - 8 < 1 << 32 and frames * nch < 1 << 32


def judge(h, io):
    """C13 in the property's words, evaluated on the implementation's outputs.
    Abstract state A = (format, channels, rate, frames) of the header last produced by init/set_num_frames, or None."""
    out = []
    A, ref_show, decoded, pending_dec = None, None, None, None
    for k, l in enumerate(h):
        w = l.split()
        o = io[k] if k < len(io) else '(missing)'
        def bad(exp, key, why):
            out.append(pw.Verdict(k, exp, o, key, why))
        if w[0] == 'prior':
            A = ref_show = decoded = pending_dec = None        # arbitrary previous contents: nothing may depend on them
        elif w[0] == 'init':
            f, nch, rate = int(w[3]), int(w[2]), int(w[1])
            A = (f, nch, rate, 0) if in_scope(f, nch, rate, 0) else None
            ref_show = decoded = pending_dec = None
        elif w[0] == 'frames':
            if A is not None:
                A = (A[0], A[1], A[2], int(w[1])) if in_scope(A[0], A[1], A[2], int(w[1])) else None
            ref_show = decoded = pending_dec = None
        elif w[0] == 'show':
            d = pw.parse_show(o)
            if A is not None:
                f, nch, rate, frames = A
                ba = nch * pw.WIDTH[f]
                exp = dict(ID, cs=str(HLEN[f] - 8 + frames * ba), ds=str(frames * ba), ba=str(ba), br=str(rate * ba),
                           bps=str(8 * pw.WIDTH[f]), nc=str(nch), sr=str(rate))
                wrong = sorted(x for x in exp if d.get(x) != exp[x])
                if wrong:
                    bad({x: exp[x] for x in wrong}, 'fields:' + ','.join(wrong), 'size/format fields do not describe the file: ' + ','.join(wrong))
                if pending_dec is None:
                    ref_show = o
                elif ref_show is not None and o != ref_show:
                    # the structure after encode -> decode must be identical to the structure before
                    a = pw.parse_show(ref_show)
                    diff = sorted(x for x in a if a[x] != d.get(x))
                    bad(ref_show, 'roundtrip-struct:%s:%s' % (','.join(diff), 'float' if f == 2 else 'pcm'),
                        'encode then decode does not return an identical structure: ' + ','.join(diff))
        elif w[0] == 'validate':
            if A is not None and o != 'validate=0':
                bad('validate=0', 'validate', 'a header produced by init/set_num_frames does not validate')
        elif w[0] == 'enc':
            sz = int(w[1])
            pending_dec = None
            if A is not None and sz >= HLEN[A[0]]:
                if not o.startswith('enc ret=%d ' % HLEN[A[0]]):
                    bad('enc ret=%d' % HLEN[A[0]], 'enc-length', 'encoded length is not the header length')
            if decoded is not None:
                # decode-first direction: re-encoding the decoded structure reproduces the bytes
                src, L = decoded
                if sz >= L:
                    lo, hi = pw.ignored_extension(src)
                    want = bytearray(src[:L])
                    for i in range(lo, min(hi, L)):
                        want[i] = 0
                    m = o.split()
                    got_ret = m[1] if len(m) > 1 else ''
                    got = pw.unhx(m[2][4:])[:L] if len(m) > 2 and m[2].startswith('buf=') else b''
                    if got_ret != 'ret=%d' % L:
                        bad('enc ret=%d' % L, 'reencode-length', 're-encoding a decoded header gives another length')
                    elif bytes(got) != bytes(want):
                        i = next(i for i in range(L) if got[i] != want[i])
                        bad('buf=' + pw.hx(want), 'reencode-bytes', 're-encoding a decoded header does not reproduce its bytes (first difference at byte %d)' % i)
        elif w[0] == 'decbuf':
            decoded = None
            if A is not None and int(w[1]) == HLEN[A[0]]:
                pending_dec = True
                if o != 'dec ret=%d' % HLEN[A[0]]:
                    bad('dec ret=%d' % HLEN[A[0]], 'roundtrip-length', 'decoding the encoded header does not return the same length')
        elif w[0] == 'dec':
            A = ref_show = pending_dec = None
            decoded = None
            r = o.split('=')[-1]
            if r.isdigit():
                decoded = (pw.unhx(w[2]), int(r))
    return out


def valid(h):
    """a shrunk replay must stay meaningful: decbuf k needs a kept block of at least k bytes"""
    kept = -1
    for l in h:
        w = l.split()
        if w[0] == 'enc':
            kept = int(w[1])
        elif w[0] == 'decbuf' and int(w[1]) > kept:
            return False
    return True


# --------------------------------------------------------------------------- generators
def rand_prior(rng):
    k = rng.below(6)
    if k == 0: b = [0xaa] * 80
    elif k == 1: b = [0xff] * 80
    elif k == 2: b = [0] * 80
    else: b = [rng.below(256) for _ in range(80)]
    if k == 4 or rng.chance(1, 4): b[60:64] = list(pw.FACT)        # a stale fact chunk id
    if k == 5: b[72:76] = list(pw.FACT)
    return 'prior ' + pw.hx(b)


RATES = [1, 8000, 11025, 22050, 44100, 48000, 96000, 192000, 384000, 65535, 65536, 1 << 24, (1 << 31) - 1]


def gen_init(rng):
    f = rng.below(3)
    nch = rng.choice(list(range(1, 17)) * 3 + [0, 17, 32, 255, 256, 8191, 16383 if f else 32767])
    w = pw.WIDTH[f]
    rate = rng.choice(RATES + [rng.below(200000), 0])
    ba = nch * w
    if ba and rate * ba >= 1 << 32:
        rate = rng.choice([((1 << 32) - 1) // ba, rng.below(((1 << 32) - 1) // ba + 1)])
    if rate >= 1 << 31:
        rate = (1 << 31) - 1
    fmax = ((1 << 32) - 1 - (HLEN[f] - 8)) // ba if ba else (1 << 32) - 1
    if nch: fmax = min(fmax, ((1 << 32) - 1) // nch)
    def frames():
        return rng.choice([0, 1, 2, 100, 1000, 44100, fmax, fmax - 1, fmax // 2, rng.below(fmax + 1), rng.below(100000) % (fmax + 1)])
    L = HLEN[f]
    h = []
    if rng.chance(5, 6): h.append(rand_prior(rng))
    h += [f'init {rate} {nch} {f}', 'show', 'validate']
    n = rng.below(4)
    for i in range(n):
        h.append(f'frames {frames()}')
        if rng.chance(1, 2) or i == n - 1: h += ['show', 'validate']
    h += ['getfmt', 'tostring', f'enc {L + rng.choice([0, 0, 1, 6, 22])}', f'decbuf {L}', 'show', 'validate']
    if rng.chance(1, 3):
        h += [f'frames {frames()}', 'show', f'enc {L}', f'decbuf {L}', 'show']
    return h


def valid_headers(rng):
    """byte strings a WAV reader accepts: PCM, float+fact, extensible with the 22-byte extension, extensible with another
    extension length (skipped), each followed by a little payload"""
    out = []
    for _ in range(1):
        nch, rate, frames = rng.range(1, 8), rng.choice(RATES[:9]), rng.below(5000)
        for (af, w, fact) in ((1, 2, False), (1, 4, False), (3, 4, True), (3, 4, False), (1, 2, True)):
            ba = nch * w
            out.append(pw.build_header(af, nch, rate, rate * ba, ba, 8 * w, frames * ba, fact_samples=(frames * nch if fact else None)))
            out.append(pw.build_header(af, nch, rate, rate * ba, ba, 8 * w, frames * ba, fact_samples=(frames * nch if fact else None),
                                       ext=('cb', 0, b'')))
        for fact in (False, True):
            w = rng.choice([2, 4]); ba = nch * w
            sub = bytes([1, 0, 0, 0, 0, 0, 0x10, 0, 0x80, 0, 0, 0xaa, 0, 0x38, 0x9b, 0x71])
            out.append(pw.build_header(0xfffe, nch, rate, rate * ba, ba, 8 * w, frames * ba, fact_samples=(frames if fact else None),
                                       ext=('cb', 22, pw.le(8 * w, 2) + pw.le(rng.below(1 << 18), 4) + sub)))
            k = rng.choice([0, 1, 2, 5, 21, 23, 24, 40])
            cb = rng.choice([k, 0, 21, 23, rng.below(65536)])
            if cb == 22: cb = 0
            out.append(pw.build_header(0xfffe, nch, rate, rate * ba, ba, 8 * w, frames * ba, fact_samples=(frames if fact else None),
                                       ext=('cb', cb, bytes(rng.range(1, 255) for _ in range(k)))))
    return out


SIZE_VALUES = [0, 1, 15, 16, 17, 18, 19, 20, 39, 40, 41, 0x7ffffeff, 0x7fffff00, 0x7fffff01, 0x7fffffff, 0x80000000, 0xfffffffe, 0xffffffff]


def pow2ish(rng):
    """sizes whose low 8/16/24 bits look small: a skip length truncated to a narrower type would be accepted"""
    return ((1 << rng.range(8, 31)) * rng.range(1, 3) + rng.choice([0, 16, 17, 18, 19, 20, 26, 40, 42])) & 0xffffffff


def mutate(rng, hdr):
    b = bytearray(hdr)
    for _ in range(rng.range(1, 3)):
        k = rng.below(7)
        if len(b) < 40:
            k = 5                                                 # too short to mutate a field: grow again
        if k == 0:
            b[rng.below(len(b))] = rng.below(256)
        elif k == 1:                                              # a 32-bit size field (RIFF size, fmt size, fact size, data size)
            off = rng.choice([4, 16, 16, 16, len(b) - 4])
            v = rng.choice(SIZE_VALUES + [0xffffffff - rng.below(64), rng.below(1 << 32), rng.below(64), pow2ish(rng), pow2ish(rng)])
            b[off:off + 4] = pw.le(v, 4)
            if off == 16 and rng.chance(1, 2): b[4:8] = pw.le(rng.choice([0xffffffff, (12 + v + 12) & 0xffffffff]), 4)   # keep the RIFF-size sanity test passing
        elif k == 2 and len(b) > 38:                              # cb_size
            b[36:38] = pw.le(rng.choice([0, 1, 21, 22, 23, 0xffff, rng.below(65536)]), 2)
        elif k == 3:                                              # a tag
            off = rng.choice([0, 8, 12, 36, 38, len(b) - 8, len(b) - 20 if len(b) >= 56 else 0])
            b[off:off + 4] = rng.choice([pw.FACT, pw.DATA, pw.RIFF, pw.WAVE, b'\0\0\0\0', b'facs', b'LIST'])
        elif k == 4 and len(b) >= 20:                             # RIFF size just below / at the sanity bound
            fcs = pw.u(b, 16, 4)
            b[4:8] = pw.le((12 + fcs + rng.choice([-1, 0, 1, 12, 11, 13])) & 0xffffffff, 4)
        elif k == 5:
            b += bytes(rng.below(256) for _ in range(rng.range(1, 30)))
        else:
            del b[rng.range(max(0, len(b) - 30), len(b) - 1):]
    return bytes(b)


def gen_decode_first(rng, hdr):
    L = len(hdr)
    h = []
    # half of the decodes go into a structure that was used before (stale bytes, an initialised header of another format,
    # a previous decode of another kind of header): the decoded structure must be a function of the bytes alone
    k = rng.below(8)
    if k == 0:
        h = [rand_prior(rng)]
    elif k == 1:
        h = [f'init 48000 {rng.range(1, 2)} {rng.below(3)}', f'frames {rng.below(500)}']
    elif k in (2, 3):
        other = rng.choice(valid_headers(rng)); h = [f'dec {len(other)} {pw.hx(other)}']
    h += [f'dec {L} {pw.hx(hdr)}', 'show', 'getfmt', 'tostring', f'enc {L + rng.choice([0, 0, 3])}', 'validate']
    if rng.chance(1, 2):
        h += [f'decbuf {L}', 'show']
    return h


def harness(ctx):
    R = vlib.REPO
    exe, log = ctx.cc('h_wav', [os.path.join(vlib.VERIF, 'harness/h_wav.c'), R + '/librfn/wavheader.c', R + '/librfn/pack.c', R + '/librfn/string.c',
                                R + '/librfn/util.c', R + '/librfn/posix/time_posix.c'])
    if not exe:
        raise vlib.Unbuildable('wav harness does not compile against the repository: ' + log[-1500:])
    return exe


def bv_allow(thm, ax):
    return thm in BV_OK and '._native.bv_decide.ax_' in ax and ax.split('._native.bv_decide.ax_')[0] in BV_LEMMAS


def run(ctx):
    rng = vlib.Rng(ctx.seed)
    import regen
    for u, e in regen.regen(['Wav']):          # tie T: rf_wavheader_get_format regenerated from wavheader.c
        ctx.broken.append(f'tie T: tools/c2lean.py cannot translate unit {u}: {e}')
    tie_ok = lambda t, a: bv_allow(t, a) or (t in ('Librfn.C13.get_format_generated', 'Librfn.C13.get_format_tie') and a.startswith('Librfn.C13.get_format_generated._native.bv_decide.ax_'))
    # tie T (second generation): wavheader.c as a control skeleton with data (Props/C13TieSeq.lean)
    for u, e in regen.regen(['WavSeq']):
        ctx.broken.append(f'tie T: tools/c2lean2.py cannot translate unit {u}: {e}')
    seq_ok = lambda t, a: t.startswith('Librfn.C13.TieSeq.') and a.startswith('Librfn.C13.TieSeq.') and '._native.bv_decide.ax_' in a
    seq_req = ['Librfn.C13.TieSeq.set_num_frames_tie', 'Librfn.C13.TieSeq.init_tie', 'Librfn.C13.TieSeq.validate_tie', 'Librfn.C13.TieSeq.encode_tie',
               'Librfn.C13.TieSeq.encode_generated', 'Librfn.C13.TieSeq.decode_generated', 'Librfn.C13.TieSeq.decode_tie', 'Librfn.C13.TieSeq.decode_ret_tie']
    ctx.prove(['Librfn.Props.C13', 'Librfn.Props.C13Tie', 'Librfn.Props.C13TieSeq'], REQUIRED + ['Librfn.C13.get_format_tie'] + seq_req,
              allow_extra_axioms=lambda t, a: tie_ok(t, a) or seq_ok(t, a))
    ctx.cov['tie_T_generated_units'] = {'WavSeq': regen.UNITS2['WavSeq'][1], 'Wav': ['rf_wavheader_get_format']}
    exe = harness(ctx)
    q = ctx.tier == 'quick'
    hs = pw.corpus('C13')
    ncorpus = len(hs)
    for f in range(3):                                            # every format x every channel count 1..16, clean and dirty structure
        for nch in range(1, 17):
            for dirty in (False, True):
                fr = rng.choice([1, 100, 4410, rng.below(1 << 20)])
                hs.append(([rand_prior(rng)] if dirty else []) + [f'init {rng.choice(RATES[1:8])} {nch} {f}', f'frames {fr}', 'show', 'validate',
                          f'enc {HLEN[f]}', f'decbuf {HLEN[f]}', 'show', 'validate'])
    hs += [gen_init(rng) for _ in range(1500 if q else 30000)]
    ninit = len(hs) - ncorpus
    dec = []
    for _ in range(30 if q else 500):
        for hdr in valid_headers(rng):
            dec.append(gen_decode_first(rng, hdr))
            for _ in range(3):
                dec.append(gen_decode_first(rng, mutate(rng, hdr)))
    hs += dec
    agreed = pw.judged(ctx, 'wav', exe, hs, judge, valid=valid, label='wav(C13)')
    accepted = 0
    for h in hs:
        ctx.count(tuple(h), nontrivial=any(l.startswith(('enc', 'dec')) for l in h))
    ops = {}
    for h in hs:
        for l in h:
            ops[l.split()[0]] = ops.get(l.split()[0], 0) + 1
    ctx.cov['traces_validated_against_impl'] = agreed
    if ctx.tier == 'thorough':
        R = vlib.REPO
        ctx.cov['line_coverage_of_modelled_code'] = pw.uncovered_lines(ctx, os.path.join(vlib.VERIF, 'harness/h_wav.c'),
            [R + '/librfn/wavheader.c', R + '/librfn/pack.c', R + '/librfn/string.c', R + '/librfn/util.c', R + '/librfn/posix/time_posix.c'], hs)
    ctx.cov['ops_histogram'] = ops
    ctx.cov['histories'] = {'corpus': ncorpus, 'init_stream': ninit, 'decode_first_stream': len(dec)}
    fm = {}
    for h in hs:
        for l in h:
            if l.startswith('init '):
                w = l.split(); fm[w[3]] = fm.get(w[3], 0) + 1
    ctx.cov['init_formats'] = fm
    ctx.cov['init_with_dirty_prior'] = sum(1 for h in hs if h and h[0].startswith('prior'))
    ctx.sample({'history': [x[:60] for x in hs[ncorpus + 100][:12]]})
    ctx.sample({'history': [x[:100] for x in dec[1]]})
    ctx.cov['rule'] = ('init stream: [random/0xaa/0xff/stale-"fact" prior contents] init(rate incl. 1 and 2^31-1, channels 1..16 and extremes, each format) set_num_frames(0, 1, .., the 32-bit limit) '
                       'show validate encode(exactly-sized block) decode show; decode-first stream: valid PCM / float+fact / extensible(cb=22) / extensible(skipped extension) headers and 1-3 field mutations of them, '
                       'decode, re-encode, compare bytes; distinct = distinct op list; non-trivial = contains an encode or decode')
    ctx.assumptions.append(META['level_note'])


def replay(ctx, path):
    return pw.replay_judged(ctx, path, 'wav', harness(ctx), judge)

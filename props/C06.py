"""C06 — interrupt-context wake-ups and fibre events are never lost or duplicated
(tie D; invariants over every interleaving of the main context with interrupt / nested / thread senders)."""
import glob, hashlib, json, os, re, sys
import vlib

META = {
    'engine': 'lean-D',
    'technique': 'Lean 4 inductive invariants over a small-step model of fibre.c in which every main-context call is split at its atomic operations and interrupt / nested-interrupt / '
                 'thread senders (instances of C04\'s message-queue interleaving model, so mq_inv is inherited for both queues) may step at every gap; model and an abstract monitor written from the '
                 'property text are tied to the unmodified fibre.c + messageq.c + list.c by a deterministic single-threaded harness that runs scripted interrupt calls in place at every atomic point '
                 '(include-path stdatomic.h shim, ASan)',
    'level_text': 'Proved (kernel-only, induction over steps - no bound on histories, on the number or placement of interrupts). '
                  '(I) For EVERY state reachable by ANY interleaving of the main context\'s steps (fibre_scheduler_next / fibre_run / fibre_kill / the canonical handler\'s receive+release / the fibre_run(g) and '
                  'fibre_kill(g) calls that a SCRIPTED FIBRE BODY makes while it is being dispatched, i.e. main-context calls nested inside the dispatch phase of a pass, each with its own handle_atomic_runq drain loop - all split at each atomic '
                  'operation with the plain code between them) with the steps of an interrupt handler, a handler nested inside it and a sender on another thread (fibre_run_atomic; claim+stamp+fibre_eventq_send): '
                  'accepted_never_lost - every fibre with an accepted, not since dispatched or killed request is the payload of a committed unreceived entry of the atomic queue, or on the run queue, or held by '
                  'the drain loop between receive and make_runnable; queues_not_corrupted - run queue and timer queue duplicate free and disjoint at every gap (C04\'s mq_inv for both message queues, every '
                  'context\'s control location consistent with its pc inside the queues); drained_by_pass - when a drain loop receives NULL every entry the call received has its fibre on the run queue; '
                  'events_exactly_once_in_order - the stamps the handler read are the recorded payloads of tickets 0..n-1 of its queue in claim order, each once, each sent before received; '
                  'no_lost_event_wakeup - oldest unreceived event committed => a sender is still between that send and the return of its fibre_run_atomic, or the handler is pending, or it is running before its final '
                  'emptiness check - CONDITIONAL on two sticky ghost flags (no fibre_eventq_send has returned false so far, the handler has not been killed so far): after the first refused wake-up or kill of the '
                  'handler this theorem is silent. '
                  '(II) ONLY for handlers that run to completion (ReachIsr / ReachR: the main context steps only while no sender is inside a call; arbitrary nesting): drain_leaves_nothing (a NULL receive leaves '
                  'received = claimed), fast_path_not_taken (the fast path is only taken with the atomic queue empty), wakeup_with_isr (C03: an outstanding accepted request at the final messageq_empty check makes '
                  'get_next_wakeup compute kernel.now, the value returned), no_lost_event_wakeup_isr, sent_event_keeps_handler_owed (the NON-sticky form: while an event whose send returned true is unprocessed the '
                  'handler is owed a dispatch or running - also after refused wake-ups and kills), and the refinement model |= monitor: model_refines_monitor (the verdict of Spec/IsrSpec.lean on the model\'s own '
                  'observations is ok: no event out of order / from nowhere, no oversleeping pass, no starved request) and model_settles (after a quiescent run ending idle: owed = [] and mustget = []), for every '
                  'history without thread-sender items whose calls - including the calls of the scripted bodies attached to its main-context items - name existing fibres (decidable scope ItemOk) that is not cut for lack of fuel; '
                  'the interrupt script of an item fires at the gaps of the nested calls exactly as at the gaps of the enclosing pass before and after them (the atomic operations of an item are numbered through), so '
                  'the refinement theorems cover e.g. "wake-up for the running fibre from an interrupt, then the running fibre calls fibre_run on another fibre, then returns WAITING" (non-vacuity example bodyDemo). (_quiet variants state the same under the explicit hypothesis '
                  '"no sender inside a call at that instant" for arbitrary interleavings.) '
                  'Observation O3 (real behaviour, outside the property\'s interrupt semantics): a free-running sender stalled between its claim and its send hides later completed requests from the scheduler\'s '
                  'final check, so fibre_scheduler_next may return a late wake-up although a request completed; the monitor\'s `disturbed` flag suspends its oversleep/starvation rules while a thread sender is in flight. '
                  'The executable runner (interrupt scripts at numbered gaps, nesting, thread senders, quiescent run) is proved to pass only through reachable states, and without thread senders only through '
                  'states in which no sender is inside a call.',
    'level_note': 'Tie T2 for fibre_run_atomic (DESIGN 13.5e: regenerated from fibre.c, messageq_claim/messageq_send external, add_taint inlined; Props/C06Tie.lean: result and send = fibreRunAtomic of the model, one send per successful claim; bv_decide certificates in fibre_run_atomic_generated*). Tie T2 (DESIGN 12): the message-queue arithmetic both queues of this model re-use is regenerated from messageq.c each run and proved equal to Model.Messageq (Props/C10Tie.lean; bv_decide certificates for its *_generated theorems only); event queues of 64 KiB .. 2 MiB storage are exercised on the real code by the sequential bigq probe (implementation only). dispatch_within_runq_passes is PROVED: a fibre at position i of the run queue is dispatched by one of the next i+1 uninterrupted passes (from every reachable state; hypotheses: the fibres dispatched meanwhile make no '
                  'fibre_run/fibre_kill calls of their own (bscript = [] - a body\'s fibre_kill(f) would of course remove f), runner not cut for fuel), '
                  'pass_dispatches_the_head, joins_at_the_tail; the monitor\'s `starved` verdict (a request outstanding at the beginning of nf complete undisturbed passes) additionally checks the bound on the real code. '
                  'NOT proved, only checked on every run by the correspondence (sampling + small exhaustive scopes, never called proof): implementation = model on the compared outputs; '
                  'model_refines_monitor / model_settles PROVE that the abstract monitor never complains about the MODEL (verdict ok: no event out of order, no oversleeping pass, no starved request; after a quiescent run '
                  'ending idle owed = [] and mustget = []) for every history WITHOUT thread-sender items whose calls name existing fibres (decidable scope ItemOk) that is not cut for lack of fuel; with "implementation = model on the compared outputs" '
                  '(sampled) this gives implementation |= spec; for thread-sender items the monitor is only evaluated on the real code\'s output (its liveness rules are suspended while a thread sender is in flight); '
                  'sortedness of the timer queue under interrupts (C02\'s time-window scope; interrupts never touch it: senders_leave_scheduler_alone). '
                  'Events are FIFO in CLAIM order (C04); that is the order of the sends whenever claim..send sections do not overlap. '
                  'Trusted: Lean kernel (standard axioms, no bv_decide); the hand model, validated on every run against the real code: identical output (dispatch order, fibre_self, returned wake-up, every boolean, '
                  'processed stamps, number of atomic operations of every call - so model and code agree on the numbering of gaps) on all histories generated, and the Lean monitor on the real code\'s output. '
                  'Generated: exhaustively every placement of 1 interrupt call (+1 nested call at every gap of it; pairs on 4 of 8 base scenarios in the quick tier, pairs everywhere and triples on 2 in the thorough tier) '
                  'at every gap <k>a/<k>b of every main-context call of 8 base scenarios (a scripted fibre calling fibre_run during its dispatch after a yield, handler+events, atomic queue holding 7 and 8 entries, lone yielder, sleeper, killed handler, event queue of depth 1), plus seeded random '
                  'histories (up to 3 calls per main-context call, depth-2 nesting, queue filled to 6-9 entries, thread items). Free-running threads appear only in the restricted form "the main context executes whole calls '
                  'at a gap of a sender" (enough to expose fibre_eventq_send posting the wake-up before the event, and fibre_run_atomic sending before storing - neither is observable when handlers run to completion); '
                  'true concurrent executions are C04\'s and C07\'s harnesses and are not repeated here. fibre_kill is observed at its return (a request accepted between its last receive and its return is treated as withdrawn). '
                  'Sequential consistency assumed (C07). console_putchar (console.c:184) is ring put + this fibre_run_atomic path; its harness is C15\'s.',
    'design_ref': '§6 C06 (+ §6 C03 ext wakeup_with_isr)',
}
REQUIRED = ['Librfn.C06.' + t for t in (
    'accepted_never_lost', 'held_entry_joins_runq', 'history_accepted_never_lost', 'queues_not_corrupted', 'senders_leave_scheduler_alone',
    'queues_satisfy_mq_inv', 'shifts_defined', 'drained_by_pass', 'drain_leaves_nothing', 'drain_leaves_nothing_quiet', 'fast_path_not_taken',
    'dispatch_within_runq_passes', 'pass_dispatches_the_head', 'joins_at_the_tail', 'events_exactly_once_in_order', 'event_carries_its_senders_stamp', 'no_lost_event_wakeup', 'no_lost_event_wakeup_isr',
    'wakeup_with_isr', 'wake_value_is_returned', 'wakeup_with_isr_quiet', 'sent_event_keeps_handler_owed', 'model_refines_monitor', 'model_settles', 'model_settled_bool', 'history_reachable', 'history_interrupt_only', 'interrupts_run_to_completion')]

NFMAX = 8


# ----------------------------------------------------------------------------- histories
# item  = {'t': 'main', 'call': ('next'|'run'|'kill', arg), 'script': [entry]}
#       | {'t': 'isr', 'call': ('A'|'E', arg), 'nested': [(gap, ('A'|'E', arg))]}
#       | {'t': 'thread', 'call': ('A'|'E', arg), 'script': [(gap, main item)]}
#       | {'t': 'quiesce'}
# entry = {'gap': (k, 'a'|'b'), 'call': ('A'|'E', arg), 'nested': [(gap, ('A'|'E', arg))]}
def gap_s(g):
    return f'{g[0]}{g[1]}'


def script_tokens(script):
    toks, cur = [], None
    for e in script:
        if e['gap'] != cur:
            toks.append('@' + gap_s(e['gap'])); cur = e['gap']
        toks.append(f'{e["call"][0]}{e["call"][1]}')
        ncur = None
        for (g, c) in e.get('nested', []):
            if g != ncur:
                toks.append('^' + gap_s(g)); ncur = g
            toks.append(f'{c[0].lower()}{c[1]}')
    return toks


def render(it):
    t = it['t']
    if t == 'quiesce':
        return 'quiesce'
    if t == 'main':
        body = [f'b:{c[0]}{c[1]}' for c in it.get('body', [])] + ([f'b={it["bret"]}'] if it.get('bret', 'w') != 'w' else [])
        return ' '.join([it['call'][0], str(it['call'][1])] + body + script_tokens(it['script']))
    if t == 'isr':
        toks = [f'{it["call"][0]}{it["call"][1]}']
        ncur = None
        for (g, c) in it.get('nested', []):
            if g != ncur:
                toks.append('^' + gap_s(g)); ncur = g
            toks.append(f'{c[0].lower()}{c[1]}')
        return 'isr ' + ' '.join(toks)
    if t == 'thread':
        toks = [f'{it["call"][0]}{it["call"][1]}']
        for (g, m) in it['script']:
            toks += ['%' + gap_s(g), f'{m["call"][0]}:{m["call"][1]}'] + script_tokens(m['script'])
        return 'thread ' + ' '.join(toks)
    raise ValueError(t)


def lines_of(h):
    return ['reset', h['cfg']] + [render(it) for it in h['items']]


def text_of(hs):
    return ''.join('\n'.join(lines_of(h)) + '\n--\n' for h in hs)


def scripted_calls(h):
    """number of calls placed at a gap of another call"""
    n = 0
    for it in h['items']:
        if it['t'] == 'main':
            n += sum(1 + len(e.get('nested', [])) for e in it['script'])
        elif it['t'] == 'isr':
            n += len(it.get('nested', []))
        elif it['t'] == 'thread':
            n += sum(1 + sum(1 + len(e.get('nested', [])) for e in m['script']) for (_, m) in it['script'])
    return n


def stamps_of(h):
    out = []
    def call(c):
        if c[0] == 'E':
            out.append(c[1])
    def script(s):
        for e in s:
            call(e['call'])
            for (_, c) in e.get('nested', []):
                call(c)
    for it in h['items']:
        if it['t'] == 'main':
            script(it['script'])
        elif it['t'] == 'isr':
            call(it['call'])
            for (_, c) in it.get('nested', []):
                call(c)
        elif it['t'] == 'thread':
            call(it['call'])
            for (_, m) in it['script']:
                script(m['script'])
    return out


def valid(h):
    """scope: every event carries its own stamp (the monitor identifies events by stamp)"""
    st = stamps_of(h)
    return len(st) == len(set(st))


# ----------------------------------------------------------------------------- running
def harness(ctx):
    R, H = vlib.REPO, os.path.join(vlib.VERIF, 'harness')
    exe, log = ctx.cc('h_isr', [H + '/h_isr.c', R + '/librfn/list.c', R + '/librfn/messageq.c', R + '/librfn/util.c', R + '/librfn/posix/time_posix.c'],
                      ['-I' + H + '/shim', '-I' + R + '/librfn', '-Wl,--wrap=list_extract'])     # no fork-per-history here: tens of thousands of tiny histories, the harness restores the kernel image itself
    if not exe:
        raise vlib.Unbuildable('interrupt-script harness does not compile against the repository: ' + log[-1500:])
    return exe


def run_impl(exe, hs, timeout):
    """outputs per history, in order; a crash / hang / timeout ends the batch: the history in which it happened is the
    last one returned (its output ends with a `!!` line) and the rest is not run (the caller reports the first failure)"""
    lines = vlib.run_exe([exe], text_of(hs), timeout)
    parts = vlib.split_histories(lines)
    if lines and lines[-1].startswith('!!'):
        k = min(len(parts), len(hs)) - 1
        last = parts[k] if len(parts) <= len(hs) else parts[k] + parts[-1]
        if not any('!!' in l for l in last):
            last = last + [lines[-1]]
        return parts[:k] + [last]
    return parts[:len(hs)]


def run_model(ctx, hs, timeout):
    out = ctx.run_model(['isr'], text_of(hs), timeout).split('\n')
    if out and out[-1] == '':
        out.pop()
    return vlib.split_histories(out)[:len(hs)]


def run_spec(ctx, outs, timeout):
    """the Lean monitor (Spec/IsrSpec.lean) over output lines; one verdict line per history"""
    text = ''.join('\n'.join(o) + '\n--\n' for o in outs)
    res = [l for l in ctx.run_model(['isr', 'spec'], text, timeout).split('\n') if l.startswith('verdict=')]
    return res


def judge(out, verdict):
    """None if the implementation's output satisfies the abstract specification, else a short reason"""
    crash = [l for l in out if '!!' in l]
    if crash:
        return 'crash: ' + crash[0][-200:]
    m = re.match(r'verdict=(\S+) owed=\[([\d,]*)\] mustget=\[([\d,]*)\]', verdict or '')
    if not m:
        return 'no-verdict: ' + str(verdict)
    if m.group(1).startswith('event-'):
        return m.group(1)
    if out and ' Q:' in ' ' + out[-1]:          # the history ends with the quiescent run
        if 'Q:busy' in out[-1]:
            return 'never-idle: the quiescent run never became idle'
        if m.group(2):
            return f'lost-wakeup: accepted request(s) for fibre(s) [{m.group(2)}] never dispatched by the quiescent run'
        if m.group(3):
            return f'lost-event: event(s) [{m.group(3)}] whose send returned true never reached the handler'
    if m.group(1) != 'ok':
        return m.group(1)
    return None


def evaluate(ctx, exe, hs, timeout=120):
    """(implementation output, model output, specification complaint or None) per history — only up to the first
    history in which the harness died"""
    impl = run_impl(exe, hs, timeout)
    hs = hs[:len(impl)]
    model = run_model(ctx, hs, timeout)
    ver = run_spec(ctx, impl, timeout)
    res = []
    for i, h in enumerate(hs):
        mo = model[i] if i < len(model) else ['!! missing']
        v = ver[i] if i < len(ver) else None
        res.append((impl[i], mo, judge(impl[i], v)))
    return res


# ----------------------------------------------------------------------------- shrinking
def removals(h):
    """histories obtained by removing one main-context step / interrupt call / nested call"""
    items = h['items']
    for i in range(len(items) - 1, -1, -1):
        yield dict(h, items=items[:i] + items[i + 1:])
    for i, it in enumerate(items):
        def put(new):
            return dict(h, items=items[:i] + [new] + items[i + 1:])
        if it['t'] == 'main':
            bd = it.get('body', [])
            for j in range(len(bd)):
                yield put(dict(it, body=bd[:j] + bd[j + 1:]))
            if it.get('bret', 'w') != 'w':
                yield put(dict(it, bret='w'))
            sc = it['script']
            for j in range(len(sc)):
                yield put(dict(it, script=sc[:j] + sc[j + 1:]))
                ne = sc[j].get('nested', [])
                for k in range(len(ne)):
                    yield put(dict(it, script=sc[:j] + [dict(sc[j], nested=ne[:k] + ne[k + 1:])] + sc[j + 1:]))
        elif it['t'] == 'isr':
            ne = it.get('nested', [])
            for k in range(len(ne)):
                yield put(dict(it, nested=ne[:k] + ne[k + 1:]))
        elif it['t'] == 'thread':
            sc = it['script']
            for j in range(len(sc)):
                yield put(dict(it, script=sc[:j] + sc[j + 1:]))
                m = sc[j][1]
                for k in range(len(m['script'])):
                    yield put(dict(it, script=sc[:j] + [(sc[j][0], dict(m, script=m['script'][:k] + m['script'][k + 1:]))] + sc[j + 1:]))
    # fewer fibres (only when the dropped one is never named)
    w = h['cfg'].split()
    if len(w) > 2:
        last = len(w) - 2
        if not re.search(rf'\b(run|kill) {last}\b|[Aa]{last}\b|(run|kill):{last}\b|b:[rk]{last}\b', ' '.join(render(it) for it in items)):
            yield dict(h, cfg=' '.join(w[:-1]))


def shrink(fails, h, budget=500):
    cur = h
    progress = True
    while progress and budget > 0:
        progress = False
        for c in removals(cur):
            budget -= 1
            if budget <= 0:
                break
            if fails(c):
                cur, progress = c, True
                break
    return cur


def key_of(h):
    return 'hist:' + hashlib.sha1('\n'.join(lines_of(h)).encode()).hexdigest()[:16]


def report(ctx, exe, h, why, label):
    """shrink a history on which the implementation violates the abstract specification and write the replay"""
    kind = why.split(':')[0].split('(')[0]
    def fails(c):
        if not valid(c):
            return False
        io, mo, bad = evaluate(ctx, exe, [c], 60)[0]
        return bad is not None and bad.split(':')[0].split('(')[0] == kind
    small = shrink(fails, h, budget=60 if kind in ('crash', 'never-idle') else 500)
    io, mo, bad = evaluate(ctx, exe, [small], 60)[0]
    k = vlib.diff_streams(io, mo)
    ctx.violation({'obligation': f'{label}: the real fibre.c + messageq.c under scripted interrupts vs the abstract specification (Spec/IsrSpec.lean)',
                   'verdict': bad or why, 'ops': lines_of(small), 'history': small,
                   'implementation': io, 'model': mo, 'first_difference_impl_vs_model_at_line': k,
                   'reading': 'gap <k>a / <k>b = immediately before / after atomic operation k of the interrupted call; A<f> = fibre_run_atomic(f), E<s> = claim+stamp+fibre_eventq_send; '
                              'lower case = nested handler; output tokens: N pass begins, L scheduler reads the atomic queue flags, d<f> dispatch, p<s> event processed, +<f> request published, '
                              '<lvl>A<f>=<ret>/<atomic ops>, next(T):self:wake:n',
                   'how_to_rerun': f'./check {ctx.pid} --replay <this file>'}, key=key_of(small))


def check_group(ctx, exe, hs, label, stats, timeout):
    """returns number of histories on which implementation = model and the specification is satisfied"""
    if not hs:
        return 0
    res = evaluate(ctx, exe, hs, timeout)
    agreed = 0
    if len(res) < len(hs) and not (res and res[-1][2]):
        raise vlib.Infra(f'{label}: the harness produced {len(res)} of {len(hs)} outputs without reporting a crash')
    for h, (io, mo, bad) in zip(hs, res):
        tally(stats, io)
        if bad is None and io == mo:
            agreed += 1
    # a history on which the real code violates the specification comes first …
    for h, (io, mo, bad) in zip(hs, res):
        if bad is not None:
            report(ctx, exe, h, bad, label)
            return agreed
    # … otherwise a difference between the real code and the model (the specification being satisfied) is a broken correspondence
    for h, (io, mo, bad) in zip(hs, res):
        if io != mo and not any(b.startswith('correspondence') for b in ctx.broken):
            def fails(c):
                r = evaluate(ctx, exe, [c], 60)
                return valid(c) and bool(r) and r[0][0] != r[0][1]
            small = shrink(fails, h, budget=200)
            a, b, _ = evaluate(ctx, exe, [small], 60)[0]
            k = vlib.diff_streams(a, b)
            ctx.broken.append(f'correspondence {label}: the implementation differs from the model (the abstract specification is satisfied on this history) at output line {k}: '
                              f'ops={lines_of(small)} impl={a[max(0, (k or 0) - 1):(k or 0) + 2]} model={b[max(0, (k or 0) - 1):(k or 0) + 2]}')
            break
    return agreed


def tally(stats, out):
    for l in out:
        for t in l.split():
            c = t[0]
            if c in 'NLdp+C':
                stats['tok'][c] = stats['tok'].get(c, 0) + 1
            elif c in '012' and len(t) > 2 and t[1] in 'AE':
                stats['calls'][t[0] + t[1]] = stats['calls'].get(t[0] + t[1], 0) + 1
                r = t.split('=')[1].split('/')[0]
                if r == '0':
                    stats['rejected'] += 1
                elif r == 'c':
                    stats['event_queue_full'] += 1
                n = int(t.split('/')[1])
                if (t[1] == 'A' and r == '1' and n > 5) or (t[1] == 'E' and r == '1' and n > 10):
                    stats['cas_retries'] += 1
            elif t.startswith('unfired='):
                stats['unfired'] += int(t[8:])
            elif t.startswith('next('):
                stats['passes'] += 1


# ----------------------------------------------------------------------------- generators
class Stamps:
    def __init__(self):
        self.n = 0
    def next(self):
        self.n += 1
        return self.n


def rand_call(rng, st, nf, bias_handler=True):
    if rng.chance(2, 5):
        return ('E', st.next())
    if bias_handler and rng.chance(1, 5):
        return ('A', 0)
    return ('A', rng.below(nf))


def rand_gap(rng, hi):
    return (min(rng.below(hi + 1), rng.below(hi + 2)), rng.choice('ab'))


def rand_entry(rng, st, nf, maxgap):
    e = {'gap': rand_gap(rng, maxgap), 'call': rand_call(rng, st, nf), 'nested': []}
    if rng.chance(1, 3):
        for _ in range(rng.range(1, 2)):
            e['nested'].append((rand_gap(rng, 8), rand_call(rng, st, nf)))
        e['nested'].sort(key=lambda x: (x[0][0], x[0][1]))
    return e


def rand_script(rng, st, nf, maxgap, nmax=3):
    n = rng.choice([0, 1, 1, 2, 2, 3][:3 + nmax])
    sc = [rand_entry(rng, st, nf, maxgap) for _ in range(n)]
    sc.sort(key=lambda e: (e['gap'][0], e['gap'][1]))
    return sc


def rand_cfg(rng, nextra=None):
    nextra = rng.range(1, 7) if nextra is None else nextra
    kinds = []
    for _ in range(nextra):
        r = rng.below(8)
        kinds.append('w' if r < 2 else 'c' if r < 4 else f'y{rng.range(0, 4)}' if r < 6 else f's{rng.range(1, 12)}')
    return f'cfg {rng.choice([1, 2, 2, 4, 4, 8])} ' + ' '.join(kinds), nextra + 1


def gen_random(rng, big=False):
    cfg, nf = rand_cfg(rng)
    st = Stamps()
    T = rng.choice([100, 0xfffffff0, 0x7ffffff0, rng.below(1 << 32)])
    items = []
    def fill():
        order = rng.shuffle(list(range(nf)))
        n = rng.range(6, 9)
        for i in range(n):
            items.append({'t': 'isr', 'call': ('A', order[i % nf] if i < nf else rng.below(nf)), 'nested': []})
    if rng.chance(1, 3):
        fill()
    for _ in range(rng.range(3, 40 if big else 14)):
        r = rng.below(100)
        maxgap = rng.choice([3, 5, 8, 12, 20])
        if r < 50:
            T += rng.choice([0, 0, 1, 2, 5, 13])
            it = {'t': 'main', 'call': ('next', T), 'script': rand_script(rng, st, nf, maxgap)}
            if rng.chance(1, 2):       # what a scripted fibre does if this pass dispatches one
                it['body'] = [(rng.choice('rrk'), rng.below(nf)) for _ in range(rng.range(0, 3))]
                it['bret'] = rng.choice('wwwye')
            items.append(it)
        elif r < 62:
            items.append({'t': 'main', 'call': ('run', rng.below(nf)), 'script': rand_script(rng, st, nf, maxgap)})
        elif r < 68:
            items.append({'t': 'main', 'call': ('kill', rng.below(nf)), 'script': rand_script(rng, st, nf, maxgap)})
        elif r < 86:
            e = rand_entry(rng, st, nf, 0)
            items.append({'t': 'isr', 'call': e['call'], 'nested': e['nested']})
        elif r < 93:
            sc = []
            for _ in range(rng.range(0, 3)):
                T += rng.choice([0, 1, 3])
                m = rng.choice([('next', T), ('next', T), ('run', rng.below(nf)), ('kill', rng.below(nf))])
                sc.append((rand_gap(rng, 8), {'t': 'main', 'call': m, 'script': rand_script(rng, st, nf, 8, nmax=1)}))
            sc.sort(key=lambda x: (x[0][0], x[0][1]))
            items.append({'t': 'thread', 'call': rand_call(rng, st, nf), 'script': sc})
        else:
            fill()
    items.append({'t': 'quiesce'})
    return {'cfg': cfg, 'items': items}


def gen_full(rng):
    """the atomic run queue holding 7-9 entries when interrupts (nested) arrive inside the drain loop"""
    nextra = rng.range(5, 7)
    nf = nextra + 1
    cfg = f'cfg {rng.choice([2, 4])} ' + ' '.join(rng.choice(['w', 'w', 'w', 'y1', 's7']) for _ in range(nextra))
    st = Stamps()
    items = []
    order = rng.shuffle(list(range(nf)))
    n = rng.range(6, 8)
    for i in range(n):
        items.append({'t': 'isr', 'call': ('A', order[i % nf]), 'nested': []})
    T = 1000
    for _ in range(rng.range(1, 3)):
        call = rng.choice([('next', T), ('next', T), ('run', rng.below(nf)), ('kill', rng.below(nf))])
        sc = []
        for _ in range(rng.range(1, 3)):
            e = {'gap': (rng.below(2 * n + 4), rng.choice('ab')), 'call': ('A', order[rng.below(nf)]) if rng.chance(3, 4) else ('E', st.next()), 'nested': []}
            for _ in range(rng.choice([0, 1, 1, 2])):
                e['nested'].append(((rng.below(5), rng.choice('ab')), ('A', order[rng.below(nf)]) if rng.chance(3, 4) else ('E', st.next())))
            e['nested'].sort(key=lambda x: (x[0][0], x[0][1]))
            sc.append(e)
        sc.sort(key=lambda e: (e['gap'][0], e['gap'][1]))
        items.append({'t': 'main', 'call': call, 'script': sc})
        T += 1
    items.append({'t': 'quiesce'})
    return {'cfg': cfg, 'items': items}


def gen_yielder(rng):
    """a lone yielding fibre (the single-yielder fast path) with requests arriving at its gaps"""
    nf_extra = rng.choice([1, 1, 2])
    kinds = [f'y{rng.range(4, 9)}'] + ['w'] * (nf_extra - 1)
    cfg = f'cfg {rng.choice([1, 2, 4])} ' + ' '.join(kinds)
    nf = nf_extra + 1
    st = Stamps()
    items = [{'t': 'main', 'call': ('run', 1), 'script': []}]
    T = 50
    for i in range(rng.range(5, 9)):
        sc = rand_script(rng, st, nf, 3, nmax=1) if rng.chance(1, 3) else []
        items.append({'t': 'main', 'call': ('next', T), 'script': sc})
        T += rng.below(2)
    items.append({'t': 'quiesce'})
    return {'cfg': cfg, 'items': items}


# ---- exhaustive placements over small base scenarios
def base_scenarios():
    def m(name, arg):
        return {'t': 'main', 'call': (name, arg), 'script': []}
    def isr(c, a):
        return {'t': 'isr', 'call': (c, a), 'nested': []}
    q = {'t': 'quiesce'}
    return [
        ('handler', {'cfg': 'cfg 2 w', 'items': [isr('E', 901), m('next', 10), m('next', 11), m('run', 1), m('next', 12), q]}, [('A', 0), ('A', 1), ('E', None)]),
        ('full-7', {'cfg': 'cfg 4 w w w w w w w', 'items': [isr('A', i) for i in (4, 1, 2, 3, 5, 6, 7)] + [m('next', 10), m('kill', 3), m('run', 2), m('next', 11), q]},
         [('A', 0), ('A', 4), ('E', None)]),
        ('full-8', {'cfg': 'cfg 4 w w w w w w w', 'items': [isr('A', i) for i in (4, 1, 2, 3, 5, 6, 7, 0)] + [m('next', 10), m('run', 2), q]}, [('A', 3), ('A', 4), ('E', None)]),
        ('lone-yielder', {'cfg': 'cfg 4 y6', 'items': [m('run', 1), m('next', 10), m('next', 11), m('next', 12), m('next', 13), m('next', 14), q]}, [('A', 0), ('A', 1), ('E', None)]),
        ('sleeper', {'cfg': 'cfg 4 s5 y1', 'items': [m('run', 1), m('run', 2), m('next', 10), m('next', 12), m('next', 16), q]}, [('A', 1), ('A', 2), ('E', None)]),
        ('kill-handler', {'cfg': 'cfg 2 w', 'items': [isr('E', 901), m('kill', 0), isr('E', 902), m('next', 5), m('kill', 1), q]}, [('A', 0), ('A', 1), ('E', None)]),
        ('body-calls', {'cfg': 'cfg 2 c y2 w', 'items': [m('run', 2), m('run', 1), m('next', 10),
                                                          dict(m('next', 11), body=[('r', 3)], bret='w'), m('next', 12), q]}, [('A', 1), ('A', 0), ('E', None)]),
        ('event-queue-depth-1', {'cfg': 'cfg 1 w', 'items': [isr('E', 901), m('next', 5), isr('E', 902), m('run', 0), m('next', 6), q]}, [('A', 0), ('E', None)]),
    ]


def op_counts(ctx, base):
    """atomic operations of each main-context call of an uninterrupted history, from the model"""
    out = run_model(ctx, [base], 60)[0]
    counts = {}
    for i, it in enumerate(base['items']):
        if it['t'] == 'main':
            mm = re.search(r':n=(\d+)', out[2 + i])
            counts[i] = int(mm.group(1)) if mm else 4
    return counts


def placements(ctx, base, calls, nmax, nested, slack=2):
    """every placement of up to `nmax` interrupt calls at every gap of every main-context call (plus, for single calls,
    every placement of one nested call at every gap of the interrupt)"""
    counts = op_counts(ctx, base)
    sites = [(i, (k, p)) for i in sorted(counts) for k in range(counts[i] + slack) for p in 'ab']
    fresh = [1000]
    def mk(c):
        if c[0] == 'E':
            fresh[0] += 1
            return ('E', fresh[0])
        return c
    def build(chosen):
        items = [dict(it) for it in base['items']]
        for (i, g, c, ne) in chosen:
            items[i] = dict(items[i], script=items[i]['script'] + [{'gap': g, 'call': c, 'nested': ne}])
        return {'cfg': base['cfg'], 'items': items}
    out = []
    for (i, g) in sites:
        for c in calls:
            fresh[0] = 1000
            out.append(build([(i, g, mk(c), [])]))
            if nested:
                depth = 5 if c[0] == 'A' else 10       # atomic operations of the call: claim = load, CAS, load, CAS; send = fetch_or
                for k in range(depth + 1):
                    for p in 'ab':
                        for c2 in calls:
                            fresh[0] = 1000
                            out.append(build([(i, g, mk(c), [((k, p), mk(c2))])]))
    if nmax >= 2:
        for a in range(len(sites)):
            for b in range(a, len(sites)):
                for c in calls:
                    for c2 in calls:
                        fresh[0] = 1000
                        out.append(build([(sites[a][0], sites[a][1], mk(c), []), (sites[b][0], sites[b][1], mk(c2), [])]))
    if nmax >= 3:
        cs = calls[:2]
        for a in range(len(sites)):
            for b in range(a, len(sites)):
                for d in range(b, len(sites)):
                    for c in cs:
                        for c2 in cs:
                            for c3 in cs:
                                fresh[0] = 1000
                                out.append(build([(sites[a][0], sites[a][1], mk(c), []), (sites[b][0], sites[b][1], mk(c2), []), (sites[d][0], sites[d][1], mk(c3), [])]))
    return out


def corpus():
    out = []
    for p in sorted(glob.glob(os.path.join(vlib.VERIF, 'corpus', 'C06', '*.json'))):
        j = json.load(open(p))
        h = j['history']
        out.append({'cfg': h['cfg'], 'items': [fix_item(it) for it in h['items']]})
    return out


# ----------------------------------------------------------------------------- the check
def big_geometry_probe(ctx, exe, rng):
    """event queues of the largest geometries the API permits (storage of 64 KiB .. 2 MiB), implementation only: `bigq` of
    harness/h_isr.c sends stamped events in bursts and lets the handler check exactly-once / in-order / intact delivery"""
    geos = [(17, 4096), (24, 4096), (32, 4096), (32, 65535), (3, 40000), (2, 65535), (32, 2115), (16, 4096), (8, 8), (1, 65535)]
    geos += [(rng.range(2, 32), rng.choice([2048, 2052, 4096, 8192, 16384, rng.range(2049, 65535)])) for _ in range(4 if ctx.tier == 'quick' else 40)]
    ops = ['reset'] + [f'bigq {d} {m} {min(6 * d + 20, 400)} {rng.range(1, 7)}' for d, m in geos] + ['--']
    lines = vlib.run_exe([exe], '\n'.join(ops) + '\n', 300)
    fails = [l for l in lines if l.startswith('bigq FAIL') or l.startswith('!!')]
    ctx.cov['big_geometry_event_queues'] = {'geometries': len(geos), 'results': sum(1 for l in lines if l.startswith('bigq ok'))}
    for o in ops[1:-1]:
        ctx.count(('bigq', o))
    if fails and not ctx.violations:
        i = [k for k, l in enumerate(lines) if l in fails][0]
        ctx.violation({'obligation': 'events sent with fibre_eventq_claim / fibre_eventq_send (returned true) are received exactly once, in order and intact, for every geometry of the event queue (real fibre.c + messageq.c, sequential)',
                       'ops': ['reset', ops[i] if i < len(ops) else '?'], 'observed': fails[0], 'engine': 'isr (implementation only)',
                       'how_to_rerun': 'h_isr (props.C06.harness) < ops'}, key='bigq:' + (ops[i] if i < len(ops) else fails[0]))
    elif len([l for l in lines if l.startswith('bigq ok')]) != len(geos):
        ctx.broken.append('correspondence: the large-geometry event queue probe did not complete: ' + ' | '.join(lines[-3:])[:300])


def run(ctx):
    rng = vlib.Rng(ctx.seed)
    # tie T2: the message queue arithmetic this engine's model re-uses is regenerated from messageq.c and proved equal to the model
    sys.path.insert(0, os.path.dirname(os.path.abspath(__file__)))
    import tie_common
    # ... and fibre_run_atomic (the interrupt-context wake-up) is regenerated from fibre.c with the queue as the environment
    # (Props/C06Tie.lean): one send per successful claim, the fibre pointer stored in the claimed buffer, false + taint otherwise
    import regen
    deps = [('Librfn.Props.C06Tie', 'Librfn.C06.Tie')]
    for u, e in regen.regen(['FibreSeq']):
        ctx.broken.append(f'tie T: tools/c2lean2.py cannot translate unit {u}: {e}')
    ch = regen.signature_changes('FibreSeq', only=['fibre_run_atomic'])
    if ch:
        ctx.broken.append('tie T: the interface of the regenerated fibre_run_atomic differs from the one Props/C06Tie.lean is stated against (' + '; '.join(ch)[:600] + ')')
        deps = []
    ra_allow = lambda t, a: t.startswith('Librfn.C06.Tie.') and a.startswith('Librfn.C06.Tie.fibre_run_atomic_generated') and '._native.bv_decide.ax_' in a
    tie_common.prove(ctx, ['MessageqSeq'], ['Librfn.Props.C06'], REQUIRED, 'Librfn.Props.C10Tie', 'Librfn.C10.Tie', extra_allow=ra_allow, dependents=deps)
    exe = harness(ctx)
    if 'VERIF_OPT' not in os.environ and 'VERIF_CFG' not in os.environ:
        big_geometry_probe(ctx, exe, vlib.Rng(ctx.seed * 13 + 1))
    if not ctx.build_model():
        return
    quick = ctx.tier == 'quick'
    stats = {'tok': {}, 'calls': {}, 'rejected': 0, 'event_queue_full': 0, 'cas_retries': 0, 'unfired': 0, 'passes': 0}
    groups = [('corpus', corpus())]
    exh = {}
    for (name, base, calls) in base_scenarios():
        if quick:
            nmax = 2 if name in ('handler', 'event-queue-depth-1', 'kill-handler', 'body-calls') else 1
        else:
            nmax = 3 if name in ('handler', 'event-queue-depth-1') else 2
        ps = placements(ctx, base, calls, nmax, nested=True)
        exh[name] = {'placements': len(ps), 'max_calls_per_history': nmax}
        groups.append(('exhaustive:' + name, ps))
    groups += [('full-queue', [gen_full(rng) for _ in range(400 if quick else 20000)]),
               ('lone-yielder', [gen_yielder(rng) for _ in range(150 if quick else 5000)]),
               ('random', [gen_random(rng) for _ in range(900 if quick else 40000)]),
               ('random-long', [gen_random(rng, big=True) for _ in range(100 if quick else 5000)])]
    per_group, total = {}, 0
    for (label, hs) in groups:
        hs = [h for h in hs if valid(h)]
        nviol = len(ctx.violations)
        a = 0
        for off in range(0, len(hs), 20000):
            a += check_group(ctx, exe, hs[off:off + 20000], label, stats, 300 if quick else 1800)
            if len(ctx.violations) > nviol:
                break
        per_group[label] = {'histories': len(hs), 'agreed': a}
        total += a
        for h in hs:
            ctx.count(tuple(lines_of(h)), nontrivial=scripted_calls(h) > 0)
        if ctx.violations:
            break
    if ctx.broken and not ctx.violations:
        # a proof or the correspondence broke and the monitor has not complained yet: search harder against the specification
        deep = [gen_full(rng) for _ in range(20000)] + [gen_yielder(rng) for _ in range(5000)] + [gen_random(rng, big=rng.chance(1, 4)) for _ in range(30000)]
        for (name, base, calls) in base_scenarios():
            deep += placements(ctx, base, calls, 2, nested=True)
        deep = [h for h in deep if valid(h)]
        for off in range(0, len(deep), 20000):
            part = deep[off:off + 20000]
            impl = run_impl(exe, part, 1800)
            ver = run_spec(ctx, impl, 1800)
            hit = [(i, judge(impl[i], ver[i] if i < len(ver) else None)) for i in range(len(impl))]
            hit = [(i, b) for (i, b) in hit if b]
            if hit:
                report(ctx, exe, part[hit[0][0]], hit[0][1], 'deep search')
                break
        ctx.cov['deep_search_histories'] = len(deep)
    ctx.cov['traces_validated_against_impl'] = total
    ctx.cov['groups'] = per_group
    ctx.cov['exhaustive_placements'] = exh
    ctx.cov['exhaustive'] = False
    ctx.cov['token_histogram'] = stats['tok']
    ctx.cov['interrupt_calls_by_level_and_kind'] = stats['calls']
    ctx.cov['requests_rejected_queue_full'] = stats['rejected']
    ctx.cov['event_claims_rejected_queue_full'] = stats['event_queue_full']
    ctx.cov['claims_with_cas_retry'] = stats['cas_retries']
    ctx.cov['scheduler_passes'] = stats['passes']
    ctx.cov['scripted_calls_whose_gap_never_came_up'] = stats['unfired']
    for (label, hs) in groups[1:4] + groups[-2:]:
        if hs:
            ctx.sample({'group': label, 'ops': lines_of(hs[len(hs) // 2])})
    ctx.cov['rule'] = ('history = cfg (event queue depth, fibres: handler + yielders/sleepers/waiters) + main-context calls (next/run/kill) each with an interrupt script: up to 3 interrupt-context calls '
                       '(fibre_run_atomic / claim+stamp+fibre_eventq_send) at gaps <k>a|<k>b = before|after atomic operation k of the call, each with nested calls at ITS gaps (depth 2), plus interrupts between calls, '
                       'thread senders with whole main-context calls at their gaps, and a final quiescent run; exhaustive groups: every placement of 1 call (and 1 call + 1 nested call at every gap of it; '
                       'pairs/triples as listed in exhaustive_placements) over 8 base scenarios incl. the atomic queue holding 7 and 8 entries; random groups from VERIF_SEED; '
                       'compared per history: full output of the real code vs the Lean model, and the Lean monitor Spec/IsrSpec.lean on the real code\'s output; '
                       'distinct = distinct op list; non-trivial = at least one call placed at a gap of another call')
    ctx.assumptions.append(META['level_note'])


def replay(ctx, path):
    r = json.load(open(path))
    if str(r.get('key', '')).startswith('bigq:'):
        exe = harness(ctx)
        lines = vlib.run_exe([exe], '\n'.join(r['ops']) + '\n--\n', 120)
        for op, l in zip(r['ops'], lines):
            print(f'{op:32s} -> {l}')
        bad = any(l.startswith('bigq FAIL') or l.startswith('!!') for l in lines)
        if bad:
            print(f'VIOLATION property={ctx.pid} replay={path}')
        return 1 if bad else 0
    if 'history' not in r:
        print('replay names a broken obligation, not a history:', r.get('obligation'))
        return 1
    exe = harness(ctx)
    if not ctx.build_model():
        return 2
    h = r['history']
    h['items'] = [fix_item(it) for it in h['items']]
    io, mo, bad = evaluate(ctx, exe, [h], 60)[0]
    print('ops:'); print('\n'.join('  ' + l for l in lines_of(h)))
    print('implementation:'); print('\n'.join('  ' + l for l in io))
    k = vlib.diff_streams(io, mo)
    if k is not None:
        print(f'model differs from line {k}:'); print('\n'.join('  ' + l for l in mo[k:k + 6]))
    print('SPECIFICATION VIOLATED: ' + bad if bad else ('SAME' if k is None else 'DIFFER (specification satisfied)'))
    return 1 if (bad or k is not None) else 0


def fix_item(it):
    """JSON turns tuples into lists: restore the shapes `render` expects"""
    def call(c):
        return (c[0], c[1])
    def gap(g):
        return (g[0], g[1])
    def entry(e):
        return {'gap': gap(e['gap']), 'call': call(e['call']), 'nested': [(gap(g), call(c)) for (g, c) in e.get('nested', [])]}
    t = it['t']
    if t == 'main':
        return {'t': 'main', 'call': call(it['call']), 'script': [entry(e) for e in it['script']],
                'body': [call(c) for c in it.get('body', [])], 'bret': it.get('bret', 'w')}
    if t == 'isr':
        return {'t': 'isr', 'call': call(it['call']), 'nested': [(gap(g), call(c)) for (g, c) in it.get('nested', [])]}
    if t == 'thread':
        return {'t': 'thread', 'call': call(it['call']), 'script': [(gap(g), fix_item(m)) for (g, m) in it['script']]}
    return it

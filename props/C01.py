"""C01 — fibres are dispatched exactly when runnable, once per reason, in FIFO order (tie D; refinement proof)."""
from props import sched_common as sc

META = {
    'engine': 'lean-D',
    'technique': 'Lean 4 refinement proof (simulation relation, induction over all call histories) of a hand model of fibre.c against an abstract scheduler specification written from the property text; '
                 'model and specification both tied to the real fibre.c+list.c+messageq.c by differential runs on generated histories',
    'level_text': "For every history of fibre_run / fibre_run_atomic / fibre_kill / fibre_scheduler_next(t) of any length, over any number of fibres whose bodies perform any calls and return any of yielded/waiting/exited/failed, inside the quantifier's scope, the concrete model of fibre.c produces exactly the outputs of the abstract FIFO-of-reasons specification: dispatched fibre or idle per pass (= head of the run queue after intake of atomic requests in arrival order, previous yielder, expired timeouts), priv at entry (0 after exit/fail), every boolean returned, fibre_self, returned wake-up time (sched_refines_spec, by a simulation relation and induction). Corollaries for every reachable state: queue invariant (no duplicates, queues disjoint, timer queue cyclically sorted), dispatch only with a reason / idle only without, coalescing, returned fibre in no queue, kill_exact, and C09's precondition at every list insertion.",
    'level_note': "Trusted: Lean kernel (standard axioms only in the C01 theorems; bv_decide certificates in the *_generated lemmas of Props/C01Tie.lean); tie T2 for get_next_task (regenerated from fibre.c, list_extract external: the fibre dispatched is the head of the run queue of the model, or none) and make_runnable (the list functions external: the calls made are those makeRunnable of the model stands for, no second insertion of a runnable fibre); the hand model lean/Librfn/Model/Fibre.lean of fibre.c and the abstract specification are BOTH run against the real fibre.c+list.c+messageq.c+util.c on every check (sampled histories, exhaustive small scope in the thorough tier) - that correspondence is testing, not proof; cyclecmp32 is regenerated from util.c (tie T); list.c is replaced by sequences (its refinement is C09; every insertion is proved to be of a node in no list); the atomic run queue is its list of committed entries, fibre_run_atomic runs to completion (the lock-free protocol is C04/C06); scope = the property's quantifier: <= 1 unsatisfied fibre_timeout per dispatch, non-decreasing true times, every pending due time within 2^31 ticks of the pass time (the 9th outstanding atomic request is refused by model and specification alike, so no clause is needed).",
    'design_ref': '§6 C01',
}
REQUIRED = ['Librfn.C01.sched_refines_spec', 'Librfn.C01.reachable_sim', 'Librfn.C01.sched_inv', 'Librfn.C01.atomq_bounded', 'Librfn.C01.dispatch_is_fifo_head', 'Librfn.C01.dispatched_exactly_when_runnable', 'Librfn.C01.idle_only_when_nothing_runnable', 'Librfn.C01.run_joins_tail', 'Librfn.C01.run_idempotent', 'Librfn.C01.queued_at_most_once', 'Librfn.C01.returned_fibre_not_queued', 'Librfn.C01.exit_resets_priv', 'Librfn.C01.entry_priv_is_spec_priv', 'Librfn.C01.kill_exact', 'Librfn.C01.make_runnable_inserts_free_node', 'Librfn.C01.handle_timerq_inserts_free_node', 'Librfn.C01.script_inserts_free_nodes', 'Librfn.C01.sched_list_preconditions']


def run(ctx):
    # tie T2 for get_next_task (which fibre a pass dispatches): regenerated from fibre.c, list_extract external (its tie is C09)
    import os, sys
    sys.path.insert(0, os.path.join(os.path.dirname(os.path.abspath(__file__)), '..', 'tools'))
    import regen
    for u, e in regen.regen(['FibreSeq']):
        ctx.broken.append(f'tie T: tools/c2lean2.py cannot translate unit {u}: {e}')
    mods, req = ['Librfn.Props.C01'], list(REQUIRED)
    changed = regen.signature_changes('FibreSeq', only=['get_next_task', 'make_runnable'])
    if changed:
        ctx.broken.append('tie T: the interface of the regenerated get_next_task differs from the one Props/C01Tie.lean is stated against (' + '; '.join(changed)[:600] + ')')
    else:
        mods, req = mods + ['Librfn.Props.C01Tie'], req + ['Librfn.C01.Tie.get_next_task_generated', 'Librfn.C01.Tie.get_next_task_tie', 'Librfn.C01.Tie.make_runnable_generated', 'Librfn.C01.Tie.make_runnable_tie']
    allow = lambda t, a: t.startswith('Librfn.C01.Tie.') and (a.startswith('Librfn.C01.Tie.get_next_task_generated._native.bv_decide.ax_') or a.startswith('Librfn.C01.Tie.make_runnable_generated._native.bv_decide.ax_'))
    sc.run_sched(ctx, META, mods, req, 'C01', allow_extra_axioms=allow)
    ctx.cov['tie_T_generated_units'] = {'FibreSeq': ['get_next_task (list_extract external)', 'make_runnable (list_contains, list_remove, list_insert external)']}


def replay(ctx, path):
    return sc.replay_sched(ctx, path)

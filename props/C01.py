"""C01 — fibres are dispatched exactly when runnable, once per reason, in FIFO order (tie D; refinement proof)."""
from props import sched_common as sc

META = {
    'engine': 'lean-D',
    'technique': 'Lean 4 refinement proof (simulation relation, induction over all call histories) of a hand model of fibre.c against an abstract scheduler specification written from the property text; '
                 'model and specification both tied to the real fibre.c+list.c+messageq.c by differential runs on generated histories',
    'level_text': 'PLACEHOLDER',
    'level_note': 'PLACEHOLDER',
    'design_ref': '§6 C01',
}
REQUIRED = []


def run(ctx):
    sc.run_sched(ctx, META, ['Librfn.Props.C01'], REQUIRED, 'C01')


def replay(ctx, path):
    return sc.replay_sched(ctx, path)

"""Shared machinery of C01, C02, C03 (fibre scheduler; tie D).

Four streams are produced for every history (list of op lines, true integer times):
  impl   harness/h_sched.c = the real fibre.c + list.c + messageq.c + util.c from vlib.REPO
  model  `librfn_model sched`        lean/Librfn/Model/Fibre.lean   (concrete model, times mod 2^32)
  spec   `librfn_model sched spec`   lean/Librfn/Spec/Sched.lean    (abstract specification, true times)
  scope  `librfn_model sched scope`  the decidable InScope predicate of the theorems, per op
impl != spec on an in-scope history  -> VIOLATION (shrunk by removing ops / script items, staying in scope)
impl != model on an in-scope history (impl == spec) -> broken correspondence
differences on out-of-scope histories are only counted (coverage note).

C03 only: op `loop T1 T2 ret item*` = one iteration of the real posix/fibre_posix.c main loop on a virtual clock.
impl/model lines end in ` sleep=<d>|none`, the spec line in ` maxsleep=<V-T2>`; the specification of the sleep is a
relation (Spec.Sched.SleepOk: `none` always allowed, `d` iff 1 <= d <= V-T2), judged here by `line_ok`.
"""
import hashlib, json, os
import vlib

NF = 8
W31, W32 = 1 << 31, 1 << 32
RETS = 'ywef'


# --------------------------------------------------------------------------- generator-side tracker
class Tracker:
    """Light mirror of the abstract state, used ONLY to bias the generator toward interesting shapes
    (who will be dispatched next, who sleeps until when).  It is not an oracle: verdicts come from the
    Lean specification engine."""
    def __init__(s):
        s.rq, s.pend, s.yielder, s.sleep, s.last = [], [], None, [], None   # sleep: list of (f, D) in registration order

    def copy(s):
        t = Tracker(); t.rq, t.pend, t.yielder, t.sleep, t.last = list(s.rq), list(s.pend), s.yielder, list(s.sleep), s.last
        return t

    def enqueue(s, f):
        s.sleep = [x for x in s.sleep if x[0] != f]
        if f not in s.rq:
            s.rq.append(f)

    def drain(s):
        p, s.pend = s.pend, []
        for g in p:
            s.enqueue(g)

    def run(s, f):
        s.drain(); s.enqueue(f)

    def atomic(s, f):
        if len(s.pend) < 8:
            s.pend.append(f); return True
        return False

    def kill(s, f):
        s.drain()
        r = f in s.rq or any(x[0] == f for x in s.sleep)
        s.rq = [x for x in s.rq if x != f]; s.sleep = [x for x in s.sleep if x[0] != f]
        return r

    def admit(s, T):
        s.drain()
        if s.yielder is not None:
            s.enqueue(s.yielder)
        s.yielder = None
        exp = sorted([x for x in s.sleep if x[1] <= T], key=lambda x: x[1])    # stable
        s.sleep = [x for x in s.sleep if x[1] > T]
        s.rq += [x[0] for x in exp]
        s.last = T
        return len(exp)

    def peek(s, T):
        t = s.copy(); t.admit(T)
        return t.rq[0] if t.rq else None

    def next(s, T, script, ret):
        s.admit(T)
        if not s.rq:
            return None
        d = s.rq.pop(0)
        for k, v in script:
            if k == 'r': s.run(v)
            elif k == 'a': s.atomic(v)
            elif k == 'k': s.kill(v)
            elif k == 't' and v > T and d not in s.rq:
                s.sleep.append((d, v))
        if ret == 'y':
            s.yielder = d
        return d


def fmt_next(T, ret, script):
    return ' '.join(['next', str(T), ret] + ['%s:%d' % kv for kv in script])


def fmt_loop(T1, T2, ret, script):
    return ' '.join(['loop', str(T1), str(T2), ret] + ['%s:%d' % kv for kv in script])


# --------------------------------------------------------------------------- the POSIX main loop (C03 only)
EDGES = [0, 1, 2, 998, 999, 1000, 1001, 1002, 49999, 50000, 50001, 10 ** 6]      # values of V - T2 / T2 - T1 around the code's constants
GAPS = [0, 1, 7, 999, 1000, 1001, 49999, 50000, 50001, 10 ** 6, W31 - 50001, W31 - 1, W31]


def bucket(m):
    """bucket of an interval in microseconds (V - T2 or T2 - T1): the edges of the code's constants are kept apart"""
    if m < 0: return '<0'
    if m in (0, 1, 999, 1000, 1001, 49999, 50000, 50001): return str(m)
    if m < 999: return '2..998'
    if m < 49999: return '1002..49998'
    if m < 10 ** 6: return '50002..999999'
    if m < W31 - 50001: return '1e6..'
    if m <= W31: return 'near-2^31'
    return '>2^31'


def coarse(m):
    """stable violation key: which rule of the sleep the implementation broke"""
    return 'not-allowed' if m <= 0 else '1..999' if m < 1000 else '1ms..50ms' if m < 50000 else '>=50ms'


def split_loop(line):
    """(`next` part, 'sleep'|'maxsleep'|None, value)"""
    for tag in (' sleep=', ' maxsleep='):
        if tag in line:
            b, v = line.rsplit(tag, 1)
            try:
                return b, tag[1:-1], (None if v == 'none' else int(v))
            except ValueError:
                return line, None, None
    return line, None, None


def line_ok(a, e):
    """does the implementation's line `a` satisfy the specification's line `e`?  -> None | 'differs' | 'mainloop-oversleep:<key>'"""
    eb, ek, m = split_loop(e)
    if ek != 'maxsleep':
        return None if a == e else 'differs'
    ab, ak, d = split_loop(a)
    if ak != 'sleep' or ab != eb:
        return 'differs'
    if d is not None and d != 0 and not (d <= m):      # usleep(0) delays nothing
        return 'mainloop-oversleep:' + coarse(m)
    return None


def judge_spec(io, so):
    """first op at which the implementation does not satisfy the specification: (index, why) or None"""
    for k in range(max(len(io), len(so))):
        if k >= len(io) or k >= len(so):
            return k, 'differs'
        why = line_ok(io[k], so[k])
        if why:
            return k, why
    return None


def pick_base(rng):
    """time base anywhere in the 32-bit ring; in 1/3 of the histories a few ticks before a wrap seam
    (0xffffffff->0 or 0x7fffffff->0x80000000), sometimes several laps up so that true times exceed 2^32"""
    r = rng.below(6)
    if r == 0:
        b = W32 - rng.range(0, 12)
    elif r == 1:
        b = W31 - rng.range(0, 12)
    elif r == 2:
        b = rng.choice([0, 1, 3, W32 - 1, W31 - 1, W31, W32 + W31 - 5])
    else:
        b = rng.below(W32)
    return b + rng.choice([0, 0, 0, W32, 5 * W32])


class Gen:
    """one history; `flavor` in C01 / C02 / C03 shifts the mix of shapes"""
    def __init__(s, rng, flavor, nf=None, nops=None):
        s.rng, s.flavor = rng, flavor
        s.nf = nf or rng.range(2, 6)
        s.nops = nops or rng.range(5, 60)
        s.tr = Tracker()
        s.T = pick_base(rng)
        s.ops = []
        s.shapes = set()
        # a small pool of due-time offsets per history: ties and inversions are likely, seams are straddled
        s.step = rng.choice([1, 1, 2, 3, 7])

    # -- primitive emitters (all keep the tracker in step)
    def fid(s):
        return s.rng.below(s.nf)

    def run(s, f):
        s.ops.append('run %d' % f); s.tr.run(f)

    def atomic(s, f):
        s.ops.append('atomic %d' % f); s.tr.atomic(f)

    def kill(s, f):
        s.ops.append('kill %d' % f); s.tr.kill(f)

    def next(s, script=(), ret='w', dt=0):
        s.T += dt
        if s.flavor == 'C03' and s.rng.chance(1, 3):        # C03 only (C01/C02 draw nothing here: their histories are unchanged)
            return s.loop(list(script), ret)
        s.ops.append(fmt_next(s.T, ret, list(script)))
        return s.tr.next(s.T, list(script), ret)

    def predict_wake(s, script, ret):
        """the tracker's guess of what the pass at s.T will return: ('now'|'due'|'unbounded', V) — used only to aim T2"""
        t = s.tr.copy()
        d = t.next(s.T, script, ret)
        if (d is not None and ret == 'y') or t.rq or t.pend:
            return 'now', s.T
        if t.sleep:
            return 'due', min(x[1] for x in t.sleep)
        return 'unbounded', s.T + W31 - 1

    def loop(s, script, ret, T2=None):
        """one main-loop iteration: the pass at s.T, second clock reading T2 (gap from GAPS, or aimed so that V - T2
        lands on an edge of the code's constants)"""
        rng = s.rng
        if T2 is None:
            kind, V = s.predict_wake(script, ret)
            cands = [V - e for e in EDGES + [-1, -1000]] if kind != 'now' else []
            cands = [x for x in cands if s.T <= x <= s.T + W31]
            if cands and rng.chance(1, 2):
                T2 = rng.choice(cands)
            else:
                r = rng.below(10)
                T2 = s.T + (rng.choice([0, 1, 2, 3, 5]) if r < 4 else rng.choice(GAPS) if r < 9 else rng.below(W31))
        s.ops.append(fmt_loop(s.T, T2, ret, script))
        s.shapes.add('main-loop iteration')
        d = s.tr.next(s.T, script, ret)
        if T2 - s.T <= 10 ** 6 and rng.chance(1, 2):
            s.T = T2                                          # the clock really moved; otherwise a hypothetical reading
        return d

    def shape_mainloop(s):
        """C03: a fibre sleeps until a due time 1 us .. 1 s away and the main loop is run the way the real one runs —
        each iteration starts when the previous sleep ends — until the timeout has fired"""
        rng = s.rng
        s.shapes.add('main loop run until the timeout fires')
        f = s.fid(); s.run(f)
        D = s.T + rng.choice(EDGES[1:] + [1500, 20000, 75000, 120000]) + rng.choice([0, 0, 1, 5])
        script = [('t', D)] + ([('r', s.fid())] if rng.chance(1, 6) else [])
        ret = rng.choice('wwwwy')
        for i in range(rng.range(2, 7)):
            T2 = s.T + rng.choice([0, 1, 2, 5, 40])
            kind, V = s.predict_wake(script, ret)
            s.ops.append(fmt_loop(s.T, T2, ret, script)); s.tr.next(s.T, script, ret)
            script, ret = [], 'w'
            if kind == 'now' or V <= T2:
                s.T = T2
            else:
                s.T = T2 + min(V - T2, 50000) + rng.choice([0, 0, 0, 1, 3])      # usleep returns on time or a little late

    def advance(s):
        """how far to move the clock before a pass: mostly small, often exactly onto / around a pending due time"""
        rng, tr = s.rng, s.tr
        dues = sorted(set(x[1] for x in tr.sleep))
        r = rng.below(10)
        if dues and r < 4:
            D = rng.choice(dues[:3])
            t = D + rng.choice([-1, 0, 0, 0, 1])
            return max(0, t - s.T)
        if r < 7:
            return rng.choice([0, 0, 1, 1, 2, 5])
        if r == 7:
            return rng.choice([20, 100])
        if r == 8:
            # a long silence: as far as the window allows (every pending due time stays within 2^31 of the new time)
            far = W31 - 1 - rng.below(3)
            return max(0, min([far] + [D + W31 - 1 - s.T for D in dues]))
        return 0

    def due_choice(s):
        """due time for a timeout registered at the current pass time"""
        rng = s.rng
        r = rng.below(20)
        if r < 3:
            return s.T + rng.choice([-3, -1, 0, 0])                      # satisfied at once
        if r < 5:
            return s.T + rng.choice([-(W31 - 1), -(W31 // 2)])             # long past, still inside the window
        if r < 7:
            return s.T + rng.choice([W31 - 1, W31 - 2, W31 // 2 + 5])      # far future, edge of the window
        if s.flavor == 'C03' and rng.chance(1, 4):                       # C03 only: due times around the main loop's constants
            return s.T + rng.choice(EDGES[3:] + [2000, 60000]) + rng.choice([0, 0, 1, 7, 1000])
        pool = [1, 2, 3, 4, 5, 8, 13, 21, 40]
        return s.T + s.step * rng.choice(pool[:rng.range(2, len(pool))])

    def rand_script(s, d, allow_timeout=True):
        rng = s.rng
        script, unsat = [], 0
        for _ in range(rng.choice([0, 0, 1, 1, 1, 2, 2, 3, 4, 6])):
            q = rng.below(100)
            g = d if (d is not None and rng.chance(1, 4)) else s.fid()
            if q < 22:
                script.append(('r', g))
            elif q < 36:
                script.append(('a', g))
            elif q < 48:
                script.append(('k', g))
            elif q < 82 and allow_timeout:
                D = s.due_choice()
                if D > s.T:
                    if unsat:
                        D = s.T - rng.below(3)
                    else:
                        unsat = 1
                script.append(('t', D))
            else:
                script.append(('p', rng.choice([1, 2, 3, 7, 255, 65535, rng.below(65536)])))
        return script

    def rand_op(s):
        rng = s.rng
        r = rng.below(100)
        if r < 13:
            s.run(s.fid())
        elif r < 24:
            s.atomic(s.fid())
        elif r < 32:
            # prefer killing a sleeper / queued fibre, middle or tail
            cands = [x[0] for x in s.tr.sleep[1:]] + s.tr.rq[1:]
            s.kill(rng.choice(cands) if cands and rng.chance(2, 3) else s.fid())
        else:
            s.T += s.advance()
            d = s.tr.peek(s.T)
            ret = rng.choice('yyywwwwef')
            s.next(s.rand_script(d), ret)

    # -- shapes named by the properties
    def shape_sleepers(s, k=None, dues=None):
        """put k fibres to sleep (each is run, dispatched, registers one timeout, returns waiting)"""
        rng = s.rng
        k = k or rng.range(2, min(s.nf, 5))
        fs = rng.shuffle(list(range(s.nf)))[:k]
        for f in fs:
            s.run(f)
        out = []
        for i in range(len(fs)):
            d = s.tr.peek(s.T)
            D = dues[i] if dues else s.due_choice()
            if D <= s.T:
                D = s.T + 1 + rng.below(4)
            s.next([('t', D)], 'w', rng.choice([0, 0, 0, 1]) if not dues else 0)
            out.append((d, D))
        return out

    def shape_sleeper_and_yielder(s):
        """a fibre on the timer queue while another yields (fast path must be left when the timer queue is non-empty)"""
        rng = s.rng
        s.shapes.add('sleeper+yielder')
        f, y = rng.shuffle(list(range(s.nf)))[:2]
        s.run(f); s.run(y) if rng.chance(1, 2) else s.atomic(y)
        D = s.T + rng.range(2, 9)
        s.next([('t', D)], 'w')
        for _ in range(rng.range(2, 6)):
            s.T += rng.choice([0, 1, 1, 2])
            d = s.tr.peek(s.T)
            s.next(s.rand_script(d, allow_timeout=rng.chance(1, 3)) if rng.chance(1, 3) else [], 'y')
        s.next([], rng.choice('we'), rng.choice([0, 1, 5]))
        s.next([], 'w', rng.choice([0, 1, 9]))

    def shape_self_run_then_exit(s):
        """the running fibre is made runnable (by itself or through an atomic request) and then exits / fails"""
        rng = s.rng
        s.shapes.add('self-run+exit')
        f = s.fid(); s.run(f)
        d = s.tr.peek(s.T)
        pre = [('p', rng.range(1, 9))] if rng.chance(2, 3) else []
        how = rng.choice([[('r', d)], [('a', d)], [('r', d), ('a', d)], [('t', s.T + 3), ('r', d)]])
        s.next(pre + how, rng.choice('ef'))
        s.next([('p', 5)] if rng.chance(1, 2) else [], rng.choice('wye'), rng.choice([0, 1]))
        s.next([], 'w', rng.choice([0, 4]))

    def shape_mixed_pass(s):
        """several atomic requests pending + a yielder + expiring timers, all admitted by ONE pass"""
        rng = s.rng
        s.shapes.add('atomics+yielder+timers')
        sl = s.shape_sleepers()
        y = s.fid(); s.run(y)
        s.next([], 'y')                                   # y yields
        for _ in range(rng.range(2, 5)):
            s.atomic(s.fid())
        Dmax = max(D for _, D in sl)
        s.T = max(s.T, rng.choice([Dmax, Dmax + 1, min(D for _, D in sl)]))
        n = rng.range(3, 8)
        for i in range(n):
            d = s.tr.peek(s.T)
            s.next(s.rand_script(d) if rng.chance(1, 4) else [], rng.choice("wwwy"))

    def shape_kill_sleepers(s):
        """kill / run sleepers in the middle or at the tail of the timer queue while others expire in the same pass"""
        rng = s.rng
        s.shapes.add('kill/run middle+tail sleeper')
        sl = s.shape_sleepers(k=min(s.nf, rng.range(3, 5)))
        order = sorted(sl, key=lambda x: x[1])
        for _ in range(rng.range(1, 2)):
            victim = rng.choice(order[1:])[0]
            how = rng.below(4)
            if how == 0: s.kill(victim)
            elif how == 1: s.run(victim)
            elif how == 2: s.atomic(victim)
            else:
                g = s.fid(); s.run(g)
                d = s.tr.peek(s.T)
                s.next([(rng.choice('kr'), victim)], 'w')
        s.T = max(s.T, order[-1][1] + rng.choice([-1, 0, 0, 1]))
        for _ in range(len(sl) + 2):
            s.next([], 'w', 0)

    def shape_wrap_seam(s):
        """C02: sleepers with distinct due times on both sides of a wrap seam, >= 3 equal due times registered
        out of queue order, and passes stepping over the seam"""
        rng = s.rng
        s.shapes.add('seam straddle + ties')
        lap = (s.T // W32) * W32
        seams = [lap + W32, lap + W31 if s.T % W32 < W31 else lap + W32 + W31]     # the next seam of each kind ahead of T
        seam = rng.choice(seams)
        k = min(s.nf, rng.range(3, 6))
        start = seam - rng.range(2, 10)
        if start >= s.T and all(start - D < W31 for _, D in s.tr.sleep):
            s.T = start                      # jump next to the seam (allowed: no pending due time is left 2^31 behind)
        else:
            seam = s.T + rng.range(2, 10)    # stay where we are: ties and inversions without a seam
        offs = [-1, 0, 1, 2, 5, -2, 3]
        tie = seam + rng.choice([-1, 0, 1, 2])
        dues = []
        ntie = rng.range(0, 3) if k < 3 else rng.choice([0, 3, 3, k])
        for i in range(k):
            dues.append(tie if i < ntie else seam + rng.choice(offs))
        dues = [D if D > s.T else s.T + 1 + rng.below(3) for D in rng.shuffle(dues)]
        s.shape_sleepers(k=k, dues=dues)
        # step over the seam: one big pass, or tick by tick
        if rng.chance(1, 2):
            s.T = max(s.T, max(dues) + rng.choice([-1, 0, 1]))
            for _ in range(k + 1):
                s.next([], 'w', 0)
        else:
            while s.T <= max(dues) and len(s.ops) < 120:
                s.next([], 'w', rng.choice([0, 1, 1, 2]))
            s.next([], 'w', 0)

    def shape_atomic_overflow(s):
        """more than 8 accepted requests outstanding: the 9th is refused; duplicates coalesce when drained"""
        rng = s.rng
        s.shapes.add('atomic queue full')
        if rng.chance(1, 2):
            for _ in range(rng.range(8, 11)):
                s.atomic(s.fid())
        else:
            f = s.fid(); s.run(f)
            s.next([('a', s.fid()) for _ in range(rng.range(8, 10))] + [('k', s.fid())] * rng.below(2), rng.choice('wy'))
        s.atomic(s.fid())
        for _ in range(rng.range(1, 4)):
            s.next([], 'w')

    def shape_wake(s):
        """C03: every branch of the returned value — yield, run queue non-empty on return, atomic request pending
        on return, earliest of several due times (the dispatched fibre's own timeout included), unbounded sleep"""
        rng = s.rng
        s.shapes.add('wake-up branches')
        f = s.fid(); s.run(f)
        d = s.tr.peek(s.T)
        which = rng.below(6)
        if which == 0:
            s.next([('t', s.T + rng.range(1, 30))], 'w')                   # own timeout is the head
        elif which == 1:
            s.next([('a', s.fid())], 'w')                                   # atomic pending at return
        elif which == 2:
            s.next([('r', s.fid())], 'w')                                   # run queue non-empty at return
        elif which == 3:
            s.next([('t', s.T + 5), ('k', d)], 'w')                         # registered then withdrawn: unbounded
        elif which == 4:
            s.shape_sleepers()
            g = s.fid(); s.run(g)
            s.next([('t', s.T + rng.choice([1, 2, 50, W31 - 1]))], 'w')   # earlier or later than the others
        else:
            s.next([('t', s.T + 4)], 'y')                                   # yield wins over the timeout
        for _ in range(rng.range(1, 4)):
            s.next([], rng.choice('wy'), rng.choice([0, 1, 3]))

    def build(s):
        rng = s.rng
        mix = {'C01': [s.shape_sleeper_and_yielder, s.shape_self_run_then_exit, s.shape_mixed_pass, s.shape_kill_sleepers] * 2 + [s.shape_wrap_seam, s.shape_wake, s.shape_atomic_overflow],
               'C02': [s.shape_wrap_seam] * 5 + [s.shape_kill_sleepers, s.shape_kill_sleepers, s.shape_sleeper_and_yielder, s.shape_mixed_pass, s.shape_atomic_overflow],
               'C03': [s.shape_wake] * 5 + [s.shape_mainloop] * 3 + [s.shape_mixed_pass, s.shape_sleeper_and_yielder, s.shape_wrap_seam, s.shape_kill_sleepers, s.shape_atomic_overflow]}[s.flavor]
        if rng.chance(3, 4):
            for _ in range(rng.range(0, 6)):
                s.rand_op()
            rng.choice(mix)()
            if rng.chance(1, 3):
                rng.choice(mix)()
        while len(s.ops) < s.nops:
            s.rand_op()
        return s.ops[:90]          # a prefix of an in-scope history is in scope


def gen_history(rng, flavor):
    g = Gen(rng, flavor)
    return g.build(), g.shapes


def gen_out_of_scope(rng, flavor):
    """deliberately outside the quantifier's scope (two unsatisfied timeouts in one dispatch, a due time beyond the
    window, time running backwards): differences are recorded, never alarmed"""
    g = Gen(rng, flavor, nops=rng.range(5, 25))
    ops = g.build()
    T = g.T
    kind = rng.below(4 if flavor == 'C03' else 3)
    if kind == 3:       # C03: the second clock reading more than 2^31 after the first (the int32 interval wraps: not alarmed)
        ops += ['run 0', fmt_loop(T, T + W31 + 1 + rng.below(1000), rng.choice('yw'), [('t', T + 5)]), fmt_next(T + 9, 'w', [])]
    elif kind == 0:
        ops += ['run 0', fmt_next(T, 'w', [('t', T + 5), ('t', T + 3)]), fmt_next(T + 9, 'w', []), fmt_next(T + 9, 'w', [])]
    elif kind == 1:
        ops += ['run 0', fmt_next(T, 'w', [('t', T + W31 + 7)]), fmt_next(T + 1, 'w', [])]
    else:
        ops += ['run 0', fmt_next(T, 'w', [('t', T + 5)]), 'run 1', fmt_next(T - W31 - 3, 'w', []), fmt_next(T - W31 - 3, 'w', [])]
    return ops


# --------------------------------------------------------------------------- running the four streams
def harness(ctx):
    R = vlib.REPO
    exe, log = ctx.cc('h_sched', [os.path.join(vlib.VERIF, 'harness/h_sched.c'), R + '/librfn/list.c', R + '/librfn/messageq.c',
                                  R + '/librfn/util.c'], ['-I' + R + '/librfn'] + ctx.FORKMAIN)      # time_now()/usleep(): the harness's own virtual clock
    if not exe:
        raise vlib.Unbuildable('scheduler harness does not compile against the repository: ' + log[-1500:])
    return exe


def text_of(hs):
    return ''.join('reset\n' + '\n'.join(h) + '\n--\n' for h in hs)


def streams(ctx, exe, hs, timeout=900, want=('impl', 'model', 'spec', 'scope')):
    """outputs per history (the `ok` of the leading reset stripped)"""
    text = text_of(hs)
    out = {}
    if 'impl' in want:
        out['impl'] = [x[1:] for x in vlib.split_histories(vlib.run_exe([exe], text, timeout))]
    for name, args in (('model', ['sched']), ('spec', ['sched', 'spec']), ('scope', ['sched', 'scope'])):
        if name in want:
            lines = ctx.run_model(args, text, timeout).split('\n')
            if lines and lines[-1] == '':
                lines.pop()
            out[name] = [x[1:] for x in vlib.split_histories(lines)]
    return out


def in_scope(scope_lines, n):
    return len(scope_lines) == n and all(l == 'in' for l in scope_lines)


def shrink(ctx, exe, h, why=None):
    """smallest history (ops removed, main-loop iterations reduced to plain passes, script items removed) that stays in
    scope and on which the implementation does not satisfy the specification (in the same way `why`, when given)"""
    def fails(c):
        if not c:
            return False
        o = streams(ctx, exe, [c], timeout=60, want=('impl', 'spec', 'scope'))
        j = judge_spec(o['impl'][0], o['spec'][0])
        return in_scope(o['scope'][0], len(c)) and j is not None and (why is None or j[1] == why)
    h = vlib.ddmin(h, fails, max_tests=300)
    changed = True
    while changed:
        changed = False
        for i, l in enumerate(h):
            w = l.split()
            first = {'next': 3, 'loop': 4}.get(w[0])
            if first is None:
                continue
            cands = [' '.join(w[:j] + w[j + 1:]) for j in range(first, len(w))]
            if w[0] == 'loop':
                cands.insert(0, ' '.join(['next', w[1]] + w[3:]))        # is the main loop needed at all?
            for c1 in cands:
                c = h[:i] + [c1] + h[i + 1:]
                if fails(c):
                    h, changed = c, True
                    break
            if changed:
                break
    return h


def key_of(h):
    return 'ops:' + hashlib.sha1('\n'.join(h).encode()).hexdigest()[:16]


def compare(ctx, exe, hs, label, stats=None, expect_in_scope=True):
    """run a batch; report the first violation / broken correspondence.  Returns number of histories on which
    implementation, model and specification agreed (in scope)."""
    if not ctx.build_model():
        return 0
    o = streams(ctx, exe, hs)
    agreed, noted = 0, False
    for i, h in enumerate(hs):
        io = o['impl'][i] if i < len(o['impl']) else None
        if io is None:      # the harness died in an earlier history of this batch: run this one alone
            o1 = streams(ctx, exe, [h], timeout=120)
            io, mo, so, sc = o1['impl'][0], o1['model'][0], o1['spec'][0], o1['scope'][0]
        else:
            mo, so, sc = o['model'][i], o['spec'][i], o['scope'][i]
        ins = in_scope(sc, len(h))
        if stats is not None:
            stats['in_scope' if ins else 'out_of_scope'] = stats.get('in_scope' if ins else 'out_of_scope', 0) + 1
            if ins:
                tally(stats, h, so, io)
        if not ins:
            if io != mo and stats is not None:
                stats['out_of_scope_impl_differs_from_model'] = stats.get('out_of_scope_impl_differs_from_model', 0) + 1
            if expect_in_scope and stats is not None:
                stats['generator_left_scope'] = stats.get('generator_left_scope', 0) + 1
            continue
        j = judge_spec(io, so)
        if j is None and io == mo:
            agreed += 1
            continue
        if j is not None:
            oversleep = j[1].startswith('mainloop-oversleep')
            hh = shrink(ctx, exe, h, j[1] if oversleep else None)
            o2 = streams(ctx, exe, [hh], timeout=60)
            a, e, m = o2['impl'][0], o2['spec'][0], o2['model'][0]
            j2 = judge_spec(a, e)
            k, why = j2 if j2 else (0, j[1])
            r = {'obligation': f'{label}: implementation vs abstract specification (Spec/Sched.lean) on an in-scope history',
                 'ops': ['reset'] + hh, 'first_difference_at_op': k,
                 'op': hh[k] if k < len(hh) else None,
                 'expected': e[max(0, k - 2):k + 3], 'observed': a[max(0, k - 2):k + 3], 'model': m[max(0, k - 2):k + 3],
                 'original_length': len(h),
                 'how_to_rerun': f'./check {ctx.pid} --replay <this file>'}
            if why.startswith('mainloop-oversleep') and k < len(a) and k < len(e):
                d, mx = split_loop(a[k])[2], split_loop(e[k])[2]
                r['obligation'] = (f'{label}: the real fibre_scheduler_main_loop (posix/fibre_posix.c) sleeps past the time fibre_scheduler_next '
                                   'returned (Spec.Sched.SleepOk; theorem Librfn.C03.mainloop_never_delays) on an in-scope history')
                r['reason'] = (f'usleep({d}) at clock reading T2 although the returned time is only {mx} us after T2: '
                               + ('a runnable fibre / a due timeout is delayed by the whole sleep' if mx <= 0
                                  else f'the sleep ends {d - mx} us after the returned time'
                                       + (' (nothing is pending: the returned time is T1 + FIBRE_UNBOUNDED_SLEEP)' if (int(a[k].split('wake=')[1].split()[0]) - int(hh[k].split()[1])) % W32 == W31 - 1
                                          else ' = the earliest pending due time: that timeout is delayed by as much')))
                # stable key: which rule was broken + how the slept interval relates to the pass (distinguishes D13's 50 ms poll
                # from an interval computed against the pre-pass clock reading, etc.)
                vt1 = (int(a[k].split('wake=')[1].split()[0]) - int(hh[k].split()[1])) % W32
                how = 'poll-50ms' if d == 50000 else 'interval-from-T1' if d == min(vt1, 50000) else 'other'
                ctx.violation(r, key=why + ':' + how)
            else:
                ctx.violation(r, key=key_of(hh))
            return agreed
        if not noted:          # broken correspondence: note the first one, keep searching this batch for a violation of the specification
            noted = True
            k = vlib.diff_streams(io, mo)
            ctx.broken.append(f'correspondence {label}: concrete model differs from the implementation (implementation satisfies the specification) '
                              f'on in-scope history {h[:10]}... at op {k}: model={mo[k:k + 2] if k is not None else None} impl={io[k:k + 2] if k is not None else None}')
    return agreed


def tally(stats, h, out, impl=None):
    """histograms over in-scope histories: ops, script items, returns, outcomes (`out` = the specification's lines,
    `impl` = the implementation's)"""
    hist = stats.setdefault('hist', {})
    ml = stats.setdefault('mainloop', {})
    def inc(k, n=1):
        hist[k] = hist.get(k, 0) + n
    def incm(k):
        ml[k] = ml.get(k, 0) + 1
    for i, (l, o) in enumerate(zip(h, out)):
        w = l.split()
        inc('op:' + w[0])
        if w[0] == 'loop':
            # one main-loop iteration: bucket the pass duration T2-T1, the allowed interval V-T2 and what the real loop did
            o, _, m = split_loop(o)
            d = split_loop(impl[i])[2] if impl is not None and i < len(impl) else None
            incm('T2-T1:' + bucket(int(w[2]) - int(w[1])))
            if m is not None:
                incm('V-T2:' + bucket(m))
                incm('impl:' + ('no-sleep,none-allowed' if d is None and m <= 0 else 'no-sleep,sleep-allowed' if d is None
                                else 'slept-exactly-until-V' if d == m else 'slept-50ms-poll' if d == 50000 and m > 50000 else 'slept-other'))
            w = ['next', w[1]] + w[3:]
        if w[0] == 'next':
            if o.startswith('idle'):
                inc('pass:idle')
            else:
                inc('pass:dispatch'); inc('ret:' + w[2])
                res = o.split('res=')[1].split(' ')[0]
                ri = 0
                for it in w[3:]:
                    inc('item:' + it[0])
                    if it[0] == 't':
                        inc('timeout:' + ('satisfied' if res[ri] == '1' else 'sleeps'))
                    elif it[0] == 'k':
                        inc('script-kill:' + res[ri])
                    elif it[0] == 'a':
                        inc('script-atomic:' + ('accepted' if res[ri] == '1' else 'refused'))
                    ri += 1
                if 'priv=0 ' not in o:
                    inc('resumed-with-priv')
            T = int(w[1]); wake = int(o.split('wake=')[1])
            d = (wake - T) % W32
            inc('wake:' + ('now' if d == 0 else 'unbounded' if d == 0x7fffffff else 'due'))
        elif w[0] == 'kill':
            inc('kill:' + o)
        elif w[0] == 'atomic':
            inc('atomic:' + ('accepted' if o == '1' else 'refused'))
    ts = [int(l.split()[1]) for l in h if l.startswith('next')]
    if ts:
        for seam in (W32, W31):
            if (ts[0] - seam) // W32 != (ts[-1] - seam) // W32:
                inc('history-crosses-seam-%s' % ('0xffffffff' if seam == W32 else '0x7fffffff'))


def load_corpus(pid):
    d = os.path.join(vlib.VERIF, 'corpus', pid)
    out = []
    if os.path.isdir(d):
        for fn in sorted(os.listdir(d)):
            if fn.endswith('.json'):
                r = json.load(open(os.path.join(d, fn)))
                out.append([l for l in r['ops'] if l != 'reset'])
    return out


def mainloop_grid(bases):
    """C03: every pass duration in GAPS x every allowed interval V-T2 around the code's constants x five states at
    return (sleeper only / also a queued fibre / also an accepted atomic request / the fibre yielded / idle pass with an
    earlier sleeper), at each time base"""
    offs = [-50001, -1000, -1] + EDGES + [W31 - 2]
    hs = []
    for b in bases:
        for gap in GAPS:
            for off in offs:
                T1, T2 = b, b + gap
                D = T2 + off
                if not (T1 < D < T1 + W31):
                    continue
                hs.append(['run 0', fmt_loop(T1, T2, 'w', [('t', D)])])
                hs.append(['run 0', 'run 1', fmt_loop(T1, T2, 'w', [('t', D)])])
                hs.append(['run 0', fmt_loop(T1, T2, 'w', [('t', D), ('a', 1)])])
                hs.append(['run 0', fmt_loop(T1, T2, 'y', [('t', D)])])
                if D < T1 - 1 + W31:
                    hs.append(['run 0', fmt_next(T1 - 1, 'w', [('t', D)]), fmt_loop(T1, T2, 'w', [])])
            hs.append([fmt_loop(b, b + gap, 'w', [])])                   # nothing at all: unbounded sleep, polled
    return hs


# --------------------------------------------------------------------------- exhaustive small scope (thorough tier)
def small_alphabet():
    """reduced alphabet over 3 fibres; times are small offsets from a base chosen by the caller"""
    ops = [('run', 0), ('run', 1), ('atomic', 1), ('atomic', 2), ('kill', 0), ('kill', 1)]
    nexts = []
    for dt in (0, 2):
        for ret in 'yw':
            nexts.append((dt, ret, ()))
        nexts.append((dt, 'w', (('t', 2),)))
        nexts.append((dt, 'y', (('t', 1),)))
        nexts.append((dt, 'e', (('p', 3), ('r', 0))))
    nexts.append((0, 'w', (('t', 2), ('r', 2))))
    nexts.append((0, 'w', (('k', 1), ('a', 0))))
    nexts.append((1, 'e', (('p', 7),)))
    return ops, nexts


def enumerate_small(maxlen, base):
    ops, nexts = small_alphabet()
    alpha = [('o',) + x for x in ops] + [('n',) + x for x in nexts]
    def render(seq):
        T, out = base, []
        for a in seq:
            if a[0] == 'o':
                out.append('%s %d' % (a[1], a[2]))
            else:
                T += a[1]
                out.append(fmt_next(T, a[2], [(k, (T + v if k == 't' else v)) for k, v in a[3]]))
        return out
    def rec(prefix, n):
        if prefix:
            yield render(prefix)
        if n == 0:
            return
        for a in alpha:
            yield from rec(prefix + [a], n - 1)
    return rec([], maxlen), len(alpha)


def line_coverage(ctx, hs):
    """thorough tier: which lines of the modelled functions of fibre.c (and of list.c) the generated histories reach
    (gcov on a separate build; informational: generator quality is measured, not assumed)"""
    import re
    d = os.path.join(ctx.tmp, 'cov')
    os.makedirs(d, exist_ok=True)
    R = vlib.REPO
    cmd = ['gcc', '-g', '-O0', '--coverage', '-D' + vlib.GUARD, '-I' + R + '/include', '-I' + os.path.join(vlib.VERIF, 'harness'), '-I' + R + '/librfn',
           '-o', os.path.join(d, 'hc'), os.path.join(vlib.VERIF, 'harness/h_sched.c'), R + '/librfn/list.c', R + '/librfn/messageq.c',
           R + '/librfn/util.c']
    rc, o, e = vlib.sh(cmd, timeout=300, cwd=d)
    if rc != 0:
        return {'error': (o + e)[-300:]}
    vlib.sh([os.path.join(d, 'hc')], input=text_of(hs), timeout=600, cwd=d)
    out = {}
    for gcda, src in (('hc-h_sched.gcda', 'fibre.c'), ('hc-list.gcda', 'list.c')):
        vlib.sh(['gcov', '-o', d, gcda], timeout=120, cwd=d)
        try:
            lines = open(os.path.join(d, src + '.gcov')).read().split('\n')
        except OSError:
            out[src] = 'no gcov output'; continue
        unc, total, skip = [], 0, False
        for l in lines:
            m = re.match(r'\s*([^:]+):\s*(\d+):(.*)', l)
            if not m:
                continue
            cnt, no, text = m.group(1).strip(), int(m.group(2)), m.group(3)
            if text and (text[0].isalpha() or text[0] == '_') and '(' in text and not text.rstrip().endswith(';'):
                name = re.findall(r'(\w+)\s*\(', text)
                # functions outside the modelled scheduler: initialisation helpers, event queues, list_push
                skip = bool(name) and bool(re.match(r'(fibre_init|fibre_eventq_\w+|list_push)$', name[0]))
            if cnt == '-' or skip:
                continue
            total += 1
            if cnt == '#####':
                unc.append(f'{no}: {text.strip()}')
        out[src] = {'executable_lines_in_modelled_functions': total, 'uncovered': unc}
    return out


# --------------------------------------------------------------------------- the check
def run_sched(ctx, meta, modules, required, flavor, allow_extra_axioms=None):
    rng = vlib.Rng(ctx.seed * 3 + {'C01': 0, 'C02': 1, 'C03': 2}[flavor])
    from props import pure_common as pc
    pc.regen_units(ctx, ['Util'])                       # cyclecmp32 is tie T: regenerated from util.c on every run
    # the tie lemma for the regenerated cyclecmp32 closes by rfl on the pinned source and by bv_decide after an equivalent
    # rewrite of util.c; in the second case every scheduler theorem inherits that one bit-blasting axiom
    tie_ax = lambda thm, ax: ax.startswith('Librfn.Sched.L.cyclecmp32_tie._native.bv_decide.ax_')
    extra = (lambda t, a: tie_ax(t, a) or allow_extra_axioms(t, a)) if allow_extra_axioms else tie_ax
    ctx.prove(modules, required, allow_extra_axioms=extra)
    exe = harness(ctx)
    stats = {}
    agreed = 0
    corpus = load_corpus('C01') + (load_corpus(flavor) if flavor != 'C01' else [])
    if corpus:
        agreed += compare(ctx, exe, corpus, 'corpus', stats)
    if flavor == 'C03' and not ctx.violations:      # systematic and seed-independent, so it runs before the random histories (stable witnesses)
        bases = [1000, W32 - 25000, W31 - 500, 5 * W32 + 12345] + ([W32 - 1, W31 - 50000, 3 * W32 + W31 - 1] if ctx.tier == 'thorough' else [])
        grid = mainloop_grid(bases)
        agreed += compare(ctx, exe, grid, 'main-loop grid', stats)
        ctx.cov['mainloop_grid'] = f'{len(grid)} one-iteration histories: T2-T1 in {GAPS} x V-T2 around {EDGES} x 5 states at return, time bases {[hex(b) for b in bases]}'
        ctx.cov['evaluations'] += len(grid)
    nh = 1200 if ctx.tier == 'quick' else 20000
    hs, shapes = [], {}
    for _ in range(nh):
        h, sh = gen_history(rng, flavor)
        hs.append(h)
        for x in sh:
            shapes[x] = shapes.get(x, 0) + 1
    if not ctx.violations:
        for i in range(0, len(hs), 2000):
            agreed += compare(ctx, exe, hs[i:i + 2000], 'generated histories', stats)
            if ctx.violations or ctx.broken:
                break
    oos = [gen_out_of_scope(rng, flavor) for _ in range(30 if ctx.tier == 'quick' else 300)]
    if not ctx.violations:
        compare(ctx, exe, oos, 'out-of-scope stream', stats, expect_in_scope=False)
    for h in hs:
        ctx.count(tuple(h), nontrivial=any(l.startswith('next') for l in h))
    if (ctx.tier == 'thorough' or ctx.broken) and not ctx.violations:
        # exhaustive: every history of length <= 5 over 3 fibres with the reduced alphabet, at a base next to each seam
        total = 0
        bases = {'C01': (W32 - 1, W31 - 2), 'C02': (W32 - 1,), 'C03': (W31 - 2,)}[flavor]
        for base in bases:
            it, na = enumerate_small(5 if ctx.tier == 'thorough' else 4, base)
            batch = []
            for h in it:
                batch.append(h)
                if len(batch) >= 20000:
                    agreed += compare(ctx, exe, batch, f'exhaustive small scope (base {base})', stats); total += len(batch); batch = []
                    if ctx.violations or ctx.broken:
                        break
            if batch and not (ctx.violations or ctx.broken):
                agreed += compare(ctx, exe, batch, f'exhaustive small scope (base {base})', stats); total += len(batch)
            if ctx.violations or ctx.broken:
                break
        ctx.cov['exhaustive'] = f'all {total} histories of length <= {5 if ctx.tier == "thorough" else 4} over 3 fibres, alphabet of {na} ops, time base(s) {[hex(b) for b in bases]} (next to a wrap seam)'
        ctx.cov['evaluations'] += total
    if ctx.tier == 'thorough' and not ctx.violations:
        ctx.cov['line_coverage'] = line_coverage(ctx, hs[:4000])
    ctx.cov['traces_validated_against_impl'] = agreed
    ctx.cov['ops_total'] = sum(len(h) for h in hs)
    ctx.cov['histograms'] = stats.get('hist', {})
    ctx.cov['shapes_constructed'] = shapes
    ctx.cov['scope'] = {k: v for k, v in stats.items() if k not in ('hist', 'mainloop')}
    if flavor == 'C03':
        ctx.cov['mainloop_iterations_by_bucket'] = dict(sorted(stats.get('mainloop', {}).items()))
    ctx.sample({'history': hs[0][:10], 'length': len(hs[0])})
    ctx.sample({'history': hs[-1][:10], 'length': len(hs[-1])})
    ctx.cov['rule'] = ('histories of run/atomic/kill/next(T, script, ret) over 2-6 fibres, 5-60 ops (plus constructed shapes), true integer times with the base anywhere in the '
                       '32-bit ring (1/3 next to 0xffffffff->0 or 0x7fffffff->0x80000000); every history is run through the real fibre.c+list.c+messageq.c, the Lean concrete '
                       'model, the Lean abstract specification and the Lean InScope predicate; distinct = distinct op list; non-trivial = contains a scheduling pass')
    ctx.assumptions.append(meta['level_note'])


def replay_sched(ctx, path):
    r = json.load(open(path))
    if 'ops' not in r:
        print('replay names a broken obligation, not an input:', r.get('obligation'))
        return 1
    if not ctx.build_model():
        return 2
    exe = harness(ctx)
    h = [l for l in r['ops'] if l != 'reset']
    o = streams(ctx, exe, [h], timeout=120)
    io, mo, so, sc = o['impl'][0], o['model'][0], o['spec'][0], o['scope'][0]
    ins = in_scope(sc, len(h))
    for i, l in enumerate(h):
        g = lambda x: x[i] if i < len(x) else '<none>'
        why = line_ok(g(io), g(so))
        print(('   ' if not why else '!! ') + l, '| impl:', g(io), '| spec:', g(so), '| model:', g(mo), '|', g(sc), ('| ' + why) if why and why != 'differs' else '')
    for l in io[len(h):]:
        print('!! impl:', l)
    print('in scope' if ins else 'OUT OF SCOPE')
    j = judge_spec(io, so)
    print('SAME (implementation satisfies the specification)' if j is None else f'DIFFER at op {j[0]}: {j[1]}')
    return 0 if (j is None or not ins) else 1

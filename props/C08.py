"""C08 — protothreads resume exactly where they blocked and relay child results (tie D on compiled bodies).

Random protothread bodies are printed (a) as C functions using the REAL macros of
$REPO/include/librfn/protothreads.h (one PT_ macro per source line, labels are __LINE__), compiled by gcc on
every run, and (b) in the line protocol of `librfn_model pt` (lean/Librfn/Driver/PT.lean), whose evaluator is the
one the theorems of lean/Librfn/Props/C08.lean are about.
"""
import hashlib, json, os
import vlib

META = {
    'engine': 'lean-D',
    'technique': 'Lean 4 proof over a deep embedding of protothread bodies (switch/case entry semantics of the PT_* macros vs. the body as one sequential program), '
                 'model tied to the real macros by compiling random bodies with gcc and diffing per-invocation logs',
    'level_text': '',     # filled in at the end of this file
    'level_note': '',
    'design_ref': '§6 C08',
}
REQUIRED = []            # filled in at the end of this file
MAXINV = 60
FUEL = 400
NVAR = 256

# --------------------------------------------------------------------------- generator
# AST (labels are assigned at emission = source line of the macro):
#   ('skip',) ('eff',id) ('seq',[s..]) ('if',c,a,b) ('while',c,s) ('yield',) ('wait',) ('wu',c) ('exit',) ('exiton',c)
#   ('fail',) ('failon',c) ('spawn',child) ('spawnck',child) ('call',child) ('childok',a,b)
# conditions: ('lt',v,k) ('odd',v) ('tickge',k) ('incmod',v,m) ('postincge',v,k) ('not',c)
#             ('wide',kind,c): the same truth value, but the C expression has a type wider than int / not an integer
#             (kind in WIDE); the model and the reference see only `c`
WIDE = {'shl32': '((unsigned long long)(%s) << 32)',        # low 32 bits are zero
        'q64': '((%s) ? 0x100000000ull : 0ull)',
        'dbl': '((%s) ? 0.5 : 0.0)',                         # truncates to 0 as an int
        'ptr': '((void *)(long)(%s))'}                       # a pointer is a legal controlling expression

class Gen:
    def __init__(self, rng, maxdepth=5, kids=3):
        self.r, self.nv, self.maxdepth, self.kids, self.overflow = rng, 3, maxdepth, kids, False

    def var(self):
        self.nv += 1
        if self.nv >= NVAR:
            self.overflow = True            # the caller discards this body (two loops must never share a counter)
        return min(self.nv, NVAR - 1)

    def widen(self, c):
        if self.r.chance(1, 3):
            return ('wide', self.r.choice(['shl32', 'q64', 'dbl', 'shl32', 'q64', 'dbl', 'ptr']), c)
        return c

    def pure_cond(self, in_call):
        return self.widen(self.pure_cond0(in_call))

    def wait_cond(self, in_call):
        return self.widen(self.wait_cond0(in_call))

    def pure_cond0(self, in_call):
        r = self.r
        k = r.below(5 if in_call else 7)
        if k == 0: return ('lt', r.below(4), r.range(0, 6))
        if k == 1: return ('odd', r.below(4))
        if k == 2: return ('not', ('odd', r.below(4)))
        if k == 3: return ('not', ('lt', r.below(4), r.range(0, 6)))
        if k == 4: return ('incmod', self.var(), r.range(0, 3))          # side effect, true every (m+1)-th evaluation
        if k == 5: return ('tickge', r.range(0, 12))
        return ('not', ('tickge', r.range(0, 12)))

    def wait_cond0(self, in_call):
        r = self.r
        k = r.below(3 if in_call else 5)
        if k == 0: return ('incmod', self.var(), r.range(0, 3))
        if k == 1: return ('postincge', self.var(), r.range(0, 3))
        if k == 2: return ('not', ('not', ('incmod', self.var(), r.range(0, 2))))
        if k == 3: return ('tickge', r.range(0, 15))
        return ('not', ('lt', r.below(4), r.range(0, 3)))                # may never become true: cut by MAXINV

    def loop(self, depth, in_call, kids):
        r = self.r
        if r.chance(2, 3):
            return ('while', self.widen(('not', ('incmod', self.var(), r.range(0, 3)))), self.block(depth - 1, in_call, kids))
        v = r.below(4)                                                    # while (v[v] < k) { ...; EFF(≡ v mod 4) }
        body = self.block(depth - 1, in_call, kids)
        return ('while', self.widen(('lt', v, r.range(1, 6))), ('seq', [body, ('eff', 4 * r.below(20) + v)]))

    def leaf(self, in_call):
        r = self.r
        k = r.below(16)
        if k < 4: return ('eff', r.below(100))
        if k < 7: return ('yield',)
        if k < 9: return ('wait',)
        if k < 12: return ('wu', self.wait_cond(in_call))
        if k == 12: return ('exiton', self.pure_cond(in_call))
        if k == 13: return ('failon', self.pure_cond(in_call))
        if k == 14: return ('exit',) if r.chance(1, 3) else ('eff', r.below(100))
        return ('fail',) if r.chance(1, 3) else ('skip',)

    def block(self, depth, in_call, kids):
        xs = [self.stmt(depth, in_call, kids) for _ in range(self.r.range(1, 3))]
        if len(xs) == 1 and xs[0][0] != 'seq' and self.r.chance(1, 2):
            return xs[0]            # a branch / loop body that is not a 'seq' is printed WITHOUT braces
        return ('seq', xs)

    def stmt(self, depth, in_call, kids):
        r = self.r
        if depth <= 0:
            return self.leaf(in_call)
        k = r.below(20)
        if k < 5: return self.leaf(in_call)
        if k < 8:
            if r.chance(1, 3):      # unbraced then-branch that is a conditional macro: `if (c) PT_EXIT_ON(x); else ...` must keep its else
                then = r.choice([('exiton', self.pure_cond(in_call)), ('failon', self.pure_cond(in_call)), self.leaf(in_call)])
                return ('if', self.pure_cond(in_call), then, self.block(depth - 1, in_call, kids))
            return ('if', self.pure_cond(in_call), self.block(depth - 1, in_call, kids), self.block(depth - 1, in_call, kids))
        if k < 12: return self.loop(depth, in_call, kids)
        if k < 18 and kids > 0:
            j = r.below(10)
            d = min(depth - 1, 3)
            if j < 3: return ('spawn', self.block(d, in_call, kids - 1))
            if j < 6: return ('seq', [('spawn', self.block(d, in_call, kids - 1)),
                                      ('childok', self.block(0, in_call, 0), self.block(0, in_call, 0))])
            if j < 8: return ('spawnck', self.block(d, in_call, kids - 1))
            return ('call', self.block(d, True, kids - 1))
        return self.block(depth - 1, in_call, kids)

    def body(self):
        while True:
            self.nv, self.overflow = 3, False
            d = self.r.range(1, self.maxdepth)
            b = ('seq', [self.stmt(d, False, self.kids) for _ in range(self.r.range(1, 4))])
            if not self.overflow and nstmts(b) <= 120:
                return b


def nstmts(s):
    k = s[0]
    if k == 'seq': return 1 + sum(nstmts(x) for x in s[1])
    if k in ('if', 'childok'): return 1 + nstmts(s[-2]) + nstmts(s[-1])
    if k in ('while', 'spawn', 'spawnck', 'call'): return 1 + nstmts(s[-1])
    return 1


# --------------------------------------------------------------------------- emission: C with the real macros + model tokens
def c_cond(c):
    k = c[0]
    if k == 'lt': return '(v[%d] < %d)' % (c[1], c[2])
    if k == 'odd': return '(v[%d] & 1)' % c[1]
    if k == 'tickge': return '(tick >= %d)' % c[1]
    if k == 'incmod': return '((++v[%d]) %% %d == 0)' % (c[1], c[2] + 1)
    if k == 'postincge': return '(v[%d]++ >= %d)' % (c[1], c[2])
    if k == 'not': return '(!%s)' % c_cond(c[1])
    if k == 'wide': return WIDE[c[1]] % c_cond(c[2])       # the inner expression is evaluated exactly once
    raise ValueError(c)


def m_cond(c):
    if c[0] == 'wide': return m_cond(c[2])                  # truth value only
    return ('not ' + m_cond(c[1])) if c[0] == 'not' else ' '.join(str(x) for x in c)


HEADER = ['#include <stdio.h>', '#include <stdlib.h>', '#include <string.h>', '#include <unistd.h>', '#include <sys/wait.h>', '#include <sys/time.h>',
          '#include <librfn/protothreads.h>',
          'static unsigned long v[%d];' % NVAR, 'static unsigned long tick;',
          'static unsigned long neff;',
          '#define EFF(x) do { printf("e%d ", (x)); v[(x) % 4]++; if (++neff > 100000) { printf("!! runaway\\n"); _exit(3); } } while (0)']


MAIN = r"""typedef pt_state_t (*fn_t)(pt_t *);
static fn_t roots[] = { @ROOTS@ };
#define WAVE 16
int main(int argc, char **argv)
{
	int maxinv = argc > 1 ? atoi(argv[1]) : 60;
	setvbuf(stdout, NULL, _IOLBF, 0);
	for (unsigned base = 0; base < @N@; base += WAVE) {
		FILE *tf[WAVE];
		pid_t pid[WAVE];
		unsigned cnt = @N@ - base < WAVE ? @N@ - base : WAVE;
		fflush(stdout);
		for (unsigned j = 0; j < cnt; j++) {
			tf[j] = tmpfile();
			pid[j] = fork();
			if (pid[j] == 0) {	/* one process per body: an assert or a runaway spin cannot take the others down */
				struct itimerval it = { { 0, 0 }, { 0, 500000 } };
				pt_t t;
				dup2(fileno(tf[j]), 1);
				setitimer(ITIMER_VIRTUAL, &it, NULL);
				alarm(10);
				PT_INIT(&t);
				for (int k = 0; k < maxinv; k++) {
					tick++;
					pt_state_t s = roots[base + j](&t);
					printf("r%d @%u\n", (int)s, (unsigned)t);
					if (s >= PT_EXITED)
						break;
				}
				fflush(stdout);
				_exit(0);
			}
		}
		for (unsigned j = 0; j < cnt; j++) {
			int st = 0, c;
			waitpid(pid[j], &st, 0);
			rewind(tf[j]);
			while ((c = getc(tf[j])) != EOF)
				putchar(c);
			fclose(tf[j]);
			if (!WIFEXITED(st) || WEXITSTATUS(st))
				printf("\n!! status %d\n", st);
			printf("--\n");
		}
	}
	return 0;
}"""


class Emit:
    """one generated C file; every PT_ macro sits alone on its line, the line number is its label"""
    def __init__(self):
        self.lines = list(HEADER)
        self.nfun = 0
        self.roots = []          # (function name, model tokens)

    def put(self, text):
        self.lines.append(text)
        return len(self.lines)   # 1-based line number of the line just written

    def fun(self, body):
        """emit the children first (they are separate C functions), then this one; returns (name, tokens)"""
        kids = {}
        def find(s):
            k = s[0]
            if k == 'seq':
                for x in s[1]: find(x)
            elif k in ('if', 'childok'):
                find(s[-2]); find(s[-1])
            elif k == 'while':
                find(s[2])
            elif k in ('spawn', 'spawnck', 'call'):
                kids[id(s)] = self.fun(s[1])
        find(body)
        name = 'f%d' % self.nfun
        self.nfun += 1
        self.put('static pt_t cp_%s;' % name)
        self.put('static pt_state_t %s(pt_t *pt)' % name)
        self.put('{')
        self.put('\tPT_BEGIN(pt);')
        toks = self.stmt(body, 1, kids)
        self.put('\tPT_END();')
        self.put('}')
        return name, toks

    def stmt(self, s, ind, kids):
        p, k = '\t' * ind, s[0]
        if k == 'skip': self.put(p + ';'); return 'skip'
        if k == 'eff': self.put(p + 'EFF(%d);' % s[1]); return 'eff %d' % s[1]
        if k == 'seq':
            ts = [self.stmt(x, ind, kids) for x in s[1]]
            if not ts: self.put(p + ';'); return 'skip'
            out = ts[-1]
            for t in reversed(ts[:-1]): out = 'seq %s %s' % (t, out)
            return out
        # a branch / loop body that is a 'seq' is a braced block; any other statement is printed as the UNBRACED
        # single statement (`if (c)\n\tPT_EXIT_ON(x);\nelse\n\tEFF(1);`): legal C for the real macros, the macro is still
        # alone on its line, and the program as written (= the model's) gives the `else` to the `if` printed here.
        # Every `if` is printed with its `else`, so no dangling else exists in the text itself.
        if k in ('if', 'childok'):
            ba, bb = s[-2][0] == 'seq', s[-1][0] == 'seq'
            self.put(p + ('if (PT_CHILD_OK())' if k == 'childok' else 'if %s' % c_cond(s[1])) + (' {' if ba else ''))
            a = self.stmt(s[-2], ind + 1, kids)
            self.put(p + ('} ' if ba else '') + 'else' + (' {' if bb else ''))
            b = self.stmt(s[-1], ind + 1, kids)
            if bb: self.put(p + '}')
            return ('childok %s %s' % (a, b)) if k == 'childok' else 'if %s %s %s' % (m_cond(s[1]), a, b)
        if k == 'while':
            bb = s[2][0] == 'seq'
            self.put(p + 'while %s' % c_cond(s[1]) + (' {' if bb else ''))
            b = self.stmt(s[2], ind + 1, kids)
            if bb: self.put(p + '}')
            return 'while %s %s' % (m_cond(s[1]), b)
        if k == 'yield': return 'yield %d' % self.put(p + 'PT_YIELD();')
        if k == 'wait': return 'wait %d' % self.put(p + 'PT_WAIT();')
        if k == 'wu': return 'wu %d %s' % (self.put(p + 'PT_WAIT_UNTIL(%s);' % c_cond(s[1])), m_cond(s[1]))
        if k == 'exit': self.put(p + 'PT_EXIT();'); return 'exit'
        if k == 'fail': self.put(p + 'PT_FAIL();'); return 'fail'
        if k == 'exiton': self.put(p + 'PT_EXIT_ON(%s);' % c_cond(s[1])); return 'exiton ' + m_cond(s[1])
        if k == 'failon': self.put(p + 'PT_FAIL_ON(%s);' % c_cond(s[1])); return 'failon ' + m_cond(s[1])
        if k in ('spawn', 'spawnck', 'call'):
            fn, ct = kids[id(s)]
            mac = {'spawn': 'PT_SPAWN', 'spawnck': 'PT_SPAWN_AND_CHECK', 'call': 'PT_CALL'}[k]
            l = self.put(p + '%s(&cp_%s, %s(&cp_%s));' % (mac, fn, fn, fn))
            return '%s %d %s' % (k, l, ct)
        raise ValueError(s)

    def root(self, body):
        self.roots.append(self.fun(body))

    def text(self):
        n = len(self.roots)
        main = MAIN.replace('@ROOTS@', ', '.join(r[0] for r in self.roots)).replace('@N@', str(n)).split('\n')
        return '\n'.join(self.lines + main) + '\n'


# --------------------------------------------------------------------------- running a batch through gcc and the model
MAXLINES = 50000        # pt_t is uint16_t: labels (= __LINE__) must stay below 65536


def run_batch(ctx, bodies, tag='b', maxinv=MAXINV):
    """-> list of (impl_lines, model_inv_lines, model_seq_tokens, tokens) per body"""
    files, cur, n0 = [], Emit(), 0
    for b in bodies:
        cur.root(b)
        if len(cur.lines) > MAXLINES:
            files.append(cur); cur = Emit()
    if cur.roots:
        files.append(cur)
    impl, toks = [], []
    for i, e in enumerate(files):
        src = os.path.join(ctx.tmp, '%s%d.c' % (tag, i))
        with open(src, 'w') as f:
            f.write(e.text())
        exe, log = ctx.cc('%s%d' % (tag, i), [src], ['-w'], san=False)
        if not exe:
            raise vlib.Unbuildable('generated protothread bodies do not compile against %s: %s' % (vlib.REPO, log[-1500:]))
        out = vlib.split_histories(vlib.run_exe([exe, str(maxinv)], '', timeout=600))
        out = out[:len(e.roots)] + [['!! missing']] * (len(e.roots) - len(out))
        impl += out
        toks += [t for (_, t) in e.roots]
    text = ''.join('reset\nrun %d %d %s\n--\n' % (maxinv, FUEL, t) for t in toks)
    mo = ctx.run_model(['pt'], text, 600).split('\n')
    if mo and mo[-1] == '':
        mo.pop()
    model = vlib.split_histories(mo)
    res = []
    for i in range(len(bodies)):
        m = model[i][1:] if i < len(model) else ['!! missing']
        seq = m[-1].split()[1:] if m and m[-1].startswith('seq') else ['!! no-seq']
        res.append((impl[i], m[:-1], seq, toks[i]))
    return res


# --------------------------------------------------------------------------- independent oracle: the body as ONE sequential program
class _Done(Exception):
    def __init__(self, code): self.code = code


class _Cut(Exception):
    pass


class _Diverge(Exception):
    pass


def reference(body, maxinv=MAXINV):
    """written from the property text, independent of the Lean model: run the body sequentially; a blocking point
    emits its return code and (unless inside a PT_CALL, which swallows it) hands control to the main loop (tick++);
    a spawn runs the child inline and relays its codes; stop after `maxinv` return codes."""
    v, tick, ev, cnt, steps = [0] * NVAR, [1], [], [0], [0]

    def cond(c):
        k = c[0]
        if k == 'lt': return v[c[1]] < c[2]
        if k == 'odd': return v[c[1]] & 1 == 1
        if k == 'tickge': return tick[0] >= c[1]
        if k == 'incmod': v[c[1]] += 1; return v[c[1]] % (c[2] + 1) == 0
        if k == 'postincge': v[c[1]] += 1; return v[c[1]] - 1 >= c[2]
        if k == 'not': return not cond(c[1])
        if k == 'wide': return cond(c[2])
        raise ValueError(c)

    def top(code):
        ev.append('r%d' % code); cnt[0] += 1
        if cnt[0] >= maxinv: raise _Cut()
        tick[0] += 1

    def fun(body, relay):
        """-> 2 (exited) or 3 (failed)"""
        res = [2]
        def blk(code):
            relay(code); res[0] = 2          # pt_spawn_res is a fresh local after every re-entry
        def ex(s):
            k = s[0]
            steps[0] += 1
            if steps[0] > 200000: raise _Diverge()
            if k == 'skip': pass
            elif k == 'eff': ev.append('e%d' % s[1]); v[s[1] % 4] += 1
            elif k == 'seq':
                for x in s[1]: ex(x)
            elif k == 'if': ex(s[2] if cond(s[1]) else s[3])
            elif k == 'while':
                while cond(s[1]): ex(s[2])
            elif k == 'yield': blk(0)
            elif k == 'wait': blk(1)
            elif k == 'wu':
                while not cond(s[1]):
                    steps[0] += 1
                    if steps[0] > 200000: raise _Diverge()
                    blk(1)
            elif k == 'exit': raise _Done(2)
            elif k == 'fail': raise _Done(3)
            elif k == 'exiton':
                if cond(s[1]): raise _Done(2)
            elif k == 'failon':
                if cond(s[1]): raise _Done(3)
            elif k in ('spawn', 'spawnck'):
                res[0] = fun(s[1], relay)
                if k == 'spawnck' and res[0] == 3: raise _Done(3)
            elif k == 'call': fun(s[1], lambda code: None)
            elif k == 'childok': ex(s[1] if res[0] != 3 else s[2])
            else: raise ValueError(s)
        try:
            ex(body); return 2
        except _Done as d:
            return d.code

    try:
        ev.append('r%d' % fun(body, top))
    except _Cut:
        pass
    except _Diverge:
        return ['!! diverges']          # only shrunk candidates can do this (a loop that lost its counter bump)
    return ev


def flat(lines):
    """events only: the `@<pt>` annotations (value of *pt after the invocation) are a model-level observation"""
    return [w for l in lines for w in l.split() if not w.startswith('@')]


def judge(r, body=None):
    """'ok' | 'violation' (implementation differs from the body run as one sequential program) |
       'model' (implementation = sequential program but the model's per-invocation log differs) |
       'spec' (the Lean sequential run differs from the independent Python one) | 'fuel'"""
    impl, inv, seq, _ = r
    if body is not None:
        ref = reference(body)
        if ref == ['!! diverges']:
            return 'fuel'
        if flat(impl) != ref:
            return 'violation'
        if seq != ref and seq != ['fuel']:
            return 'spec'
    if inv == ['fuel'] or seq == ['fuel']:
        return 'fuel'
    if flat(impl) != seq:
        return 'violation'
    return 'ok' if impl == inv else 'model'


# --------------------------------------------------------------------------- shrinking, replays
def cond_reductions(c):
    if c[0] == 'wide':
        yield c[2]
        for y in cond_reductions(c[2]): yield ('wide', c[1], y)
    elif c[0] == 'not':
        if c[1][0] == 'not': yield c[1][1]
        for y in cond_reductions(c[1]): yield ('not', y)


def reductions(s):
    """all bodies obtained from `s` by one deletion / replacement of a compound by one of its parts"""
    k = s[0]
    if k in ('if', 'while', 'wu', 'exiton', 'failon'):
        for c in cond_reductions(s[1]):
            yield s[:1] + (c,) + s[2:]
    if k == 'seq':
        xs = s[1]
        for i in range(len(xs)):
            yield ('seq', xs[:i] + xs[i + 1:])
        for i in range(len(xs)):
            if xs[i][0] == 'seq':               # flatten
                yield ('seq', xs[:i] + xs[i][1] + xs[i + 1:])
        if len(xs) == 1 and xs[0][0] != 'seq':
            yield xs[0]                         # as a branch / loop body: the same statement without braces
        for i in range(len(xs)):
            for y in reductions(xs[i]):
                yield ('seq', xs[:i] + [y] + xs[i + 1:])
    elif k in ('if', 'childok'):
        yield s[-2]; yield s[-1]
        for y in reductions(s[-2]): yield s[:-2] + (y, s[-1])
        for y in reductions(s[-1]): yield s[:-1] + (y,)
    elif k == 'while':
        yield s[2]
        for y in reductions(s[2]): yield ('while', s[1], y)
    elif k in ('spawn', 'spawnck', 'call'):
        yield ('skip',)
        yield s[1]                              # the child's text inlined in the parent
        if k != 'spawn': yield ('spawn', s[1])
        for y in reductions(s[1]): yield (k, y)
    elif k == 'wu':
        yield ('wait',)
    elif k in ('exiton', 'failon'):
        yield ('skip',)


def shrink(ctx, body, bad=lambda c, r: judge(r, c) == 'violation', rounds=40):
    for _ in range(rounds):
        cands = list(reductions(body))[:300]
        if not cands:
            break
        rs = run_batch(ctx, cands, tag='s')
        hit = [c for c, r in zip(cands, rs) if bad(c, r)]
        if not hit:
            break
        body = min(hit, key=nstmts)
    return body


def to_json(s):
    return [to_json(x) if isinstance(x, (tuple, list)) else x for x in s]


def from_json(s):
    if s and isinstance(s[0], str) and s[0] == 'seq':
        return ('seq', [from_json(x) for x in s[1]])
    return tuple(from_json(x) if isinstance(x, list) else x for x in s)


def c_source(body):
    e = Emit(); e.root(body)
    return e.text()


def report(ctx, body, what, model_only=False):
    small = shrink(ctx, body, bad=(lambda c, r: judge(r, c) == 'model') if model_only else (lambda c, r: judge(r, c) == 'violation'))
    r = run_batch(ctx, [small], tag='v')[0]
    exp = reference(small)
    k = vlib.diff_streams(flat(r[0]), exp)
    if model_only:
        k = vlib.diff_streams(r[0], r[1])
        ctx.broken.append('correspondence pt: the model\'s per-invocation log (events and *pt after each invocation) differs from the implementation, '
                          'which still agrees with the body run as one sequential program: the model no longer mirrors protothreads.h')
        ctx.violation({'kind': 'broken-correspondence', 'obligation': ctx.broken[-1], 'body': to_json(small),
                       'model_input': 'run %d %d %s' % (MAXINV, FUEL, r[3]), 'first_difference_at_invocation': k,
                       'observed_per_invocation': r[0][max(0, (k or 0) - 2):(k or 0) + 3], 'model_per_invocation': r[1][max(0, (k or 0) - 2):(k or 0) + 3],
                       'c_source': c_source(small).split('typedef pt_state_t (*fn_t)')[0].split('\n')[len(HEADER):],
                       'how_to_rerun': './check C08 --replay <this file>'},
                      key='body:' + hashlib.sha1(repr(to_json(small)).encode()).hexdigest()[:16])
        return
    ctx.violation({'obligation': 'pt: real macros vs the body as one sequential program (' + what + ')',
                   'body': to_json(small), 'model_input': 'run %d %d %s' % (MAXINV, FUEL, r[3]),
                   'first_difference_at_event': k,
                   'expected_events': exp[max(0, (k or 0) - 4):(k or 0) + 4], 'lean_sequential_run': r[2][max(0, (k or 0) - 4):(k or 0) + 4], 'observed_events': flat(r[0])[max(0, (k or 0) - 4):(k or 0) + 4],
                   'observed_per_invocation': r[0][:12], 'model_per_invocation': r[1][:12],
                   'c_source': c_source(small).split('typedef pt_state_t (*fn_t)')[0].split('\n')[len(HEADER):],
                   'how_to_rerun': './check C08 --replay <this file>'},
                  key='body:' + hashlib.sha1(repr(to_json(small)).encode()).hexdigest()[:16])


def replay(ctx, path):
    r = json.load(open(path))
    if 'body' not in r:
        print('replay names a broken obligation, not an input:', r.get('obligation'))
        return 1
    if not ctx.build_model():
        return 2
    body = from_json(r['body'])
    res = run_batch(ctx, [body], tag='r')[0]
    print('implementation (per invocation):', res[0][:40])
    print('model          (per invocation):', res[1][:40])
    print('sequential program             :', ' '.join(res[2][:120]))
    j = judge(res, body)
    print('independent sequential reference:', ' '.join(reference(body)[:120]))
    print('SAME' if j == 'ok' else 'DIFFER (%s)' % j)
    return 0 if j == 'ok' else 1


# --------------------------------------------------------------------------- coverage classification
BLOCKING = ('yield', 'wait', 'wu', 'spawn', 'spawnck')


def features(s, ctxs=(), out=None):
    """which of the shapes the property names occur: macro kinds, blocking point in loop in conditional, spawn in loop ..."""
    out = set() if out is None else out
    k = s[0]
    out.add(k)
    if k in BLOCKING:
        if 'while' in ctxs: out.add('blocking-in-loop')
        if 'while' in ctxs and 'if' in ctxs and ctxs.index('if') < len(ctxs) - 1 - ctxs[::-1].index('while'):
            out.add('blocking-in-loop-in-conditional')
        if 'if' in ctxs or 'childok' in ctxs: out.add('blocking-in-conditional')
        out.add('nesting-%d' % min(len(ctxs), 6))
    if k in ('spawn', 'spawnck', 'call') and 'while' in ctxs:
        out.add(k + '-in-loop')
    if k in ('wu', 'exiton', 'failon', 'if', 'while') and has_side_effect(s[1]):
        out.add(k + '-side-effecting-cond')
    if k in ('wu', 'exiton', 'failon', 'if', 'while'):
        for w in wide_kinds(s[1]): out.add('%s-cond-%s' % (k, w))
    if k in ('if', 'childok'):
        for br, nm in ((s[-2], 'then'), (s[-1], 'else')):
            if br[0] != 'seq': out.add('unbraced-%s:%s' % (nm, br[0]))
    if k == 'while' and s[2][0] != 'seq':
        out.add('unbraced-loop-body:' + s[2][0])
    if k == 'seq':
        for x in s[1]: features(x, ctxs, out)
    elif k in ('if', 'childok'):
        features(s[-2], ctxs + (k,), out); features(s[-1], ctxs + (k,), out)
    elif k == 'while':
        features(s[2], ctxs + (k,), out)
    elif k in ('spawn', 'spawnck', 'call'):
        sub = features(s[1], ctxs + (k,), set())
        out |= sub
        if sub & {'spawn', 'spawnck', 'call'}: out.add('grandchildren')
    return out


def has_side_effect(c):
    return c[0] in ('incmod', 'postincge') or (c[0] in ('not', 'wide') and has_side_effect(c[-1]))


def wide_kinds(c):
    if c[0] == 'wide': return {c[1]} | wide_kinds(c[2])
    return wide_kinds(c[1]) if c[0] == 'not' else set()


# --------------------------------------------------------------------------- exhaustive small bodies (thorough tier)
def small_bodies():
    wu = ('wu', ('incmod', 8, 1))
    leaves = [('eff', 1), ('yield',), ('wait',), wu, ('exiton', ('odd', 1)), ('failon', ('odd', 1)), ('exit',), ('fail',)]
    atoms = list(leaves)
    for a in leaves:
        atoms.append(('while', ('not', ('incmod', 9, 1)), ('seq', [a, ('eff', 2)])))
        atoms.append(('while', ('not', ('incmod', 9, 1)), a))                     # unbraced loop body
        for b in leaves:
            atoms.append(('if', ('odd', 1), a, b))                                 # unbraced branches
            atoms.append(('if', ('odd', 1), ('seq', [a]), ('seq', [b])))           # braced
            for k in ('spawn', 'spawnck', 'call'):
                atoms.append((k, ('seq', [a, b])))
            atoms.append(('seq', [('spawn', ('seq', [a, b])), ('childok', ('eff', 3), ('eff', 4))]))
            atoms.append(('while', ('not', ('incmod', 10, 1)), ('spawn', ('seq', [a, b]))))
    for kind in ('shl32', 'q64', 'dbl', 'ptr'):                 # every condition-taking macro with every wide rendering
        atoms += [('wu', ('wide', kind, ('incmod', 8, 1))), ('exiton', ('wide', kind, ('odd', 1))), ('failon', ('wide', kind, ('odd', 1))),
                  ('spawnck', ('seq', [('failon', ('wide', kind, ('odd', 1))), ('eff', 5)])),
                  ('if', ('wide', kind, ('odd', 1)), ('eff', 6), ('yield',)),
                  ('while', ('wide', kind, ('not', ('incmod', 9, 1))), ('wait',))]
    out = [('seq', [a]) for a in atoms]
    for a in atoms:
        for l in leaves:
            out.append(('seq', [l, a])); out.append(('seq', [a, l]))
    return out


def corpus_bodies():
    d = os.path.join(vlib.VERIF, 'corpus', 'C08')
    out = []
    if os.path.isdir(d):
        for fn in sorted(os.listdir(d)):
            if fn.endswith('.json'):
                out.append((fn, from_json(json.load(open(os.path.join(d, fn)))['body'])))
    return out


def campaign(ctx, bodies, what, hist):
    """run bodies; report the first violation (shrunk) or broken correspondence; returns number agreeing"""
    agreed = 0
    rs = run_batch(ctx, bodies)
    for b, r in zip(bodies, rs):
        j = judge(r, b)
        ctx.count(r[3], nontrivial=len(r[0]) >= 2)
        hist['invocations'] += len(r[0])
        hist['events'] += len(r[2])
        for f in features(b):
            hist['shape:' + f] = hist.get('shape:' + f, 0) + 1
        if j == 'ok':
            agreed += 1
        elif j == 'fuel':
            hist['model_out_of_fuel'] = hist.get('model_out_of_fuel', 0) + 1
        elif j == 'spec':
            if not any('sequential run' in x for x in ctx.broken):
                ctx.broken.append('spec pt: the Lean sequential run (seqRun) differs from the independent sequential reference on body ' + r[3][:300]
                                  + ': lean=%s reference=%s' % (r[2][:12], reference(b)[:12]))
        elif j == 'violation':
            if not ctx.violations:
                report(ctx, b, what)
        elif not ctx.violations and not ctx.broken:
            report(ctx, b, what, model_only=True)
    return agreed


def run(ctx):
    rng = vlib.Rng(ctx.seed)
    ctx.prove(['Librfn.Props.C08'], REQUIRED)
    if not ctx.build_model():
        return
    hist = {'invocations': 0, 'events': 0}
    agreed = 0
    corp = corpus_bodies()
    if corp:
        agreed += campaign(ctx, [b for (_, b) in corp], 'corpus', hist)
    g = Gen(rng)
    n = 200 if ctx.tier == 'quick' else 4000
    bodies = [g.body() for _ in range(n)]
    agreed += campaign(ctx, bodies, 'random bodies', hist)
    if ctx.tier == 'thorough':
        sm = small_bodies()
        agreed += campaign(ctx, sm, 'exhaustive small bodies', hist)
        ctx.cov['exhaustive'] = '%d bodies: every sequence [atom], [leaf, atom], [atom, leaf] over 8 leaves and loops/conditionals/spawn/spawn-and-check/call/child-ok around them' % len(sm)
    ctx.cov['traces_validated_against_impl'] = agreed
    ctx.cov['histogram'] = hist
    ctx.cov['bodies'] = n + len(corp)
    ctx.sample({'body': 'run %d %d %s' % (MAXINV, FUEL, Emit_tokens(bodies[0]))})
    ctx.sample({'body': 'run %d %d %s' % (MAXINV, FUEL, Emit_tokens(bodies[-1]))})
    ctx.cov['rule'] = ('random protothread bodies (nesting <= 5, blocking points in loops in conditionals, children spawned/called to depth 3 incl. from inside loops, '
                       'side-effecting conditions, a third of them rendered in a type wider than int or non-integer with the same truth value, unbraced single-statement branches) compiled with the real macros by gcc and invoked until exit (at most %d times); compared per invocation with the Lean model and, '
                       'flattened, with the body run as one sequential program; distinct = distinct body; non-trivial = at least two invocations' % MAXINV)
    ctx.assumptions.append(META['level_note'])
    if ctx.broken and not ctx.violations:
        # proofs or the correspondence broke: deeper search directly against the sequential-program semantics
        g2 = Gen(vlib.Rng(ctx.seed * 7919 + 13))
        campaign(ctx, [g2.body() for _ in range(3000)] + small_bodies(), 'deeper search', hist)


def Emit_tokens(body):
    e = Emit(); e.root(body)
    return e.roots[0][1]


REQUIRED += ['Librfn.C08.' + t for t in (
    'resume_is_residual', 'invocations_concat', 'return_codes', 'spawn_restarts_child', 'spawn_resumes_child', 'spawn_relays',
    'spawn_continues', 'child_ok_reflects', 'spawn_and_check_reflects', 'call_runs_to_completion', 'invoke_good',
    'pt_always_label_or_zero', 'invoke_is_residual', 'invocations_concat_any_fuel')]
META['level_text'] = (
    'Lean 4 theorems (kernel-only, no bv_decide) over a deep embedding of protothread bodies (effects, seq, if, while, PT_YIELD, PT_WAIT, PT_WAIT_UNTIL, PT_EXIT(_ON), '
    'PT_FAIL(_ON), PT_SPAWN, PT_SPAWN_AND_CHECK, PT_CALL, PT_CHILD_OK; side-effecting conditions; children to any depth) for ALL bodies with one macro per line '
    '(unique non-zero labels: WF; relabel proves every body shape has such a labelling), all stores and all fuel: resume_is_residual (entering at case l = running the text after l: '
    'yield/wait block once, wait-until re-evaluates, spawn re-calls the child without init), invocations_concat (whenever the body run as ONE sequential program through n blocking points '
    'terminates with events evs, n+1 real invocations through switch(*pt) log exactly evs), return_codes, spawn_restarts_child/relays/continues, child_ok_reflects, '
    'spawn_and_check_reflects, call_runs_to_completion, pt_always_label_or_zero (assert(0) unreachable). The model is tied to the real macros on every run by compiling random and '
    'corpus bodies with gcc and diffing per-invocation logs (incl. *pt after each invocation); that tie is sampling, not proof.')
META['level_note'] = (
    'Trusted: Lean kernel (propext, Classical.choice, Quot.sound); the hand model of protothreads.h (lean/Librfn/Model/PT.lean), validated each run against gcc-compiled bodies using the '
    'real macros (sampling); gcc\'s switch/case semantics; invocations_concat is stated for sequential runs that finish within the fuel (a diverging body has no trace); the sequential '
    'program (seqTrace) is the same evaluator run from the start with a budget of blocking points to pass (it never jumps to a case label in that mode) and is compared on every body '
    'with an independent sequential interpreter written in Python from the property text (sampling); each PT_SPAWN/PT_CALL site has its own '
    'child pt_t in the generated bodies (sharing one pt_t between sites, as tests/protothreadstest.c does, is not generated); pt_t is uint16_t so generated files stay below 65536 lines.')

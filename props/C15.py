"""C15 — console line editing, tokenising and dispatch are exact and memory-safe (tie D; kernel-only proofs).

Three comparisons per history: implementation vs the executable Lean model (exact, every output line), implementation vs
the abstract specification written from the property text (`Spec` below: edit stack, line completion, bounded FIFO,
first-token dispatch through an association list, structural facts about argc/argv, the render/tokenise round trip and
the plain split), and — through the theorems of Props/C15.lean — model vs specification for all inputs.
"""
import glob, hashlib, json, os
import vlib

META = {
    'engine': 'lean-D',
    'technique': 'Lean 4 proofs (invariants by induction over all histories of registrations / console_process / console_putchar / scheduler runs / '
                 'console_eval resumptions; the tokeniser loop shown equal to a left fold and analysed on rendered lines) about a hand model of console.c: '
                 'console_run as the protothread it is, do_tokenize/find_command/console_register transcribed loop by loop, ring as a bounded FIFO of 15, '
                 'scripted commands, layout constants generated from the C on every run; model tied to the C by differential runs over structured streams '
                 'with all three delivery mechanisms, and the C additionally checked against an independent oracle written from the property text',
    'level_text': 'END TO END (console_end_to_end, _putchar, _eval): from every reachable state not inside a command, for every NUL-free stream delivered by console_process '
                  '(by console_putchar while <= 15 are outstanding + scheduler; by console_eval), the commands the console STARTS with the argv strings they are handed (ghost log ran, written in find_command) are '
                  'exactly dispatchSpec(table, line) for the lines the edit-stack spec completes on what was in the ring followed by the stream - one per line, in order; every started command has finished '
                  '(loops terminate, console back at its prompt, ring empty), the buffer holds the incomplete line, and cursor/stores/scratch stay in bounds; dispatchSpec = (find_command of the first token, do_tokenize of the line alone), '
                  'characterised by dispatchSpec_registered and lineTokens_eq + the tokeniser theorems. Proved for all histories and all bytes (kernel-only): buffer_safe (cursor 0..79, every single-byte store of editing and tokenising at offset < 79, '
                  'buf[79] and everything from the cursor on NUL whenever the console is not inside a command, scratch union never left, table stays 32 slots '
                  'ending in the sentinel); tokenizer_writes_inside [1,strlen); args_wellformed (1<=argc<=4, argv offsets inside the line, strings end inside it, '
                  'argv[argc..3] empty); dispatch_exact (any registration order of injectively named commands: find returns the command of exactly that name, else '
                  'the sentinel); register_full_clean (-1 and table unchanged exactly when 31 names are in, otherwise sorted insertion; 30th user registration fails); '
                  'register_keeps_sorted + dispatch_first_registered (ANY sequence of registrations - any names, duplicates, beyond capacity: table stays sentinel-terminated, named entries in non-decreasing strcmp order, a permutation of echo, help and exactly the first 29 calls; find_command = linear search in order of registration, so of two commands with one name the first registered is found); '
                  'line_is_edit (texts tokenised = lines of the edit-stack spec over the characters consumed, for NUL-free input, every delivery mechanism); '
                  'fourth_takes_rest (O1); putchar_delivers_exactly_accepted (bursts of any length: consumed = ring + exactly the characters for which ringbuf_put returned true = the first 15-fill, the rest dropped by the ring) and process_never_drops (any sequence of console_process calls); '
                  'process_delivers_all, putchar_delivers_if_drained (<= 15 outstanding), eval_executes_once_and_completes (any NUL-free '
                  'string < 65536, completes within the bound, every character consumed once in order) from any reachable state in which the console is not inside a command. '
                  'tokenize_roundtrip at the full strength DESIGN.md words it (quoted strings may start with the other quote character; holds since fix 15aaa9d of D11 - '
                  'the old loop is kept as tokStepOld with the kernel-checked witness d11_old_tokenizer_mangles_nested_quote: cap "\'a" gave a"). '
                  'unquoted_simple_split in general (any quote-free line whose first character is not a blank: first three tokens = first three blank-separated words, '
                  'argc = min(4, number of words); any separators, trailing blanks, any number of words). No partial theorems remain.',
    'level_note': 'O4 (mirrored behaviour the property allows by "or the buffer filling"): the character that arrives when 79 are stored completes the line and is itself DISCARDED, whatever it is - '
                  'a printable character, backspace or Ctrl-C included (the line-complete test precedes the editing branches); Spec.feed and the model agree on this and the correspondence run exercises it with lines of 77..82 characters. '
                  'Trusted: Lean kernel (standard axioms only; no bv_decide); the hand model of console.c, validated on every run against the real code '
                  '(harness #includes console.c, ASan + -fsanitize=bounds, canaries around an exactly-sized console_t, real fibre.c/list.c/messageq.c/ringbuf.c); '
                  'commands are modelled as scripts (capture, optional scribble over the scratch union, yield k times, exit/fail) plus the built-ins echo/help/unknown '
                  '- commands that read the ring or keep pointers into scratch are outside the model; libc (strlen, strcmp, isspace for bytes < 128, memset, stdio) '
                  'is modelled, not verified; the ring buffer is a sequential bounded FIFO here (its lock-freedom is C05) and the scheduler is "run console_run until it '
                  'waits" (C01); output text is compared exactly with '
                  'the model but is not part of any theorem.',
    'design_ref': '§6 C15, §5 D7 D8 D11 O1',
}
REQUIRED = ['Librfn.C15.' + t for t in (
    'layout_ok', 'buffer_safe', 'tokenizer_writes_inside', 'args_wellformed', 'dispatch_exact', 'register_full_clean',
    'line_is_edit', 'completed_line_is_edit', 'fourth_takes_rest', 'tokenize_roundtrip', 'd11_old_tokenizer_mangles_nested_quote',
    'unquoted_simple_split', 'tokens_assemble', 'register_keeps_sorted', 'dispatch_first_registered',
    'putchar_delivers_exactly_accepted', 'process_never_drops', 'console_end_to_end', 'console_end_to_end_putchar',
    'console_end_to_end_eval', 'dispatchSpec_registered', 'lineTokens_eq', 'process_delivers_all', 'putchar_delivers_if_drained', 'eval_executes_once_and_completes')]

R = vlib.REPO
BL = ' \t'
QU = '\'"'
BUILTIN = ('echo', 'help')


# --------------------------------------------------------------------------------------------- layout constants
def regen_layout(ctx):
    exe, log = ctx.cc('layout_console', [os.path.join(vlib.VERIF, 'harness/layout_console.c')] + LINK, ['-I' + R + '/librfn'], san=False)
    if not exe:
        raise vlib.Unbuildable('layout program does not compile against the repository: ' + log[-1500:])
    rc, out, err = vlib.sh([exe], timeout=30)
    if rc != 0:
        raise vlib.Infra('layout program failed: ' + err[-500:])
    kv = [l.split() for l in out.strip().split('\n')]
    text = ('/-! GENERATED by props/C15.py from harness/layout_console.c compiled against the current /repo — do not edit.\n'
            'sizeof/offsetof constants of `console_t` and `cmd_table` (x86-64, LP64, gcc). -/\n'
            'namespace Librfn.Gen.Layout\n' + ''.join(f'def {k} : Nat := {v}\n' for k, v in kv) + 'end Librfn.Gen.Layout\n')
    changed = vlib.write_if_changed(os.path.join(vlib.LEAN, 'Librfn/Gen/Layout.lean'), text)
    ctx.cov['layout'] = {k: int(v) for k, v in kv}
    if changed:
        ctx.notes.append('Gen/Layout.lean changed: ' + out.replace('\n', ' '))
    return {k: int(v) for k, v in kv}


LINK = [R + '/librfn/' + f for f in ('fibre.c', 'list.c', 'messageq.c', 'util.c', 'ringbuf.c', 'posix/time_posix.c')]


def harness(ctx, bounds=True):
    """ASan + -fsanitize=bounds; `bounds=False` (ASan only) is used to show what an out-of-bounds index does next"""
    if bounds:
        exe, log = ctx.cc('h_console', [os.path.join(vlib.VERIF, 'harness/h_console.c')] + LINK, ['-I' + R + '/librfn'] + ctx.FORKMAIN)
    else:
        exe, log = ctx.cc('h_console_nb', [os.path.join(vlib.VERIF, 'harness/h_console.c')] + LINK,
                          ['-I' + R + '/librfn', '-fsanitize=address', '-fno-omit-frame-pointer'] + ctx.FORKMAIN, san=False)
    if not exe:
        raise vlib.Unbuildable('console harness does not compile against the repository: ' + log[-1500:])
    return exe


# --------------------------------------------------------------------------------------------- helpers
def hx(s):
    return s.encode('latin-1').hex()


def unhx(h):
    return bytes.fromhex(h).decode('latin-1')


def op_bytes(l):
    w = l.split()
    return unhx(w[1]) if len(w) > 1 else ''


# --------------------------------------------------------------------------------------------- the specification (property text)
def first_token(L):
    """the command word: the first character and everything up to the next blank"""
    j = 1
    while j < len(L) and L[j] not in BL:
        j += 1
    return L[:j]


def parse_domain(L):
    """The render/tokenise round-trip domain of the property: a command word, then words without blanks/quotes or
    non-empty strings quoted by a quote they do not contain, at most 3 items in all, separated by blanks, optionally
    followed by one final unquoted word.  Returns (items, quoted flags) or None."""
    n, i, items, quoted = len(L), 0, [], []
    def word(i):
        j = i
        while j < n and L[j] not in BL + QU:
            j += 1
        return j
    j = word(0)
    if j == 0:
        return None
    items.append(L[:j]); quoted.append(False); i = j
    while i < n:
        j = i
        while j < n and L[j] in BL:
            j += 1
        if j == i or j == n:
            return None
        i = j
        if len(items) == 3:
            j = word(i)
            if j == i or j != n:
                return None
            items.append(L[i:j]); quoted.append(False); i = j
            break
        if L[i] in QU:
            j = L.find(L[i], i + 1)
            if j < 0 or j == i + 1:
                return None
            items.append(L[i + 1:j]); quoted.append(True); i = j + 1
        else:
            j = word(i)
            items.append(L[i:j]); quoted.append(False); i = j
        if i < n and L[i] not in BL:
            return None
    return items, quoted


class Spec:
    """abstract console: pending FIFO (15), edit stack, association list of commands"""
    def __init__(self, cap=32):
        self.table = {}            # name -> (id, k, fail, dirty) of the FIRST command registered under that name
        self.names = []            # every accepted name, duplicates included
        self.nreg = 3              # entries incl. echo, help and the sentinel
        self.cap = cap
        self.next_id = 0
        self.pending = []
        self.cur = []

    def deliver_all(self):
        """returns the list of completed lines, in order"""
        lines = []
        for ch in self.pending:
            if ch == '\n' or len(self.cur) >= 79:
                lines.append(''.join(self.cur)); self.cur = []
            elif ch == '\b':
                if self.cur:
                    self.cur.pop()
            elif ch == '\x03':
                self.cur = []
            else:
                self.cur.append(ch)
        self.pending = []
        return lines

    def put(self, ch):
        if len(self.pending) < 15:
            self.pending.append(ch)
            return True
        return False


def check_cap(L, cap, table):
    """facts the property promises about what a dispatched command sees; returns (reason, class) or None"""
    try:
        f = dict(x.split('=', 1) for x in cap.split()[1:])
        cid, argc = int(f['id']), int(f['argc'])
        argv = [int(x) for x in f['argv'].split(',')]
        buf = bytes.fromhex(f['buf']).decode('latin-1')
    except Exception:
        return ('unparsable cap line ' + cap, None)
    n = len(L)
    if len(buf) > n:
        return ('the line buffer holds more than the edited line', None)
    buf = buf + '\0' * (80 - len(buf))
    for i in range(n):
        if buf[i] != '\0' and buf[i] != L[i]:
            return (f'byte {i} of the line buffer is not the edited line', None)
    if n and buf[0] != L[0]:
        return ('first character destroyed', None)
    if not (1 <= argc <= 4) or len(argv) != 4:
        return (f'argc {argc} out of 1..4', None)
    if argv[0] != 0:
        return ('argv[0] is not the start of the buffer', None)
    toks = []
    for i, o in enumerate(argv):
        if not (0 <= o <= n):
            return (f'argv[{i}] outside the line', None)
        if i >= argc and o != n:
            return (f'argv[{i}] beyond argc is not the empty string at the end', None)
        if 0 < i < argc and not (argv[i - 1] < o < n):
            return (f'argv[{i}] not increasing inside the line', None)
        e = buf.index('\0', o)
        toks.append(buf[o:e])
    if toks[0] != first_token(L):
        return ('argv[0] is not the first token of the line', None)
    want = table.get(toks[0])
    if want is None or want[0] != cid:
        return (f'dispatched command {cid} is not the one registered under the first token', None)
    dom = parse_domain(L)
    if dom is not None:
        items, quoted = dom
        if argc != len(items) or toks[:argc] != items:
            return (f'round trip: items {items} tokens {toks[:argc]}', None)
    if not any(c in QU for c in L) and L and L[0] not in BL:
        words, starts, i = [], [], 0
        while i < n:
            if L[i] in BL and i > 0:
                i += 1; continue
            j = i + 1
            while j < n and L[j] not in BL:
                j += 1
            words.append(L[i:j]); starts.append(i); i = j
        exp = words[:3] + ([L[starts[3]:]] if len(words) >= 4 else [])
        if argc != len(exp) or toks[:argc] != exp:
            return (f'plain split: expected {exp} got {toks[:argc]}', None)
    return None


def spec_check(h, groups, cap=32):
    """h: op lines (without the reset prefix); groups: implementation output grouped per op.
    Returns [] or [(op index, reason, None)] (checking stops at the first failure)."""
    r = _spec_check(Spec(cap), h, groups)
    return [r] if r else []


def _spec_check(sp, h, groups):
    if len(groups) < len(h):
        return (len(groups), 'implementation output ends early: ' + (groups[-1][-1] if groups and groups[-1] else ''), None)
    for k, (l, g) in enumerate(zip(h, groups)):
        w = l.split()
        if any(x.startswith('!!') for x in g):
            return (k, [x for x in g if x.startswith('!!')][0], None)
        if w[0] == 'silent':
            if g != ['ok']:
                return (k, 'silent', None)
        elif w[0] == 'reg':
            name = unhx(w[1]); cid = sp.next_id; sp.next_id += 1
            if sp.nreg >= sp.cap:
                exp_rc = -1
            else:
                exp_rc = 0; sp.nreg += 1; sp.names.append(name)
                sp.table.setdefault(name, (cid, int(w[2]), int(w[3]), int(w[4])))     # a duplicate is stored but never found
            names = sorted(sp.names + list(BUILTIN), key=lambda x: x.encode('latin-1'))
            exp = f'reg {exp_rc} ' + ','.join([hx(x) for x in names] + ['-'])
            if g != [exp]:
                return (k, f'registration: expected {exp!r} observed {g!r}', None)
        elif w[0] == 'put':
            for ch in op_bytes(l):
                sp.put(ch)
            if g != [f'ring={len(sp.pending)}']:
                return (k, f'ring fill: expected {len(sp.pending)} observed {g!r}', None)
        elif w[0] in ('proc', 'sched', 'eval'):
            lines = []
            if w[0] == 'proc':
                for ch in op_bytes(l):
                    sp.put(ch); lines += sp.deliver_all()
            elif w[0] == 'sched':
                lines += sp.deliver_all()
            else:
                for ch in op_bytes(l):
                    if not sp.put(ch):           # console_eval yields while the ring is full: nothing is lost
                        lines += sp.deliver_all(); sp.put(ch)
                lines += sp.deliver_all()
            caps = [x for x in g if x.startswith('cap ')]
            rest = [x for x in g if not x.startswith('cap ')]
            if w[0] == 'eval':
                if not rest or not rest[0].startswith('eval done'):
                    return (k, 'console_eval did not complete: ' + (rest[0] if rest else '?'), None)
                rest = rest[1:]
            if len(rest) != 2 or not rest[0].startswith('out=') or not rest[1].startswith('st '):
                return (k, f'malformed report {g!r}', None)
            exp_caps = [L for L in lines if first_token(L) in sp.table]
            if len(caps) != len(exp_caps):
                return (k, f'{len(exp_caps)} registered commands should have run ({exp_caps!r}), {len(caps)} did', None)
            for L, c in zip(exp_caps, caps):
                bad = check_cap(L, c, sp.table)
                if bad:
                    return (k, bad[0] + f' (line {L!r}: {c})', bad[1])
            out = bytes.fromhex(rest[0][4:]).decode('latin-1')
            if not any(first_token(L) in BUILTIN for L in lines):
                unknown = sum(1 for L in lines if L and first_token(L) not in sp.table)
                failed = sum(1 for L in lines if first_token(L) in sp.table and sp.table[first_token(L)][2])
                if out.count('Unknown/bad command\n') != unknown:
                    return (k, f'{unknown} unknown-command messages expected', None)
                if out.count('Command failed\n') != failed:
                    return (k, f'{failed} command-failed messages expected', None)
            st = dict(x.split('=', 1) for x in rest[1].split()[1:])
            cur = ''.join(sp.cur)
            if int(st['bufp']) != len(cur) or int(st['ring']) != len(sp.pending):      # (the buffer content itself is compared with the model)
                return (k, f'after the op the line being edited should be {cur!r} with cursor {len(cur)}: {rest[1]}', None)
        else:
            return (k, 'unknown op', None)
    return None


# --------------------------------------------------------------------------------------------- scope
def ok_char(c):
    return 32 <= ord(c) <= 126 or c in '\t\b\x03\n'


def valid(h):
    names = set(BUILTIN)
    for l in h:
        w = l.split()
        if w[0] == 'reg':
            if len(w) != 5:
                return False
            nm = unhx(w[1])
            if not nm or nm in BUILTIN or any(not (33 <= ord(c) <= 126) for c in nm):
                return False          # (duplicates among user names are in scope: the first registered is the one found)
            names.add(nm)
        elif w[0] in ('proc', 'put', 'eval'):
            if len(w) > 2 or any(not ok_char(c) for c in op_bytes(l)):
                return False
        elif w[0] not in ('sched', 'silent'):
            return False
    return True


# --------------------------------------------------------------------------------------------- running
def group_ops(h, lines):
    """split the output lines of one history into one group per op"""
    groups, i = [], 0
    for l in h:
        op = l.split()[0]
        if i >= len(lines):
            break
        if op in ('proc', 'sched', 'eval'):
            j = i
            while j < len(lines) and not lines[j].startswith('st ') and not lines[j].startswith('!!'):
                j += 1
            j = min(j + 1, len(lines))
            while j < len(lines) and lines[j].startswith('!!'):
                j += 1
            groups.append(lines[i:j]); i = j
        else:
            groups.append(lines[i:i + 1]); i += 1
            while i < len(lines) and lines[i].startswith('!!'):
                groups[-1].append(lines[i]); i += 1
    if i < len(lines) and groups:
        groups[-1] += lines[i:]
    return groups


def run_both(ctx, exe, hs, timeout=None):
    timeout = timeout or (60 + len(hs) // 20)
    text = ''.join('\n'.join(['reset'] + h) + '\n--\n' for h in hs)
    impl = vlib.split_histories(vlib.run_exe([exe], text, timeout), '--')
    mo = ctx.run_model(['console'], text, timeout).split('\n')
    if mo and mo[-1] == '':
        mo.pop()
    model = vlib.split_histories(mo, '--')
    return impl, model


def judge(h, io, mo, cap):
    """list of ('spec'|'model', op index, reason, None)"""
    out = [('spec',) + b for b in spec_check(h, group_ops(h, io), cap)]
    if io != mo:
        k = vlib.diff_streams(io, mo)
        out.append(('model', k, f'implementation {io[k] if k < len(io) else "<end>"!r} model {mo[k] if k < len(mo) else "<end>"!r}', None))
    return out


def shrink(ctx, exe, h, kind, cls, cap, budget_s=45):
    import time
    deadline = time.time() + budget_s
    def fails(c):
        if not c or not valid(c) or time.time() > deadline:      # out of time: keep what we have
            return False
        im, mm = run_both(ctx, exe, [c])
        return any(j[0] == kind and j[3] == cls for j in judge(c, im[0][1:], mm[0][1:], cap))
    h = vlib.ddmin(h, fails, 150) if len(h) > 1 else h
    for rnd in range(2):
        for i in range(len(h)):
            w = h[i].split()
            if w[0] in ('proc', 'put', 'eval') and len(w) > 1 and len(w[1]) > 2:
                chars = list(unhx(w[1]))
                small = vlib.ddmin(chars, lambda cs: fails(h[:i] + [w[0] + ' ' + hx(''.join(cs))] + h[i + 1:]), 120)
                h = h[:i] + [w[0] + ' ' + hx(''.join(small))] + h[i + 1:]
        if rnd == 0 and len(h) > 1:
            h = vlib.ddmin(h, fails, 60)
    return h


def readable(h):
    return [l if l.split()[0] not in ('proc', 'put', 'eval', 'reg') else l.split()[0] + ' ' + repr(op_bytes(l)) + ' ' + ' '.join(l.split()[2:]) for l in h]


def correspond(ctx, exe, hs, cap, label):
    """returns number of histories on which implementation, model and specification agree"""
    if not ctx.build_model():
        return 0
    agreed, reported, pos, restarts = 0, set(), 0, 0
    while pos < len(hs) and restarts < 4:
        batch = hs[pos:]
        impl, model = run_both(ctx, exe, batch)
        for i, h in enumerate(batch[:len(impl)]):
            io = impl[i][1:]
            mo = model[i][1:] if i < len(model) else ['!! missing']
            js = judge(h, io, mo, cap)
            if not js:
                agreed += 1
                continue
            if any(j[0] == 'spec' for j in js):
                js = [j for j in js if j[0] == 'spec']       # the model difference is the same failure
            for kind, k, reason, cls in js:
                if (kind, cls) in reported:
                    continue
                reported.add((kind, cls))
                hh = shrink(ctx, exe, h, kind, cls, cap)
                im1, mm1 = run_both(ctx, exe, [hh])
                j2 = [x for x in judge(hh, im1[0][1:], mm1[0][1:], cap) if x[0] == kind] or [(kind, k, reason, cls)]
                key = 'ops:' + hashlib.sha1('\n'.join(hh).encode()).hexdigest()[:16]
                ctx.violation({'obligation': f'{label}: implementation vs ' + ('specification (property text)' if kind == 'spec' else 'proved model'),
                               'ops': ['reset'] + hh, 'stream': readable(hh), 'failing_op': j2[0][1], 'reason': j2[0][2],
                               'observed': [x[:400] for x in im1[0][1:][-6:]], 'model': [x[:400] for x in mm1[0][1:][-6:]],
                               'how_to_rerun': f'./check {ctx.pid} --replay <this file>'}, key=key)
                if 'runtime error: index' in j2[0][2] and 'without' not in label:
                    # an out-of-bounds array index was trapped by -fsanitize=bounds: show what the code does without the trap
                    exe2 = harness(ctx, bounds=False)
                    correspond(ctx, exe2, [h] + [x for x in hs[:8] if x is not h], cap, label + ' (built without -fsanitize=bounds)')
            if len(reported) >= 3:
                return agreed
        if len(impl) >= len(batch):
            break
        pos += len(impl)          # the harness died in history pos+len(impl)-1 (judged above): go on after it
        restarts += 1
    return agreed


# --------------------------------------------------------------------------------------------- generator
WORDCH = 'abcxyz012-_.=/'
NAMES = ['cap', 'ca', 'c', 'capx', 'a', 'b', 'ab', 'ba', 'go', 'set', 'get', 'led', 'echo2', 'hel', 'helpme', 'ech', 'x"y', "it's", 'Z', 'zz', '~']


def gen_word(rng, lo=1, hi=6):
    return ''.join(rng.choice(WORDCH) for _ in range(rng.range(lo, hi)))


def gen_item(rng):
    """(rendered text, is it inside the round-trip domain)"""
    r = rng.below(10)
    if r < 5:
        return gen_word(rng)
    q = rng.choice(QU)
    other = '"' if q == "'" else "'"
    s = ''.join(rng.choice('ab c\tz' + other) for _ in range(rng.range(1, 8)))
    if rng.chance(1, 6):
        s = other + s                    # a quoted string that starts with the other quote character (the D11 shape)
    return q + s + q


def gen_line(rng, names):
    """one line of text (without the newline)"""
    r = rng.below(20)
    if r < 11:
        cmd = rng.choice(names) if names and rng.chance(5, 6) else rng.choice(['echo', 'help', 'nosuch', gen_word(rng)])
        if rng.chance(1, 6) and len(cmd) > 1:
            cmd = cmd[:-1] if rng.chance(1, 2) else cmd + rng.choice('xp ')        # prefix / extension of a registered name
        n = rng.choice([0, 1, 1, 2, 2, 2, 3, 3, 4, 5])
        parts = [cmd]
        for _ in range(n):
            parts.append(''.join(rng.choice(BL) for _ in range(rng.range(1, 3))) + gen_item(rng))
        line = ''.join(parts)
        if rng.chance(1, 8):
            line += rng.choice([' ', '  ', '\t', ' "', " '", '"'])
        if rng.chance(1, 12):
            line = rng.choice([' ', '"', "'"]) + line
        return line
    if r < 14:     # around the 79 limit
        cmd = rng.choice(names) if names else 'echo'
        target = rng.range(77, 82)
        line = cmd
        while len(line) < target:
            line += ' ' + (gen_item(rng) if rng.chance(1, 3) else gen_word(rng, 1, 9))
        return line[:target] if rng.chance(2, 3) else line
    if r < 17:     # soup over the reduced alphabet and the registered names
        return ''.join(rng.choice(['a', 'b', ' ', "'", '"', 'c', 'ap', '\t'] + names[:3]) for _ in range(rng.range(0, 12)))
    if r < 18:
        return ''
    return ''.join(chr(rng.range(32, 126)) for _ in range(rng.range(1, 30)))


def add_edits(rng, line):
    """typos removed by backspace, abandoned starts removed by Ctrl-C, backspaces at the start of the line"""
    out = []
    if rng.chance(1, 4):
        out.append(gen_word(rng, 0, 5) + '\x03')
    if rng.chance(1, 8):
        out.append('\b' * rng.range(1, 3))
    for ch in line:
        if rng.chance(1, 12):
            k = rng.range(1, 3)
            out.append(''.join(rng.choice('xq "\'') for _ in range(k)) + '\b' * k)
        out.append(ch)
    if rng.chance(1, 5):
        k = rng.range(1, 3)
        out.append(gen_word(rng, k, k) + '\b' * k)      # the D7 shape: erase the last characters typed
    if rng.chance(1, 25):
        out.append('\b' * rng.range(1, 100))
        out.append(line)
    return ''.join(out)


def gen_table(rng, cap):
    """registration ops: any order of distinct names; counts 0..31 and beyond capacity"""
    r = rng.below(10)
    room = cap - 3
    if r < 6:
        n = rng.range(0, 7)
    elif r < 8:
        n = rng.range(room - 2, room + 3)
    else:
        n = rng.range(0, room + 6)
    pool = list(NAMES)
    while len(pool) < n:
        w = gen_word(rng, 1, 7)
        if w not in pool and w not in BUILTIN:
            pool.append(w)
    rng.shuffle(pool)
    if 'cap' in pool and rng.chance(3, 4):       # keep the family cap/ca/c/capx early so the table holds near-misses
        for nm in ('capx', 'c', 'ca', 'cap'):
            if nm in pool:
                pool.remove(nm); pool.insert(rng.below(min(len(pool), max(n, 1)) + 1) if n else 0, nm)
    ops, names = [], []
    regs = pool[:n]
    if regs and rng.chance(1, 3):               # duplicate names: both are stored, the first registered is found
        for _ in range(rng.range(1, 3)):
            regs.insert(rng.below(len(regs) + 1), rng.choice(regs))
    for i, nm in enumerate(regs):
        k = rng.choice([0, 0, 0, 1, 2, 3, 7])
        f = 1 if rng.chance(1, 6) else 0
        d = 1 if rng.chance(1, 5) else 0
        ops.append(f'reg {hx(nm)} {k} {f} {d}')
        if i < room and nm not in names:
            names.append(nm)
    return ops, names


def deliver(rng, stream, mech):
    ops = []
    if mech == 'proc':
        i = 0
        while i < len(stream):
            k = rng.choice([1, 2, 5, 20, 100, len(stream)])
            ops.append('proc ' + hx(stream[i:i + k])); i += k
    elif mech == 'put':
        i = 0
        while i < len(stream):
            k = rng.range(1, 15) if rng.chance(19, 20) else rng.range(16, 22)     # > 15 outstanding: the ring drops, the spec says which
            ops.append('put ' + hx(stream[i:i + k])); i += k
            if rng.chance(5, 6) or i >= len(stream):
                ops.append('sched')
    else:
        i = 0
        while i < len(stream):
            k = rng.choice([len(stream), rng.range(16, 60), rng.range(1, 200)])
            chunk = stream[i:i + k]; i += k
            ops.append('eval ' + hx(chunk))
    return ops


def gen_history(rng, cap):
    ops, names = gen_table(rng, cap)
    if rng.chance(1, 10):
        ops.insert(0, 'silent')
    mech = rng.choice(['proc', 'proc', 'put', 'eval', 'mixed'])
    for _ in range(rng.range(1, 4)):
        nl = rng.range(1, 6)
        stream = ''
        for _ in range(nl):
            line = gen_line(rng, names)
            stream += (add_edits(rng, line) if rng.chance(1, 2) else line) + '\n'
        if rng.chance(1, 6):
            stream = stream[:-1]                 # leave a line open across ops
        m = rng.choice(['proc', 'put', 'eval']) if mech == 'mixed' else mech
        ops += deliver(rng, stream, m)
        if rng.chance(1, 6) and len(names) + 3 < cap:
            nm = gen_word(rng, 2, 5)
            if nm not in names and nm not in BUILTIN and nm not in NAMES:
                ops.append(f'reg {hx(nm)} {rng.below(3)} 0 0'); names.append(nm)
    return ops


ALPHA8 = ['a', 'b', ' ', "'", '"', '\b', '\x03', '\n']
SMALL_TABLE = ['reg 61 0 0 0', 'reg 62 2 0 0', 'reg 6162 1 1 0', 'reg 6261 0 0 1']


def exhaustive(maxlen):
    def rec(prefix, n):
        if n == 0:
            yield prefix
            return
        for c in ALPHA8:
            yield from rec(prefix + c, n - 1)
    for n in range(1, maxlen + 1):
        yield from rec('', n)


def load_corpus():
    out = []
    for p in sorted(glob.glob(os.path.join(vlib.VERIF, 'corpus', 'C15', '*.json'))):
        r = json.load(open(p))
        out.append([o for o in r['ops'] if o != 'reset'])
    return out


# --------------------------------------------------------------------------------------------- entry points
def run(ctx):
    rng = vlib.Rng(ctx.seed)
    lay = regen_layout(ctx)
    cap = lay['tableCap']
    ctx.prove(['Librfn.Props.C15'], REQUIRED)
    exe = harness(ctx)
    corpus = load_corpus()
    nh = 500 if ctx.tier == 'quick' else 6000
    hs = corpus + [gen_history(rng, cap) for _ in range(nh)]
    bad = [h for h in hs if not valid(h)]
    if bad:
        raise vlib.Infra('generator left the property scope: ' + repr(bad[0][:5]))
    agreed = correspond(ctx, exe, hs, cap, 'console')
    mech = {'proc': 0, 'put': 0, 'sched': 0, 'eval': 0, 'reg': 0, 'silent': 0}
    lines_total = near_limit = chars = 0
    for h in hs:
        ctx.count(tuple(h), nontrivial=any(l.split()[0] in ('proc', 'sched', 'eval') for l in h))
        for l in h:
            mech[l.split()[0]] += 1
            if l.split()[0] in ('proc', 'put', 'eval'):
                s = op_bytes(l); chars += len(s); lines_total += s.count('\n')
        near_limit += sum(1 for l in h if l.split()[0] in ('proc', 'put', 'eval') and any(77 <= len(x) <= 90 for x in op_bytes(l).split('\n')))
    ctx.cov['traces_validated_against_impl'] = agreed
    ctx.cov['ops'] = mech
    ctx.cov['characters_delivered'] = chars
    ctx.cov['lines'] = lines_total
    ctx.cov['ops_with_lines_of_77_to_90_characters'] = near_limit
    ctx.cov['histories_registering_beyond_capacity'] = sum(1 for h in hs if sum(1 for l in h if l.startswith('reg')) > cap - 3)
    ctx.cov['corpus_histories'] = len(corpus)
    if ctx.tier == 'thorough' and not ctx.violations:
        streams = list(exhaustive(7))
        n_ok = 0
        for i in range(0, len(streams), 60000):
            part = [SMALL_TABLE + [('proc ' + hx(s))] for s in streams[i:i + 60000]]
            n_ok += correspond(ctx, exe, part, cap, 'console exhaustive')
            if ctx.violations:
                break
        ctx.cov['exhaustive'] = f'all {len(streams)} streams of length 1..7 over {{a, b, space, \', ", backspace, Ctrl-C, newline}} with commands a, b, ab, ba registered: {n_ok} agree'
        ctx.cov['evaluations'] += len(streams)
        ctx.cov['traces_validated_against_impl'] = agreed + n_ok
    ctx.sample({'history': readable(hs[len(corpus)])[:10]})
    ctx.sample({'history': readable(hs[-1])[:10]})
    ctx.cov['rule'] = ('structured histories: 0..35 registrations of distinct names in random order (near-miss names cap/ca/c/capx), then 1..3 bursts of 1..5 lines '
                       '(registered name or a prefix/extension of one + rendered quoted/unquoted arguments, lines of 77..82 characters, reduced-alphabet soup, printable soup) '
                       'with typos+backspaces, Ctrl-C restarts, erase-at-end; delivered by console_process, console_putchar+scheduler (bursts <= 15, sometimes more) or console_eval; '
                       'distinct = distinct op list; non-trivial = at least one delivery op')
    ctx.assumptions.append(META['level_note'])


def replay(ctx, path):
    r = json.load(open(path))
    if 'ops' not in r:
        print('replay names a broken obligation, not an input:', r.get('obligation'))
        return 1
    lay = regen_layout(ctx)
    exe = harness(ctx)
    if not ctx.build_model():
        return 2
    h = [o for o in r['ops'] if o != 'reset']
    im, mm = run_both(ctx, exe, [h])
    io, mo = im[0][1:], mm[0][1:]
    js = judge(h, io, mo, lay['tableCap'])
    print('stream        :', readable(h))
    print('implementation:', io[-8:])
    print('model         :', mo[-8:])
    if not js:
        print('SAME (implementation = model, specification satisfied)')
        return 0
    for j in js:
        print(f'DIFFER ({j[0]}) at op {j[1]}: {j[2]}')
    return 1

"""C14 — decoding untrusted WAV bytes is memory-safe and reports length faithfully (tie D; Lean proofs for every byte string and every sz < 2^31)."""
import os
import vlib
from props import packwav_common as pw
from props import C13 as c13

META = {
    'engine': 'lean-D',
    'technique': 'Lean 4 theorems about the hand model of rf_wavheader_decode (every access through the bounds-checked unpackers of the pack model; the attacker-controlled skip; both int truncations of the '
                 'returned length) and of validate / get_format / tostring (division modelled as trapping on a zero divisor); model tied to the C by differential runs on exactly-sized heap copies under ASan '
                 'with SIGFPE/SIGSEGV reported as outputs',
    'level_text': 'Proved for every memory, every buffer position and every declared length sz < 2^31: the result of decode depends only on the sz supplied bytes; it is negative, or larger than sz, or equals the '
                  'number L of bytes the header occupies with 44 <= L <= sz (in which case every field was read inside the buffer); an accepted header declared with any shorter length k < L is never accepted '
                  '(result negative or > k); validate and get_format are total and tostring never divides by zero, for every structure.',
    'level_note': 'Tie T2 (DESIGN 12.7): rf_wavheader_decode is regenerated each run as a control skeleton with data and proved equal to Model.Wav.decode - every member, the early rejection of a format chunk size above 0x7fffff00, the three header tests with the wrapping size sum, the returned sz - rf_pack_remaining() (Props/C13TieSeq.lean: decode_generated, decode_tie, decode_ret_tie). Trusted: Lean kernel (standard axioms; byte-order lemmas via bv_decide certificates where listed in trusted_base); the hand model of wavheader.c/pack.c, validated on every run against the real '
                  'code (every truncation point of every generated valid header, field-mutated and random inputs, size fields up to 0xffffffff) — that the real code performs no access outside the model\'s reads is '
                  'observed by ASan on the sampled inputs, not proved about the C; printf/strdup are libc and not modelled (the harness parses the real string); sz >= 2^31 is outside the property\'s scope.',
    'design_ref': '§6 C14',
}
REQUIRED = ['Librfn.C14.' + n for n in ('decode_reads_only_input', 'decode_result_trichotomy', 'never_short_success', 'truncation_never_succeeds',
                                        'truncation_never_succeeds_list', 'accepted_length_is_exact', 'validate_total', 'getFormat_total',
                                        'tostring_total', 'helpers_total', 'd5_old_decode_short_success', 'd5_fixed', 'd6_old_tostring_traps')]
BV_OK = ()


def judge(h, io):
    """C14 in the property's words.  `dec sz hex`: negative, or > sz and the header really is incomplete, or the exact
    extent of the header (reference parser) which is >= 44; helpers print a result (faults are caught by fault_verdicts)."""
    out = []
    for k, l in enumerate(h):
        w = l.split()
        o = io[k] if k < len(io) else '(missing)'
        if w[0] == 'dec':
            sz, bs = int(w[1]), pw.unhx(w[2])
            ext = pw.header_extent(bs, sz)
            r = o.split('=')[-1] if o.startswith('dec ret=') else '?'
            if r == 'neg':
                pass
            elif r == 'gt':
                if ext is not None:
                    out.append(pw.Verdict(k, 'dec ret=%d or negative' % ext, o, 'complete-reported-incomplete',
                                          'a header that is completely inside the supplied bytes is reported as incomplete'))
            elif r.isdigit():
                L = int(r)
                if L < 44:
                    out.append(pw.Verdict(k, 'negative, > sz, or a length >= 44', o, 'short-success', 'decode succeeded with a length below RF_WAVHEADER_MIN_SIZE'))
                elif ext is None:
                    out.append(pw.Verdict(k, 'negative or > %d' % sz, o, 'truncated-accepted', 'decode succeeded on a header that is not completely inside the supplied bytes'))
                elif L != ext:
                    out.append(pw.Verdict(k, 'dec ret=%d' % ext, o, 'wrong-length', 'the returned length is not the number of bytes the header occupies'))
            else:
                out.append(pw.Verdict(k, 'dec ret=...', o, 'no-result', 'decode produced no result'))
        elif w[0] in ('validate', 'getfmt', 'tostring'):
            pre = {'validate': 'validate=', 'getfmt': 'getfmt=', 'tostring': 'ts '}[w[0]]
            if not o.startswith(pre):
                out.append(pw.Verdict(k, pre + '...', o, 'helper:' + w[0], w[0] + ' did not return normally'))
    return out


HELPERS = ['validate', 'getfmt', 'tostring']


def hist(sz, bs):
    return [f'dec {sz} {pw.hx(bs[:sz])}'] + HELPERS


def adversarial(rng):
    """hostile size fields on an otherwise plausible header (the D5 family and its neighbours)"""
    nch, w = rng.range(0, 4), rng.choice([2, 4])
    base = pw.build_header(rng.choice([1, 3, 0xfffe]), nch, 44100, 44100 * nch * w, nch * w, 8 * w, rng.below(1 << 16), fact_samples=rng.choice([None, 7]),
                           ext=('cb', rng.choice([0, 1, 22, 23]), bytes(rng.below(256) for _ in range(rng.choice([0, 2, 22, 24])))))
    b = bytearray(base)
    v = rng.choice(c13.SIZE_VALUES + [0xffffffff - rng.below(64), 0x7fffff00 - rng.below(64), 0x7fffff00 + rng.below(64), 0x100000000 - 28 + rng.below(28), c13.pow2ish(rng), c13.pow2ish(rng), c13.pow2ish(rng)])
    b[16:20] = pw.le(v & 0xffffffff, 4)
    if rng.chance(3, 4): b[4:8] = pw.le(rng.choice([0xffffffff, 0xffffffff, 0, (12 + v) & 0xffffffff, (12 + v + 12) & 0xffffffff, (24 + v + rng.below(100)) & 0xffffffff, rng.below(1 << 32)]), 4)   # mostly: pass the RIFF-size sanity test
    if rng.chance(1, 3): b[36:38] = pw.le(rng.choice([1, 22, 0, 0xffff]), 2)
    sz = rng.choice([len(b), 64, 44, 38, 36, 40, rng.range(0, len(b))])
    b += bytes(rng.below(256) for _ in range(max(0, sz - len(b))))
    return hist(sz, bytes(b))


def narrowed(rng):
    """a complete-looking header whose fmt size field has extra high bits: a decoder that narrows or wraps the skip length
    would find the data chunk exactly where a short extension ends and accept it"""
    nch, w, k = rng.range(1, 4), rng.choice([2, 4]), rng.choice([0, 1, 2, 6, 24])
    b = bytearray(pw.build_header(rng.choice([1, 3, 0xfffe]), nch, 44100, 44100 * nch * w, nch * w, 8 * w, rng.below(1 << 16), fact_samples=rng.choice([None, 7]),
                                  ext=('cb', rng.choice([0, k, 23]), bytes(rng.below(256) for _ in range(k)))))
    v = (18 + k + (rng.range(1, 255) << rng.choice([8, 16, 24]))) & 0xffffffff
    b[16:20] = pw.le(v, 4)
    b[4:8] = pw.le(rng.choice([0xffffffff, (12 + v + 12) & 0xffffffff, (36 + v + rng.below(1 << 16)) & 0xffffffff]), 4)
    sz = len(b) + rng.choice([0, 0, 1, 9])
    b += bytes(rng.below(256) for _ in range(sz - len(b)))
    return hist(sz, bytes(b))


def near_tags(rng):
    """the chunk tag after the format chunk is almost "fact" (or is "fact" where "data" was): the extent of the header
    depends on an exact 4-byte comparison"""
    out = []
    for hdr in c13.valid_headers(rng):
        ext = pw.header_extent(hdr, len(hdr))
        has_fact = hdr[ext - 20:ext - 16] == pw.FACT
        pos = ext - 20 if has_fact else ext - 8
        for tag in (b'facs', b'facT', b'Fact', b'fac\0', b'\0act', b'fact', b'data'):
            b = bytearray(hdr)
            b[pos:pos + 4] = tag
            b += bytes(rng.below(256) for _ in range(16))
            out.append(hist(len(b), bytes(b)))
            out.append(hist(pos + 8, bytes(b)))
    return out


F16 = {'audio_format': 20, 'num_channels': 22, 'block_align': 32, 'bits_per_sample': 34}
F32 = {'sample_rate': 24, 'byte_rate': 28}


def small_fields(rng, thorough):
    """every 16-bit field of the format chunk set to every small value 0..9, one field at a time and two at a time
    (all pairs of fields x all pairs of values), on otherwise valid headers; then the helpers run on whatever structure
    results.  Degenerate-but-accepted headers (0 or tiny channels / block alignment / bits per sample) are where
    arithmetic in the helpers can fault."""
    out = []
    bases = c13.valid_headers(rng)
    base = bases[0]                                                # 44-byte PCM
    offs = sorted(F16.values())
    for o in offs:
        for v in range(10):
            b = bytearray(base); b[o:o + 2] = pw.le(v, 2); out.append(hist(len(b), bytes(b)))
    for i, o1 in enumerate(offs):
        for o2 in offs[i + 1:]:
            for v1 in range(10):
                for v2 in range(10):
                    b = bytearray(base); b[o1:o1 + 2] = pw.le(v1, 2); b[o2:o2 + 2] = pw.le(v2, 2)
                    out.append(hist(len(b), bytes(b)))
    for hdr in bases[1:] * (4 if thorough else 1):                 # the other header kinds: random subsets of fields, small values
        for _ in range(6):
            b = bytearray(hdr)
            for o in rng.shuffle(list(offs))[:rng.range(1, 4)]:
                b[o:o + 2] = pw.le(rng.below(10), 2)
            if rng.chance(1, 3):
                o = rng.choice(sorted(F32.values()) + [len(hdr) - 4]); b[o:o + 4] = pw.le(rng.below(10), 4)
            if rng.chance(1, 4) and pw.u(b, 16, 4) >= 18:
                b[36:38] = pw.le(rng.below(10), 2)
            sz = len(b) if rng.chance(3, 4) else rng.range(36, len(b))  # also after failed / incomplete decodes
            out.append(hist(sz, bytes(b)))
    return out


# --------------------------------------------------------------------------- dictionary-driven field substitution
DICT = [0, 1, 2, 3, 16, 18, 22, 24, 32, 40, 0xfffe, 0xffff]
TAGS32 = [pw.u(t, 0, 4) for t in (pw.RIFF, pw.WAVE, pw.FMT_, pw.FACT, pw.DATA)]
GUID_TAIL = bytes([0, 0, 0, 0, 0x10, 0, 0x80, 0, 0, 0xaa, 0, 0x38, 0x9b, 0x71])


def dict_bases():
    """fixed, valid headers of every kind (name, bytes)"""
    ext = lambda tag, bits: ('cb', 22, pw.le(bits, 2) + pw.le(3, 4) + pw.le(tag, 2) + GUID_TAIL)
    return [
        ('ext22', pw.build_header(0xfffe, 2, 48000, 48000 * 8, 8, 32, 800, ext=ext(1, 32))),
        ('ext22+fact', pw.build_header(0xfffe, 2, 48000, 48000 * 8, 8, 32, 800, fact_samples=100, ext=ext(3, 32))),
        ('pcm16', pw.build_header(1, 2, 44100, 44100 * 4, 4, 16, 400)),
        ('float+fact', pw.build_header(3, 1, 8000, 32000, 4, 32, 64, fact_samples=16, ext=('cb', 0, b''))),
        ('ext-skipped', pw.build_header(0xfffe, 2, 44100, 44100 * 4, 4, 16, 400, ext=('cb', 6, bytes([1, 0, 0xfe, 0xff, 3, 0])))),
    ]


def field_positions(hdr):
    """(offset, width, format-determining?) of every 16- and 32-bit field position of this header, the first two and the
    first four bytes of sub_format included (that is where an extensible header carries its real format tag)"""
    fcs = pw.u(hdr, 16, 4)
    f = [(0, 4, False), (4, 4, False), (8, 4, False), (12, 4, False), (16, 4, True), (20, 2, True), (22, 2, False), (24, 4, False),
         (28, 4, False), (32, 2, False), (34, 2, True)]
    pos = 36
    if fcs >= 18:
        f.append((36, 2, True))
        if pw.u(hdr, 36, 2) == 22:
            f += [(38, 2, False), (40, 4, False), (44, 2, True), (44, 4, True), (48, 4, False)]
            pos = 60
        else:
            if fcs - 18 >= 2: f.append((38, 2, True))
            if fcs - 18 >= 4: f.append((38, 4, False))
            pos = 38 + fcs - 18
    while pos + 4 <= len(hdr):                                   # chunk tags and the 32-bit fields that follow them
        f.append((pos, 4, False)); pos += 4
    return f


def subst(hdr, changes):
    b = bytearray(hdr)
    for (o, wd, v) in changes:
        b[o:o + wd] = pw.le(v & ((1 << (8 * wd)) - 1), wd)
    return bytes(b)


def dictionary_fields(rng, thorough):
    """the constants that matter to the format substituted into every field position: singly everywhere; in all pairs (and
    sampled / exhaustive triples) among the format-determining fields (fmt size, audio_format, bits, cb_size, sub_format[0..1],
    sub_format[0..3]) — for the extensible header and for every other kind"""
    out = []
    for name, hdr in dict_bases():
        fs = field_positions(hdr)
        for (o, wd, _) in fs:
            for v in DICT + (TAGS32 if wd == 4 else []):
                out.append(hist(len(hdr), subst(hdr, [(o, wd, v)])))
        det = [(o, wd) for (o, wd, d) in fs if d]
        pairs = [(a, b) for i, a in enumerate(det) for b in det[i + 1:] if not (a[0] == b[0])]
        full = name.startswith('ext22') or thorough
        for (a, b) in pairs:
            for va in DICT:
                for vb in DICT:
                    if full or rng.chance(1, 6):
                        out.append(hist(len(hdr), subst(hdr, [(a[0], a[1], va), (b[0], b[1], vb)])))
        ntrip = 4000 if thorough else 250
        for _ in range(ntrip):
            ch = rng.shuffle(list(det))[:3]
            out.append(hist(len(hdr), subst(hdr, [(o, wd, rng.choice(DICT)) for (o, wd) in ch])))
    return out


def harness(ctx):
    return c13.harness(ctx)


def bv_allow(thm, ax):
    return thm in BV_OK and ax.startswith(thm + '._native.bv_decide.ax_')


def run(ctx):
    rng = vlib.Rng(ctx.seed)
    import regen
    for u, e in regen.regen(['Wav']):          # tie T: rf_wavheader_get_format regenerated from wavheader.c
        ctx.broken.append(f'tie T: tools/c2lean.py cannot translate unit {u}: {e}')
    tie_ok = lambda t, a: bv_allow(t, a) or (t in ('Librfn.C13.get_format_generated', 'Librfn.C13.get_format_tie') and a.startswith('Librfn.C13.get_format_generated._native.bv_decide.ax_'))
    # tie T (second generation): rf_wavheader_decode regenerated as a control skeleton with data and proved equal to Model.Wav.decode
    # (members and returned value) for every memory, buffer size and prior structure contents (Props/C13TieSeq.lean)
    for u, e in regen.regen(['WavSeq']):
        ctx.broken.append(f'tie T: tools/c2lean2.py cannot translate unit {u}: {e}')
    seq_ok = lambda t, a: t.startswith('Librfn.C13.TieSeq.') and a.startswith('Librfn.C13.TieSeq.') and '._native.bv_decide.ax_' in a
    ctx.prove(['Librfn.Props.C14', 'Librfn.Props.C13Tie', 'Librfn.Props.C13TieSeq'],
              REQUIRED + ['Librfn.C13.get_format_tie', 'Librfn.C13.TieSeq.decode_generated', 'Librfn.C13.TieSeq.decode_tie', 'Librfn.C13.TieSeq.decode_ret_tie'],
              allow_extra_axioms=lambda t, a: tie_ok(t, a) or seq_ok(t, a))
    ctx.cov['tie_T_generated_units'] = {'WavSeq': ['rf_wavheader_decode'], 'Wav': ['rf_wavheader_get_format']}
    exe = harness(ctx)
    q = ctx.tier == 'quick'
    hs = pw.corpus('C14')
    ncorpus = len(hs)
    ntrunc = nmut = 0
    for _ in range(5 if q else 60):
        for hdr in c13.valid_headers(rng):
            for k in range(len(hdr)):                             # every truncation point, exactly-sized
                hs.append(hist(k, hdr)); ntrunc += 1
            for extra in (0, 1, 4, 13):                           # complete header, followed by payload bytes
                hs.append(hist(len(hdr) + extra, hdr + bytes(rng.below(256) for _ in range(extra))))
            for _ in range(6 if q else 12):                       # field-mutated, declared with various lengths
                m = c13.mutate(rng, hdr)
                sz = rng.choice([len(m), len(m), rng.range(0, len(m)), len(hdr) if len(hdr) <= len(m) else len(m)])
                hs.append(hist(sz, m)); nmut += 1
    nadv = 1500 if q else 40000
    hs += [adversarial(rng) if i % 3 else narrowed(rng) for i in range(nadv)]
    near = near_tags(rng)
    hs += near
    small = small_fields(rng, not q)
    hs += small
    dic = dictionary_fields(rng, not q)
    hs += dic
    nrand = 400 if q else 20000
    for _ in range(nrand):                                        # random bytes of every small length
        n = rng.range(0, 100)
        b = bytes(rng.below(256) for _ in range(n))
        if rng.chance(1, 2) and n >= 12: b = pw.RIFF + b[4:8] + pw.WAVE + b[12:]
        hs.append(hist(n, b))
    # decode into a structure that was used before (stale contents, a previous decode of another kind of header, an
    # initialised structure): the result must be a function of the supplied bytes only
    nused = 0
    fresh = [h for h in hs[ncorpus:] if h and h[0].startswith('dec')]
    kinds_hdr = c13.valid_headers(rng)
    for _ in range(300 if q else 6000):
        h = rng.choice(fresh)
        k = rng.below(4)
        if k == 0:
            pre = [c13.rand_prior(rng)]
        elif k == 1:
            hdr = rng.choice(kinds_hdr); pre = [f'dec {len(hdr)} {pw.hx(hdr)}']
        elif k == 2:
            pre = [f'init 48000 {rng.range(1, 3)} {rng.below(3)}', f'frames {rng.below(1000)}']
        else:
            hdr = rng.choice(kinds_hdr); pre = [c13.rand_prior(rng), f'dec {len(hdr)} {pw.hx(hdr)}']
        hs.append(pre + h); nused += 1
    for nch in (0,):                                              # helpers on initialised-but-degenerate structures
        hs += [[f'init 44100 {nch} {f}'] + HELPERS + ['frames 5'] + HELPERS for f in (0, 1, 2)]
    agreed = pw.judged(ctx, 'wav', exe, hs, judge, label='wav(C14)')
    kinds = {'neg': 0, 'gt': 0, 'accepted': 0}
    out = pw.run_impl(exe, hs)
    for o in out:
        for l in o:
            if l.startswith('dec ret='):
                r = l.split('=')[-1]
                kinds['accepted' if r.isdigit() else r] = kinds.get('accepted' if r.isdigit() else r, 0) + 1
    for h in hs:
        ctx.count(tuple(h), nontrivial=h[0].startswith('dec') and int(h[0].split()[1]) >= 36)
    ctx.cov['traces_validated_against_impl'] = agreed
    if ctx.tier == 'thorough':
        R = vlib.REPO
        ctx.cov['line_coverage_of_modelled_code'] = pw.uncovered_lines(ctx, os.path.join(vlib.VERIF, 'harness/h_wav.c'),
            [R + '/librfn/wavheader.c', R + '/librfn/pack.c', R + '/librfn/string.c', R + '/librfn/util.c', R + '/librfn/posix/time_posix.c'], hs)
    ctx.cov['decode_results'] = kinds
    ctx.cov['decodes_into_a_used_structure'] = nused
    ctx.cov['histories'] = {'corpus': ncorpus, 'truncation_points': ntrunc, 'field_mutated': nmut, 'adversarial_size_fields': nadv, 'near_miss_tags': len(near), 'small_16bit_fields_singly_and_in_pairs': len(small), 'dictionary_substitutions': len(dic), 'random_bytes': nrand}
    ctx.sample({'history': [x[:150] for x in hs[ncorpus + 50]]})
    ctx.sample({'history': [x[:150] for x in hs[-20]]})
    ctx.cov['rule'] = ('each history = decode(exactly-sized heap copy of sz bytes) then validate, get_format, tostring on whatever structure resulted; inputs: every truncation point of valid PCM / float+fact / '
                       'extensible headers, the complete headers with trailing payload, 1-3 field mutations (size fields from {0..41, 0x7fffff00+-1, 0x80000000, 0xffffffff-r}, tags, cb_size, truncation/extension), '
                       'adversarial fmt/RIFF size fields on plausible headers, every 16-bit format field set to 0..9 singly and in all pairs (helpers then run on the degenerate structure), the constants of the format (0,1,2,3,16,18,22,24,32,40,0xfffe,0xffff and the five tags) substituted into every 16/32-bit field position incl. sub_format[0..1]/[0..3] singly and in pairs/triples of the format-determining fields on headers of every kind, random bytes of length 0..100; distinct = distinct op list; non-trivial = at least the 36 fixed bytes supplied')
    ctx.assumptions.append(META['level_note'])


def replay(ctx, path):
    return pw.replay_judged(ctx, path, 'wav', harness(ctx), judge)

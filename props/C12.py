"""C12 — pack/unpack never leaves the buffer, fails stickily, uses fixed byte order (tie D; Lean proofs over all op lists)."""
import os, zlib
import vlib
from props import packwav_common as pw

META = {
    'engine': 'lean-D',
    'technique': 'Lean 4 theorems (induction over arbitrary lists of the 14 implemented pack/unpack calls, arbitrary memory, buffer position and size) about a hand model of pack.c '
                 '(PACK/UNPACK macros, integer promotions, int truncation of consumed/remaining); model tied to the C by differential runs in exactly-sized heap blocks under ASan',
    'level_text': 'Proved for every buffer size, every list of calls and every argument value: memory outside [b,b+n) is never written and results depend only on the buffer bytes; an item with cursor+size > n '
                  'transfers nothing, returns 0 / zero-fills, and so does every later item (sticky), while cursor+size = n transfers; consumed = sum of all requested sizes and remaining = n - that sum '
                  '(negative exactly after overflow) whenever they fit an int; items that fit are laid out back to back, byte i of an le item = bits 8i..8i+7 (reversed for be); unpacking what was packed '
                  'returns the original value for all 2^16 / 2^32 values; NULL source packs zeros, NULL destination only skips.',
    'level_note': 'Tie T2 (DESIGN 12): all 15 functions pack.c defines are regenerated from the source each run and proved equal to Model.Pack (cursor advance, fits test, byte order and promotions on all values, returned scalars, consumed/remaining) under base/size/cur without address wrap (Props/C12Tie.lean; incl. rf_pack_bytes and rf_unpack_bytes: memcpy, memset, NULL source, NULL destination). Trusted: Lean kernel (standard axioms; the bit-level byte-order lemmas additionally use bv_decide certificates, listed in trusted_base); the hand model of pack.c, validated on every run against '
                  'the real code (every (size, crossing position) for sizes 0..40, every single-byte value pattern; all 2^16 values in the thorough tier); memcpy/memset are libc and modelled as byte copies; '
                  'pointer arithmetic past the end of the buffer is modelled as an unbounded offset (LP64, fewer than 2^31 requested bytes).',
    'design_ref': '§6 C12',
}
REQUIRED = ['Librfn.C12.writes_confined', 'Librfn.C12.reads_confined', 'Librfn.C12.all_or_nothing', 'Librfn.C12.sticky',
            'Librfn.C12.exact_fit_transfers', 'Librfn.C12.consumed_counts_all', 'Librfn.C12.remaining_negative_on_overflow',
            'Librfn.C12.layout_le', 'Librfn.C12.layout_be', 'Librfn.C12.unpack_pack_roundtrip', 'Librfn.C12.null_src_zeros',
            'Librfn.C12.null_dst_skips', 'Librfn.C12.back_to_back', 'Librfn.C12.sticky_overflowed']
# bit-level byte-order facts proved by bv_decide (each adds axioms `<lemma>._native.bv_decide.ax_*`) and the theorems that rest on them
BV_LEMMAS = {'Librfn.C12.' + n for n in ('layout_le', 'layout_be', 'dec16_encU16le', 'dec16_encS16le', 'dec32_encU32le', 'dec32_encS32le', 'encU16be_eq')}
BV_OK = BV_LEMMAS | {'Librfn.C12.' + n for n in ('POp.unpacked_stored', 'read_back', 'unpack_pack_roundtrip')}

SIZES = {'s16le': 2, 'u16be': 2, 'u16le': 2, 's32le': 4, 'u32le': 4, 'uc': 1, 'us8': 1, 'uu8': 1, 'uu16': 2, 'uu32': 4}


def op_size(w):
    if w[0] == 'pb':
        return len(pw.unhx(w[1]))
    if w[0] in ('pn', 'ub', 'us'):
        return int(w[1])
    return SIZES.get(w[0], 0)


def spec(h):
    """independent oracle from the property text: a byte array and a count of requested bytes"""
    out, buf, cur = [], None, 0
    def tail():
        img = pw.hx(buf) if len(buf) <= 64 else '#%08x' % zlib.crc32(bytes(buf))
        return ' c=%d r=%d buf=%s' % (cur, len(buf) - cur, img)
    for l in h:
        w = l.split()
        if w[0] == 'buf':
            buf, cur = bytearray(pw.unhx(w[2])), 0
            out.append('-' + tail()); continue
        if w[0] == 'bufp':
            buf, cur = bytearray(pat_byte(int(w[2]), i) for i in range(int(w[1]))), 0
            out.append('-' + tail()); continue
        if buf is None:
            out.append('bad-op'); continue
        if w[0] == 'init':
            cur = 0; out.append('-' + tail()); continue
        n = op_size(w)
        st, cur = cur, cur + n
        fit = cur <= len(buf)                       # an item that does not fit entirely is not transferred at all
        res = '-'
        if w[0] == 'pb':
            if fit: buf[st:cur] = list(pw.unhx(w[1]))
        elif w[0] == 'pn':
            if fit: buf[st:cur] = [0] * n
        elif w[0] in ('s16le', 'u16le', 's32le', 'u32le'):
            if fit: buf[st:cur] = [(int(w[1]) >> (8 * i)) & 255 for i in range(n)]          # least significant byte first
        elif w[0] == 'u16be':
            if fit: buf[st:cur] = [(int(w[1]) >> 8) & 255, int(w[1]) & 255]                 # most significant byte first
        elif w[0] == 'ub':
            res = '[' + pw.hx(buf[st:cur] if fit else [0] * n) + ']'
        elif w[0] == 'us':
            pass
        elif w[0] in ('uu8', 'uu16', 'uu32'):
            res = str(sum(buf[st + i] << (8 * i) for i in range(n)) if fit else 0)
        elif w[0] in ('uc', 'us8'):
            res = str(((buf[st] ^ 0x80) - 0x80) if fit else 0)
        else:
            out.append('bad-op'); cur = st; continue
        out.append(res + tail())
    return out


def pat_byte(seed, i):
    return (i * 131 + (i // 256) * 17 + (i // 65536) * 29 + seed) % 256


def valid(h):
    """scope: the buffer is set up first; fewer than 2^31 requested bytes between two inits"""
    if not h or not h[0].startswith(('buf ', 'bufp ')):
        return False
    tot = 0
    for l in h[1:]:
        w = l.split()
        if w[0] in ('buf', 'bufp'):
            return False
        tot = 0 if w[0] == 'init' else tot + op_size(w)
        if tot >= 1 << 31:
            return False
    return True


# --------------------------------------------------------------------------- generator
PACK16 = ['s16le', 'u16be', 'u16le']
PACK32 = ['s32le', 'u32le']
VALS = [0, 1, 0x7f, 0x80, 0xff, 0x100, 0x7fff, 0x8000, 0xffff, 0x10000, 0x7fffffff, 0x80000000, 0xffffffff, 0x01020304, 0xfffefdfc]


def rbytes(rng, n):
    return [rng.choice([0, 0xff, 0x80, 0x7f, rng.below(256), rng.below(256)]) for _ in range(n)]


def item(rng, size, packing):
    """one op asking for exactly `size` bytes"""
    c = []
    if packing:
        if size == 2: c += [lambda: f'{rng.choice(PACK16)} {rng.choice(VALS + [rng.below(1 << 16)]) & 0xffff}'] * 3
        if size == 4: c += [lambda: f'{rng.choice(PACK32)} {rng.choice(VALS + [rng.below(1 << 32)])}'] * 3
        c += [lambda: 'pb ' + pw.hx(rbytes(rng, size)), lambda: f'pn {size}']
    else:
        if size == 1: c += [lambda: rng.choice(['uc', 'us8', 'uu8'])] * 3
        if size == 2: c += [lambda: 'uu16'] * 3
        if size == 4: c += [lambda: 'uu32'] * 3
        c += [lambda: f'ub {size}', lambda: f'us {size}']
    return rng.choice(c)()


def walk_to(rng, target, packing):
    """ops that advance the cursor from 0 to exactly `target`"""
    ops, cur = [], 0
    while cur < target:
        s = min(rng.choice([1, 1, 2, 2, 4, 4, rng.range(0, 9)]), target - cur)
        ops.append(item(rng, s, packing)); cur += s
    return ops


def phase(rng, n, c, packing):
    """reach cursor c <= n, then an item that does not fit (by 1 or by more), then a few more (sticky)"""
    ops = walk_to(rng, c, packing)
    over = rng.choice([1, 1, 2, rng.range(1, 12)])
    s = n - c + over
    if s in (1, 2, 4) or rng.chance(1, 2):
        ops.append(item(rng, s, packing))
    else:                                            # a scalar that straddles the end
        s = rng.choice([x for x in (2, 4) if x > n - c] or [s])
        ops.append(item(rng, s, packing))
    for _ in range(rng.range(1, 3)):                 # later items: would fit a fresh buffer, zero-sized, or big
        ops.append(item(rng, rng.choice([0, 1, 2, 4, rng.range(0, 6)]), packing))
    return ops


def fill(rng, n):
    k = rng.below(4)
    return [0xee] * n if k == 0 else [0xff] * n if k == 1 else [rng.below(256) for _ in range(n)] if k == 2 else [(0xa0 + i) & 255 for i in range(n)]


def gen_crossing(rng, n, c):
    h = ['buf %d %s' % (n, pw.hx(fill(rng, n)))]
    h += phase(rng, n, c, True)
    h.append('init')
    h += phase(rng, n, rng.choice([c, rng.range(0, n)]), False)
    if rng.chance(1, 3):
        h.append('init'); h += walk_to(rng, n, False)            # read everything back, ending exactly at the end
        h.append(item(rng, 0, False))
    return h


def gen_exact_fit(rng, n):
    """the last item ends exactly at the end of the buffer; then a zero-sized item (fits), then a one-byte item (does not)"""
    h = ['buf %d %s' % (n, pw.hx(fill(rng, n)))]
    last = rng.choice([s for s in (1, 2, 4, rng.range(0, 8)) if s <= n] or [0])
    h += walk_to(rng, n - last, True) + [item(rng, last, True), 'pn 0', 'pb -', item(rng, 1, True)]
    h.append('init')
    last = rng.choice([s for s in (1, 2, 4, rng.range(0, 8)) if s <= n] or [0])
    h += walk_to(rng, n - last, False) + [item(rng, last, False), 'ub 0', 'us 0', item(rng, 1, False), item(rng, 2, False)]
    return h


def gen_values(kind, vals):
    """pack the values back to back, rewind, unpack them: byte order and round trip"""
    w = 2 if kind in PACK16 else 4
    n = w * len(vals)
    h = ['buf %d %s' % (n, pw.hx([0xee] * n))] + [f'{kind} {v}' for v in vals] + ['init']
    if kind == 'u16be':
        h += ['ub 2'] * len(vals)
    else:
        h += ['uu16' if w == 2 else 'uu32'] * len(vals)
    h += ['init'] + ['uc', 'us8', 'uu8'] * (n // 3)
    return h


BIG = [65530, 65535, 65536, 65537, 70000, 131071, 131072, 1 << 20, (1 << 24) - 1, 1 << 24, 1 << 30]


def small_tail(rng, packing):
    """a few small items with visible results: what a wrapped cursor would let through again"""
    ops = []
    for _ in range(rng.range(2, 5)):
        ops.append(item(rng, rng.choice([0, 1, 2, 4, 3]), packing))
    return ops


def gen_many_bytes(rng):
    """small buffer, requested total crossing 2^16 / 2^17 / 2^24 / approaching 2^31 (in scope: below 2^31): the counters
    must keep counting and nothing may be transferred any more, however the total relates to 2^16"""
    n = rng.range(0, 40)
    h = ['buf %d %s' % (n, pw.hx(fill(rng, n)))]
    for packing in (rng.chance(1, 2), rng.chance(1, 2)):
        c0 = rng.range(0, n)
        h += walk_to(rng, c0, packing)
        skip = 'pn' if packing else 'us'
        k = rng.below(5)
        if k == 0:                                              # one jump that lands a 16/17/24-bit cursor back inside the buffer
            h.append(f'{skip} {rng.choice([1 << 16, 1 << 17, 1 << 24, 3 << 16]) - c0 + rng.range(0, n)}')
        elif k == 1:
            h.append(f'{skip} {rng.choice(BIG)}')
        elif k == 2:                                            # several medium requests adding up past 2^16
            tot = 0
            while tot < (1 << 16) + rng.below(3000):
                s_ = rng.choice([9000, 10000, 16384, 30000, 32768, rng.range(1, 20000)])
                h.append(f'{rng.choice([skip, "us", "pn"])} {s_}'); tot += s_
        elif k == 3:                                            # just below the scope limit
            h.append(f'{skip} {(1 << 31) - 200 - c0 - rng.below(1000)}')
        else:
            h += [f'{skip} {rng.choice(BIG)}', f'{rng.choice(["us", "pn"])} {rng.choice(BIG[:-1])}']      # stays below 2^31 in total
        h += small_tail(rng, packing) + small_tail(rng, not packing)
        h.append('init')
    h += walk_to(rng, n, False)
    return h


def gen_big_buffer(rng):
    """a buffer of 64 KiB or more (exactly sized): items near its start, skips to near its end, items up to and past the end"""
    n = rng.choice([1 << 16, (1 << 16) + rng.range(1, 40), (1 << 16) + rng.range(1, 40), 70000, (1 << 17) + rng.range(0, 9)])
    h = [f'bufp {n} {rng.below(256)}']
    h += [item(rng, 4, True), item(rng, 2, True), f'pn {rng.range(1, 1500)}', item(rng, 4, True)]
    h += ['init', 'uu32', 'uu16', 'ub 3']
    for packing in (False, True):
        h.append('init')
        back = rng.range(0, 12)
        h.append(f'us {n - back}')                               # a NULL-destination skip to `back` bytes before the end
        h += walk_to(rng, back, packing)                          # exactly to the end
        h += [item(rng, 0, packing), item(rng, 1, packing), item(rng, 2, packing)]
    h += ['init', f'us {(1 << 16) - rng.range(0, 6)}', 'uu32', 'uu16', 'uc', 'init', f'us {1 << 16}', item(rng, 4, True), 'init', f'us {1 << 16}', 'uu32']
    return h


def single_byte_patterns(width):
    return [b << (8 * k) for k in range(width) for b in range(256)] + [((1 << (8 * width)) - 1) ^ (b << (8 * k)) for k in range(width) for b in (1, 0x80, 0xff)]


def chunks(xs, k):
    return [xs[i:i + k] for i in range(0, len(xs), k)]


def harness(ctx):
    R = vlib.REPO
    exe, log = ctx.cc('h_pack', [os.path.join(vlib.VERIF, 'harness/h_pack.c'), R + '/librfn/pack.c'])
    if not exe:
        raise vlib.Unbuildable('pack harness does not compile against the repository: ' + log[-1500:])
    return exe


def bv_allow(thm, ax):
    return thm in BV_OK and '._native.bv_decide.ax_' in ax and ax.split('._native.bv_decide.ax_')[0] in BV_LEMMAS


def run(ctx):
    rng = vlib.Rng(ctx.seed)
    import sys
    sys.path.insert(0, os.path.dirname(os.path.abspath(__file__)))
    import tie_common
    tie_common.prove(ctx, ['PackSeq'], ['Librfn.Props.C12'], REQUIRED, 'Librfn.Props.C12Tie', 'Librfn.C12.Tie', extra_allow=bv_allow)
    exe = harness(ctx)
    hs = pw.corpus('C12')
    reps = 1 if ctx.tier == 'quick' else 6
    for _ in range(reps):
        for n in range(0, 41):
            for c in range(0, n + 1):
                hs.append(gen_crossing(rng, n, c))
            hs.append(gen_exact_fit(rng, n)); hs.append(gen_exact_fit(rng, n))
    nbig0 = len(hs)
    hs += [gen_many_bytes(rng) for _ in range(150 if ctx.tier == 'quick' else 1500)]
    hs += [gen_big_buffer(rng) for _ in range(12 if ctx.tier == 'quick' else 80)]
    nbig = len(hs) - nbig0
    assert all(valid(h) for h in hs[nbig0:]), 'generator left the scope (2^31 requested bytes)'
    nvals = 0
    for kind in PACK16 + PACK32:
        w = 2 if kind in PACK16 else 4
        vals = single_byte_patterns(w) + [rng.below(1 << (8 * w)) for _ in range(64)]
        if ctx.tier == 'thorough' and w == 2:
            vals = list(range(1 << 16))
            ctx.cov['exhaustive_16bit_values'] = True
        nvals += len(vals)
        hs += [gen_values(kind, ch) for ch in chunks(vals, 10)]
    agreed = vlib.correspond(ctx, 'pack', [exe], hs, spec=spec, valid=valid, timeout=900)
    cross = {}
    for h in hs:
        ctx.count(tuple(h), nontrivial=len(h) > 2)
        for l in h:
            k = l.split()[0]
            cross[k] = cross.get(k, 0) + 1
    ctx.cov['traces_validated_against_impl'] = agreed
    if ctx.tier == 'thorough':
        ctx.cov['line_coverage_of_modelled_code'] = pw.uncovered_lines(ctx, os.path.join(vlib.VERIF, 'harness/h_pack.c'), [vlib.REPO + '/librfn/pack.c'], hs)
    ctx.cov['ops_histogram'] = cross
    ctx.cov['ops_total'] = sum(len(h) for h in hs)
    ctx.cov['buffer_sizes'] = '0..40, every crossing position 0..n for each; 65536..131080 in the large-buffer histories'
    ctx.cov['histories_over_65536_requested_bytes_or_64KiB_buffers'] = nbig
    ctx.cov['max_requested_total_in_one_history'] = max(sum(op_size(l.split()) for l in h[1:]) for h in hs)
    ctx.cov['values_round_tripped'] = nvals
    ov = sum(1 for h in hs for l in spec(h) if ' r=-' in l)
    ctx.cov['outputs_in_overflow_state'] = ov
    ctx.sample({'history': hs[len(hs) // 3][:14]})
    ctx.sample({'history': hs[-1][:8], 'length': len(hs[-1])})
    ctx.cov['rule'] = ('for every buffer size n in 0..40 and every cursor position c in 0..n: pack items up to c, one item that does not fit (by 1 or more), later items; rewind; the same with unpack items; '
                       'exact-fit histories (last item ends at n, then zero-sized and one-byte items); histories whose requested total crosses 2^16, 2^17, 2^24 and approaches 2^31 on small buffers '
                       '(NULL source/destination requests, single and accumulated, landing a narrow cursor back inside the buffer) followed by small items; exactly-sized buffers of 64 KiB..128 KiB '
                       'used at their start and end (image reported as CRC-32); value histories packing every single-byte pattern of 16/32-bit values with all five packers '
                       'and reading them back; buffers, sources and destinations are exactly-sized heap blocks under ASan; distinct = distinct op list; non-trivial = more than two ops')
    ctx.assumptions.append(META['level_note'])


def replay(ctx, path):
    return vlib.replay_ops(ctx, path, 'pack', [harness(ctx)], spec=spec)
